use libchess::*;
use libchess::{Color::*, PieceType::*};
use std::collections::HashMap;

struct Rng(u64);
impl Rng { fn next(&mut self) -> u64 { self.0 = self.0.wrapping_add(0x9E3779B97F4A7C15); let mut z = self.0; z = (z ^ (z >> 30)).wrapping_mul(0xBF58476D1CE4E5B9); z = (z ^ (z >> 27)).wrapping_mul(0x94D049BB133111EB); z ^ (z >> 31) } }

fn key(b: &ChessBoard) -> String { b.as_fen().split(' ').take(4).collect::<Vec<_>>().join(" ") }
fn sq(i: usize) -> Square { Square::new(i as u8).unwrap() }
fn letter(p: PieceType) -> &'static str { match p { Pawn => "", Knight => "N", Bishop => "B", Rook => "R", Queen => "Q", King => "K" } }

fn ref_san(b: &ChessBoard, m: &BoardMove) -> String {
    let nb = b.make_move(m).unwrap();
    let suffix = if nb.get_legal_moves().is_empty() && !nb.get_check_mask().is_blank() { "#" } else if !nb.get_check_mask().is_blank() { "+" } else { "" };
    match m {
        BoardMove::CastleKingSide => format!("O-O{}", suffix),
        BoardMove::CastleQueenSide => format!("O-O-O{}", suffix),
        BoardMove::MovePiece(p) => {
            let (pt, s, d) = (p.get_piece_type(), p.get_source_square(), p.get_destination_square());
            let capture = b.get_piece_on(d).is_some() || (pt == Pawn && Some(d) == b.get_en_passant());
            let dis = if pt == Pawn { if capture { format!("{}", s.get_file()) } else { String::new() } } else {
                let others: Vec<Square> = b.get_legal_moves().iter().filter_map(|x| match x { BoardMove::MovePiece(q) if q.get_piece_type() == pt && q.get_destination_square() == d && q.get_source_square() != s => Some(q.get_source_square()), _ => None }).collect();
                if others.is_empty() { String::new() }
                else if others.iter().all(|o| o.get_file() != s.get_file()) { format!("{}", s.get_file()) }
                else if others.iter().all(|o| o.get_rank() != s.get_rank()) { format!("{}", s.get_rank()) }
                else { format!("{}", s) } };
            let promo = p.get_promotion().map_or(String::new(), |q| format!("={}", letter(q)));
            format!("{}{}{}{}{}{}", letter(pt), dis, if capture { "x" } else { "" }, d, promo, suffix)
        }
    }
}

fn check_board(b: &ChessBoard, fails: &mut HashMap<&'static str, usize>, do_universe: bool) {
    let mut fail = |k: &'static str, msg: String| { let e = fails.entry(k).or_insert(0); *e += 1; if *e <= 3 { eprintln!("{} FAIL {} :: {}", k, b.as_fen(), msg); } };
    let lm = b.get_legal_moves();
    // C04
    if b.is_terminal() != lm.is_empty() { fail("C04", "terminal flag".into()); }
    // C06
    let (w, bl) = (b.get_color_mask(White).bits(), b.get_color_mask(Black).bits());
    if w & bl != 0 { fail("C06", "colour overlap".into()); }
    let mut un = 0u64; let mut ok = true;
    for p in PieceType::iter() { let m = b.get_piece_type_mask(p).bits(); if un & m != 0 { ok = false; } un |= m; }
    if !ok || un != b.get_combined_mask().bits() || un != (w | bl) { fail("C06", "type masks".into()); }
    for c in [White, Black] { let k = b.get_piece_type_mask(King).bits() & b.get_color_mask(c).bits(); if k.count_ones() != 1 || b.get_piece_on(b.get_king_square(c)) != Some(Piece(King, c)) { fail("C06", "king".into()); } }
    for i in 0..64 { let s = sq(i); let bit = 1u64 << i; let occ = un & bit != 0;
        if b.is_empty_square(s) == occ { fail("C06", "empty".into()); }
        match b.get_piece_on(s) { None => if occ { fail("C06", "piece_on none".into()); }, Some(Piece(t, c)) => {
            if b.get_piece_type_mask(t).bits() & bit == 0 || b.get_color_mask(c).bits() & bit == 0 || b.get_piece_type_on(s) != Some(t) || b.get_piece_color_on(s) != Some(c) { fail("C06", "piece_on".into()); } } } }
    // C07
    if b.get_hash() != ZOBRIST_TABLES.calculate_position_hash(b) { fail("C07", "hash".into()); }
    // C14
    let mut seen: HashMap<String, BoardMove> = HashMap::new();
    for m in lm.iter() {
        let props = MovePropertiesOnBoard::new(m, b).unwrap();
        let s = m.to_string(props);
        let r = ref_san(b, m);
        if s != r { fail("C14", format!("{} lib={} ref={}", m, s, r)); }
        if let Some(o) = seen.insert(s.clone(), *m) { fail("C14", format!("collision {} {} -> {}", o, m, s)); }
    }
    // C20
    let strip = |t: String| t.replace("\u{1b}[47;30m", "").replace("\u{1b}[47m", "").replace("\u{1b}[0m", "");
    let st = strip(b.render_straight());
    let lines: Vec<&str> = st.lines().collect();
    if lines.len() != 12 { fail("C20", format!("lines {}", lines.len())); } else {
        for (li, r) in (0..8).rev().enumerate() {
            let row: Vec<char> = lines[2 + li].chars().collect();
            // "8  ║" then 8 cells of 3 chars then "║"
            if row[0] != char::from_digit(r as u32 + 1, 10).unwrap() { fail("C20", "rank label".into()); }
            for f in 0..8 { let cell: String = row[4 + 3 * f..4 + 3 * f + 3].iter().collect();
                let exp = match b.get_piece_on(sq(r * 8 + f)) { None => "   ".to_string(), Some(Piece(t, c)) => { let l = format!("{}", t); format!(" {} ", if c == White { l.to_uppercase() } else { l.to_lowercase() }) } };
                if cell != exp { fail("C20", format!("cell {} {} '{}' vs '{}'", r, f, cell, exp)); } } }
        let fl = strip(b.render_flipped()); let fl: Vec<&str> = fl.lines().collect();
        for li in 0..8 { let a: Vec<char> = lines[2 + li].chars().collect(); let bb: Vec<char> = fl[2 + 7 - li].chars().collect();
            let ca: Vec<char> = a[4..28].to_vec(); let mut cb: Vec<char> = bb[4..28].to_vec(); cb.reverse(); if ca != cb { fail("C20", "rotation".into()); } }
    }
    // C03 universe
    if do_universe {
        let pts = [Pawn, Knight, Bishop, Rook, Queen, King];
        let promos = [None, Some(Knight), Some(Bishop), Some(Rook), Some(Queen), Some(King)];
        let mut cnt = 0;
        for pt in pts { for s in 0..64 { for d in 0..64 { for pr in promos {
            let m = BoardMove::MovePiece(PieceMove::new(pt, sq(s), sq(d), pr).unwrap());
            let bb = *b;
            let r = std::panic::catch_unwind(move || (bb.is_legal_move(&m), bb.make_move(&m).is_ok()));
            match r { Err(_) => fail("C03", format!("panic {}", m)), Ok((l, ok)) => { let inl = lm.contains(&m); if l != inl || ok != inl { fail("C03", format!("{} is_legal={} make={} in_list={}", m, l, ok, inl)); } if l { cnt += 1; } } }
        }}}}
        for m in [BoardMove::CastleKingSide, BoardMove::CastleQueenSide] { if b.is_legal_move(&m) != lm.contains(&m) { fail("C03", format!("{}", m)); } if lm.contains(&m) { cnt += 1; } }
        if cnt != lm.len() { fail("C01", format!("dups? {} vs {}", cnt, lm.len())); }
    }
}

fn tag(s: GameStatus) -> &'static str { use GameStatus::*; match s { Ongoing | DrawOffered(_) => "?", CheckMated(White) | Resigned(White) => "0-1", CheckMated(Black) | Resigned(Black) => "1-0", _ => "1/2-1/2" } }

fn main() {

    let games: usize = std::env::args().nth(1).unwrap().parse().unwrap();
    let mut rng = Rng(std::env::args().nth(2).unwrap().parse().unwrap());
    let mut fails: HashMap<&'static str, usize> = HashMap::new();
    let roots = ["rnbqkbnr/pppppppp/8/8/8/8/PPPPPPPP/RNBQKBNR w KQkq - 0 1", "8/8/8/p3k3/P7/4K3/8/8 w - - 96 1", "4k3/8/8/8/8/8/4P3/4K2R w K - 0 1", "7k/5Q2/8/8/8/8/8/K7 w - - 0 1", "k7/8/8/8/8/8/8/KN6 b - - 0 1", "r3k2r/p1ppqpb1/bn2pnp1/3PN3/1p2P3/2N2Q1p/PPPBBPPP/R3K2R b KQkq - 0 1", "4k3/1N6/8/8/8/8/5N2/1N2KN2 w - - 0 1", "3qk3/8/8/2Q3Q1/8/2Q3Q1/8/4K3 w - - 0 1"];
    let mut nboards = 0usize;
    for g in 0..games {
        let start = ChessBoard::from_fen(roots[g % roots.len()]).unwrap();
        let mut game = Game::from_board(start);
        // reference protocol state
        let mut counts: HashMap<String, usize> = HashMap::new();
        *counts.entry(key(&start)).or_insert(0) += 1;
        let mut hist_len = 0usize;
        if game.get_game_status() != match start.get_status() { BoardStatus::Ongoing => GameStatus::Ongoing, BoardStatus::CheckMated(c) => GameStatus::CheckMated(c), BoardStatus::Stalemate => GameStatus::Stalemate, BoardStatus::TheoreticalDrawDeclared => GameStatus::TheoreticalDrawDeclared, BoardStatus::FiftyMovesDrawDeclared => GameStatus::FiftyMovesDrawDeclared } { *fails.entry("C12").or_insert(0) += 1; eprintln!("C12 initial status"); }
        for step in 0..300 {
            let st = game.get_game_status();
            let pos = game.get_position();
            if step % 7 == 0 { nboards += 1; check_board(&pos, &mut fails, nboards % 40 == 0); }
            let lm = pos.get_legal_moves();
            let r = rng.next() % 100;
            let action = if r < 80 && !lm.is_empty() { Action::MakeMove(lm[(rng.next() % lm.len() as u64) as usize]) }
                else if r < 84 { Action::MakeMove(BoardMove::MovePiece(PieceMove::new(Knight, sq((rng.next() % 64) as usize), sq((rng.next() % 64) as usize), None).unwrap())) }
                else if r < 88 { Action::OfferDraw(if rng.next() % 2 == 0 { White } else { Black }) }
                else if r < 92 { Action::AcceptDraw } else if r < 97 { Action::DeclineDraw } else { Action::Resign(if rng.next() % 2 == 0 { White } else { Black }) };
            let before = (game.get_position(), game.get_action_history().get_moves().len(), game.get_game_status(), game.get_metadata().get_value("Result".into()).cloned());
            let res = game.make_move(&action).map(|_| ()).map_err(|e| format!("{}", e));
            // expected
            let finished = !matches!(st, GameStatus::Ongoing | GameStatus::DrawOffered(_));
            let exp: Result<GameStatus, &str> = if finished { Err("Game is already finished") } else { match (st, &action) {
                (GameStatus::Ongoing, Action::MakeMove(m)) => if lm.contains(m) {
                        let nb = pos.make_move(m).unwrap(); let c = counts.entry(key(&nb)).or_insert(0); *c += 1; hist_len += 1;
                        Ok(match nb.get_status() { BoardStatus::CheckMated(c) => GameStatus::CheckMated(c), BoardStatus::Stalemate => GameStatus::Stalemate, BoardStatus::TheoreticalDrawDeclared => GameStatus::TheoreticalDrawDeclared, BoardStatus::FiftyMovesDrawDeclared => GameStatus::FiftyMovesDrawDeclared, BoardStatus::Ongoing => if *c >= 3 { GameStatus::RepetitionDrawDeclared } else { GameStatus::Ongoing } })
                    } else { Err("Illegal action detected") },
                (GameStatus::Ongoing, Action::OfferDraw(c)) => Ok(GameStatus::DrawOffered(*c)),
                (GameStatus::Ongoing, Action::Resign(c)) => Ok(GameStatus::Resigned(*c)),
                (GameStatus::Ongoing, _) => Err("Illegal action detected"),
                (GameStatus::DrawOffered(_), Action::AcceptDraw) => Ok(GameStatus::DrawAccepted),
                (GameStatus::DrawOffered(_), Action::DeclineDraw) => Ok(GameStatus::Ongoing),
                (GameStatus::DrawOffered(_), Action::Resign(c)) => Ok(GameStatus::Resigned(*c)),
                (GameStatus::DrawOffered(_), _) => Err("Illegal action detected"),
                _ => unreachable!() } };
            let mut bad = false;
            match (&res, &exp) {
                (Ok(()), Ok(s)) => { if game.get_game_status() != *s { bad = true; } }
                (Err(e), Err(x)) => { if e != x { bad = true; }
                    let after = (game.get_position(), game.get_action_history().get_moves().len(), game.get_game_status(), game.get_metadata().get_value("Result".into()).cloned());
                    if after != before { bad = true; } }
                _ => bad = true }
            if game.get_metadata().get_value("Result".into()).map(|s| s.as_str()) != Some(tag(game.get_game_status())) { bad = true; }
            if bad { let e = fails.entry("C12").or_insert(0); *e += 1; if *e <= 3 { eprintln!("C12 FAIL at {} action {:?} status {:?} -> {:?} res {:?} exp {:?}", pos.as_fen(), action, st, game.get_game_status(), res, exp); } }
            // C11 counters for every history position, C13 chain
            let h = game.get_action_history();
            if h.get_positions().len() != hist_len + 1 || h.get_moves().len() != hist_len || h.get_metadata().len() != hist_len || h.get_last_position() != game.get_position() { let e = fails.entry("C13").or_insert(0); *e += 1; if *e <= 3 { eprintln!("C13 lengths"); } }
            if step % 11 == 0 {
                for (i, p) in h.get_positions().iter().enumerate() {
                    if game.get_position_counter(p) != *counts.get(&key(p)).unwrap_or(&0) { let e = fails.entry("C11").or_insert(0); *e += 1; if *e <= 3 { eprintln!("C11 counter {} at {}", i, p.as_fen()); } }
                    if i > 0 { let m = h.get_moves()[i - 1]; let prev = h.get_positions()[i - 1]; if prev.make_move(&m).ok() != Some(*p) { let e = fails.entry("C13").or_insert(0); *e += 1; }
                        let md = h.get_metadata()[i - 1]; let cap = match m { BoardMove::MovePiece(pm) => prev.get_piece_on(pm.get_destination_square()).is_some() || (pm.get_piece_type() == Pawn && Some(pm.get_destination_square()) == prev.get_en_passant()), _ => false };
                        if md.is_capture != cap || md.is_check != !p.get_check_mask().is_blank() || md.is_checkmate != (p.get_legal_moves().is_empty() && !p.get_check_mask().is_blank()) { let e = fails.entry("C13").or_insert(0); *e += 1; if *e <= 3 { eprintln!("C13 flags"); } } }
                    if h.get_position_on_move(i).ok() != Some(*p) { *fails.entry("C13").or_insert(0) += 1; } }
                if h.get_position_on_move(h.get_positions().len()).is_ok() { *fails.entry("C13").or_insert(0) += 1; }
                let txt = if h.get_moves().is_empty() { String::new() } else { format!("{}", h) };
                let toks: Vec<&str> = txt.split_whitespace().collect();
                let _ = toks;
            }
            if finished && step > 3 && rng.next() % 3 == 0 { break; }
        }
    }
    eprintln!("games={} boards_checked={} fails={:?}", games, nboards, fails);
}
