use libchess::*;
use std::str::FromStr;
use std::panic::catch_unwind;

struct Rng(u64);
impl Rng { fn next(&mut self) -> u64 { self.0 = self.0.wrapping_add(0x9E3779B97F4A7C15); let mut z = self.0; z = (z ^ (z >> 30)).wrapping_mul(0xBF58476D1CE4E5B9); z = (z ^ (z >> 27)).wrapping_mul(0x94D049BB133111EB); z ^ (z >> 31) } }

fn flip_fen(fen: &str) -> String {
    let t: Vec<&str> = fen.split(' ').collect();
    let ranks: Vec<String> = t[0].split('/').rev().map(|r| r.chars().map(|c| if c.is_ascii_uppercase() { c.to_ascii_lowercase() } else { c.to_ascii_uppercase() }).collect()).collect();
    let side = if t[1] == "w" { "b" } else { "w" };
    let mut cs: Vec<char> = t[2].chars().filter(|c| *c != '-').map(|c| if c.is_ascii_uppercase() { c.to_ascii_lowercase() } else { c.to_ascii_uppercase() }).collect();
    cs.sort_by_key(|c| match c { 'K' => 0, 'Q' => 1, 'k' => 2, 'q' => 3, _ => 4 });
    let cs: String = if cs.is_empty() { "-".into() } else { cs.into_iter().collect() };
    let ep = if t[3] == "-" { "-".to_string() } else { let b = t[3].as_bytes(); format!("{}{}", b[0] as char, (b'1' + (b'8' - b[1])) as char) };
    format!("{} {} {} {} {} {}", ranks.join("/"), side, cs, ep, t[4], t[5])
}
fn flip_sq(s: Square) -> Square { Square::from_rank_file(Rank::from_index(7 - s.get_rank().to_index()).unwrap(), s.get_file()) }
fn flip_mv(m: &BoardMove) -> BoardMove { match m { BoardMove::MovePiece(p) => BoardMove::MovePiece(PieceMove::new(p.get_piece_type(), flip_sq(p.get_source_square()), flip_sq(p.get_destination_square()), p.get_promotion()).unwrap()), x => *x } }

fn main() {
    let games: usize = std::env::args().nth(1).unwrap().parse().unwrap();
    let mut rng = Rng(std::env::args().nth(2).unwrap().parse().unwrap());
    let (mut c08, mut c15, mut c19, mut n15) = (0, 0, 0, 0);
    for g in 0..games {
        let mut game = Game::default();
        let plies = rng.next() % 150;
        for _ in 0..plies {
            if game.get_game_status() != GameStatus::Ongoing { break; }
            let pos = game.get_position();
            // C08
            let fen = pos.as_fen();
            let back = ChessBoard::from_fen(&fen);
            if back.is_err() || back.unwrap() != pos { c08 += 1; if c08 < 5 { eprintln!("C08 {}", fen); } }
            // C19
            let ff = flip_fen(&fen);
            match ChessBoard::from_fen(&ff) {
                Err(_) => { c19 += 1; if c19 < 5 { eprintln!("C19 flip rejected {} -> {}", fen, ff); } }
                Ok(fb) => {
                    let mut a: Vec<String> = pos.get_legal_moves().iter().map(|m| format!("{}", flip_mv(m))).collect();
                    let mut b: Vec<String> = fb.get_legal_moves().iter().map(|m| format!("{}", m)).collect();
                    a.sort(); b.sort();
                    if a != b || (pos.get_status() == BoardStatus::Ongoing) != (fb.get_status() == BoardStatus::Ongoing) { c19 += 1; if c19 < 5 { eprintln!("C19 {} ", fen); } }
                }
            }
            let lm = game.get_legal_moves();
            let m = lm[(rng.next() % lm.len() as u64) as usize];
            game.make_move(&Action::MakeMove(m)).unwrap();
        }
        // random ending
        if game.get_game_status() == GameStatus::Ongoing {
            match rng.next() % 5 {
                0 => { game.make_move(&Action::Resign(Color::White)).unwrap(); }
                1 => { game.make_move(&Action::Resign(Color::Black)).unwrap(); }
                2 => { game.make_move(&Action::OfferDraw(Color::Black)).unwrap(); game.make_move(&Action::AcceptDraw).unwrap(); }
                3 => { game.make_move(&Action::OfferDraw(Color::Black)).unwrap(); game.make_move(&Action::DeclineDraw).unwrap(); }
                _ => {}
            }
        }
        // C15
        n15 += 1;
        let g2 = game.clone();
        let r = catch_unwind(move || { let pgn = g2.as_pgn(); (pgn.clone(), Game::from_pgn(&pgn)) });
        match r {
            Err(_) => { c15 += 1; if c15 < 5 { eprintln!("C15 panic game {}", g); } }
            Ok((pgn, Err(e))) => { c15 += 1; if c15 < 5 { eprintln!("C15 import error {} for\n{}", e, pgn); } }
            Ok((pgn, Ok(ig))) => {
                let same = ig.get_action_history().get_moves() == game.get_action_history().get_moves()
                    && ig.get_action_history().get_positions() == game.get_action_history().get_positions()
                    && ig.get_game_status() == game.get_game_status()
                    && ig.get_metadata().get_value("Result".to_string()) == game.get_metadata().get_value("Result".to_string());
                if !same { c15 += 1; if c15 < 5 { eprintln!("C15 differs: status {:?} vs {:?}\n{}", game.get_game_status(), ig.get_game_status(), pgn); } }
            }
        }
    }
    eprintln!("games={} c08_fail={} c19_fail={} c15_fail={}/{}", games, c08, c19, c15, n15);
}
