use libchess::*;
use std::str::FromStr;
use std::panic::catch_unwind;
fn main() {
    std::panic::set_hook(Box::new(|_| {}));
    let alpha: Vec<&str> = vec!["a","h","1","8","N","x","=","Q","K","O","-","/"," ","é"];
    let maxlen: usize = std::env::args().nth(1).unwrap().parse().unwrap();
    let (mut n, mut panics, mut nonround) = (0u64, 0u64, 0u64);
    let mut idx = vec![0usize; 0];
    // enumerate all strings up to maxlen
    for len in 0..=maxlen {
        idx = vec![0; len];
        loop {
            let s: String = idx.iter().map(|i| alpha[*i]).collect();
            n += 1;
            let s1 = s.clone();
            let r = catch_unwind(move || {
                let m = BoardMove::from_str(&s1);
                let _ = Square::from_str(&s1); let _ = File::from_str(&s1); let _ = Rank::from_str(&s1); let _ = PieceType::from_str(&s1);
                m.ok().map(|m| { let t = format!("{}", m); (BoardMove::from_str(&t).ok() == Some(m), t) })
            });
            match r { Err(_) => { panics += 1; if panics <= 5 { eprintln!("PANIC {:?}", s); } }
                      Ok(Some((false, t))) => { nonround += 1; if nonround <= 5 { eprintln!("NONROUND {:?} -> {:?}", s, t); } } _ => {} }
            // next
            let mut k = len; let mut done = true;
            while k > 0 { k -= 1; idx[k] += 1; if idx[k] < alpha.len() { done = false; break; } idx[k] = 0; }
            if done { break; }
        }
    }
    eprintln!("strings={} panics={} nonround={}", n, panics, nonround);
    // FEN mutations
    let base = ["rnbqkbnr/pppppppp/8/8/8/8/PPPPPPPP/RNBQKBNR w KQkq - 0 1", "rnbqkbnr/pppp1ppp/8/4p3/4P3/8/PPPP1PPP/RNBQKBNR w KQkq e6 0 2", "8/8/8/8/8/8/8/8 w - - 0 1", "k7/8/8/8/8/8/8/K7 b - a3 0 1"];
    let ins = ["", "é", "9", "/", " ", "k", "K", "-", "e9", "18446744073709551616", "+1", "P"];
    let (mut fn_, mut fp) = (0u64, 0u64);
    for b in base { let cs: Vec<char> = b.chars().collect();
        for i in 0..=cs.len() { for j in i..=(i+2).min(cs.len()) { for x in ins {
            let s: String = cs[..i].iter().collect::<String>() + x + &cs[j..].iter().collect::<String>();
            fn_ += 1; let s1 = s.clone();
            if catch_unwind(move || { let _ = ChessBoard::from_fen(&s1); let _ = BoardBuilder::from_str(&s1).map(|b| format!("{}", b)); let _ = Game::from_fen(&s1); }).is_err() { fp += 1; if fp <= 5 { eprintln!("FEN PANIC {:?}", s); } }
        }}}}
    eprintln!("fen_strings={} panics={}", fn_, fp);
    // C16 exhaustive
    let pts = [PieceType::Pawn, PieceType::Knight, PieceType::Bishop, PieceType::Rook, PieceType::Queen, PieceType::King];
    let mut bad = 0; let mut cnt = 0;
    for pt in pts { for s in 0..64u8 { for d in 0..64u8 { for pr in [None, Some(PieceType::Knight), Some(PieceType::Bishop), Some(PieceType::Rook), Some(PieceType::Queen), Some(PieceType::King)] {
        let m = BoardMove::MovePiece(PieceMove::new(pt, Square::new(s).unwrap(), Square::new(d).unwrap(), pr).unwrap()); cnt += 1;
        if BoardMove::from_str(&format!("{}", m)).ok() != Some(m) { bad += 1; } }}}}
    for m in [BoardMove::CastleKingSide, BoardMove::CastleQueenSide] { cnt += 1; if BoardMove::from_str(&format!("{}", m)).ok() != Some(m) { bad += 1; } }
    eprintln!("C16 moves={} bad={}", cnt, bad);
}
