use libchess::*;
use libchess::{squares::*, Color::*, PieceType::*};
use std::str::FromStr;
use std::panic::catch_unwind;

fn main() {
    // C02 clock after non-pawn capture
    let b = ChessBoard::from_fen("k7/1q6/8/8/8/8/6Q1/5K2 w - - 7 1").unwrap();
    let n = b.make_move(&mv!(Queen, G2, B7)).unwrap();
    println!("C02 clock after Qxb7: {}", n.as_fen());
    // rook a-file non-corner
    let b = ChessBoard::from_fen("r3k2r/8/8/8/8/R7/8/R3K2R w KQkq - 0 1").unwrap();
    let n = b.make_move(&mv!(Rook, A3, B3)).unwrap();
    println!("C02 rights after Ra3b3: {}", n.as_fen());
    // C03
    let b = ChessBoard::from_fen("7k/P7/8/8/8/8/8/K7 w - - 0 1").unwrap();
    println!("C03 a7a8 no promo legal: {}", b.is_legal_move(&mv!(Pawn, A7, A8)));
    println!("C03 a7a8=K legal: {}", b.is_legal_move(&mv!(Pawn, A7, A8, King)));
    println!("C03 Ka1a2=Q legal: {:?}", catch_unwind(|| b.is_legal_move(&mv!(King, A1, A2, Queen))));
    println!("C03 Ka1a2=Q make: {:?}", catch_unwind(|| b.make_move(&mv!(King, A1, A2, Queen)).map(|x| x.as_fen())));
    let b2 = ChessBoard::from_fen("7k/8/8/8/8/8/P7/K7 w - - 0 1").unwrap();
    println!("C03 a2a3=Q legal: {}", b2.is_legal_move(&mv!(Pawn, A2, A3, Queen)));
    // C09
    println!("C09 no kings: {:?}", catch_unwind(|| ChessBoard::from_fen("8/8/8/8/8/8/8/8 w - - 0 1").is_ok()));
    println!("C09 two black kings: {:?}", catch_unwind(|| ChessBoard::from_fen("kk6/8/8/8/8/8/8/K7 w - - 0 1").is_ok()));
    println!("C09 no black king: {:?}", catch_unwind(|| ChessBoard::from_fen("8/8/8/8/8/8/8/K7 w - - 0 1").is_ok()));
    println!("C09 no white king: {:?}", catch_unwind(|| ChessBoard::from_fen("k7/8/8/8/8/8/8/8 w - - 0 1").is_ok()));
    println!("C09 ep wrong rank: {:?}", catch_unwind(|| ChessBoard::from_fen("k7/8/8/8/4p3/8/8/K7 w - e5 0 1").is_ok()));
    println!("C09 ep rank8: {:?}", catch_unwind(|| ChessBoard::from_fen("k7/8/8/8/4p3/8/8/K7 w - e1 0 1").is_ok()));
    // C10
    for s in ["", "N", "e7e8=X", "éa1a2", "e2", "Ne2", "=", "e7e8=QQ", "e7e8="] {
        let s2 = s.to_string();
        println!("C10 move {:?}: {:?}", s, catch_unwind(move || BoardMove::from_str(&s2).map(|m| format!("{}", m)).map_err(|e| e.to_string())));
    }
    for s in ["é", "a1", "aé"] {
        let s2 = s.to_string();
        println!("C10 square {:?}: {:?}", s, catch_unwind(move || Square::from_str(&s2).map(|m| m.to_string()).map_err(|e| e.to_string())));
    }
    println!("C10 fen ep é: {:?}", catch_unwind(|| ChessBoard::from_fen("k7/8/8/8/8/8/8/K7 w - é 0 1").is_ok()));
    // C13
    let g = Game::default();
    println!("C13 empty history: {:?}", catch_unwind(|| format!("{}", g.get_action_history())));
    let mut g = Game::from_fen("rnbqkbnr/pppppppp/8/8/4P3/8/PPPP1PPP/RNBQKBNR b KQkq e3 0 1").unwrap();
    g.make_move(&Action::MakeMove(mv!(Pawn, E7, E5))).unwrap();
    g.make_move(&Action::MakeMove(mv!(Knight, G1, F3))).unwrap();
    g.make_move(&Action::MakeMove(mv!(Knight, B8, C6))).unwrap();
    println!("C13 black first: {:?}", format!("{}", g.get_action_history()));
    // C14
    let b = ChessBoard::from_fen("4k3/1N6/8/8/8/8/8/1N2KN2 w - - 0 1").unwrap();
    for m in b.get_legal_moves() {
        let p = MovePropertiesOnBoard::new(&m, &b).unwrap();
        print!("{} ", m.to_string(p));
    }
    println!();
    // C15
    let mut g = Game::default();
    g.make_move(&Action::MakeMove(mv!(Pawn, E2, E4))).unwrap();
    println!("C15 open game: {:?} -> {:?}", g.as_pgn(), Game::from_pgn(&g.as_pgn()).map(|x| x.as_fen()).map_err(|e| e.to_string()));
    // C18
    for i in 0..4 { println!("C18 castling idx {} -> {:?} -> {}", i, CastlingRights::from_index(i).unwrap(), CastlingRights::from_index(i).unwrap().to_index()); }
}
