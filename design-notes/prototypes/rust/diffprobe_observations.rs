use libchess::*;
use std::io::Write;

struct Rng(u64);
impl Rng { fn next(&mut self) -> u64 { self.0 = self.0.wrapping_add(0x9E3779B97F4A7C15); let mut z = self.0; z = (z ^ (z >> 30)).wrapping_mul(0xBF58476D1CE4E5B9); z = (z ^ (z >> 27)).wrapping_mul(0x94D049BB133111EB); z ^ (z >> 31) } }

fn status_str(s: BoardStatus) -> String { match s { BoardStatus::Ongoing => "ongoing".into(), BoardStatus::CheckMated(c) => format!("mated-{}", c), BoardStatus::TheoreticalDrawDeclared => "theoretical".into(), BoardStatus::FiftyMovesDrawDeclared => "fifty".into(), BoardStatus::Stalemate => "stalemate".into() } }

fn main() {
    let args: Vec<String> = std::env::args().collect();
    let games: usize = args[1].parse().unwrap();
    let seed: u64 = args[2].parse().unwrap();
    let mut rng = Rng(seed);
    let seeds = [
        "rnbqkbnr/pppppppp/8/8/8/8/PPPPPPPP/RNBQKBNR w KQkq - 0 1",
        "r3k2r/p1ppqpb1/bn2pnp1/3PN3/1p2P3/2N2Q1p/PPPBBPPP/R3K2R w KQkq - 0 1",
        "8/2p5/3p4/KP5r/1R3p1k/8/4P1P1/8 w - - 0 1",
        "r3k2r/Pppp1ppp/1b3nbN/nP6/BBP1P3/q4N2/Pp1P2PP/R2Q1RK1 w kq - 0 1",
        "rnbq1k1r/pp1Pbppp/2p5/8/2B5/8/PPP1NnPP/RNBQK2R w KQ - 1 8",
        "r4rk1/1pp1qppp/p1np1n2/2b1p1B1/2B1P1b1/P1NP1N2/1PP1QPPP/R4RK1 w - - 0 10",
        "4k3/P6P/8/8/8/8/p6p/4K3 w - - 0 1",
        "r3k2r/8/8/8/8/8/8/R3K2R b KQkq - 0 1",
    ];
    let out = std::io::stdout();
    let mut out = std::io::BufWriter::new(out.lock());
    for g in 0..games {
        let mut b = ChessBoard::from_fen(seeds[g % seeds.len()]).unwrap();
        for _ply in 0..120 {
            let mut ms: Vec<String> = b.get_legal_moves().iter().map(|m| format!("{}", m)).collect();
            ms.sort();
            let lm = b.get_legal_moves();
            let (mv_s, next_fen) = if lm.is_empty() { ("-".to_string(), "-".to_string()) } else {
                let m = lm[(rng.next() % lm.len() as u64) as usize];
                let nb = b.make_move(&m).unwrap();
                (format!("{}", m), nb.as_fen())
            };
            writeln!(out, "{}|{}|{}|{:016x}|{:016x}|{}|{}", b.as_fen(), ms.join(" "), status_str(b.get_status()), b.get_check_mask().bits(), b.get_pin_mask().bits(), mv_s, next_fen).unwrap();
            if lm.is_empty() || b.get_status() != BoardStatus::Ongoing { break; }
            let m = BoardMove::from_str_opt(&mv_s);
            b = b.make_move(&m).unwrap();
        }
    }
}
trait FromStrOpt { fn from_str_opt(s: &str) -> Self; }
impl FromStrOpt for BoardMove { fn from_str_opt(s: &str) -> Self { use std::str::FromStr; BoardMove::from_str(s).unwrap() } }
