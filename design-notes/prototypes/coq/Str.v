(* Feasibility prototype for the text layer: Rust &str semantics with explicit panics;
   BoardMove::from_str before (refuted) and after (total) the planned repair D7 *)
From Coq Require Import List NArith Bool String Ascii Lia.
Import ListNotations.
Open Scope N_scope.

Definition bytes := list N.
Definition B (s : string) : bytes := map N_of_ascii (list_ascii_of_string s).

Inductive res (A : Type) := Ok (a : A) | Err | Panic.
Arguments Ok {A} a. Arguments Err {A}. Arguments Panic {A}.
Definition bind {A B} (r : res A) (f : A -> res B) : res B := match r with Ok a => f a | Err => Err | Panic => Panic end.
Notation "x <- r ;; k" := (bind r (fun x => k)) (at level 61, r at next level, right associativity).

(* ---- Rust primitives ---- *)
Definition blen (s : bytes) : N := N.of_nat (List.length s).
Definition is_cont (b : N) : bool := (128 <=? b) && (b <? 192).          (* 10xxxxxx *)
Definition boundary (s : bytes) (i : N) : bool :=
  (i =? blen s) || match nth_error s (N.to_nat i) with Some b => negb (is_cont b) | None => false end.
Definition sub (s : bytes) (a b : N) : bytes := firstn (N.to_nat (b - a)) (skipn (N.to_nat a) s).
Definition range_ok s a b := (a <=? b) && (b <=? blen s) && boundary s a && boundary s b.
Definition slice (s : bytes) (a b : N) : res bytes := if range_ok s a b then Ok (sub s a b) else Panic.   (* &s[a..b] *)
Definition get (s : bytes) (a b : N) : option bytes := if range_ok s a b then Some (sub s a b) else None. (* s.get(a..b) *)
Definition usub (a b : N) : res N := if b <=? a then Ok (a - b) else Panic.                               (* usize a - b *)
Fixpoint split_on (c : N) (s : bytes) (cur : bytes) : list bytes :=
  match s with [] => [rev cur] | x :: r => if x =? c then rev cur :: split_on c r [] else split_on c r (x :: cur) end.
Definition unwrap {A} (r : res A) : res A := match r with Err => Panic | x => x end.                       (* .unwrap() on Err *)

(* ---- library types ---- *)
Inductive ptype := Pawn | Knight | Bishop | Rook | Queen | King.
Record pmove := { p_t : ptype; p_s : N; p_d : N; p_pr : option ptype }.
Inductive bmove := MovePiece (m : pmove) | CastleK | CastleQ.

Definition upper (b : N) : N := if (97 <=? b) && (b <=? 122) then b - 32 else b.
(* PieceType::from_str: len()>1 => Err; empty => Pawn; else match on the (ASCII-)uppercased single char.
   A 1-byte valid-UTF-8 string is ASCII, so to_uppercase is the ASCII map. *)
Definition parse_pt (s : bytes) : res ptype :=
  match s with
  | [] => Ok Pawn
  | [c] => match upper c with 80 => Ok Pawn | 78 => Ok Knight | 66 => Ok Bishop | 82 => Ok Rook | 81 => Ok Queen | 75 => Ok King | _ => Err end
  | _ => Err end.
(* Square::from_str: len()!=2 => Err; chars[0] must parse as File (1-byte string a..h), chars[1] as Rank *)
Definition parse_sq (s : bytes) : res N :=
  match s with
  | [f; r] => if (97 <=? f) && (f <=? 104) then (if (49 <=? r) && (r <=? 56) then Ok ((r - 49) * 8 + (f - 97)) else Err) else Err
  | _ => Err end.
Definition new_pmove t a b pr : res pmove := match pr with Some Pawn => Err | _ => Ok {| p_t := t; p_s := a; p_d := b; p_pr := pr |} end.

(* PieceMove::from_str as in the UNCHANGED tree *)
Definition parse_pmove_orig (v : bytes) : res pmove :=
  let tokens := split_on 61 v [] in
  let t0 := hd [] tokens in          (* tokens[0]: split always yields >= 1 element *)
  let len := blen t0 in
  t <- (if len =? 4 then Ok Pawn else (h <- slice t0 0 1 ;; parse_pt h)) ;;
  i4 <- usub len 4 ;; i2 <- usub len 2 ;;
  s1 <- slice t0 i4 i2 ;; a <- parse_sq s1 ;;
  s2 <- slice t0 i2 len ;; b <- parse_sq s2 ;;
  match tokens with
  | _ :: t1 :: _ => q <- unwrap (parse_pt t1) ;; new_pmove t a b (Some q)
  | _ => new_pmove t a b None end.
(* … and after repair D7 *)
Definition parse_pmove (v : bytes) : res pmove :=
  let tokens := split_on 61 v [] in
  let t0 := hd [] tokens in
  let len := blen t0 in
  if len <? 4 then Err else
  t <- (if len =? 4 then Ok Pawn else match get t0 0 1 with Some h => parse_pt h | None => Err end) ;;
  i4 <- usub len 4 ;; i2 <- usub len 2 ;;
  a <- match get t0 i4 i2 with Some x => parse_sq x | None => Err end ;;
  b <- match get t0 i2 len with Some x => parse_sq x | None => Err end ;;
  match tokens with
  | _ :: t1 :: _ => q <- parse_pt t1 ;; new_pmove t a b (Some q)
  | _ => new_pmove t a b None end.
Definition beq (a b : bytes) : bool := if list_eq_dec N.eq_dec a b then true else false.
Definition parse_bmove (parse : bytes -> res pmove) (v : bytes) : res bmove :=
  if beq v (B "O-O-O") then Ok CastleQ else if beq v (B "O-O") then Ok CastleK else (m <- parse v ;; Ok (MovePiece m)).

(* printer *)
Definition letter t : bytes := match t with Pawn => B "P" | Knight => B "N" | Bishop => B "B" | Rook => B "R" | Queen => B "Q" | King => B "K" end.
Definition sq_str (s : N) : bytes := [97 + s mod 8; 49 + s / 8].
Definition print_pmove m : bytes :=
  (match p_t m with Pawn => [] | t => letter t end) ++ sq_str (p_s m) ++ sq_str (p_d m) ++ (match p_pr m with Some q => 61 :: letter q | None => [] end).
Definition print_bmove m := match m with MovePiece pm => print_pmove pm | CastleK => B "O-O" | CastleQ => B "O-O-O" end.

(* ---- C10 on the unchanged tree: refuted, with witnesses replayable on the library ---- *)
Definition is_panic {A} (r : res A) := match r with Panic => true | _ => false end.
Example C10_move_refuted : forallb (fun w => is_panic (parse_bmove parse_pmove_orig (B w)))
   ["" ; "N" ; "Ne2" ; "e7e8=X" ; "e7e8=QQ"]%string = true /\ is_panic (parse_bmove parse_pmove_orig [195;169;97;49;97;50]) = true.
Proof. vm_compute. split; reflexivity. Qed.

(* ---- C10 after the repair: total on ALL byte strings ---- *)
Lemma usub_ok a b : b <= a -> usub a b = Ok (a - b).
Proof. intros H. unfold usub. now rewrite (proj2 (N.leb_le b a) H). Qed.
Lemma parse_pt_nopanic s : parse_pt s <> Panic.
Proof. destruct s as [|c [|? ?]]; cbn; try discriminate. destruct (upper c) as [|p]; try discriminate.
  do 7 (destruct p; try discriminate). Qed.
Lemma parse_sq_nopanic s : parse_sq s <> Panic.
Proof. destruct s as [|f [|r [|? ?]]]; cbn; try discriminate. destruct (_ && _); [destruct (_ && _)|]; discriminate. Qed.
Lemma new_pmove_nopanic t a b pr : new_pmove t a b pr <> Panic.
Proof. destruct pr as [[]|]; discriminate. Qed.

Theorem C10_pmove_total v : parse_pmove v <> Panic.
Proof.
  unfold parse_pmove. set (tokens := split_on 61 v []). set (t0 := hd [] tokens). set (len := blen t0).
  destruct (N.ltb_spec len 4) as [|Hlen]; [discriminate|].
  rewrite (usub_ok len 4), (usub_ok len 2) by lia. cbn [bind].
  assert (Ht : forall (k : ptype -> res pmove), (forall t, k t <> Panic) ->
     bind (if len =? 4 then Ok Pawn else match get t0 0 1 with Some h => parse_pt h | None => Err end) k <> Panic).
  { intros k Hk. destruct (len =? 4); [apply Hk|]. destruct (get t0 0 1) as [h|]; [|discriminate].
    pose proof (parse_pt_nopanic h). destruct (parse_pt h); cbn; [apply Hk|discriminate|congruence]. }
  apply Ht. intros t.
  destruct (get t0 (len - 4) (len - 2)) as [x|]; [|discriminate].
  pose proof (parse_sq_nopanic x). destruct (parse_sq x) as [a| |]; cbn [bind]; [|discriminate|congruence].
  destruct (get t0 (len - 2) len) as [y|]; [|discriminate].
  pose proof (parse_sq_nopanic y). destruct (parse_sq y) as [b| |]; cbn [bind]; [|discriminate|congruence].
  destruct tokens as [|? [|t1 ?]]; try apply new_pmove_nopanic.
  pose proof (parse_pt_nopanic t1). destruct (parse_pt t1); cbn [bind]; [apply new_pmove_nopanic|discriminate|congruence].
Qed.
Theorem C10_bmove_total v : parse_bmove parse_pmove v <> Panic.
Proof. unfold parse_bmove. destruct (beq _ _); [discriminate|]. destruct (beq _ _); [discriminate|].
  pose proof (C10_pmove_total v). destruct (parse_pmove v); cbn; congruence. Qed.
Print Assumptions C10_bmove_total.

(* ---- C16 on the same (repaired) model: complete universe ---- *)
Definition pts := [Pawn;Knight;Bishop;Rook;Queen;King].
Definition promos := [None; Some Knight; Some Bishop; Some Rook; Some Queen; Some King].
Definition squares : list N := map N.of_nat (seq 0 64).
Definition pt_eqb a b := match a, b with Pawn,Pawn|Knight,Knight|Bishop,Bishop|Rook,Rook|Queen,Queen|King,King => true | _,_ => false end.
Definition opt_eqb a b := match a, b with None, None => true | Some x, Some y => pt_eqb x y | _, _ => false end.
Definition ok m := match parse_bmove parse_pmove (print_bmove (MovePiece m)) with
  | Ok (MovePiece m') => pt_eqb (p_t m) (p_t m') && (p_s m =? p_s m') && (p_d m =? p_d m') && opt_eqb (p_pr m) (p_pr m') | _ => false end.
Lemma C16_all : forallb (fun t => forallb (fun a => forallb (fun b => forallb (fun pr => ok {| p_t := t; p_s := a; p_d := b; p_pr := pr |}) promos) squares) squares) pts = true.
Proof. vm_compute. reflexivity. Qed.
