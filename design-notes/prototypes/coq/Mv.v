From Coq Require Import List NArith Bool String Ascii.
Import ListNotations.
Open Scope N_scope.
Open Scope string_scope. Open Scope bool_scope.

Inductive pt := Pawn | Knight | Bishop | Rook | Queen | King.
Definition pts := [Pawn;Knight;Bishop;Rook;Queen;King].
Definition pt_eqb (a b:pt) : bool := match a,b with Pawn,Pawn|Knight,Knight|Bishop,Bishop|Rook,Rook|Queen,Queen|King,King => true | _,_ => false end.
Definition letter (p:pt) : string := match p with Pawn=>"P"|Knight=>"N"|Bishop=>"B"|Rook=>"R"|Queen=>"Q"|King=>"K" end.
Definition squares : list N := map N.of_nat (seq 0 64).
Definition sq_str (s:N) : string := String (ascii_of_N (97 + s mod 8)) (String (ascii_of_N (49 + s / 8)) EmptyString).
Record pm := { p_t : pt; p_s : N; p_d : N; p_pr : option pt }.
Definition print (m:pm) : string :=
  (match p_t m with Pawn => "" | p => letter p end) ++ sq_str (p_s m) ++ sq_str (p_d m) ++ (match p_pr m with Some p => "=" ++ letter p | None => "" end).

Definition upper (c:ascii) : ascii := let n := N_of_ascii c in if ((97 <=? n) && (n <=? 122))%N then ascii_of_N (n - 32) else c.
Definition parse_pt (s:string) : option pt :=
  match s with
  | EmptyString => Some Pawn
  | String c EmptyString => match N_of_ascii (upper c) with 80 => Some Pawn | 78 => Some Knight | 66 => Some Bishop | 82 => Some Rook | 81 => Some Queen | 75 => Some King | _ => None end
  | _ => None end.
Definition parse_sq (s:string) : option N :=
  match s with String f (String r EmptyString) =>
    let fn := N_of_ascii f in let rn := N_of_ascii r in
    if ((97 <=? fn) && (fn <=? 104) && (49 <=? rn) && (rn <=? 56))%N then Some ((rn-49)*8 + (fn-97))%N else None
  | _ => None end.
Fixpoint split_eq (s:string) (cur:string) : list string :=
  match s with EmptyString => [cur] | String c r => if Ascii.eqb c "=" then cur :: split_eq r "" else split_eq r (cur ++ String c "") end.
Definition parse (s:string) : option pm :=
  let toks := split_eq s "" in
  match toks with [] => None | t0 :: rest =>
    let len := String.length t0 in
    if Nat.ltb len 4 then None else
    match (if Nat.eqb len 4 then Some Pawn else parse_pt (substring 0 1 t0)) with None => None | Some p =>
    match parse_sq (substring (len-4) 2 t0), parse_sq (substring (len-2) 2 t0) with
    | Some a, Some b =>
       match rest with [] => Some {| p_t := p; p_s := a; p_d := b; p_pr := None |}
       | t1 :: _ => match parse_pt t1 with Some Pawn => None | Some q => Some {| p_t := p; p_s := a; p_d := b; p_pr := Some q |} | None => None end end
    | _, _ => None end end end.
Definition opt_pt_eqb (a b: option pt) := match a,b with None,None => true | Some x, Some y => pt_eqb x y | _,_ => false end.
Definition pm_eqb (a b:pm) := pt_eqb (p_t a) (p_t b) && N.eqb (p_s a) (p_s b) && N.eqb (p_d a) (p_d b) && opt_pt_eqb (p_pr a) (p_pr b).
Definition promos := [None; Some Knight; Some Bishop; Some Rook; Some Queen; Some King].
Definition ok (m:pm) := match parse (print m) with Some m' => pm_eqb m m' | None => false end.
Time Lemma all_ok : forallb (fun p => forallb (fun s => forallb (fun d => forallb (fun pr => ok {| p_t:=p; p_s:=s; p_d:=d; p_pr:=pr|}) promos) squares) squares) pts = true.
Proof. Time vm_compute. reflexivity. Time Qed.
