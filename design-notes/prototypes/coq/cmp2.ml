open Chess_model
let rec pos_of_int i = if i = 1 then XH else if i land 1 = 0 then XO (pos_of_int (i/2)) else XI (pos_of_int (i/2))
let n_of_int i : n = if i = 0 then N0 else Npos (pos_of_int i)
let rec int_of_pos = function XH -> 1 | XO p -> 2 * int_of_pos p | XI p -> 2 * int_of_pos p + 1
let int_of_n = function N0 -> 0 | Npos p -> int_of_pos p
let piece_of_char ch =
  let c = if Char.uppercase_ascii ch = ch then White else Black in
  let t = match Char.uppercase_ascii ch with 'P'->Pawn|'N'->Knight|'B'->Bishop|'R'->Rook|'Q'->Queen|'K'->King|_->failwith "pc" in
  (t,c)
let letter = function Pawn->"P"|Knight->"N"|Bishop->"B"|Rook->"R"|Queen->"Q"|King->"K"
let parse_fen s =
  match String.split_on_char ' ' s with
  | [pl; side; cs; eps; h; f] ->
    let arr = Array.make 64 None in
    let r = ref 7 and fl = ref 0 in
    String.iter (fun ch -> match ch with
      | '/' -> decr r; fl := 0
      | '1'..'8' -> fl := !fl + Char.code ch - 48
      | _ -> arr.(!r*8 + !fl) <- Some (piece_of_char ch); incr fl) pl;
    let has ch = String.contains cs ch in
    { placement = Array.to_list arr; stm = (if side = "w" then White else Black);
      right_k = (fun c -> match c with White -> has 'K' | Black -> has 'k');
      right_q = (fun c -> match c with White -> has 'Q' | Black -> has 'q');
      ep = (if eps = "-" then None else Some (n_of_int ((Char.code eps.[1] - 49)*8 + Char.code eps.[0] - 97)));
      half = n_of_int (int_of_string h); full = n_of_int (int_of_string f) }
  | _ -> failwith "fen"
let sq_str s = let i = int_of_n s in Printf.sprintf "%c%c" (Char.chr (97 + i mod 8)) (Char.chr (49 + i / 8))
let print_fen p =
  let b = Buffer.create 80 in
  let arr = Array.of_list p.placement in
  for r = 7 downto 0 do
    if r <> 7 then Buffer.add_char b '/';
    let e = ref 0 in
    for f = 0 to 7 do
      match arr.(r*8+f) with
      | None -> incr e
      | Some (t,c) -> if !e > 0 then (Buffer.add_string b (string_of_int !e); e := 0);
          let l = letter t in Buffer.add_string b (if c = White then l else String.lowercase_ascii l)
    done;
    if !e > 0 then Buffer.add_string b (string_of_int !e)
  done;
  let cs = (if p.right_k White then "K" else "") ^ (if p.right_q White then "Q" else "") ^ (if p.right_k Black then "k" else "") ^ (if p.right_q Black then "q" else "") in
  Printf.sprintf "%s %s %s %s %d %d" (Buffer.contents b) (if p.stm = White then "w" else "b") (if cs = "" then "-" else cs)
    (match p.ep with None -> "-" | Some s -> sq_str s) (int_of_n p.half) (int_of_n p.full)
let mv_str = function
  | CastleK -> "O-O" | CastleQ -> "O-O-O"
  | MovePiece m -> (if m.pm_type = Pawn then "" else letter m.pm_type) ^ sq_str m.pm_from ^ sq_str m.pm_to ^ (match m.pm_promo with None -> "" | Some q -> "=" ^ letter q)
let status_str = function Ongoing -> "ongoing" | CheckMated White -> "mated-white" | CheckMated Black -> "mated-black" | TheoreticalDraw -> "theoretical" | FiftyMovesDraw -> "fifty" | Stalemate -> "stalemate"
let rec hex_of_n (x : n) = Printf.sprintf "%016Lx" (match x with N0 -> 0L | Npos p -> let rec f = function XH -> 1L | XO q -> Int64.mul 2L (f q) | XI q -> Int64.add 1L (Int64.mul 2L (f q)) in f p)
let () =
  let ic = open_in Sys.argv.(1) in
  let limit = int_of_string Sys.argv.(2) in
  let n = ref 0 and bad = ref 0 in
  let t0 = Unix.gettimeofday () in
  (try while !n < limit do
    let line = input_line ic in
    incr n;
    match String.split_on_char '|' line with
    | [fen; moves; _st; chk; pins; _mv; _nfen] ->
      let p = parse_fen fen in
      let b = of_pos p in
      let ms = List.sort compare (List.map mv_str (legal_moves b)) in
      let ms_s = String.concat " " ms in
      let ok1 = ms_s = moves and ok2 = hex_of_n (b_checks b) = chk and ok3 = hex_of_n (b_pinned b) = pins in
      if not (ok1 && ok2 && ok3) then begin
        incr bad;
        if !bad <= 10 then Printf.printf "MISMATCH moves=%b checks=%b pins=%b\n  %s\n  model moves: %s\n  checks %s pins %s\n" ok1 ok2 ok3 line ms_s (hex_of_n (b_checks b)) (hex_of_n (b_pinned b))
      end
    | _ -> failwith ("bad line " ^ line)
  done with End_of_file -> ());
  Printf.printf "lines=%d mismatches=%d time=%.1fs\n" !n !bad (Unix.gettimeofday () -. t0)
