From Coq Require Import List NArith Bool Lia.
Import ListNotations.
Open Scope N_scope.

(* squares as N 0..63 *)
Definition squares : list N := map N.of_nat (seq 0 64).
Definition rank (s:N) := s / 8.
Definition file (s:N) := s mod 8.

(* direction steps as (dr, df) in Z *)
Require Import ZArith.
Definition dirs : list (Z*Z) := [(1,0);(-1,0);(0,1);(0,-1);(1,1);(1,-1);(-1,1);(-1,-1)]%Z.

Definition step (s:N) (d:Z*Z) : option N :=
  let r := (Z.of_N (rank s) + fst d)%Z in
  let f := (Z.of_N (file s) + snd d)%Z in
  if ((0 <=? r) && (r <? 8) && (0 <=? f) && (f <? 8))%Z then Some (Z.to_N (r*8+f)) else None.

Fixpoint line_fuel (fuel:nat) (s:N) (d:Z*Z) : list N :=
  match fuel with O => [] | S k =>
    match step s d with None => [] | Some t => t :: line_fuel k t d end end.
Definition line s d := line_fuel 8 s d.

Definition of_list (l:list N) : N := fold_left (fun acc s => N.lor acc (N.shiftl 1 s)) l 0.
Definition ray s d := of_list (line s d).

(* lowest set bit *)
Fixpoint ctz_pos (p:positive) : N := match p with xO q => N.succ (ctz_pos q) | _ => 0 end.
Definition lowest (b:N) : option N := match b with N0 => None | Npos p => Some (ctz_pos p) end.
Definition highest (b:N) : option N := match b with N0 => None | _ => Some (N.log2 b) end.

(* between: spec by walking *)
Fixpoint take_until (occ:N) (l:list N) : list N :=
  match l with [] => [] | u::r => if N.testbit occ u then [u] else u :: take_until occ r end.

Fixpoint before (t:N) (l:list N) : option (list N) :=
  match l with [] => None | u::r => if N.eqb u t then Some [] else option_map (cons u) (before t r) end.

Definition between (a b:N) : option N :=
  if N.eqb a b then Some 0 else
  fold_left (fun acc d => match acc with Some x => Some x | None => option_map of_list (before b (line a d)) end) dirs None.

Definition increasing (i:nat) : bool := match i with 0|2|4|5 => true | _ => false end%nat.

Definition trunc_dir (s:N) (i:nat) (occ:N) : N :=
  let d := nth i dirs (0,0)%Z in
  let r := ray s d in
  let blk := N.land r occ in
  match (if increasing i then lowest blk else highest blk) with
  | None => r
  | Some t => match between s t with Some m => N.lxor m (N.shiftl 1 t) | None => 0 end
  end.

Definition spec_dir (s:N) (i:nat) (occ:N) : N := of_list (take_until occ (line s (nth i dirs (0,0)%Z))).

(* subsets of a list of squares as masks *)
Fixpoint subsets (l:list N) : list N :=
  match l with [] => [0] | u::r => let ss := subsets r in ss ++ map (fun m => N.lor m (N.shiftl 1 u)) ss end.

Definition sweep : bool :=
  forallb (fun s => forallb (fun i => forallb (fun o => N.eqb (trunc_dir s i o) (spec_dir s i o)) (subsets (line s (nth i dirs (0,0)%Z)))) (seq 0 8)) squares.

Definition count : nat := fold_left (fun acc s => fold_left (fun acc i => acc + length (subsets (line s (nth i dirs (0,0)%Z))))%nat (seq 0 8) acc) squares 0%nat.

Time Eval vm_compute in (N.of_nat count).
Time Lemma sweep_ok : sweep = true.
Proof. vm_compute. reflexivity. Qed.
