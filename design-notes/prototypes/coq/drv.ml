open Chess_spec
let rec n_of_int i : n = if i = 0 then N0 else Npos (pos_of_int i)
and pos_of_int i = if i = 1 then XH else if i land 1 = 0 then XO (pos_of_int (i/2)) else XI (pos_of_int (i/2))
let rec int_of_pos = function XH -> 1 | XO p -> 2 * int_of_pos p | XI p -> 2 * int_of_pos p + 1
let int_of_n = function N0 -> 0 | Npos p -> int_of_pos p
let piece_of_char ch =
  let c = if Char.uppercase_ascii ch = ch then White else Black in
  let t = match Char.uppercase_ascii ch with 'P'->Pawn|'N'->Knight|'B'->Bishop|'R'->Rook|'Q'->Queen|'K'->King|_->failwith "pc" in
  (t,c)
let parse_fen s =
  match String.split_on_char ' ' s with
  | [pl; side; cs; eps; h; f] ->
    let arr = Array.make 64 None in
    let r = ref 7 and fl = ref 0 in
    String.iter (fun ch -> match ch with
      | '/' -> decr r; fl := 0
      | '1'..'8' -> fl := !fl + Char.code ch - 48
      | _ -> arr.(!r*8 + !fl) <- Some (piece_of_char ch); incr fl) pl;
    let has ch = String.contains cs ch in
    { placement = Array.to_list arr; stm = (if side = "w" then White else Black);
      right_k = (fun c -> match c with White -> has 'K' | Black -> has 'k');
      right_q = (fun c -> match c with White -> has 'Q' | Black -> has 'q');
      ep = (if eps = "-" then None else Some (n_of_int ((Char.code eps.[1] - 49)*8 + Char.code eps.[0] - 97)));
      half = n_of_int (int_of_string h); full = n_of_int (int_of_string f) }
  | _ -> failwith "fen"
let rec nat_of_int i = if i = 0 then O else S (nat_of_int (i-1))
let () =
  let roots = [
    "rnbqkbnr/pppppppp/8/8/8/8/PPPPPPPP/RNBQKBNR w KQkq - 0 1", [20;400;8902];
    "r3k2r/p1ppqpb1/bn2pnp1/3PN3/1p2P3/2N2Q1p/PPPBBPPP/R3K2R w KQkq - 0 1", [48;2039;97862];
    "8/2p5/3p4/KP5r/1R3p1k/8/4P1P1/8 w - - 0 1", [14;191;2812];
    "r3k2r/Pppp1ppp/1b3nbN/nP6/BBP1P3/q4N2/Pp1P2PP/R2Q1RK1 w kq - 0 1", [6;264;9467];
    "rnbq1k1r/pp1Pbppp/2p5/8/2B5/8/PPP1NnPP/RNBQK2R w KQ - 1 8", [44;1486;62379];
    "r4rk1/1pp1qppp/p1np1n2/2b1p1B1/2B1P1b1/P1NP1N2/1PP1QPPP/R4RK1 w - - 0 10", [46;2079;89890] ] in
  List.iter (fun (fen, exp) ->
    let p = parse_fen fen in
    Printf.printf "%s valid=%b\n" fen (valid p);
    List.iteri (fun i e ->
      let t = Unix.gettimeofday () in
      let got = int_of_n (perft (nat_of_int (i+1)) p) in
      Printf.printf "  d%d got=%d exp=%d %s (%.2fs)\n%!" (i+1) got e (if got = e then "OK" else "MISMATCH") (Unix.gettimeofday () -. t)) exp) roots
