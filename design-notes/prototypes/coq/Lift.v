Require Import Proto.
From Coq Require Import List NArith ZArith Bool Lia.
Import ListNotations.
Open Scope N_scope.

(* 1. testbit of of_list *)
Lemma of_list_acc_spec l : forall acc u, N.testbit (fold_left (fun acc s => N.lor acc (N.shiftl 1 s)) l acc) u
  = N.testbit acc u || existsb (N.eqb u) l.
Proof.
  induction l as [|x xs IH]; intros acc u; cbn [fold_left existsb].
  - now rewrite orb_false_r.
  - rewrite IH, N.lor_spec. rewrite N.shiftl_1_l, N.pow2_bits_eqb.
    rewrite (N.eqb_sym x u). now rewrite orb_assoc.
Qed.
Lemma of_list_spec l u : N.testbit (of_list l) u = existsb (N.eqb u) l.
Proof. unfold of_list. now rewrite of_list_acc_spec, N.bits_0. Qed.

(* 2. take_until only depends on occ restricted to the list *)
Lemma take_until_ext o1 o2 l : (forall u, In u l -> N.testbit o1 u = N.testbit o2 u) -> take_until o1 l = take_until o2 l.
Proof.
  induction l as [|x xs IH]; intros H; cbn [take_until]; [reflexivity|].
  rewrite (H x (or_introl eq_refl)). destruct (N.testbit o2 x); [reflexivity|].
  f_equal. apply IH. intros u Hu. apply H. now right.
Qed.

(* 3. subsets completeness: any o restricted to l is in subsets l *)
Definition restrict (o:N) (l:list N) : N := of_list (filter (N.testbit o) l).

Lemma subsets_complete o l : In (restrict o l) (subsets l).
Proof.
  unfold restrict. induction l as [|x xs IH]; cbn [filter subsets].
  - left; reflexivity.
  - apply in_or_app. destruct (N.testbit o x).
    + right. apply in_map_iff. exists (of_list (filter (N.testbit o) xs)). split; [|exact IH].
      apply N.bits_inj; intro u. rewrite N.lor_spec. unfold of_list. cbn [fold_left].
      rewrite !of_list_acc_spec. rewrite N.lor_spec, N.bits_0. cbn [orb].
      now rewrite orb_comm.
    + left. exact IH.
Qed.

Lemma restrict_spec o l u : N.testbit (restrict o l) u = N.testbit o u && existsb (N.eqb u) l.
Proof.
  unfold restrict. rewrite of_list_spec. induction l as [|x xs IH]; cbn [filter existsb].
  - now rewrite andb_false_r.
  - destruct (N.testbit o x) eqn:E; cbn [existsb]; rewrite IH.
    + destruct (N.eqb_spec u x); subst; cbn; [now rewrite E|reflexivity].
    + destruct (N.eqb_spec u x); subst; cbn; [now rewrite E|reflexivity].
Qed.

(* 4. lifting *)
Lemma land_ray_restrict s d o : N.land (ray s d) o = restrict o (line s d).
Proof.
  apply N.bits_inj; intro u. rewrite N.land_spec, restrict_spec. unfold ray. rewrite of_list_spec. apply andb_comm.
Qed.

Lemma trunc_dir_restrict s i o : trunc_dir s i o = trunc_dir s i (restrict o (line s (nth i dirs (0,0)%Z))).
Proof.
  unfold trunc_dir. rewrite !land_ray_restrict.
  set (l := line s _). 
  assert (restrict (restrict o l) l = restrict o l) as ->; [|reflexivity].
  apply N.bits_inj; intro u. rewrite !restrict_spec. now rewrite <- andb_assoc, andb_diag.
Qed.

Lemma spec_dir_restrict s i o : spec_dir s i o = spec_dir s i (restrict o (line s (nth i dirs (0,0)%Z))).
Proof.
  unfold spec_dir. f_equal. apply take_until_ext. intros u Hu. rewrite restrict_spec.
  assert (existsb (N.eqb u) (line s (nth i dirs (0, 0)%Z)) = true) as ->.
  { apply existsb_exists. exists u. split; [exact Hu|apply N.eqb_refl]. }
  now rewrite andb_true_r.
Qed.


Definition dir (i:nat) := nth i dirs (0,0)%Z.
Lemma sweep_ok' : forallb (fun s => forallb (fun i => forallb (fun o => N.eqb (trunc_dir s i o) (spec_dir s i o)) (subsets (line s (nth i dirs (0,0)%Z)))) (seq 0 8)) squares = true.
Proof. vm_compute. reflexivity. Qed.

Theorem trunc_dir_correct s i o : In s squares -> (i < 8)%nat -> trunc_dir s i o = spec_dir s i o.
Proof.
  intros Hs Hi. rewrite trunc_dir_restrict, spec_dir_restrict.
  pose proof sweep_ok' as H.
  rewrite forallb_forall in H. specialize (H s Hs). rewrite forallb_forall in H.
  specialize (H i). rewrite forallb_forall in H.
  apply N.eqb_eq. apply H. { apply in_seq. lia. } apply subsets_complete.
Time Qed.
Print Assumptions trunc_dir_correct.
