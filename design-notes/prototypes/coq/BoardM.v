(* Feasibility prototype of model/Board.v: the bitboard algorithm of chess_boards.rs on N *)
Require Import Chess.
From Coq Require Import List NArith ZArith Bool.
Import ListNotations.
Open Scope N_scope.

Definition bb := N.
Definition ones64 : N := 18446744073709551615.
Definition bnot (x : bb) : bb := N.lxor x ones64.
Definition bit (s : square) : bb := N.shiftl 1 s.
Definition has (x : bb) (s : square) : bool := N.testbit x s.
Definition of_list (l : list square) : bb := fold_left (fun acc s => N.lor acc (bit s)) l 0.
Fixpoint ctz_pos (p : positive) : N := match p with xO q => N.succ (ctz_pos q) | _ => 0 end.
Definition lowest (b : bb) : option square := match b with N0 => None | Npos p => Some (ctz_pos p) end.
Definition highest (b : bb) : option square := match b with N0 => None | _ => Some (N.log2 b) end.
Fixpoint pbits (p : positive) (k : N) : list N :=
  match p with xH => [k] | xO q => pbits q (N.succ k) | xI q => k :: pbits q (N.succ k) end.
Definition bits (b : bb) : list square := match b with N0 => [] | Npos p => pbits p 0 end.
Fixpoint popc_pos (p : positive) : nat := match p with xH => 1 | xO q => popc_pos q | xI q => S (popc_pos q) end.
Definition popcount (b : bb) : nat := match b with N0 => O | Npos p => popc_pos p end.

(* ---- tables (here computed from geometry; in the real development they are the dumped library tables) ---- *)
Definition dirs8 : list (Z*Z) := [(1,0);(-1,0);(0,1);(0,-1);(1,1);(1,-1);(-1,1);(-1,-1)]%Z.
Definition tab (f : square -> bb) : list bb := map f squares.
Definition look (t : list bb) (s : square) : bb := nth (N.to_nat s) t 0.
Definition KNIGHT_T := Eval vm_compute in tab (fun s => of_list (steps s knight_offs)).
Definition KING_T := Eval vm_compute in tab (fun s => of_list (steps s king_offs)).
Definition RAYS_T := Eval vm_compute in map (fun s => map (fun d => of_list (line s d)) dirs8) squares.
Definition rays (s : square) : list bb := nth (N.to_nat s) RAYS_T [].
Definition BISHOP_T := Eval vm_compute in tab (fun s => fold_left N.lor (skipn 4 (rays s)) 0).
Definition ROOK_T := Eval vm_compute in tab (fun s => fold_left N.lor (firstn 4 (rays s)) 0).
Fixpoint prefix_before (t : square) (l : list square) : option (list square) :=
  match l with [] => None | u :: r => if N.eqb u t then Some [] else option_map (cons u) (prefix_before t r) end.
Definition between_geo (a b : square) : option bb :=
  if N.eqb a b then Some 0 else
  fold_left (fun acc d => match acc with Some x => Some x | None => option_map of_list (prefix_before b (line a d)) end) dirs8 None.
Definition BETWEEN_T := Eval vm_compute in map (fun a => map (between_geo a) squares) squares.
Definition between (a b : square) : option bb := nth (N.to_nat b) (nth (N.to_nat a) BETWEEN_T []) None.
Definition pawn_push c s := match step s (fwd c, 0%Z) with Some t => bit t | None => 0 end.
Definition pawn_double c s := if N.eqb (rank s) (start_rank c) then match step s ((2 * fwd c)%Z, 0%Z) with Some t => bit t | None => 0 end else 0.
Definition pawn_caps c s := of_list (steps s [(fwd c, 1%Z); (fwd c, (-1)%Z)]).
Definition PAWN_PUSH_W := Eval vm_compute in tab (pawn_push White).
Definition PAWN_PUSH_B := Eval vm_compute in tab (pawn_push Black).
Definition PAWN_DBL_W := Eval vm_compute in tab (pawn_double White).
Definition PAWN_DBL_B := Eval vm_compute in tab (pawn_double Black).
Definition PAWN_CAP_W := Eval vm_compute in tab (pawn_caps White).
Definition PAWN_CAP_B := Eval vm_compute in tab (pawn_caps Black).

(* ---- board ---- *)
Record board := {
  m_pawn : bb; m_knight : bb; m_bishop : bb; m_rook : bb; m_queen : bb; m_king : bb;
  m_white : bb; m_black : bb; m_all : bb;
  b_stm : color; b_wr : bool * bool (* K,Q *); b_br : bool * bool; b_ep : option square;
  b_pinned : bb; b_checks : bb }.
Definition tmask b t := match t with Pawn => m_pawn b | Knight => m_knight b | Bishop => m_bishop b | Rook => m_rook b | Queen => m_queen b | King => m_king b end.
Definition cmask b c := match c with White => m_white b | Black => m_black b end.
Definition with_t b t (f : bb -> bb) : board :=
  {| m_pawn := (if ptype_eqb t Pawn then f else id) (m_pawn b); m_knight := (if ptype_eqb t Knight then f else id) (m_knight b);
     m_bishop := (if ptype_eqb t Bishop then f else id) (m_bishop b); m_rook := (if ptype_eqb t Rook then f else id) (m_rook b);
     m_queen := (if ptype_eqb t Queen then f else id) (m_queen b); m_king := (if ptype_eqb t King then f else id) (m_king b);
     m_white := m_white b; m_black := m_black b; m_all := m_all b; b_stm := b_stm b; b_wr := b_wr b; b_br := b_br b; b_ep := b_ep b;
     b_pinned := b_pinned b; b_checks := b_checks b |}.
Definition with_c b c (f : bb -> bb) : board :=
  {| m_pawn := m_pawn b; m_knight := m_knight b; m_bishop := m_bishop b; m_rook := m_rook b; m_queen := m_queen b; m_king := m_king b;
     m_white := (if color_eqb c White then f else id) (m_white b); m_black := (if color_eqb c Black then f else id) (m_black b);
     m_all := f (m_all b); b_stm := b_stm b; b_wr := b_wr b; b_br := b_br b; b_ep := b_ep b; b_pinned := b_pinned b; b_checks := b_checks b |}.
Definition type_on b s : option ptype := find (fun t => has (tmask b t) s) [Pawn;Knight;Bishop;Rook;Queen;King].
Definition piece_on b s : option piece :=
  if has (m_all b) s then match type_on b s with Some t => Some (t, if has (m_white b) s then White else Black) | None => None end else None.
Definition clear_square b s : board :=
  match piece_on b s with
  | Some (t, c) => let k := bnot (bit s) in with_c (with_t b t (N.land k)) c (N.land k)
  | None => b end.
Definition put_piece b (pc : piece) s : board :=
  let b1 := if has (m_all b) s then clear_square b s else b in
  with_c (with_t b1 (fst pc) (N.lxor (bit s))) (snd pc) (N.lxor (bit s)).
Definition empty_board : board :=
  {| m_pawn := 0; m_knight := 0; m_bishop := 0; m_rook := 0; m_queen := 0; m_king := 0; m_white := 0; m_black := 0; m_all := 0;
     b_stm := White; b_wr := (false,false); b_br := (false,false); b_ep := None; b_pinned := 0; b_checks := 0 |}.
Definition king_square b c : option square := lowest (N.land (m_king b) (cmask b c)).

Definition pins_and_checks (b : board) (sq : square) : bb * bb :=
  let c := b_stm b in let o := opp c in
  let bq := N.lor (m_bishop b) (m_queen b) in let rq := N.lor (m_rook b) (m_queen b) in
  let attackers := N.land (cmask b o) (N.lor (N.land (look BISHOP_T sq) bq) (N.land (look ROOK_T sq) rq)) in
  let '(pinned, checks) := fold_left (fun acc a =>
      match between sq a with
      | Some m => let btw := N.land (m_all b) m in
          match popcount btw with O => (fst acc, N.lor (snd acc) (bit a)) | 1%nat => (N.lor (fst acc) btw, snd acc) | _ => acc end
      | None => acc end) (bits attackers) (0, 0) in
  let pinned := N.land pinned (cmask b c) in
  let checks := N.lor checks (N.land (cmask b o) (N.lor (N.land (look KNIGHT_T sq) (m_knight b)) (N.land (look KING_T sq) (m_king b)))) in
  let pawn_att := N.land (N.land (cmask b o) (m_pawn b)) (look (match c with White => PAWN_CAP_W | Black => PAWN_CAP_B end) sq) in
  (pinned, N.lor checks pawn_att).
Definition update_pins_checks b : board :=
  match king_square b (b_stm b) with
  | Some k => let '(p, c) := pins_and_checks b k in
     {| m_pawn := m_pawn b; m_knight := m_knight b; m_bishop := m_bishop b; m_rook := m_rook b; m_queen := m_queen b; m_king := m_king b;
        m_white := m_white b; m_black := m_black b; m_all := m_all b; b_stm := b_stm b; b_wr := b_wr b; b_br := b_br b; b_ep := b_ep b;
        b_pinned := p; b_checks := c |}
  | None => b end.
Definition is_under_attack b sq := negb (N.eqb (snd (pins_and_checks b sq)) 0).

Definition truncate_rays (b : board) (idx : list nat) (s : square) : bb :=
  let rs := rays s in
  let legals := fold_left (fun acc i =>
     let ray := nth i rs 0 in
     let blk := N.land ray (m_all b) in
     let nearest := match i with 0%nat | 2%nat | 4%nat | 5%nat => lowest blk | _ => highest blk end in
     N.lxor acc (match nearest with None => ray | Some t => match between s t with Some m => N.lxor m (bit t) | None => 0 end end)) idx 0 in
  N.land legals (bnot (cmask b (b_stm b))).
Definition piece_moves_mask (b : board) (t : ptype) (s : square) : bb :=
  let c := b_stm b in let own := cmask b c in
  match t with
  | Pawn =>
     let epm := match b_ep b with Some e => bit e | None => 0 end in
     let capsq := N.lor (cmask b (opp c)) epm in
     let single := N.land (look (match c with White => PAWN_PUSH_W | Black => PAWN_PUSH_B end) s) (bnot (m_all b)) in
     let dbl := if N.eqb single 0 then 0 else N.land (look (match c with White => PAWN_DBL_W | Black => PAWN_DBL_B end) s) (bnot (m_all b)) in
     N.lor (N.lor single dbl) (N.land (look (match c with White => PAWN_CAP_W | Black => PAWN_CAP_B end) s) capsq)
  | Knight => N.land (look KNIGHT_T s) (bnot own)
  | King => N.land (look KING_T s) (bnot own)
  | Bishop => truncate_rays b [4;5;6;7]%nat s
  | Rook => truncate_rays b [0;1;2;3]%nat s
  | Queen => truncate_rays b [0;1;2;3;4;5;6;7]%nat s
  end.
Definition move_piece b (t : ptype) (s d : square) (promo : option ptype) : board :=
  match piece_on b s with
  | Some (_, c) => put_piece (clear_square b s) (match promo with Some q => q | None => t end, c) d
  | None => b end.
Definition is_ep_move b t d := ptype_eqb t Pawn && osq_eqb (b_ep b) (Some d).
Definition clear_ep_victim b t d : board :=
  if is_ep_move b t d then
    match (match b_stm b with White => step d ((-1)%Z, 0%Z) | Black => step d (1%Z, 0%Z) end) with Some v => clear_square b v | None => b end
  else b.
Definition check_mask_after b t s d : bb :=
  (* note: ep test uses the board before the move, as in the Rust (self is a copy whose ep is unchanged) *)
  let b1 := move_piece b t s d None in
  b_checks (update_pins_checks (clear_ep_victim b1 t d)).
Definition needs_eval b t s d := negb (N.eqb (b_checks b) 0) || ptype_eqb t King || is_ep_move b t d || has (b_pinned b) s.
Definition castling_available (b : board) : bool * bool :=
  if negb (N.eqb (b_checks b) 0) then (false, false) else
  let c := b_stm b in let r := home_rank c in
  let '(rk, rq) := match c with White => b_wr b | Black => b_br b end in
  let ks := rk && negb (is_under_attack b (mk_sq r 5)) && negb (is_under_attack b (mk_sq r 6))
            && N.eqb (N.land (N.lxor (bit (mk_sq r 5)) (bit (mk_sq r 6))) (m_all b)) 0 in
  let qs := rq && negb (is_under_attack b (mk_sq r 3)) && negb (is_under_attack b (mk_sq r 2))
            && N.eqb (N.land (N.lxor (N.lxor (bit (mk_sq r 3)) (bit (mk_sq r 2))) (bit (mk_sq r 1))) (m_all b)) 0 in
  (ks, qs).
Definition legal_moves (b : board) : list bmove :=
  let c := b_stm b in
  flat_map (fun t =>
    flat_map (fun s =>
      let dests := filter (fun d => if needs_eval b t s d then N.eqb (check_mask_after b t s d) 0 else true) (bits (piece_moves_mask b t s)) in
      flat_map (fun d =>
        if ptype_eqb t Pawn && N.eqb (rank d) (last_rank c)
        then map (fun q => MovePiece {| pm_type := Pawn; pm_from := s; pm_to := d; pm_promo := Some q |}) [Knight;Bishop;Rook;Queen]
        else [MovePiece {| pm_type := t; pm_from := s; pm_to := d; pm_promo := None |}]) dests)
      (bits (N.land (cmask b c) (tmask b t))))
    [Pawn;Knight;Bishop;Rook;Queen;King]
  ++ (let '(ks, qs) := castling_available b in (if ks then [CastleK] else []) ++ (if qs then [CastleQ] else [])).

Definition of_pos (p : pos) : board :=
  let b0 := fold_left (fun b s => match piece_at p s with Some pc => put_piece b pc s | None => b end) squares empty_board in
  update_pins_checks
  {| m_pawn := m_pawn b0; m_knight := m_knight b0; m_bishop := m_bishop b0; m_rook := m_rook b0; m_queen := m_queen b0; m_king := m_king b0;
     m_white := m_white b0; m_black := m_black b0; m_all := m_all b0; b_stm := stm p;
     b_wr := (right_k p White, right_q p White); b_br := (right_k p Black, right_q p Black); b_ep := ep p; b_pinned := 0; b_checks := 0 |}.
