(* Feasibility prototype for L2: mask invariant, piece_on after clear_square / put_piece *)
Require Import Chess BoardM.
From Coq Require Import List NArith ZArith Bool Lia.
Import ListNotations.
Open Scope N_scope.

Definition all_types := [Pawn;Knight;Bishop;Rook;Queen;King].

(* interface lemmas for the record updates: proofs below never look inside with_t / with_c *)
Lemma tmask_with_t b t f t' : tmask (with_t b t f) t' = if ptype_eqb t t' then f (tmask b t') else tmask b t'.
Proof. destruct t, t'; reflexivity. Qed.
Lemma cmask_with_t b t f c : cmask (with_t b t f) c = cmask b c.
Proof. destruct c; reflexivity. Qed.
Lemma all_with_t b t f : m_all (with_t b t f) = m_all b.
Proof. reflexivity. Qed.
Lemma tmask_with_c b c f t : tmask (with_c b c f) t = tmask b t.
Proof. destruct t; reflexivity. Qed.
Lemma cmask_with_c b c f c' : cmask (with_c b c f) c' = if color_eqb c c' then f (cmask b c') else cmask b c'.
Proof. destruct c, c'; reflexivity. Qed.
Lemma all_with_c b c f : m_all (with_c b c f) = f (m_all b).
Proof. reflexivity. Qed.

Lemma ptype_eqb_eq a b : ptype_eqb a b = true <-> a = b.
Proof. destruct a, b; cbn; split; congruence. Qed.
Lemma ptype_eqb_refl a : ptype_eqb a a = true.
Proof. now destruct a. Qed.

(* bit facts *)
Lemma has_bit s x : has (bit s) x = N.eqb s x.
Proof. unfold has, bit. rewrite N.shiftl_1_l. apply N.pow2_bits_eqb. Qed.
Lemma ones64_spec x : N.testbit ones64 x = (x <? 64).
Proof.
  change ones64 with (N.ones 64). destruct (N.ltb_spec x 64).
  - rewrite N.ones_spec_low; [reflexivity|lia].
  - rewrite N.ones_spec_high; [reflexivity|lia].
Qed.
Lemma has_clearmask s x : s < 64 -> has (bnot (bit s)) x = (x <? 64) && negb (N.eqb s x).
Proof.
  intros Hs. unfold has, bnot. rewrite N.lxor_spec, ones64_spec. fold (has (bit s) x). rewrite has_bit.
  destruct (N.eqb_spec s x) as [->|Hne].
  - assert (x <? 64 = true) as -> by (apply N.ltb_lt; lia). reflexivity.
  - rewrite xorb_false_l. cbn [negb]. now rewrite andb_true_r.
Qed.

(* the representation invariant on masks *)
Record MaskInv (b : board) : Prop := {
  mi_small : forall t x, has (tmask b t) x = true -> x < 64;
  mi_types_disj : forall t t' x, t <> t' -> has (tmask b t) x = true -> has (tmask b t') x = false;
  mi_all_types : forall x, has (m_all b) x = existsb (fun t => has (tmask b t) x) all_types;
  mi_all_colors : forall x, has (m_all b) x = has (m_white b) x || has (m_black b) x;
  mi_colors_disj : forall x, has (m_white b) x && has (m_black b) x = false }.

(* type_on picks the unique type *)
Lemma type_on_Some b x t : MaskInv b -> (type_on b x = Some t <-> has (tmask b t) x = true).
Proof.
  intros I. unfold type_on. change [Pawn; Knight; Bishop; Rook; Queen; King] with all_types. split.
  - intros H. apply find_some in H. destruct H as [_ H]. exact H.
  - intros H. destruct (find (fun t0 => has (tmask b t0) x) all_types) as [t0|] eqn:E.
    + apply find_some in E as [_ E]. destruct (ptype_eqb t t0) eqn:Et.
      * apply ptype_eqb_eq in Et. now subst.
      * assert (t <> t0) as Hne by (intros ->; now rewrite ptype_eqb_refl in Et).
        rewrite (mi_types_disj b I t t0 x Hne H) in E. discriminate.
    + exfalso. assert (In t all_types) as Hin by (destruct t; cbn; tauto).
      pose proof (find_none _ _ E t Hin) as Hf. cbv beta in Hf. congruence.
Qed.

Lemma piece_on_Some b x t c : MaskInv b ->
  (piece_on b x = Some (t, c) <-> has (tmask b t) x = true /\ has (cmask b c) x = true).
Proof.
  intros I. unfold piece_on. rewrite (mi_all_types b I).
  destruct (existsb (fun t0 => has (tmask b t0) x) all_types) eqn:E.
  - apply existsb_exists in E as [t0 [_ Ht0]]. pose proof (proj2 (type_on_Some b x t0 I) Ht0) as ->.
    assert (Hall : has (m_all b) x = true). { rewrite (mi_all_types b I). apply existsb_exists. exists t0. split; [destruct t0; cbn; tauto|exact Ht0]. }
    rewrite (mi_all_colors b I) in Hall. pose proof (mi_colors_disj b I x) as Hd.
    split.
    + intros [= <- <-]. split; [exact Ht0|]. destruct (has (m_white b) x) eqn:W; cbn [cmask]; [exact W|]. cbn in Hall. exact Hall.
    + intros [Ht Hc]. destruct (ptype_eqb t t0) eqn:Et.
      * apply ptype_eqb_eq in Et. subst t0. f_equal. f_equal.
        destruct c; cbn [cmask] in Hc.
        -- now rewrite Hc.
        -- rewrite Hc, andb_true_r in Hd. now rewrite Hd.
      * assert (t <> t0) as Hne by (intros ->; now rewrite ptype_eqb_refl in Et).
        rewrite (mi_types_disj b I t t0 x Hne Ht) in Ht0. discriminate.
  - split; [discriminate|]. intros [Ht _]. exfalso.
    assert (existsb (fun t0 => has (tmask b t0) x) all_types = true); [|congruence].
    apply existsb_exists. exists t. split; [destruct t; cbn; tauto|exact Ht].
Qed.

(* clear_square on an occupied square *)
Section Clear.
Variables (b : board) (s : square) (t : ptype) (c : color).
Hypothesis I : MaskInv b.
Hypothesis Hs : s < 64.
Hypothesis Hp : piece_on b s = Some (t, c).
Let b' := clear_square b s.

Lemma clear_tmask t' x : has (tmask b' t') x = has (tmask b t') x && negb (ptype_eqb t t' && N.eqb s x).
Proof.
  unfold b', clear_square. rewrite Hp. rewrite tmask_with_c, tmask_with_t.
  destruct (ptype_eqb t t') eqn:E; cbn [andb].
  - unfold has. rewrite N.land_spec. fold (has (bnot (bit s)) x) (has (tmask b t') x). rewrite has_clearmask by exact Hs.
    destruct (has (tmask b t') x) eqn:Hx; [|now rewrite andb_false_r].
    rewrite (proj2 (N.ltb_lt x 64) (mi_small b I t' x Hx)). destruct (N.eqb s x); reflexivity.
  - now rewrite andb_true_r.
Qed.
End Clear.
Check clear_tmask.
Print Assumptions piece_on_Some.
