From Coq Require Import List NArith PArith Bool Lia.
Import ListNotations.
Open Scope N_scope.

(* ascending list of set-bit indices of a positive, offset by k *)
Fixpoint pbits (p:positive) (k:N) : list N :=
  match p with
  | xH => [k]
  | xO q => pbits q (N.succ k)
  | xI q => k :: pbits q (N.succ k)
  end.
Definition bits (b:N) : list N := match b with N0 => [] | Npos p => pbits p 0 end.

Fixpoint ctz_pos (p:positive) : N := match p with xO q => N.succ (ctz_pos q) | _ => 0 end.
Definition lowest (b:N) : option N := match b with N0 => None | Npos p => Some (ctz_pos p) end.

(* Rust iterator: next = to_square (ctz); self ^= bit *)
Fixpoint iter (fuel:nat) (b:N) : list N :=
  match fuel with O => [] | S f =>
    match lowest b with None => [] | Some t => t :: iter f (N.lxor b (N.shiftl 1 t)) end end.

Fixpoint popcount_pos (p:positive) : nat := match p with xH => 1 | xO q => popcount_pos q | xI q => S (popcount_pos q) end.
Definition popcount (b:N) : nat := match b with N0 => 0%nat | Npos p => popcount_pos p end.

Lemma pbits_length p k : length (pbits p k) = popcount_pos p.
Proof. revert k; induction p; intros k; cbn; auto. Qed.

(* membership: In i (pbits p k) <-> i >= k /\ testbit (pos p) (i-k) *)
Lemma pbits_In p : forall k i, In i (pbits p k) <-> (k <= i /\ N.testbit (Npos p) (i - k) = true).
Proof.
  induction p as [q IH|q IH|]; intros k i; cbn [pbits].
  - cbn [In]. rewrite IH. split.
    + intros [<-|[H1 H2]]. { split; [lia|]. now rewrite N.sub_diag. }
      split; [lia|]. replace (i - k) with (N.succ (i - N.succ k)) by lia.
      rewrite <- H2. change (N.pos q~1) with (2 * N.pos q + 1). now rewrite N.testbit_odd_succ by lia.
    + intros [H1 H2]. destruct (N.eq_dec k i) as [->|Hne]; [now left|right].
      split; [lia|]. replace (i - k) with (N.succ (i - N.succ k)) in H2 by lia.
      change (N.pos q~1) with (2 * N.pos q + 1) in H2. now rewrite N.testbit_odd_succ in H2 by lia.
  - rewrite IH. split.
    + intros [H1 H2]. split; [lia|]. replace (i - k) with (N.succ (i - N.succ k)) by lia.
      change (N.pos q~0) with (2 * N.pos q). now rewrite N.testbit_even_succ by lia.
    + intros [H1 H2]. destruct (N.eq_dec k i) as [->|Hne].
      { rewrite N.sub_diag in H2. discriminate. }
      split; [lia|]. replace (i - k) with (N.succ (i - N.succ k)) in H2 by lia.
      change (N.pos q~0) with (2 * N.pos q) in H2. now rewrite N.testbit_even_succ in H2 by lia.
  - cbn [In]. split.
    + intros [<-|[]]. split; [lia|]. now rewrite N.sub_diag.
    + intros [H1 H2]. left. destruct (N.eq_dec (i-k) 0) as [E|E]; [lia|].
      exfalso. destruct (i - k) eqn:E2; [lia|]. cbn in H2. destruct p; discriminate.
Qed.

Lemma bits_In b i : In i (bits b) <-> N.testbit b i = true.
Proof.
  destruct b as [|p]; cbn [bits].
  - rewrite N.bits_0. split; [intros []|discriminate].
  - rewrite pbits_In, N.sub_0_r. split; [tauto|]. intros H; split; [lia|exact H].
Qed.

(* strictly ascending *)
Lemma pbits_lb p : forall k i, In i (pbits p k) -> k <= i.
Proof. intros k i H. apply pbits_In in H. tauto. Qed.

Require Import Sorted.
Lemma pbits_sorted p : forall k, StronglySorted N.lt (pbits p k).
Proof.
  induction p as [q IH|q IH|]; intros k; cbn [pbits].
  - constructor; [apply IH|]. apply Forall_forall. intros x Hx. apply pbits_lb in Hx. lia.
  - apply IH.
  - repeat constructor.
Qed.


(* head of pbits is k + ctz *)
Lemma pbits_head p : forall k, exists r, pbits p k = (k + ctz_pos p) :: r.
Proof.
  induction p as [q IH|q IH|]; intros k; cbn [pbits ctz_pos].
  - eexists. now rewrite N.add_0_r.
  - destruct (IH (N.succ k)) as [r Hr]. exists r. rewrite Hr. f_equal. lia.
  - eexists. now rewrite N.add_0_r.
Qed.

Lemma sorted_ext (l1 l2 : list N) : StronglySorted N.lt l1 -> StronglySorted N.lt l2 ->
  (forall x, In x l1 <-> In x l2) -> l1 = l2.
Proof.
  revert l2; induction l1 as [|a l1 IH]; intros l2 S1 S2 H.
  - destruct l2 as [|b l2]; [reflexivity|]. exfalso. apply (H b). now left.
  - destruct l2 as [|b l2]. { exfalso. apply (H a). now left. }
    inversion S1 as [|? ? S1' F1]; subst. inversion S2 as [|? ? S2' F2]; subst.
    rewrite Forall_forall in F1, F2.
    assert (a = b).
    { destruct (proj1 (H a) (or_introl eq_refl)) as [E|E]; [now symmetry|].
      destruct (proj2 (H b) (or_introl eq_refl)) as [E'|E']; [exact E'|].
      specialize (F1 _ E'). specialize (F2 _ E). lia. }
    subst b. f_equal. apply IH; auto. intros x. split; intros Hx.
    + destruct (proj1 (H x) (or_intror Hx)) as [E|E]; [|exact E]. subst x. specialize (F1 _ Hx). lia.
    + destruct (proj2 (H x) (or_intror Hx)) as [E|E]; [|exact E]. subst x. specialize (F2 _ Hx). lia.
Qed.

Lemma bits_sorted b : StronglySorted N.lt (bits b).
Proof. destruct b; cbn; [constructor|apply pbits_sorted]. Qed.

Lemma bits_clear_lowest b t : lowest b = Some t -> bits b = t :: bits (N.lxor b (N.shiftl 1 t)).
Proof.
  intros Hl. destruct b as [|p]; [discriminate|]. cbn in Hl. injection Hl as <-.
  destruct (pbits_head p 0) as [r Hr]. rewrite N.add_0_l in Hr. cbn [bits]. rewrite Hr. f_equal.
  pose proof (bits_sorted (Npos p)) as S. cbn [bits] in S. rewrite Hr in S. inversion S as [|? ? S' F]; subst.
  apply sorted_ext; [exact S'|apply bits_sorted|]. rewrite Forall_forall in F.
  intros x. rewrite bits_In, N.lxor_spec, N.shiftl_1_l, N.pow2_bits_eqb.
  pose proof (bits_In (Npos p) x) as HI. cbn [bits] in HI. rewrite Hr in HI. cbn [In] in HI.
  destruct (N.eqb_spec (ctz_pos p) x) as [E|E].
  - subst x. split.
    + intros Hx. specialize (F _ Hx). lia.
    + intros Hx. assert (N.testbit (N.pos p) (ctz_pos p) = true) as Ht by (apply HI; now left).
      rewrite Ht in Hx. discriminate.
  - rewrite xorb_false_r. split.
    + intros Hx. apply HI. now right.
    + intros Hx. apply HI in Hx. destruct Hx; [contradiction|assumption].
Qed.

Lemma iter_bits fuel : forall b, (length (bits b) <= fuel)%nat -> iter fuel b = bits b.
Proof.
  induction fuel as [|f IH]; intros b Hb.
  - destruct (bits b); [reflexivity|cbn in Hb; lia].
  - cbn [iter]. destruct (lowest b) as [t|] eqn:E.
    + rewrite (bits_clear_lowest _ _ E). f_equal. apply IH. rewrite (bits_clear_lowest _ _ E) in Hb. cbn [length] in Hb. lia.
    + destruct b; [reflexivity|discriminate].
Qed.
Print Assumptions iter_bits.
