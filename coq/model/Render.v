(* model/Render.v — text renderings with the `colored` escape sequences removed:
   ChessBoard::render_straight / render_flipped (chess_boards.rs), Display for BitBoard
   (bitboards.rs), Display for GameStatus (games.rs). *)
Require Import LC.model.Prims LC.model.Tables LC.model.Board LC.model.Text.
From Coq Require Import String.
Open Scope N_scope.

(* UTF-8 bytes of the box-drawing characters *)
Definition box_v : bytes := [226;149;145].        (* ║ *)
Definition box_h : bytes := [226;149;144].        (* ═ *)
Definition box_tl : bytes := [226;149;148].       (* ╔ *)
Definition box_tr : bytes := [226;149;151].       (* ╗ *)
Definition box_bl : bytes := [226;149;154].       (* ╚ *)
Definition box_br : bytes := [226;149;157].       (* ╝ *)
Definition rep {A} (n : nat) (l : list A) : list A := List.concat (repeat l n).

Section WithKeys.
Variable K : zkeys.

Definition render_cell (b : board) (s : square) : res bytes :=
  if is_empty_square b s then Ok (B "   ") else
  ot <- piece_type_on b s ;; t <- unwrap_o ot ;;
  c <- unwrap_o (piece_color_on b s) ;;
  Ok (map (match c with White => upper | Black => lower end) (B " " ++ letter t ++ B " ")).

Definition render (b : board) (ranks files : list N) (footer : bytes) : res bytes :=
  field <- fold_left (fun acc r => a <- acc ;;
       row <- fold_left (fun acc2 f => x <- acc2 ;; c <- render_cell b (mk_sq r f) ;; Ok (x ++ c)) files
                (Ok (a ++ print_dec (r + 1) ++ B "  " ++ box_v)) ;;
       Ok (row ++ box_v ++ [10])) ranks (Ok []) ;;
  Ok (B "   " ++ print_color (b_stm b) ++ B "  " ++ map upper (print_cr (b_wr b)) ++ print_cr (b_br b) ++ [10]
      ++ B "   " ++ box_tl ++ rep 24 box_h ++ box_tr ++ [10]
      ++ field
      ++ B "   " ++ box_bl ++ rep 24 box_h ++ box_br ++ [10]
      ++ footer ++ [10]).
Definition render_straight b := render b [7;6;5;4;3;2;1;0] idx8 (B "     a  b  c  d  e  f  g  h").
Definition render_flipped b := render b idx8 [7;6;5;4;3;2;1;0] (B "     h  g  f  e  d  c  b  a").
End WithKeys.

(* Display for BitBoard: for r in (0..8).rev() { for f in 0..8 { "X " | ". " } '\n' } *)
Definition render_bb (x : bb) : bytes :=
  flat_map (fun r => flat_map (fun f => if N.land x (bit (r * 8 + f)) =? bit (r * 8 + f) then B "X " else B ". ") idx8 ++ [10])
           [7;6;5;4;3;2;1;0].
