(* model/Tables.v — the table generators of src/move_masks/*.rs, loop for loop.
   Each generator is a total function; the tables the board model uses are the
   [Eval vm_compute] constants below (lists indexed by square).  gen/TablesOk.v proves,
   on every run, that the tables dumped from the running library are these lists. *)
Require Import LC.model.Prims.
Open Scope N_scope.

Definition zabs := Z.abs.
Definition look (t : list bb) (s : square) : bb := nth (N.to_nat s) t 0.

(* for source in 0..64 { let mut mask = BLANK; for dest in 0..64 { if cond(diffs) { mask |= bit dest } } } *)
Definition scan (cond : square -> square -> bool) (src : square) : bb :=
  fold_left (fun m d => if cond src d then N.lor m (bit d) else m) squares 0.

(* knights.rs *)
Definition knight_cond (s d : square) : bool :=
  let '(dy, dx) := offsets_from s d in
  let a := zabs dy in let b := zabs dx in
  ((a =? 2) && (b =? 1))%Z || ((a =? 1) && (b =? 2))%Z.
Definition gen_knight : list bb := map (scan knight_cond) squares.

(* kings.rs: distances <= 1 in both coordinates, then xor the source square out *)
Definition king_cond (s d : square) : bool :=
  let '(dy, dx) := offsets_from s d in ((zabs dy <=? 1) && (zabs dx <=? 1))%Z.
Definition gen_king : list bb := map (fun s => N.lxor (scan king_cond s) (bit s)) squares.

(* rays.rs: 0 up, 1 down, 2 right, 3 left, 4 up-right, 5 up-left, 6 down-right, 7 down-left *)
Definition ray_cond (i : nat) (dy dx : Z) : bool :=
  let diag := (zabs dy - zabs dx =? 0)%Z in
  match i with
  | 0%nat => (dy >? 0)%Z && (dx =? 0)%Z
  | 1%nat => (dy <? 0)%Z && (dx =? 0)%Z
  | 2%nat => (dy =? 0)%Z && (dx >? 0)%Z
  | 3%nat => (dy =? 0)%Z && (dx <? 0)%Z
  | 4%nat => diag && (dx >? 0)%Z && (dy >? 0)%Z
  | 5%nat => diag && (dx <? 0)%Z && (dy >? 0)%Z
  | 6%nat => diag && (dx >? 0)%Z && (dy <? 0)%Z
  | 7%nat => diag && (dx <? 0)%Z && (dy <? 0)%Z
  | _ => false end.
Definition gen_rays_sq (s : square) : list bb :=
  map (fun i => scan (fun a d => let '(dy, dx) := offsets_from a d in ray_cond i dy dx) s) (seq 0 8).
Definition gen_rays : list (list bb) := map gen_rays_sq squares.

(* bishops.rs / rooks.rs / queens.rs : OR of the rays 4..8 / 0..4 / 0..8 *)
Definition or_all (l : list bb) : bb := fold_left N.lor l 0.
Definition gen_bishop (rays : list (list bb)) : list bb := map (fun r => or_all (skipn 4 r)) rays.
Definition gen_rook (rays : list (list bb)) : list bb := map (fun r => or_all (firstn 4 r)) rays.
Definition gen_queen (rays : list (list bb)) : list bb := map or_all rays.

(* pawns.rs: set_moves / set_double_moves overwrite (at most one destination satisfies the test),
   captures accumulate *)
Definition pawn_push_cond (c : color) (s d : square) : bool :=
  let '(dy, dx) := offsets_from s d in
  (match c with White => (dy =? 1) && (dx =? 0) | Black => (dy =? -1) && (dx =? 0) end)%Z.
Definition pawn_double_cond (c : color) (s d : square) : bool :=
  let '(dy, dx) := offsets_from s d in
  negb (pawn_push_cond c s d) &&
  (match c with White => (dy =? 2) && (dx =? 0) && (rank s =? 1)%N | Black => (dy =? -2) && (dx =? 0) && (rank s =? 6)%N end)%Z.
Definition scan_last (cond : square -> square -> bool) (src : square) : bb :=
  fold_left (fun m d => if cond src d then bit d else m) squares 0.
Definition pawn_cap_cond (c : color) (s d : square) : bool :=
  let '(dy, dx) := offsets_from s d in
  (match c with White => (dy =? 1) && (zabs dx =? 1) | Black => (dy =? -1) && (zabs dx =? 1) end)%Z.
Definition gen_pawn_push c : list bb := map (scan_last (pawn_push_cond c)) squares.
Definition gen_pawn_double c : list bb := map (scan_last (pawn_double_cond c)) squares.
Definition gen_pawn_cap c : list bb := map (scan (pawn_cap_cond c)) squares.

(* between.rs: triangular table [Option<BitBoard>; 64*65/2], index 64a-(a-1)a/2+b-a for a<=b *)
Definition tri_index (a b : N) : N :=
  let '(a, b) := if b <? a then (b, a) else (a, b) in
  let off := Z.to_N (64 * Z.of_N a - (Z.of_N a - 1) * Z.of_N a / 2)%Z in off + b - a.
Definition between_entry (a b : square) : option bb :=   (* the value stored for a <= b *)
  if a =? b then Some 0 else
  let '(dy, dx) := offsets_from a b in
  let ay := zabs dy in let ax := zabs dx in
  if ((ay =? ax) || (ay =? 0) || (ax =? 0))%Z then
    let md := Z.max ay ax in
    Some (fold_left (fun m i =>
            let r := (Z.of_N (rank a) + dy / md * Z.of_nat i)%Z in
            let f := (Z.of_N (file a) + dx / md * Z.of_nat i)%Z in
            N.lor m (bit (mk_sq (Z.to_N r) (Z.to_N f)))) (seq 1 (Z.to_nat md - 1)) 0)
  else None.
Definition gen_between : list (option bb) :=
  fold_left (fun t a =>
    fold_left (fun t b => if a <=? b then set_nth (N.to_nat (tri_index a b)) (between_entry a b) t else t) squares t)
    squares (repeat None 2080).

(* ---- the constants used by the board model ---- *)
Definition KNIGHT_T := Eval vm_compute in gen_knight.
Definition KING_T := Eval vm_compute in gen_king.
Definition RAYS_T := Eval vm_compute in gen_rays.
Definition BISHOP_T := Eval vm_compute in gen_bishop RAYS_T.
Definition ROOK_T := Eval vm_compute in gen_rook RAYS_T.
Definition QUEEN_T := Eval vm_compute in gen_queen RAYS_T.
Definition PAWN_PUSH_W := Eval vm_compute in gen_pawn_push White.
Definition PAWN_PUSH_B := Eval vm_compute in gen_pawn_push Black.
Definition PAWN_DBL_W := Eval vm_compute in gen_pawn_double White.
Definition PAWN_DBL_B := Eval vm_compute in gen_pawn_double Black.
Definition PAWN_CAP_W := Eval vm_compute in gen_pawn_cap White.
Definition PAWN_CAP_B := Eval vm_compute in gen_pawn_cap Black.
Definition BETWEEN_T := Eval vm_compute in gen_between.
(* BetweenTable::get(a,b) = table[tri_index a b], memoised as 64 rows of 64 for fast lookup *)
Definition between_get (a b : square) : option bb := nth (N.to_nat (tri_index a b)) BETWEEN_T None.
Definition BETWEEN_ROWS := Eval vm_compute in map (fun a => map (between_get a) squares) squares.

Definition rays (s : square) : list bb := nth (N.to_nat s) RAYS_T [].
Definition ray (s : square) (i : nat) : bb := nth i (rays s) 0.
Definition between (a b : square) : option bb := nth (N.to_nat b) (nth (N.to_nat a) BETWEEN_ROWS []) None.
Definition pawn_push c := look (match c with White => PAWN_PUSH_W | Black => PAWN_PUSH_B end).
Definition pawn_double c := look (match c with White => PAWN_DBL_W | Black => PAWN_DBL_B end).
Definition pawn_cap c := look (match c with White => PAWN_CAP_W | Black => PAWN_CAP_B end).
