(* model/Board.v — src/chess_boards.rs (position, move generation, move application,
   status, validation) and src/zobrist.rs (hash), function for function on N bitboards.
   Every data-dependent Rust panic (unwrap, unreachable!) is the outcome [Panic]. *)
Require Import LC.model.Prims LC.model.Tables.
Open Scope N_scope.

(* ---------- Zobrist keys: data, read from the running library (gen/ZobristKeys.v) ---------- *)
Record zkeys := {
  zk_piece : color -> ptype -> square -> N;
  zk_castle : color -> cr -> N;
  zk_ep : N -> N;                (* by file index *)
  zk_black : N }.

Record board := {
  m_pawn : bb; m_knight : bb; m_bishop : bb; m_rook : bb; m_queen : bb; m_king : bb;
  m_white : bb; m_black : bb; m_all : bb;
  b_stm : color; b_wr : cr; b_br : cr; b_ep : option square;
  b_pinned : bb; b_checks : bb; b_term : bool;
  b_half : N; b_full : N; b_hash : N }.

Definition tmask b t := match t with Pawn => m_pawn b | Knight => m_knight b | Bishop => m_bishop b
  | Rook => m_rook b | Queen => m_queen b | King => m_king b end.
Definition cmask b c := match c with White => m_white b | Black => m_black b end.
Definition rights_of b c := match c with White => b_wr b | Black => b_br b end.

(* record updates *)
Definition with_t b t (f : bb -> bb) : board :=
  {| m_pawn := (if ptype_eqb t Pawn then f else id) (m_pawn b); m_knight := (if ptype_eqb t Knight then f else id) (m_knight b);
     m_bishop := (if ptype_eqb t Bishop then f else id) (m_bishop b); m_rook := (if ptype_eqb t Rook then f else id) (m_rook b);
     m_queen := (if ptype_eqb t Queen then f else id) (m_queen b); m_king := (if ptype_eqb t King then f else id) (m_king b);
     m_white := m_white b; m_black := m_black b; m_all := m_all b; b_stm := b_stm b; b_wr := b_wr b; b_br := b_br b;
     b_ep := b_ep b; b_pinned := b_pinned b; b_checks := b_checks b; b_term := b_term b;
     b_half := b_half b; b_full := b_full b; b_hash := b_hash b |}.
Definition with_c b c (f : bb -> bb) : board :=
  {| m_pawn := m_pawn b; m_knight := m_knight b; m_bishop := m_bishop b; m_rook := m_rook b; m_queen := m_queen b; m_king := m_king b;
     m_white := (if color_eqb c White then f else id) (m_white b); m_black := (if color_eqb c Black then f else id) (m_black b);
     m_all := m_all b; b_stm := b_stm b; b_wr := b_wr b; b_br := b_br b;
     b_ep := b_ep b; b_pinned := b_pinned b; b_checks := b_checks b; b_term := b_term b;
     b_half := b_half b; b_full := b_full b; b_hash := b_hash b |}.
Definition with_all b (f : bb -> bb) : board :=
  {| m_pawn := m_pawn b; m_knight := m_knight b; m_bishop := m_bishop b; m_rook := m_rook b; m_queen := m_queen b; m_king := m_king b;
     m_white := m_white b; m_black := m_black b; m_all := f (m_all b); b_stm := b_stm b; b_wr := b_wr b; b_br := b_br b;
     b_ep := b_ep b; b_pinned := b_pinned b; b_checks := b_checks b; b_term := b_term b;
     b_half := b_half b; b_full := b_full b; b_hash := b_hash b |}.
Definition with_hash b (h : N) : board :=
  {| m_pawn := m_pawn b; m_knight := m_knight b; m_bishop := m_bishop b; m_rook := m_rook b; m_queen := m_queen b; m_king := m_king b;
     m_white := m_white b; m_black := m_black b; m_all := m_all b; b_stm := b_stm b; b_wr := b_wr b; b_br := b_br b;
     b_ep := b_ep b; b_pinned := b_pinned b; b_checks := b_checks b; b_term := b_term b;
     b_half := b_half b; b_full := b_full b; b_hash := h |}.
Definition with_stm b (c : color) : board :=
  {| m_pawn := m_pawn b; m_knight := m_knight b; m_bishop := m_bishop b; m_rook := m_rook b; m_queen := m_queen b; m_king := m_king b;
     m_white := m_white b; m_black := m_black b; m_all := m_all b; b_stm := c; b_wr := b_wr b; b_br := b_br b;
     b_ep := b_ep b; b_pinned := b_pinned b; b_checks := b_checks b; b_term := b_term b;
     b_half := b_half b; b_full := b_full b; b_hash := b_hash b |}.
Definition with_rights b (c : color) (r : cr) : board :=
  {| m_pawn := m_pawn b; m_knight := m_knight b; m_bishop := m_bishop b; m_rook := m_rook b; m_queen := m_queen b; m_king := m_king b;
     m_white := m_white b; m_black := m_black b; m_all := m_all b; b_stm := b_stm b;
     b_wr := (match c with White => r | Black => b_wr b end); b_br := (match c with Black => r | White => b_br b end);
     b_ep := b_ep b; b_pinned := b_pinned b; b_checks := b_checks b; b_term := b_term b;
     b_half := b_half b; b_full := b_full b; b_hash := b_hash b |}.
Definition with_ep b (e : option square) : board :=
  {| m_pawn := m_pawn b; m_knight := m_knight b; m_bishop := m_bishop b; m_rook := m_rook b; m_queen := m_queen b; m_king := m_king b;
     m_white := m_white b; m_black := m_black b; m_all := m_all b; b_stm := b_stm b; b_wr := b_wr b; b_br := b_br b;
     b_ep := e; b_pinned := b_pinned b; b_checks := b_checks b; b_term := b_term b;
     b_half := b_half b; b_full := b_full b; b_hash := b_hash b |}.
Definition with_pc b (p c : bb) : board :=
  {| m_pawn := m_pawn b; m_knight := m_knight b; m_bishop := m_bishop b; m_rook := m_rook b; m_queen := m_queen b; m_king := m_king b;
     m_white := m_white b; m_black := m_black b; m_all := m_all b; b_stm := b_stm b; b_wr := b_wr b; b_br := b_br b;
     b_ep := b_ep b; b_pinned := p; b_checks := c; b_term := b_term b;
     b_half := b_half b; b_full := b_full b; b_hash := b_hash b |}.
Definition with_term b (t : bool) : board :=
  {| m_pawn := m_pawn b; m_knight := m_knight b; m_bishop := m_bishop b; m_rook := m_rook b; m_queen := m_queen b; m_king := m_king b;
     m_white := m_white b; m_black := m_black b; m_all := m_all b; b_stm := b_stm b; b_wr := b_wr b; b_br := b_br b;
     b_ep := b_ep b; b_pinned := b_pinned b; b_checks := b_checks b; b_term := t;
     b_half := b_half b; b_full := b_full b; b_hash := b_hash b |}.
Definition with_clocks b (h f : N) : board :=
  {| m_pawn := m_pawn b; m_knight := m_knight b; m_bishop := m_bishop b; m_rook := m_rook b; m_queen := m_queen b; m_king := m_king b;
     m_white := m_white b; m_black := m_black b; m_all := m_all b; b_stm := b_stm b; b_wr := b_wr b; b_br := b_br b;
     b_ep := b_ep b; b_pinned := b_pinned b; b_checks := b_checks b; b_term := b_term b;
     b_half := h; b_full := f; b_hash := b_hash b |}.

(* ChessBoard::new() *)
Definition new_board : board :=
  {| m_pawn := 0; m_knight := 0; m_bishop := 0; m_rook := 0; m_queen := 0; m_king := 0; m_white := 0; m_black := 0; m_all := 0;
     b_stm := White; b_wr := BothSides; b_br := BothSides; b_ep := None; b_pinned := 0; b_checks := 0; b_term := false;
     b_half := 0; b_full := 1; b_hash := 0 |}.

Section WithKeys.
Variable K : zkeys.

(* ---------- per-square queries ---------- *)
Definition is_empty_square b s := is_blank (N.land (m_all b) (bit s)).
Definition b2n (x : bool) : N := if x then 1 else 0.
(* sum over i in 1..6 of i * [pieces_mask[i] & bit != 0]; from_index(sum).unwrap() *)
Definition piece_type_on b s : res (option ptype) :=
  if is_empty_square b s then Ok None else
  let sum := fold_left (fun acc t => acc + ptype_index t * b2n (negb (is_blank (N.land (tmask b t) (bit s)))))
                       [Knight;Bishop;Rook;Queen;King] 0 in
  t <- unwrap (ptype_of_index sum) ;; Ok (Some t).
Definition piece_color_on b s : option color :=
  if is_empty_square b s then None else
  if is_blank (N.land (m_white b) (bit s)) then Some Black else Some White.
Definition piece_on b s : res (option piece) :=
  ot <- piece_type_on b s ;;
  match ot with
  | None => Ok None
  | Some t => Ok (Some (t, if is_blank (N.land (m_white b) (bit s)) then Black else White)) end.

(* ---------- mutation primitives (hash kept incrementally) ---------- *)
Definition clear_square b s : res board :=
  op <- piece_on b s ;;
  match op with
  | Some (t, c) =>
      let k := bnot (bit s) in
      Ok (with_hash (with_c (with_t (with_all b (N.land k)) t (N.land k)) c (N.land k))
                    (N.lxor (b_hash b) (zk_piece K c t s)))
  | None => Ok b end.
Definition put_piece b (pc : piece) s : res board :=
  b1 <- (if negb (is_empty_square b s) then clear_square b s else Ok b) ;;
  let m := bit s in
  Ok (with_hash (with_c (with_t (with_all b1 (N.lxor m)) (fst pc) (N.lxor m)) (snd pc) (N.lxor m))
                (N.lxor (b_hash b1) (zk_piece K (snd pc) (fst pc) s))).
Definition set_side_to_move b c : board :=
  if color_eqb c (b_stm b) then b else with_stm (with_hash b (N.lxor (b_hash b) (zk_black K))) c.
Definition set_castling_rights b c r : board :=
  let cur := rights_of b c in
  let b1 := if cr_eqb cur r then b
            else with_hash b (N.lxor (N.lxor (b_hash b) (zk_castle K c cur)) (zk_castle K c r)) in
  with_rights b1 c r.
Definition set_en_passant b (e : option square) : board :=
  let h1 := match b_ep b with Some s => N.lxor (b_hash b) (zk_ep K (file s)) | None => b_hash b end in
  let h2 := match e with Some s => N.lxor h1 (zk_ep K (file s)) | None => h1 end in
  with_ep (with_hash b h2) e.

(* ZobristHasher::calculate_position_hash *)
Definition calc_hash b : res N :=
  let h0 := match b_stm b with Black => zk_black K | White => 0 end in
  h1 <- fold_left (fun acc s => h <- acc ;;
          ot <- piece_type_on b s ;; t <- unwrap_o ot ;; c <- unwrap_o (piece_color_on b s) ;;
          Ok (N.lxor h (zk_piece K c t s))) (bits (m_all b)) (Ok h0) ;;
  let h2 := N.lxor (N.lxor h1 (zk_castle K White (b_wr b))) (zk_castle K Black (b_br b)) in
  Ok (match b_ep b with Some s => N.lxor h2 (zk_ep K (file s)) | None => h2 end).

(* ---------- attacks, pins, checks ---------- *)
Definition king_square b c : res square := to_square (N.land (m_king b) (cmask b c)).

Definition pins_and_checks (b : board) (sq : square) : res (bb * bb) :=
  let c := b_stm b in let o := opp c in
  let bq := N.lor (m_bishop b) (m_queen b) in let rq := N.lor (m_rook b) (m_queen b) in
  let attackers := N.land (cmask b o) (N.lor (N.land (look BISHOP_T sq) bq) (N.land (look ROOK_T sq) rq)) in
  '(pinned, checks) <- fold_left (fun acc a =>
      '(p, k) <- acc ;;
      m <- unwrap_o (between sq a) ;;
      let btw := N.land (m_all b) m in
      match popcount btw with
      | 0 => Ok (p, N.lor k (bit a))
      | 1 => Ok (N.lor p btw, k)
      | _ => Ok (p, k) end) (bits attackers) (Ok (0, 0)) ;;
  let pinned := N.land pinned (cmask b c) in
  let checks := N.lor checks (N.land (cmask b o)
       (N.lor (N.land (look KNIGHT_T sq) (m_knight b)) (N.land (look KING_T sq) (m_king b)))) in
  let pawn_att :=
    match (match c with White => sq_up sq | Black => sq_down sq end) with
    | Ok u =>
        let r := rank u in
        let opawns := N.land (cmask b o) (m_pawn b) in
        let l := match sq_left sq with Ok x => N.land opawns (bit (mk_sq r (file x))) | _ => 0 end in
        let rr := match sq_right sq with Ok x => N.land opawns (bit (mk_sq r (file x))) | _ => 0 end in
        N.lor l rr
    | _ => 0 end in
  Ok (pinned, N.lor checks pawn_att).
Definition update_pins_and_checks b : res board :=
  k <- king_square b (b_stm b) ;;
  '(p, c) <- pins_and_checks b k ;;
  Ok (with_pc b p c).
Definition is_under_attack b sq : res bool :=
  '(_, c) <- pins_and_checks b sq ;; Ok (negb (is_blank c)).

(* castling_is_available_on_board(check_mask) *)
Definition castling_available (b : board) (check_mask : option bb) : res cr :=
  let checks := match check_mask with Some m => m | None => b_checks b end in
  if negb (is_blank checks) then Ok Neither else
  let c := b_stm b in let r := back_rank c in
  ks <- (if has_kingside (rights_of b c) then
           a1 <- is_under_attack b (mk_sq r 5) ;; a2 <- is_under_attack b (mk_sq r 6) ;;
           let empty := is_blank (N.land (N.lxor (bit (mk_sq r 5)) (bit (mk_sq r 6))) (m_all b)) in
           Ok (negb a1 && negb a2 && empty)
         else Ok false) ;;
  qs <- (if has_queenside (rights_of b c) then
           a1 <- is_under_attack b (mk_sq r 3) ;; a2 <- is_under_attack b (mk_sq r 2) ;;
           let empty := is_blank (N.land (N.lxor (N.lxor (bit (mk_sq r 3)) (bit (mk_sq r 2))) (bit (mk_sq r 1))) (m_all b)) in
           Ok (negb a1 && negb a2 && empty)
         else Ok false) ;;
  Ok (cr_add (if ks then KingSide else Neither) (if qs then QueenSide else Neither)).

(* ---------- pseudo-legal destination masks ---------- *)
Definition truncate_ray (b : board) (s : square) (i : nat) : res bb :=
  let r := ray s i in
  let blk := N.land r (m_all b) in
  let nearest := match i with 0%nat | 2%nat | 4%nat | 5%nat => last_bit_square blk | _ => first_bit_square blk end in
  match nearest with
  | None => Ok r
  | Some t => m <- unwrap_o (between s t) ;; Ok (N.lxor m (bit t)) end.
Definition truncate_rays (b : board) (idx : list nat) (s : square) : res bb :=
  legals <- fold_left (fun acc i => a <- acc ;; x <- truncate_ray b s i ;; Ok (N.lxor a x)) idx (Ok 0) ;;
  Ok (N.land legals (bnot (cmask b (b_stm b)))).
Definition piece_moves_mask (b : board) (t : ptype) (s : square) : res bb :=
  let c := b_stm b in let own := cmask b c in
  match t with
  | Pawn =>
     let epm := match b_ep b with Some e => bit e | None => 0 end in
     let capsq := N.lor (cmask b (opp c)) epm in
     let single := N.land (pawn_push c s) (bnot (m_all b)) in
     let dbl := if is_blank single then 0 else N.land (pawn_double c s) (bnot (m_all b)) in
     Ok (N.lor (N.lor single dbl) (N.land (pawn_cap c s) capsq))
  | Knight => Ok (N.land (look KNIGHT_T s) (bnot own))
  | King => Ok (N.land (look KING_T s) (bnot own))
  | Bishop => truncate_rays b [4;5;6;7]%nat s
  | Rook => truncate_rays b [0;1;2;3]%nat s
  | Queen => truncate_rays b [0;1;2;3;4;5;6;7]%nat s
  end.

(* ---------- moving pieces ---------- *)
Definition is_en_passant_move (m : pmove) (b : board) : bool :=
  match b_ep b with Some e => ptype_eqb (pm_type m) Pawn && (pm_to m =? e) | None => false end.
Definition is_capture_on_board (m : pmove) (b : board) : bool :=
  negb (is_blank (N.land (bit (pm_to m)) (cmask b (opp (b_stm b))))) || is_en_passant_move m b.
Definition move_piece b (m : pmove) : res board :=
  c <- unwrap_o (piece_color_on b (pm_from m)) ;;
  b1 <- clear_square b (pm_from m) ;;
  put_piece b1 (match pm_promo m with Some q => q | None => pm_type m end, c) (pm_to m).
Definition clear_square_if_en_passant b (m : pmove) : res board :=
  if is_en_passant_move m b then
    v <- unwrap (match b_stm b with White => sq_down (pm_to m) | Black => sq_up (pm_to m) end) ;;
    clear_square b v
  else Ok b.
Definition check_mask_after b (m : pmove) : res bb :=
  b1 <- move_piece b m ;; b2 <- clear_square_if_en_passant b1 m ;; b3 <- update_pins_and_checks b2 ;;
  Ok (b_checks b3).
Definition needs_eval b (m : pmove) : bool :=
  negb (is_blank (b_checks b)) || ptype_eqb (pm_type m) King || is_en_passant_move m b
  || negb (is_blank (N.land (bit (pm_from m)) (b_pinned b))).

(* ---------- legality ---------- *)
Definition is_legal_move b (mv : bmove) : res bool :=
  if b_term b then Ok false else
  match mv with
  | MovePiece m =>
      let t := pm_type m in let src := pm_from m in let dst := pm_to m in
      if is_blank (N.land (N.land (tmask b t) (cmask b (b_stm b))) (bit src)) then Ok false else
      mask <- piece_moves_mask b t src ;;
      if is_blank (N.land mask (bit dst)) then Ok false else
      let is_promotion := ptype_eqb t Pawn && (rank dst =? promotion_rank (b_stm b)) in
      let promo_fine := match pm_promo m with
                        | Some King | Some Pawn => false
                        | Some _ => is_promotion
                        | None => negb is_promotion end in
      if negb promo_fine then Ok false else
      if needs_eval b m then cm <- check_mask_after b m ;; Ok (is_blank cm) else Ok true
  | CastleK => r <- castling_available b None ;; Ok (has_kingside r)
  | CastleQ => r <- castling_available b None ;; Ok (has_queenside r)
  end.

Fixpoint filter_res {A} (f : A -> res bool) (l : list A) : res (list A) :=
  match l with [] => Ok [] | x :: r => k <- f x ;; r' <- filter_res f r ;; Ok (if k then x :: r' else r') end.
Fixpoint flat_map_res {A B} (f : A -> res (list B)) (l : list A) : res (list B) :=
  match l with [] => Ok [] | x :: r => y <- f x ;; r' <- flat_map_res f r ;; Ok (y ++ r') end.
Fixpoint any_res {A} (f : A -> res bool) (l : list A) : res bool :=       (* Iterator::any: stops at the first true *)
  match l with [] => Ok false | x :: r => k <- f x ;; if k then Ok true else any_res f r end.
Definition mk_pm t s d pr := {| pm_type := t; pm_from := s; pm_to := d; pm_promo := pr |}.

Definition legal_moves (b : board) : res (list bmove) :=
  let c := b_stm b in
  pms <- flat_map_res (fun t =>
    flat_map_res (fun s =>
      mask <- piece_moves_mask b t s ;;
      dests <- filter_res (fun d => let m := mk_pm t s d None in
                 if needs_eval b m then cm <- check_mask_after b m ;; Ok (is_blank cm) else Ok true) (bits mask) ;;
      Ok (flat_map (fun d =>
        if ptype_eqb t Pawn && (rank d =? promotion_rank c)
        then map (fun q => MovePiece (mk_pm Pawn s d (Some q))) [Knight;Bishop;Rook;Queen]
        else [MovePiece (mk_pm t s d None)]) dests))
      (bits (N.land (cmask b c) (tmask b t))))
    all_types ;;
  ca <- castling_available b (Some (b_checks b)) ;;
  Ok (pms ++ match ca with QueenSide => [CastleQ] | KingSide => [CastleK] | BothSides => [CastleK; CastleQ] | Neither => [] end).

(* ---------- status ---------- *)
Definition update_terminal_status b : res board :=
  let c := b_stm b in
  found <- any_res (fun t =>
    any_res (fun s =>
      mask <- piece_moves_mask b t s ;;
      any_res (fun d => cm <- check_mask_after b (mk_pm t s d None) ;; Ok (is_blank cm)) (bits mask))
      (bits (N.land (cmask b c) (tmask b t)))) all_types ;;
  Ok (with_term b (negb found)).

Inductive bstatus := BOngoing | BCheckMated (c : color) | BTheoreticalDraw | BFiftyMoves | BStalemate.
Definition is_theoretical_draw b : res bool :=
  let w := popcount (m_white b) in let k := popcount (m_black b) in
  if (2 <? w) || (2 <? k) then Ok false else
  let minors := N.lor (m_knight b) (m_bishop b) in
  wc <- (match w with 1 => Ok true | 2 => Ok (negb (is_blank (N.land (m_white b) minors))) | _ => Panic end) ;;
  bc <- (match k with 1 => Ok true | 2 => Ok (negb (is_blank (N.land (m_black b) minors))) | _ => Panic end) ;;
  Ok (wc && bc).
Definition get_status b : res bstatus :=
  if b_term b then Ok (if 0 <? popcount (b_checks b) then BCheckMated (b_stm b) else BStalemate)
  else td <- is_theoretical_draw b ;;
       if td then Ok BTheoreticalDraw else if 100 <=? b_half b then Ok BFiftyMoves else Ok BOngoing.

(* ---------- applying moves ---------- *)
Definition update_move_number b := match b_stm b with Black => with_clocks b (b_half b) (b_full b + 1) | White => b end.
Definition update_moves_since_capture b (mv : bmove) (is_capture : bool) :=
  match mv with
  | MovePiece m => if ptype_eqb (pm_type m) Pawn || is_capture then with_clocks b 0 (b_full b)
                   else with_clocks b (b_half b + 1) (b_full b)
  | _ => with_clocks b (b_half b + 1) (b_full b) end.
Definition update_castling_rights b (mv : bmove) : board :=
  let c := b_stm b in let o := opp c in
  let b1 := match mv with
            | MovePiece m =>
                if negb (cr_eqb (rights_of b o) Neither) then
                  let d := pm_to m in let obr := back_rank o in
                  set_castling_rights b o (cr_sub (rights_of b o)
                     (if d =? mk_sq obr 7 then KingSide else if d =? mk_sq obr 0 then QueenSide else Neither))
                else b
            | _ => b end in
  if negb (cr_eqb (rights_of b1 c) Neither) then
    set_castling_rights b1 c (cr_sub (rights_of b1 c)
      (match mv with
       | MovePiece m => match pm_type m with
                        | Rook => if pm_from m =? mk_sq (back_rank c) 7 then KingSide
                                  else if pm_from m =? mk_sq (back_rank c) 0 then QueenSide else Neither
                        | King => BothSides
                        | _ => Neither end
       | _ => BothSides end))
  else b1.
Definition update_en_passant b (mv : bmove) : board :=
  match mv with
  | MovePiece m =>
      let sr := rank (pm_from m) in let dr := rank (pm_to m) in
      let diff := if sr <=? dr then dr - sr else sr - dr in
      if ptype_eqb (pm_type m) Pawn && (diff =? 2)
      then set_en_passant b (Some (mk_sq ((sr + dr) / 2) (file (pm_to m))))
      else set_en_passant b None
  | _ => set_en_passant b None end.

Definition make_move_unchecked b (mv : bmove) : res board :=
  let is_capture := match mv with MovePiece m => is_capture_on_board m b | _ => false end in
  b1 <- (match mv with
         | MovePiece m => x <- move_piece b m ;; clear_square_if_en_passant x m
         | CastleK => let r := back_rank (b_stm b) in
             x <- move_piece b (mk_pm King (mk_sq r 4) (mk_sq r 6) None) ;;
             move_piece x (mk_pm Rook (mk_sq r 7) (mk_sq r 5) None)
         | CastleQ => let r := back_rank (b_stm b) in
             x <- move_piece b (mk_pm King (mk_sq r 4) (mk_sq r 2) None) ;;
             move_piece x (mk_pm Rook (mk_sq r 0) (mk_sq r 3) None) end) ;;
  let o := opp (b_stm b1) in
  let b2 := update_move_number b1 in
  let b3 := update_moves_since_capture b2 mv is_capture in
  let b4 := update_castling_rights b3 mv in
  let b5 := set_side_to_move b4 o in
  let b6 := update_en_passant b5 mv in
  b7 <- update_pins_and_checks b6 ;;
  update_terminal_status b7.
Definition make_move b (mv : bmove) : res board :=
  ok <- is_legal_move b mv ;;
  if ok then make_move_unchecked b mv else Err EIllegalMove.

(* ---------- construction and validation ---------- *)
Record builder := {
  bd_pieces : list (option piece);   (* 64 entries *)
  bd_stm : color; bd_wr : cr; bd_br : cr; bd_ep : option square; bd_half : N; bd_full : N }.

Definition validate b : res (option err) :=
  if negb (is_blank (N.land (m_white b) (m_black b))) then Ok (Some EOverlap) else
  let pairs := flat_map (fun i => map (fun j => (i, j)) (skipn (S i) all_types))
                 (seq 0 5) in
  if existsb (fun '(i, tj) => negb (is_blank (N.land (tmask b (nth i all_types Pawn)) (tmask b tj)))) pairs
  then Ok (Some EOverlap) else
  if negb (fold_left (fun acc t => N.lor acc (tmask b t)) all_types 0 =? m_all b) then Ok (Some ESelfConsistency) else
  if negb (popcount (N.land (m_king b) (m_white b)) =? 1) then Ok (Some EKings) else
  if negb (popcount (N.land (m_king b) (m_black b)) =? 1) then Ok (Some EKings) else
  cb <- update_pins_and_checks (set_side_to_move b (opp (b_stm b))) ;;
  if 0 <? popcount (b_checks cb) then Ok (Some EOppCheck) else
  let c := b_stm b in
  let ep_ok := match b_ep b with
    | None => true
    | Some e =>
        let '(ep_rank, pawn_sq, origin_sq) := match c with White => (5, sq_down e, sq_up e) | Black => (2, sq_up e, sq_down e) end in
        (rank e =? ep_rank) && is_empty_square b e &&
        match pawn_sq, origin_sq with
        | Ok p, Ok o => negb (is_blank (N.land (N.land (m_pawn b) (cmask b (opp c))) (bit p))) && is_empty_square b o
        | _, _ => false end
    end in
  if negb ep_ok then Ok (Some EEnPassant) else
  wk <- king_square b White ;;
  let rights_bad (c : color) (k : square) :=
    let rooks := N.land (m_rook b) (cmask b c) in
    let r := back_rank c in
    if k =? mk_sq r 4 then
      let vm := match rights_of b c with Neither => 0 | QueenSide => bit (mk_sq r 0) | KingSide => bit (mk_sq r 7)
                | BothSides => N.lor (bit (mk_sq r 0)) (bit (mk_sq r 7)) end in
      negb (popcount (N.land rooks vm) =? popcount vm)
    else negb (cr_eqb (rights_of b c) Neither) in
  if rights_bad White wk then Ok (Some ECastling) else
  bk <- king_square b Black ;;
  if rights_bad Black bk then Ok (Some ECastling) else Ok None.

Definition try_from_builder (bd : builder) : res board :=
  b0 <- fold_left (fun acc s => b <- acc ;;
          match nth (N.to_nat s) (bd_pieces bd) None with Some pc => put_piece b pc s | None => Ok b end)
        squares (Ok new_board) ;;
  if negb (popcount (N.land (m_king b0) (m_white b0)) =? 1) then Err EKings else
  if negb (popcount (N.land (m_king b0) (m_black b0)) =? 1) then Err EKings else
  let b1 := set_side_to_move b0 (bd_stm bd) in
  let b2 := set_en_passant b1 (bd_ep bd) in
  let b3 := set_castling_rights b2 White (bd_wr bd) in
  let b4 := set_castling_rights b3 Black (bd_br bd) in
  let b5 := with_clocks b4 (bd_half bd) (bd_full bd) in
  b6 <- update_pins_and_checks b5 ;;
  h <- calc_hash b6 ;;
  let b7 := with_hash b6 h in
  v <- validate b7 ;;
  match v with None => update_terminal_status b7 | Some e => Err e end.

(* BoardBuilder::from(ChessBoard) *)
Definition builder_of_board b : res builder :=
  pcs <- fold_right (fun s acc => l <- acc ;;
           ot <- piece_type_on b s ;;
           match ot with
           | Some t => c <- unwrap_o (piece_color_on b s) ;; Ok (Some (t, c) :: l)
           | None => Ok (None :: l) end) (Ok []) squares ;;
  Ok {| bd_pieces := pcs; bd_stm := b_stm b; bd_wr := b_wr b; bd_br := b_br b; bd_ep := b_ep b;
        bd_half := b_half b; bd_full := b_full b |}.

End WithKeys.
