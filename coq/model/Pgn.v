(* model/Pgn.v — the text layer of Game::from_pgn (src/games.rs:233-305): the four regular-expression
   passes (tag pairs, blank-line split, move tokens, result token) over the bytes of the input, followed
   by the replay of model/Game.v.  The regex crate's search is leftmost-first (the first alternative /
   the greediest repetition that lets the whole pattern match wins, as in a backtracking engine); [ms]
   below is that semantics as a list of successes in priority order.  Non-ASCII: every class used by
   the split, move and result patterns is ASCII, so on UTF-8 input a byte >= 128 is simply outside every
   class; the tag-pair pattern uses the Unicode-aware \s \w \d, which this model restricts to ASCII
   (the imported *tags* of a non-ASCII text are outside the model; moves, positions and status are not
   affected by tags). *)
Require Import LC.model.Prims LC.model.Tables LC.model.Board LC.model.Text LC.model.Fen LC.model.San LC.model.Game.
From Coq Require Import String.
Open Scope N_scope.

(* ---- a small backtracking matcher: remainders after every way [r] can match a prefix of [s], best first ---- *)
Inductive re := Cls (p : N -> bool) | Lit (l : bytes) | Seq (a b : re) | Alt (a b : re) | StarC (p : N -> bool) | Opt (a : re).
Fixpoint lit (l s : bytes) : option bytes :=
  match l, s with
  | [], _ => Some s
  | a :: l', b :: s' => if a =? b then lit l' s' else None
  | _ :: _, [] => None end.
Fixpoint star (p : N -> bool) (s : bytes) : list bytes :=      (* greedy: the longest run first *)
  match s with
  | c :: t => if p c then star p t ++ [s] else [s]
  | [] => [[]] end.
Fixpoint ms (r : re) (s : bytes) : list bytes :=
  match r with
  | Cls p => match s with c :: t => if p c then [t] else [] | [] => [] end
  | Lit l => match lit l s with Some t => [t] | None => [] end
  | Seq a b => flat_map (ms b) (ms a s)
  | Alt a b => ms a s ++ ms b s
  | StarC p => star p s
  | Opt a => ms a s ++ [s] end.

(* find_iter: successive non-overlapping leftmost matches; [skip] = bytes of the previous match still to pass *)
Fixpoint scan (r : re) (s : bytes) (skip : nat) : list bytes :=
  match s with
  | [] => []
  | _ :: t =>
      match skip with
      | S k => scan r t k
      | O => match ms r s with
             | rem :: _ => let n := (List.length s - List.length rem)%nat in firstn n s :: scan r t (n - 1)
             | [] => scan r t 0 end
      end
  end.

(* the patterns as data (what the translator tools/pgn_patterns.py regenerates from src/games.rs on every run,
   gen/PgnPatterns.v; gen/PatternsOk.v proves the regenerated terms equal to the ones below) *)
Inductive rsrc := SCls (rs : list (N * N)) | SLit (l : bytes) | SSeq (a b : rsrc) | SAlt (a b : rsrc) | SStar (rs : list (N * N)) | SOpt (a : rsrc).
Definition in_ranges (rs : list (N * N)) (c : N) : bool := existsb (fun lh => (fst lh <=? c) && (c <=? snd lh)) rs.
Fixpoint denote (s : rsrc) : re :=
  match s with
  | SCls rs => Cls (in_ranges rs)
  | SLit l => Lit l
  | SSeq a b => Seq (denote a) (denote b)
  | SAlt a b => Alt (denote a) (denote b)
  | SStar rs => StarC (in_ranges rs)
  | SOpt a => Opt (denote a) end.
Definition one (c : N) : N * N := (c, c).
Definition cls_piece : list (N * N) := map one [110; 78; 98; 66; 114; 82; 113; 81; 107; 75].     (* [nNbBrRqQkK] *)
Definition cls_file : list (N * N) := [(97, 104)].                                                (* [a-h] *)
Definition cls_rank : list (N * N) := [(49, 56)].                                                 (* [1-8] *)
Definition cls_x : list (N * N) := [one 120].                                                     (* x *)
Definition cls_promo : list (N * N) := map one [110; 78; 98; 66; 114; 82; 113; 81].               (* [nNbBrRqQ] *)
(* ( ( ([nNbBrRqQkK]*[a-h]*[1-8]*x*[a-h][1-8]) | (O-O(-O)?) ) (=[nNbBrRqQ])? \+?\#? ) *)
Definition piece_move_src := SSeq (SStar cls_piece) (SSeq (SStar cls_file) (SSeq (SStar cls_rank) (SSeq (SStar cls_x)
                               (SSeq (SCls cls_file) (SCls cls_rank))))).
Definition castle_src := SSeq (SLit [79; 45; 79]) (SOpt (SLit [45; 79])).
Definition suffix_src := SSeq (SOpt (SSeq (SLit [61]) (SCls cls_promo))) (SSeq (SOpt (SLit [43])) (SOpt (SLit [35]))).
Definition moves_src := SSeq (SAlt piece_move_src castle_src) suffix_src.
Definition piece_move_re := denote piece_move_src.
Definition castle_re := denote castle_src.
Definition suffix_re := denote suffix_src.
Definition moves_re := denote moves_src.
Definition scan_moves (s : bytes) : list bytes := scan moves_re s 0.

(* (\r?\n){2,} : number of consecutive line ends at the head of s, and what follows them *)
Fixpoint skip_nls (s : bytes) : nat * bytes :=
  match s with
  | c :: t =>
      if c =? 10 then let (n, r) := skip_nls t in (S n, r)
      else if c =? 13 then
        match t with
        | d :: u => if d =? 10 then let (n, r) := skip_nls u in (S n, r) else (O, s)
        | [] => (O, s) end
      else (O, s)
  | [] => (O, s) end.
(* leftmost blank-line separator: (text before it, text after it) *)
Fixpoint find_blank (s : bytes) : option (bytes * bytes) :=
  match s with
  | [] => None
  | c :: t => let (n, r) := skip_nls s in
      if (2 <=? n)%nat then Some ([], r)
      else match find_blank t with Some (a, b) => Some (c :: a, b) | None => None end
  end.
(* Regex::split(pgn).nth(1) *)
Definition moves_part (t : bytes) : option bytes :=
  match find_blank t with
  | None => None
  | Some (_, r) => match find_blank r with Some (a, _) => Some a | None => Some r end end.

(* (1-0)|(0-1)|(1/2-1/2), first match *)
Definition result_src := SAlt (SLit [49; 45; 48]) (SAlt (SLit [48; 45; 49]) (SLit [49; 47; 50; 45; 49; 47; 50])).
Definition result_re := denote result_src.
Definition scan_result (s : bytes) : option rtag :=
  match scan result_re s 0 with
  | [] => None
  | x :: _ => if beq x (B "1-0") then Some TagWhite else if beq x (B "0-1") then Some TagBlack else Some TagDraw end.

(* the tag-pair pattern: an opening bracket, blanks and a word (the key), blanks, a double-quoted value made of
   blanks, word characters and : / . ? , - , blanks, a closing bracket   (ASCII restriction of \s \w \d) *)
Definition is_space (c : N) := ((9 <=? c) && (c <=? 13)) || (c =? 32).
Definition is_word (c : N) := ((48 <=? c) && (c <=? 57)) || ((65 <=? c) && (c <=? 90)) || ((97 <=? c) && (c <=? 122)) || (c =? 95).
Definition value_marks : bytes := Eval vm_compute in B ":/.?,-".
Definition is_val (c : N) := is_space c || is_word c || existsb (N.eqb c) value_marks.
(* the source text of the two patterns that are modelled by direct functions (x-mode blanks and comments removed) *)
Definition split_pattern_text : bytes := Eval vm_compute in B "(\r?\n){2,}".
Definition tag_pattern_text : bytes := Eval vm_compute in B "\[(\s*[\w\d_]+)\s+""([\s\w\d:/\.\?,-]*)""\s*\]".
Fixpoint span (p : N -> bool) (s : bytes) : bytes * bytes :=
  match s with
  | c :: t => if p c then let (a, b) := span p t in (c :: a, b) else ([], s)
  | [] => ([], []) end.
(* s is the text after '[': (key with its leading blanks, value, rest after ']') *)
Definition match_tag (s : bytes) : option (bytes * bytes * bytes) :=
  let (ws, s1) := span is_space s in
  let (key, s2) := span is_word s1 in
  match key with [] => None | _ =>
  let (sp, s3) := span is_space s2 in
  match sp with [] => None | _ =>
  match s3 with
  | 34 :: s4 =>
      let (v, s5) := span is_val s4 in
      match s5 with
      | 34 :: s6 => let (_, s7) := span is_space s6 in
          match s7 with 93 :: s8 => Some (ws ++ key, v, s8) | _ => None end
      | _ => None end
  | _ => None end end end.
Fixpoint scan_tags (s : bytes) (skip : nat) : list (bytes * bytes) :=
  match s with
  | [] => []
  | c :: t =>
      match skip with
      | S k => scan_tags t k
      | O => if c =? 91 then
               match match_tag t with
               | Some (k, v, rest) => (k, v) :: scan_tags t (List.length t - List.length rest)
               | None => scan_tags t 0 end
             else scan_tags t 0 end
  end.
(* the value the header leaves in the "Result" tag: the last pair whose key is exactly Result *)
Definition header_result (t : bytes) : option bytes :=
  fold_left (fun acc kv => if beq (fst kv) (B "Result") then Some (snd kv) else acc) (scan_tags t 0) None.

Section WithKeys.
Variable K : zkeys.

Definition default_board : res board := unwrap (from_fen K (B "rnbqkbnr/pppppppp/8/8/8/8/PPPPPPPP/RNBQKBNR w KQkq - 0 1")).
Definition default_game : res game := b <- default_board ;; game_from_board b.

(* Game::from_pgn on the bytes of the text: the imported game and the text left in its Result tag.
   The tag pass runs first and cannot fail; while the game stays ongoing no status change rewrites the
   tag, so the header's value (or the default "?") survives; any status change writes the tag of the status. *)
Definition from_pgn_text (t : bytes) : res (game * bytes) :=
  g0 <- default_game ;;
  match moves_part t with
  | None => Err EPgn
  | Some body =>
      g <- from_pgn_tokens K g0 (scan_moves body) (scan_result body) ;;
      Ok (g, match g_status g with
             | GOngoing => match header_result t with Some v => v | None => B "?" end
             | _ => print_rtag (g_tag g) end)
  end.

End WithKeys.
