(* model/Text.v — Rust &str semantics with explicit panics, and the text forms of the
   primitive types and of moves.  Mirrors: FromStr/Display of File, Rank, Square, PieceType,
   Color, CastlingRights (board_files.rs, board_ranks.rs, coordinates.rs, pieces.rs,
   colors.rs, castling.rs) and of PieceMove / BoardMove (board_moves.rs).
   A string is its list of bytes; a char boundary is a non-continuation byte. *)
Require Import LC.model.Prims.
From Coq Require Import String Ascii.
Open Scope N_scope.

Definition bytes := list N.
Definition B (s : string) : bytes := map N_of_ascii (list_ascii_of_string s).

Definition blen (s : bytes) : N := N.of_nat (List.length s).
Definition is_cont (b : N) : bool := (128 <=? b) && (b <? 192).          (* 10xxxxxx *)
Definition boundary (s : bytes) (i : N) : bool :=
  (i =? blen s) || match nth_error s (N.to_nat i) with Some b => negb (is_cont b) | None => false end.
Definition sub (s : bytes) (a b : N) : bytes := firstn (N.to_nat (b - a)) (skipn (N.to_nat a) s).
Definition range_ok s a b := (a <=? b) && (b <=? blen s) && boundary s a && boundary s b.
Definition slice (s : bytes) (a b : N) : res bytes := if range_ok s a b then Ok (sub s a b) else Panic.   (* &s[a..b] *)
Definition get (s : bytes) (a b : N) : option bytes := if range_ok s a b then Some (sub s a b) else None. (* s.get(a..b) *)
Definition usub (a b : N) : res N := if b <=? a then Ok (a - b) else Panic.                               (* usize a - b *)
Fixpoint split_on (c : N) (s : bytes) (cur : bytes) : list bytes :=                                       (* s.split(c) *)
  match s with [] => [rev cur] | x :: r => if x =? c then rev cur :: split_on c r [] else split_on c r (x :: cur) end.
Definition beq (a b : bytes) : bool := if list_eq_dec N.eq_dec a b then true else false.
Definition contains (s : bytes) (c : N) : bool := existsb (N.eqb c) s.
Definition upper (b : N) : N := if (97 <=? b) && (b <=? 122) then b - 32 else b.
Definition lower (b : N) : N := if (65 <=? b) && (b <=? 90) then b + 32 else b.

(* ---------- primitives ---------- *)
(* File::from_str / Rank::from_str: len()!=1 => Err; match on the char *)
Definition parse_file (s : bytes) : res N :=
  match s with [c] => if (97 <=? c) && (c <=? 104) then Ok (c - 97) else Err EFileName | _ => Err EFileName end.
Definition parse_rank (s : bytes) : res N :=
  match s with [c] => if (49 <=? c) && (c <=? 56) then Ok (c - 49) else Err ERankName | _ => Err ERankName end.
Definition print_file (f : N) : bytes := [97 + f].
Definition print_rank (r : N) : bytes := [49 + r].
(* Square::from_str: len()!=2 => Err; chars[0] as File (its UTF-8 string must have len 1), chars[1] as Rank.
   For a 2-byte string either both chars are ASCII or it is a single 2-byte char, whose to_string() has
   len 2 and is rejected by File::from_str before chars[1] is touched. *)
Definition parse_sq (s : bytes) : res square :=
  match s with
  | [f; r] => if (128 <=? f) then Err ESquareRepr else
              match parse_file [f], parse_rank [r] with
              | Ok fi, Ok ri => Ok (mk_sq ri fi)
              | _, _ => Err ESquareRepr end
  | _ => Err ESquareRepr end.
Definition print_sq (s : square) : bytes := [N.land s 7 + 97; N.shiftr s 3 + 49].   (* (s&7)+'a', (s>>3)+'1' *)
(* PieceType::from_str: len()>1 => Err; empty => Pawn; else the upper-cased single (ASCII) char *)
Definition parse_pt (s : bytes) : res ptype :=
  match s with
  | [] => Ok Pawn
  | [c] => match upper c with 80 => Ok Pawn | 78 => Ok Knight | 66 => Ok Bishop | 82 => Ok Rook | 81 => Ok Queen | 75 => Ok King
           | _ => Err EPieceRepr end
  | _ => Err EPieceRepr end.
Definition letter t : bytes := match t with Pawn => B "P" | Knight => B "N" | Bishop => B "B" | Rook => B "R" | Queen => B "Q" | King => B "K" end.
Definition print_color c : bytes := match c with White => B "white" | Black => B "black" end.
Definition print_cr r : bytes := match r with Neither => [] | QueenSide => B "q" | KingSide => B "k" | BothSides => B "kq" end.

(* ---------- decimal usize ---------- *)
Fixpoint dec_fuel (fuel : nat) (n : N) (acc : bytes) : bytes :=
  match fuel with O => acc | S f =>
    let acc' := (48 + n mod 10) :: acc in
    if n / 10 =? 0 then acc' else dec_fuel f (n / 10) acc' end.
Definition print_dec (n : N) : bytes := dec_fuel (S (N.size_nat n)) n [].
Definition two64 : N := 18446744073709551616.
(* usize::from_str: optional '+', then at least one ASCII digit, value <= usize::MAX *)
Definition parse_usize (s : bytes) : res N :=
  let ds := match s with 43 :: r => r | _ => s end in
  match ds with
  | [] => Err EFen
  | _ => fold_left (fun acc c => a <- acc ;;
           if (48 <=? c) && (c <=? 57) then
             let v := a * 10 + (c - 48) in if v <? two64 then Ok v else Err EFen
           else Err EFen) ds (Ok 0) end.

(* ---------- coordinate move text (PieceMove / BoardMove FromStr and Display) ---------- *)
Definition parse_pmove (v : bytes) : res pmove :=
  let tokens := split_on 61 v [] in
  let t0 := hd [] tokens in          (* tokens[0]: split always yields >= 1 element *)
  let len := blen t0 in
  if len <? 4 then Err EMoveRepr else
  t <- (if len =? 4 then Ok Pawn else
        match get t0 0 1 with Some h => (match parse_pt h with Ok p => Ok p | _ => Err EMoveRepr end) | None => Err EMoveRepr end) ;;
  i4 <- usub len 4 ;; i2 <- usub len 2 ;;
  a <- match get t0 i4 i2 with Some x => (match parse_sq x with Ok q => Ok q | _ => Err EMoveRepr end) | None => Err EMoveRepr end ;;
  b <- match get t0 i2 len with Some x => (match parse_sq x with Ok q => Ok q | _ => Err EMoveRepr end) | None => Err EMoveRepr end ;;
  match tokens with
  | _ :: t1 :: _ => q <- (match parse_pt t1 with Ok p => Ok p | _ => Err EMoveRepr end) ;; pmove_new t a b (Some q)
  | _ => pmove_new t a b None end.
Definition parse_bmove (v : bytes) : res bmove :=
  if beq v (B "O-O-O") then Ok CastleQ else if beq v (B "O-O") then Ok CastleK else (m <- parse_pmove v ;; Ok (MovePiece m)).

Definition print_pmove m : bytes :=
  (match pm_type m with Pawn => [] | t => letter t end) ++ print_sq (pm_from m) ++ print_sq (pm_to m)
  ++ (match pm_promo m with Some q => 61 :: letter q | None => [] end).
Definition print_bmove m := match m with MovePiece pm => print_pmove pm | CastleK => B "O-O" | CastleQ => B "O-O-O" end.
