(* model/Fen.v — src/board_builders.rs: FEN parser (FromStr for BoardBuilder), FEN printer
   (Display for BoardBuilder), BoardBuilder::setup, and the ChessBoard entry points
   from_fen / as_fen / setup built on them. *)
Require Import LC.model.Prims LC.model.Tables LC.model.Board LC.model.Text.
From Coq Require Import String.
Open Scope N_scope.

Definition new_builder : builder :=
  {| bd_pieces := repeat None 64; bd_stm := White; bd_wr := Neither; bd_br := Neither; bd_ep := None; bd_half := 0; bd_full := 0 |}.

(* the loop over pieces.chars(): state = (rank, file, squares) *)
Definition fen_piece_of (c : N) : option piece :=
  let col := if (65 <=? c) && (c <=? 90) then White else Black in
  match upper c with
  | 80 => Some (Pawn, col) | 78 => Some (Knight, col) | 66 => Some (Bishop, col)
  | 82 => Some (Rook, col) | 81 => Some (Queen, col) | 75 => Some (King, col) | _ => None end.
Definition is_fen_letter (c : N) : bool :=
  match upper c with 80 | 78 | 66 | 82 | 81 | 75 => (65 <=? c) && (c <=? 122) | _ => false end.
Definition fen_step (st : N * N * list (option piece)) (c : N) : res (N * N * list (option piece)) :=
  let '(r, f, pcs) := st in
  if c =? 47 then                                   (* '/' *)
    match idx_down r with Ok r' => Ok (r', 0, pcs) | _ => Err EFen end
  else if (49 <=? c) && (c <=? 56) then             (* '1'..'8': File::from_index(file + d) or unchanged *)
    match idx8_of (f + (c - 48)) with Ok f' => Ok (r, f', pcs) | _ => Ok (r, f, pcs) end
  else if is_fen_letter c then
    match fen_piece_of c with
    | Some pc => let pcs' := set_nth (N.to_nat (mk_sq r f)) (Some pc) pcs in
                 Ok (r, (match idx_up f with Ok f' => f' | _ => f end), pcs')
    | None => Err EFen end
  else Err EFen.
Definition parse_placement (s : bytes) : res (list (option piece)) :=
  st <- fold_left (fun acc c => a <- acc ;; fen_step a c) s (Ok (7, 0, repeat None 64)) ;;
  Ok (snd st).

Definition cr_of_field (s : bytes) (k q : N) : cr :=
  if contains s k && contains s q then BothSides else if contains s k then KingSide
  else if contains s q then QueenSide else Neither.

Definition parse_fen (v : bytes) : res builder :=
  match split_on 32 v [] with
  | [pieces; side; castles; ep; half; full] =>
      h <- parse_usize half ;;
      f <- parse_usize full ;;
      pcs <- parse_placement pieces ;;
      c <- (if beq side (B "w") || beq side (B "W") then Ok White
            else if beq side (B "b") || beq side (B "B") then Ok Black else Err EFen) ;;
      Ok {| bd_pieces := pcs; bd_stm := c;
            bd_wr := cr_of_field castles 75 81; bd_br := cr_of_field castles 107 113;
            bd_ep := (match parse_sq ep with Ok s => Some s | _ => None end);
            bd_half := h; bd_full := f |}
  | _ => Err EFen end.

(* Display for BoardBuilder *)
Definition piece_char (pc : piece) : bytes :=
  map (match snd pc with White => upper | Black => lower end) (letter (fst pc)).
Definition print_rank_row (pcs : list (option piece)) (r : N) (st : bytes * N) : bytes * N :=
  let '(out, empty) :=
    fold_left (fun '(out, empty) f =>
      match nth (N.to_nat (mk_sq r f)) pcs None with
      | Some pc => ((out ++ (if empty =? 0 then [] else print_dec empty)) ++ piece_char pc, 0)
      | None => (out, empty + 1) end) idx8 st in
  if empty =? 0 then (out, 0) else (out ++ print_dec empty, 0).
Definition print_placement (pcs : list (option piece)) : bytes :=
  fst (fold_left (fun st r =>
         let st' := if r =? 7 then st else (fst st ++ [47], snd st) in
         print_rank_row pcs r st') [7;6;5;4;3;2;1;0] ([], 0)).
Definition print_castles (w b : cr) : bytes :=
  match w, b with Neither, Neither => B "-" | _, _ => map upper (print_cr w) ++ print_cr b end.
Definition print_fen (bd : builder) : bytes :=
  print_placement (bd_pieces bd) ++ [32] ++ (match bd_stm bd with White => B "w" | Black => B "b" end) ++ [32]
  ++ print_castles (bd_wr bd) (bd_br bd) ++ [32]
  ++ (match bd_ep bd with Some s => print_sq s | None => B "-" end) ++ [32]
  ++ print_dec (bd_half bd) ++ [32] ++ print_dec (bd_full bd).

(* BoardBuilder::setup from a piece list: later entries overwrite earlier ones *)
Definition setup_builder (pieces : list (square * piece)) stm wr br ep half full : builder :=
  {| bd_pieces := fold_left (fun l '(s, pc) => set_nth (N.to_nat s) (Some pc) l) pieces (repeat None 64);
     bd_stm := stm; bd_wr := wr; bd_br := br; bd_ep := ep; bd_half := half; bd_full := full |}.

Section WithKeys.
Variable K : zkeys.
Definition from_fen (v : bytes) : res board := bd <- parse_fen v ;; try_from_builder K bd.
Definition as_fen (b : board) : res bytes := bd <- builder_of_board b ;; Ok (print_fen bd).
Definition board_setup pieces stm wr br ep half full : res board :=
  try_from_builder K (setup_builder pieces stm wr br ep half full).
End WithKeys.
