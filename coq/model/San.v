(* model/San.v — short algebraic notation: ChessBoard::get_move_ambiguity_type
   (chess_boards.rs), MovePropertiesOnBoard::new and BoardMove::to_string (board_moves.rs). *)
Require Import LC.model.Prims LC.model.Tables LC.model.Board LC.model.Text.
From Coq Require Import String.
Open Scope N_scope.

Inductive amb := ExtraFile | ExtraRank | ExtraSquare | AmbNeither.
Record mprops := { mp_check : bool; mp_mate : bool; mp_capture : bool; mp_amb : amb }.

Section WithKeys.
Variable K : zkeys.

Definition get_move_ambiguity_type (b : board) (m : pmove) : res amb :=
  ok <- is_legal_move K b (MovePiece m) ;;
  if negb ok then Err EIllegalMove else
  let t := pm_type m in let src := pm_from m in let dst := pm_to m in
  match t with
  | Pawn => Ok (if negb (file src =? file dst) then ExtraFile else AmbNeither)
  | King => Ok AmbNeither
  | _ =>
      let piece_moves := look (match t with Knight => KNIGHT_T | Bishop => BISHOP_T | Rook => ROOK_T | _ => QUEEN_T end) dst in
      let between_filter x := match t with
        | Knight => true
        | _ => is_blank (match between x dst with Some m => N.land m (m_all b) | None => 0 end) end in
      let pieces_mask := N.land (tmask b t) (cmask b (b_stm b)) in
      let c1 := filter (fun s => between_filter s && negb (s =? src)) (bits (N.land piece_moves pieces_mask)) in
      cands <- filter_res (fun s => is_legal_move K b (MovePiece (mk_pm t s dst None))) c1 ;;
      match cands with
      | [] => Ok AmbNeither
      | _ => if forallb (fun s => negb (file s =? file src)) cands then Ok ExtraFile
             else if forallb (fun s => negb (rank s =? rank src)) cands then Ok ExtraRank
             else Ok ExtraSquare end
  end.

Definition move_props (mv : bmove) (b : board) : res mprops :=
  after <- make_move K b mv ;;
  let is_check := 0 <? popcount (b_checks after) in
  let is_mate := b_term after && is_check in
  let is_cap := match mv with MovePiece m => is_capture_on_board m b | _ => false end in
  a <- (match mv with
        | MovePiece m => match pm_type m with King => Ok AmbNeither | _ => get_move_ambiguity_type b m end
        | _ => Ok AmbNeither end) ;;
  Ok {| mp_check := is_check; mp_mate := is_mate; mp_capture := is_cap; mp_amb := a |}.

End WithKeys.

Definition san_string (mv : bmove) (p : mprops) : bytes :=
  let chk := if mp_mate p then B "#" else if mp_check p then B "+" else [] in
  match mv with
  | MovePiece m =>
      (match pm_type m with Pawn => [] | t => letter t end)
      ++ (match mp_amb p with
          | ExtraFile => print_file (file (pm_from m))
          | ExtraRank => print_rank (rank (pm_from m))
          | ExtraSquare => print_sq (pm_from m)
          | AmbNeither => [] end)
      ++ (if mp_capture p then B "x" else [])
      ++ print_sq (pm_to m)
      ++ (match pm_promo m with Some q => 61 :: letter q | None => [] end)
      ++ chk
  | CastleK => B "O-O" ++ chk
  | CastleQ => B "O-O-O" ++ chk
  end.
