(* model/Game.v — src/games.rs and src/game_history.rs: the game protocol, occurrence
   counters, result tag, recorded history and its rendering, PGN export, and PGN import
   after tokenisation (the regex passes are not modelled). *)
Require Import LC.model.Prims LC.model.Tables LC.model.Board LC.model.Text LC.model.San.
From Coq Require Import String.
Open Scope N_scope.

Inductive action := MakeMove (m : bmove) | OfferDraw (c : color) | AcceptDraw | DeclineDraw | Resign (c : color).
Inductive gstatus := GOngoing | GDrawOffered (c : color) | GCheckMated (c : color) | GResigned (c : color)
  | GFiftyMoves | GTheoreticalDraw | GRepetition | GDrawAccepted | GStalemate.
Definition gstatus_eqb a b := match a, b with
  | GOngoing, GOngoing | GFiftyMoves, GFiftyMoves | GTheoreticalDraw, GTheoreticalDraw | GRepetition, GRepetition
  | GDrawAccepted, GDrawAccepted | GStalemate, GStalemate => true
  | GDrawOffered x, GDrawOffered y | GCheckMated x, GCheckMated y | GResigned x, GResigned y => color_eqb x y
  | _, _ => false end.
Inductive rtag := TagOpen | TagWhite | TagBlack | TagDraw.      (* "?", "1-0", "0-1", "1/2-1/2" *)
Definition print_rtag t : bytes := match t with TagOpen => B "?" | TagWhite => B "1-0" | TagBlack => B "0-1" | TagDraw => B "1/2-1/2" end.
Definition tag_of_status s := match s with
  | GOngoing | GDrawOffered _ => TagOpen
  | GCheckMated White | GResigned White => TagBlack
  | GCheckMated Black | GResigned Black => TagWhite
  | _ => TagDraw end.
Definition print_gstatus s : bytes := match s with
  | GOngoing => B "the game is ongoing"
  | GDrawOffered c => B "draw offered by " ++ print_color c
  | GCheckMated c => print_color (opp c) ++ B " won by checkmate"
  | GResigned c => print_color (opp c) ++ B " won by resignation"
  | GDrawAccepted => B "draw declared by agreement"
  | GFiftyMoves => B "draw declared by a 50 moves rule"
  | GTheoreticalDraw => B "draw: no enough pieces"
  | GRepetition => B "draw declared by moves repetition"
  | GStalemate => B "stalemate" end.

Record game := {
  g_pos : board;
  g_positions : list board;      (* history: start position first *)
  g_moves : list bmove;
  g_meta : list mprops;
  g_counter : list (N * N);      (* BTreeMap<hash, count>, as an association list (latest binding first) *)
  g_status : gstatus;
  g_tag : rtag }.

Definition counter_get (m : list (N * N)) (h : N) : N :=
  match find (fun kv => fst kv =? h) m with Some kv => snd kv | None => 0 end.
Definition counter_set (m : list (N * N)) (h v : N) : list (N * N) :=
  (h, v) :: filter (fun kv => negb (fst kv =? h)) m.

Section WithKeys.
Variable K : zkeys.

Definition position_counter g (b : board) : N := counter_get (g_counter g) (b_hash b).
Definition set_game_status g (s : gstatus) : game :=
  if gstatus_eqb s (g_status g) then g else
  {| g_pos := g_pos g; g_positions := g_positions g; g_moves := g_moves g; g_meta := g_meta g;
     g_counter := g_counter g; g_status := s; g_tag := tag_of_status s |}.
Definition position_counter_increment g : game :=
  {| g_pos := g_pos g; g_positions := g_positions g; g_moves := g_moves g; g_meta := g_meta g;
     g_counter := counter_set (g_counter g) (b_hash (g_pos g)) (position_counter g (g_pos g) + 1);
     g_status := g_status g; g_tag := g_tag g |}.
Definition update_game_status g (last : option action) : res game :=
  s <- (match last with
        | None | Some (MakeMove _) =>
            st <- get_status (g_pos g) ;;
            Ok (match st with
                | BCheckMated c => GCheckMated c
                | BTheoreticalDraw => GTheoreticalDraw
                | BStalemate => GStalemate
                | BFiftyMoves => GFiftyMoves
                | BOngoing => if 3 <=? position_counter g (g_pos g) then GRepetition else GOngoing end)
        | Some (OfferDraw c) => Ok (GDrawOffered c)
        | Some DeclineDraw => Ok GOngoing
        | Some AcceptDraw => Ok GDrawAccepted
        | Some (Resign c) => Ok (GResigned c) end) ;;
  Ok (set_game_status g s).
Definition game_from_board (b : board) : res game :=
  g <- update_game_status {| g_pos := b; g_positions := [b]; g_moves := []; g_meta := []; g_counter := [];
                              g_status := GOngoing; g_tag := TagOpen |} None ;;
  Ok (position_counter_increment g).

(* GameHistory::push: properties computed on the last recorded position *)
Definition history_push g (m : bmove) (newpos : board) : res game :=
  lastp <- unwrap_o (last (map Some (g_positions g)) None) ;;
  mp <- unwrap (move_props K m lastp) ;;
  Ok {| g_pos := g_pos g; g_positions := g_positions g ++ [newpos]; g_moves := g_moves g ++ [m];
        g_meta := g_meta g ++ [mp]; g_counter := g_counter g; g_status := g_status g; g_tag := g_tag g |}.
Definition with_pos g (b : board) : game :=
  {| g_pos := b; g_positions := g_positions g; g_moves := g_moves g; g_meta := g_meta g;
     g_counter := g_counter g; g_status := g_status g; g_tag := g_tag g |}.

Definition game_step g (a : action) : res game :=
  g1 <- (match g_status g with
         | GOngoing =>
             match a with
             | MakeMove m =>
                 match make_move K (g_pos g) m with
                 | Ok b' => history_push (position_counter_increment (with_pos g b')) m b'
                 | Err _ => Err EIllegalAction
                 | Panic => Panic end
             | AcceptDraw | DeclineDraw => Err EIllegalAction
             | _ => Ok g end
         | GDrawOffered _ =>
             match a with
             | MakeMove _ | OfferDraw _ => Err EIllegalAction
             | _ => Ok g end
         | _ => Err EFinished end) ;;
  update_game_status g1 (Some a).

Definition get_position_on_move g (i : N) : res board :=
  match nth_error (g_positions g) (N.to_nat i) with Some b => Ok b | None => Err EWrongMoveNumber end.

(* Display for GameHistory *)
Definition san_list g : list bytes := map (fun '(m, p) => san_string m p) (combine (g_moves g) (g_meta g)).
Definition history_string_of (white_starting : bool) (sans : list bytes) : bytes :=
  match sans with
  | [] => []
  | first :: rest =>
      let head := if white_starting then B "1." ++ first ++ B " " else B "1. ... " ++ first ++ B " " in
      fst (fold_left (fun '(out, i) s =>
             let numbered := xorb (negb (i mod 2 =? 0)) white_starting in
             let tok := if numbered then print_dec ((i + 2 + (if white_starting then 0 else 1)) / 2) ++ B "." ++ s ++ B " "
                        else s ++ B " " in
             (out ++ tok, i + 1)) rest (head, 1)) end.
Definition history_string g : res bytes :=
  p0 <- unwrap_o (hd_error (g_positions g)) ;;
  Ok (history_string_of (color_eqb (b_stm p0) White) (san_list g)).

(* as_pgn without line wrapping: the seven default tags, a blank line, the move list, the result *)
Definition default_tags (t : rtag) : bytes :=
  B "[Event ""?""]" ++ [10] ++ B "[Site ""?""]" ++ [10] ++ B "[Date ""?""]" ++ [10] ++ B "[Round ""?""]" ++ [10]
  ++ B "[White ""Player 1""]" ++ [10] ++ B "[Black ""Player 2""]" ++ [10]
  ++ B "[Result """ ++ print_rtag t ++ B """]" ++ [10].
Fixpoint trim_end (s : bytes) : bytes :=
  match s with [] => [] | c :: r => match trim_end r with [] => if c =? 32 then [] else [c] | r' => c :: r' end end.
Definition as_pgn_unwrapped g : res bytes :=
  h <- history_string g ;;
  Ok (default_tags (g_tag g) ++ [10] ++ trim_end h ++ B " " ++ print_rtag (g_tag g)).

(* from_pgn after tokenisation: SAN tokens are looked up among the SAN texts of the legal moves
   (BTreeMap::from_iter: the last move with a given text wins) *)
Definition san_lookup (b : board) (tok : bytes) : res (option bmove) :=
  ms <- legal_moves K b ;;
  fold_left (fun acc m => a <- acc ;;
      mp <- unwrap (move_props K m b) ;;
      Ok (if beq (san_string m mp) tok then Some m else a)) ms (Ok None).
Definition from_pgn_tokens (start : game) (sans : list bytes) (result : option rtag) : res game :=
  g <- fold_left (fun acc tok => g <- acc ;;
         om <- san_lookup (g_pos g) tok ;;
         match om with
         | None => Err EPgn
         | Some m => game_step g (MakeMove m) end) sans (Ok start) ;;
  match g_status g with
  | GOngoing =>
      match result with
      | Some TagWhite => unwrap (game_step g (Resign Black))
      | Some TagBlack => unwrap (game_step g (Resign White))
      | Some TagDraw => g1 <- unwrap (game_step g (OfferDraw White)) ;; unwrap (game_step g1 AcceptDraw)
      | _ => Ok g end
  | _ => Ok g end.

End WithKeys.
