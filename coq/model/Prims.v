(* model/Prims.v — primitive types of libchess as executable Gallina.
   Mirrors: coordinates.rs, board_files.rs, board_ranks.rs, colors.rs, pieces.rs,
   castling.rs, bitboards.rs, and the value part of board_moves.rs.
   Conventions: a square / file / rank / index is an N; a bitboard is an N (< 2^64);
   a Rust panic is the explicit outcome [Panic]; an Err(_) is [Err e]. *)
From Coq Require Export List NArith ZArith Bool.
Export ListNotations.
Open Scope N_scope.

(* ---------- outcome monad: value / error / panic ---------- *)
Inductive err :=
  | EIllegalMove | EIllegalAction | EFinished | EWrongMoveNumber
  | EFen | EOverlap | ESelfConsistency | EKings | EOppCheck | EEnPassant | ECastling
  | EMoveRepr | EPromoPiece | ESquareRepr | EFileName | ERankName | EPieceRepr
  | EIndex | ENeg | EPgn.
Inductive res (A : Type) := Ok (a : A) | Err (e : err) | Panic.
Arguments Ok {A} a. Arguments Err {A} e. Arguments Panic {A}.
Definition bind {A B} (r : res A) (f : A -> res B) : res B :=
  match r with Ok a => f a | Err e => Err e | Panic => Panic end.
Notation "x <- r ;; k" := (bind r (fun x => k)) (at level 61, r at next level, right associativity).
Notation "' pat <- r ;; k" := (bind r (fun x => match x with pat => k end))
  (at level 61, pat pattern, r at next level, right associativity).
(* .unwrap() on a Result / Option *)
Definition unwrap {A} (r : res A) : res A := match r with Err _ => Panic | x => x end.
Definition unwrap_o {A} (o : option A) : res A := match o with Some x => Ok x | None => Panic end.
Definition is_ok {A} (r : res A) := match r with Ok _ => true | _ => false end.
Definition is_panic {A} (r : res A) := match r with Panic => true | _ => false end.
Definition res_map {A B} (f : A -> B) (r : res A) : res B := x <- r ;; Ok (f x).

(* ---------- colours, piece types ---------- *)
Inductive color := White | Black.
Inductive ptype := Pawn | Knight | Bishop | Rook | Queen | King.
Definition piece := (ptype * color)%type.
Definition square := N.

Definition opp c := match c with White => Black | Black => White end.
Definition color_eqb a b := match a, b with White, White | Black, Black => true | _, _ => false end.
Definition ptype_eqb a b := match a, b with
  | Pawn,Pawn | Knight,Knight | Bishop,Bishop | Rook,Rook | Queen,Queen | King,King => true | _,_ => false end.
Definition piece_eqb (a b : piece) := ptype_eqb (fst a) (fst b) && color_eqb (snd a) (snd b).
Definition opiece_eqb (a b : option piece) := match a, b with
  | None, None => true | Some x, Some y => piece_eqb x y | _, _ => false end.
Definition osq_eqb (a b : option square) := match a, b with
  | None, None => true | Some x, Some y => N.eqb x y | _, _ => false end.
Definition optype_eqb (a b : option ptype) := match a, b with
  | None, None => true | Some x, Some y => ptype_eqb x y | _, _ => false end.
Definition all_types := [Pawn;Knight;Bishop;Rook;Queen;King].
Definition all_colors := [White;Black].

Definition color_index c := match c with White => 0 | Black => 1 end.
Definition color_of_index (n : N) : res color := match n with 0 => Ok White | 1 => Ok Black | _ => Err EIndex end.
Definition ptype_index t := match t with Pawn => 0 | Knight => 1 | Bishop => 2 | Rook => 3 | Queen => 4 | King => 5 end.
Definition ptype_of_index (n : N) : res ptype :=
  match n with 0 => Ok Pawn | 1 => Ok Knight | 2 => Ok Bishop | 3 => Ok Rook | 4 => Ok Queen | 5 => Ok King | _ => Err EIndex end.
Definition back_rank c := match c with White => 0 | Black => 7 end.       (* Color::get_back_rank, as rank index *)
Definition promotion_rank c := match c with White => 7 | Black => 0 end.  (* Color::get_promotion_rank *)

(* ---------- files, ranks, squares ---------- *)
Definition idx8_of (n : N) : res N := if n <? 8 then Ok n else Err EIndex.   (* File/Rank::from_index *)
Definition idx_up (i : N) : res N := idx8_of (i + 1).                        (* Rank::up, File::right *)
Definition idx_down (i : N) : res N := if i =? 0 then Err ENeg else idx8_of (i - 1). (* Rank::down, File::left *)
Definition sq_new (n : N) : res square := if n <? 64 then Ok n else Err EIndex.  (* Square::new *)
Definition rank (s : square) := N.shiftr s 3.                                (* self.0 >> 3 *)
Definition file (s : square) := N.land s 7.                                  (* self.0 & 7 *)
Definition mk_sq (r f : N) : square := N.lxor (N.shiftl r 3) f.              (* rank<<3 ^ file *)
Definition sq_up (s : square) : res square := r <- idx_up (rank s) ;; Ok (mk_sq r (file s)).
Definition sq_down (s : square) : res square := r <- idx_down (rank s) ;; Ok (mk_sq r (file s)).
Definition sq_right (s : square) : res square := f <- idx_up (file s) ;; Ok (mk_sq (rank s) f).
Definition sq_left (s : square) : res square := f <- idx_down (file s) ;; Ok (mk_sq (rank s) f).
Definition is_light (s : square) : bool := negb (((rank s + file s) mod 2) =? 0).
Definition offsets_from (a b : square) : Z * Z :=   (* a.offsets_from(b) = (rank b - rank a, file b - file a) *)
  (Z.of_N (rank b) - Z.of_N (rank a), Z.of_N (file b) - Z.of_N (file a))%Z.
Definition squares : list square := map N.of_nat (seq 0 64).
Definition idx8 : list N := [0;1;2;3;4;5;6;7].

(* ---------- castling rights ---------- *)
Inductive cr := Neither | QueenSide | KingSide | BothSides.
Definition cr_eqb a b := match a, b with
  | Neither,Neither | QueenSide,QueenSide | KingSide,KingSide | BothSides,BothSides => true | _,_ => false end.
Definition has_kingside r := match r with BothSides | KingSide => true | _ => false end.
Definition has_queenside r := match r with BothSides | QueenSide => true | _ => false end.
Definition cr_of_bits (k q : bool) : cr :=
  match k, q with false,false => Neither | true,false => KingSide | false,true => QueenSide | true,true => BothSides end.
Definition cr_add a b := cr_of_bits (has_kingside a || has_kingside b) (has_queenside a || has_queenside b).
Definition cr_sub a b := cr_of_bits (has_kingside a && negb (has_kingside b)) (has_queenside a && negb (has_queenside b)).
Definition cr_index r := match r with Neither => 0 | QueenSide => 1 | KingSide => 2 | BothSides => 3 end.
Definition cr_of_index (n : N) : res cr :=
  match n with 0 => Ok Neither | 1 => Ok QueenSide | 2 => Ok KingSide | 3 => Ok BothSides | _ => Err EIndex end.
Definition all_cr := [Neither;QueenSide;KingSide;BothSides].

(* ---------- bitboards ---------- *)
Definition bb := N.
Definition ones64 : N := 18446744073709551615.
Definition bnot (x : bb) : bb := N.lxor x ones64.               (* !x on u64 *)
Definition bit (s : square) : bb := N.shiftl 1 s.               (* 1u64 << s *)
Definition has (x : bb) (s : square) : bool := N.testbit x s.
Definition is_blank (x : bb) := N.eqb x 0.
Fixpoint ctz_pos (p : positive) : N := match p with xO q => N.succ (ctz_pos q) | _ => 0 end.
Definition ctz (b : bb) : N := match b with N0 => 64 | Npos p => ctz_pos p end.          (* u64::trailing_zeros *)
Definition to_square (b : bb) : res square := unwrap (sq_new (ctz b)).                  (* BitBoard::to_square *)
Definition last_bit_square (b : bb) : option square :=                                   (* lowest set bit *)
  match b with N0 => None | Npos p => Some (ctz_pos p) end.
Definition first_bit_square (b : bb) : option square :=                                  (* 63 - leading_zeros *)
  match b with N0 => None | _ => Some (N.log2 b) end.
Fixpoint popc_pos (p : positive) : N := match p with xH => 1 | xO q => popc_pos q | xI q => N.succ (popc_pos q) end.
Definition popcount (b : bb) : N := match b with N0 => 0 | Npos p => popc_pos p end.    (* u64::count_ones *)
(* the Iterator impl: next = to_square (lowest bit); self ^= bit.  [bits] is the list it yields. *)
Fixpoint iter_fuel (fuel : nat) (b : bb) : list square :=
  match fuel with O => [] | S f =>
    match last_bit_square b with None => [] | Some t => t :: iter_fuel f (N.lxor b (bit t)) end end.
Definition bits (b : bb) : list square := iter_fuel 64 b.
Definition of_list (l : list square) : bb := fold_left (fun acc s => N.lor acc (bit s)) l 0.
Definition bb_from_file (f : N) : bb := fold_left (fun acc r => N.lxor acc (bit (mk_sq r f))) idx8 0.
Definition bb_from_rank (r : N) : bb := fold_left (fun acc f => N.lxor acc (bit (mk_sq r f))) idx8 0.

(* ---------- moves ---------- *)
Record pmove := { pm_type : ptype; pm_from : square; pm_to : square; pm_promo : option ptype }.
Inductive bmove := MovePiece (m : pmove) | CastleK | CastleQ.
Definition pmove_new t a b pr : res pmove :=                       (* PieceMove::new *)
  match pr with Some Pawn => Err EPromoPiece | _ => Ok {| pm_type := t; pm_from := a; pm_to := b; pm_promo := pr |} end.
Definition pmove_eqb a b := ptype_eqb (pm_type a) (pm_type b) && N.eqb (pm_from a) (pm_from b)
  && N.eqb (pm_to a) (pm_to b) && optype_eqb (pm_promo a) (pm_promo b).
Definition bmove_eqb a b := match a, b with
  | MovePiece x, MovePiece y => pmove_eqb x y | CastleK, CastleK | CastleQ, CastleQ => true | _, _ => false end.
Definition mem (s : square) (l : list square) := existsb (N.eqb s) l.
Fixpoint set_nth {A} (n : nat) (x : A) (l : list A) : list A :=
  match l, n with [], _ => [] | _ :: r, O => x :: r | y :: r, S k => y :: set_nth k x r end.
