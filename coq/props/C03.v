(* C03 — Legality test and move application accept exactly the generated legal moves.
   PROVED about the model of make_move / make_move_mut / the unchecked forms, for ALL boards and ALL move values:
   application succeeds iff the legality test answers true; a rejected move yields exactly the illegal-move error and
   no board (the model is a pure function, so the position is unchanged); when the test answers true the checked form
   returns exactly what the unchecked form returns; the only possible Panic of the checked form is a Panic of the legality
   test or of the application itself.  The promotion rule enforced by the test is stated explicitly (C03_promotion_rule).
   PROVED in full (C03_test_is_rule, C03_test_iff_listed, C03_apply_iff_rule_legal, C03_reachable): on EVERY board whose
   masks, hash, cached check/pin masks and terminal flag are current and whose mailbox position is valid (Good; this holds
   in every position obtained by construction and play, Reach.v) and for EVERY move value with squares on the board
   (any claimed piece type, origin, destination, promotion piece incl. King and Pawn, or either castling) the legality
   test returns Ok (never Panic) with exactly the rule's verdict legal (abs b) mv, which is membership in the generated
   list (C01); the checked application succeeds iff the move is rule-legal and otherwise returns exactly the
   illegal-move error; it never panics.  The complete 147,458-value universe is additionally enumerated against the code
   by the differential run. *)
Require Import LC.model.Prims LC.model.Board LC.spec.Chess LC.proofs.MaskInv LC.proofs.MoveInv LC.proofs.C05Proofs LC.proofs.C01b LC.proofs.C03Proofs LC.proofs.Reach LC.proofs.Total.
Open Scope N_scope.
Theorem C03_apply_iff_legal : forall K b mv,
  (is_legal_move K b mv = Ok true -> make_move K b mv = make_move_unchecked K b mv) /\
  (is_legal_move K b mv = Ok false -> make_move K b mv = Err EIllegalMove) /\
  (forall b', make_move K b mv = Ok b' -> is_legal_move K b mv = Ok true) /\
  (forall e, make_move K b mv = Err e -> e = EIllegalMove \/ make_move_unchecked K b mv = Err e \/ is_legal_move K b mv = Err e).
Proof.
  intros K b mv. unfold make_move. destruct (is_legal_move K b mv) as [[]|e0|]; cbn [bind]; cbv iota beta.
  - split; [intros _; reflexivity|]. split; [intros H; discriminate|]. split; [intros b' _; reflexivity|]. intros e H. right. left. exact H.
  - split; [intros H; discriminate|]. split; [intros _; reflexivity|]. split; [intros b' H; discriminate|]. intros e H. left. now injection H.
  - split; [intros H; discriminate|]. split; [intros H; discriminate|]. split; [intros b' H; discriminate|]. intros e H. right. right. injection H as ->. reflexivity.
  - split; [intros H; discriminate|]. split; [intros H; discriminate|]. split; [intros b' H; discriminate|]. intros e H. discriminate.
Qed.
Theorem C03_terminal_rejects_everything : forall K b mv, b_term b = true -> is_legal_move K b mv = Ok false.
Proof. intros K b mv H. unfold is_legal_move. now rewrite H. Qed.
(* a promotion piece is accepted exactly for a pawn reaching the last rank, and only N, B, R, Q; such a pawn must promote *)
Theorem C03_promotion_rule : forall K b m, is_legal_move K b (MovePiece m) = Ok true ->
  let is_promotion := ptype_eqb (pm_type m) Pawn && (rank (pm_to m) =? promotion_rank (b_stm b)) in
  match pm_promo m with
  | Some King | Some Pawn => False
  | Some _ => is_promotion = true
  | None => is_promotion = false end.
Proof.
  intros K b m H. unfold is_legal_move in H. destruct (b_term b); [discriminate|].
  destruct (is_blank _); [discriminate|]. destruct (piece_moves_mask b (pm_type m) (pm_from m)) as [mask| |]; cbn [bind] in H; try discriminate.
  destruct (is_blank _); [discriminate|]. cbv zeta.
  destruct (ptype_eqb (pm_type m) Pawn && (rank (pm_to m) =? promotion_rank (b_stm b))); destruct (pm_promo m) as [[]|]; cbn in H; try discriminate; auto.
Qed.
Theorem C03_test_is_rule : forall K b mv, Good K b -> wf_bmove mv -> is_legal_move K b mv = Ok (legal (abs b) mv).
Proof. intros K b mv [[I _] D V T] W. exact (is_legal_move_spec K b I D V T mv W). Qed.
Theorem C03_test_iff_listed : forall K b mv, Good K b -> wf_bmove mv ->
  exists l, legal_moves K b = Ok l /\ (is_legal_move K b mv = Ok true <-> In mv l) /\ (is_legal_move K b mv = Ok false <-> ~ In mv l).
Proof.
  intros K b mv G W. pose proof (C03_test_is_rule K b mv G W) as E. destruct G as [[I _] D V T].
  destruct (legal_moves_exact K b I D V) as (l & El & H). exists l. split; [exact El|]. rewrite E, (H mv).
  destruct (legal (abs b) mv); split; split; intros X; try reflexivity; try discriminate; try congruence; try (exfalso; now apply X).
Qed.
Theorem C03_apply_iff_rule_legal : forall K b mv, Good K b -> wf_bmove mv ->
  (legal (abs b) mv = true -> exists b', make_move K b mv = Ok b' /\ make_move_unchecked K b mv = Ok b') /\
  (legal (abs b) mv = false -> make_move K b mv = Err EIllegalMove).
Proof.
  intros K b mv G W. destruct (make_move_total K b mv G W) as [H1 H2]. split; [|exact H2].
  intros L. destruct (H1 L) as (b' & E). exists b'. split; [exact E|].
  unfold make_move in E. destruct (is_legal_move K b mv) as [[]| |]; cbn [bind] in E; try discriminate. exact E.
Qed.
Theorem C03_reachable : forall K b, wreachable K b -> Good K b.
Proof. exact wreachable_good. Qed.
