(* C03 — Legality test and move application accept exactly the generated legal moves.
   PROVED about the model of make_move / make_move_mut / the unchecked forms, for ALL boards and ALL move values:
   application succeeds iff the legality test answers true; a rejected move yields exactly the illegal-move error and
   no board (the model is a pure function, so the position is unchanged); when the test answers true the checked form
   returns exactly what the unchecked form returns; the only possible Panic of the checked form is a Panic of the legality
   test or of the application itself.  The promotion rule enforced by the test is stated explicitly (C03_promotion_rule).
   PARTIAL: that the legality test agrees with membership in the generated list for every move value, and that it never
   panics, are decided by the differential run: the complete 147,458-value universe on ~100 positions per quick run
   (thousands thorough) and the natural sub-universe (every own piece to every square, with and without promotion,
   both castlings) on every explored position. *)
Require Import LC.model.Prims LC.model.Board.
Open Scope N_scope.
Theorem C03_apply_iff_legal : forall K b mv,
  (is_legal_move K b mv = Ok true -> make_move K b mv = make_move_unchecked K b mv) /\
  (is_legal_move K b mv = Ok false -> make_move K b mv = Err EIllegalMove) /\
  (forall b', make_move K b mv = Ok b' -> is_legal_move K b mv = Ok true) /\
  (forall e, make_move K b mv = Err e -> e = EIllegalMove \/ make_move_unchecked K b mv = Err e \/ is_legal_move K b mv = Err e).
Proof.
  intros K b mv. unfold make_move. destruct (is_legal_move K b mv) as [[]|e0|]; cbn [bind]; cbv iota beta.
  - split; [intros _; reflexivity|]. split; [intros H; discriminate|]. split; [intros b' _; reflexivity|]. intros e H. right. left. exact H.
  - split; [intros H; discriminate|]. split; [intros _; reflexivity|]. split; [intros b' H; discriminate|]. intros e H. left. now injection H.
  - split; [intros H; discriminate|]. split; [intros H; discriminate|]. split; [intros b' H; discriminate|]. intros e H. right. right. injection H as ->. reflexivity.
  - split; [intros H; discriminate|]. split; [intros H; discriminate|]. split; [intros b' H; discriminate|]. intros e H. discriminate.
Qed.
Theorem C03_terminal_rejects_everything : forall K b mv, b_term b = true -> is_legal_move K b mv = Ok false.
Proof. intros K b mv H. unfold is_legal_move. now rewrite H. Qed.
(* a promotion piece is accepted exactly for a pawn reaching the last rank, and only N, B, R, Q; such a pawn must promote *)
Theorem C03_promotion_rule : forall K b m, is_legal_move K b (MovePiece m) = Ok true ->
  let is_promotion := ptype_eqb (pm_type m) Pawn && (rank (pm_to m) =? promotion_rank (b_stm b)) in
  match pm_promo m with
  | Some King | Some Pawn => False
  | Some _ => is_promotion = true
  | None => is_promotion = false end.
Proof.
  intros K b m H. unfold is_legal_move in H. destruct (b_term b); [discriminate|].
  destruct (is_blank _); [discriminate|]. destruct (piece_moves_mask b (pm_type m) (pm_from m)) as [mask| |]; cbn [bind] in H; try discriminate.
  destruct (is_blank _); [discriminate|]. cbv zeta.
  destruct (ptype_eqb (pm_type m) Pawn && (rank (pm_to m) =? promotion_rank (b_stm b))); destruct (pm_promo m) as [[]|]; cbn in H; try discriminate; auto.
Qed.
