(* C04 — Board status: terminal flag, checkmate, stalemate and draw classification.
   board_status (spec/Chess.v) is the rule: with no legal move (gen p = [], where gen lists exactly the rule-legal moves,
   C04_gen_lists_legal_moves) the status is checkmate of the side to move when it is in check and stalemate otherwise;
   otherwise insufficient-material draw iff each side has only its king or its king plus exactly one bishop or knight,
   otherwise fifty-move draw iff the half-move clock is >= 100, otherwise ongoing.
   PROVED for EVERY board with consistent masks whose mailbox position is valid (no bound on clocks or anything else):
   - C04_terminal_flag: the shortcut search (no castling, no promotion choices) computes exactly "no legal move".  The
     rule-level reason is C04_castling_never_the_only_move: whenever castling is legal the king's single step towards that
     rook is legal, and promotion choices do not affect king safety (C01).
   - C04_status: with current check mask and flag, get_status returns exactly the rule-given status (precedence and
     thresholds included), never panics.
   - C04_flag_after_move / C04_flag_after_construction: the flag stored by every successful move application and by every
     successful construction equals "no legal move" of the resulting position, so C04_status applies after every ply.
   C04_material: the popcount-based material test equals the rule-level count. *)
Require Import LC.model.Prims LC.model.Board LC.spec.Chess LC.proofs.MaskInv LC.proofs.C05Proofs LC.proofs.C04Spec LC.proofs.C04Proofs LC.proofs.Reach.
Open Scope N_scope.
Theorem C04_terminal_flag : forall K b, MaskInv b -> valid (abs b) = true ->
  update_terminal_status K b = Ok (with_term b (no_moves (abs b))).
Proof. exact terminal_flag_spec. Qed.
Theorem C04_no_moves_meaning : forall p, length (placement p) = 64%nat -> (no_moves p = true <-> forall mv, legal p mv = false).
Proof.
  intros p L. unfold no_moves. rewrite <- (gen_nil_iff p L). destruct (gen p); split; intros H; try reflexivity; discriminate.
Qed.
Theorem C04_gen_lists_legal_moves : forall p mv, length (placement p) = 64%nat -> (In mv (gen p) <-> legal p mv = true).
Proof. exact gen_In. Qed.
Theorem C04_castling_never_the_only_move : forall p ks, valid p = true -> castle_legal p ks = true ->
  legal p (MovePiece (mk_pm King (smk (home_rank (stm p)) 4) (smk (home_rank (stm p)) (if ks then 5 else 3)) None)) = true.
Proof. exact castle_implies_king_step. Qed.
Theorem C04_material : forall b, MaskInv b -> valid (abs b) = true ->
  is_theoretical_draw b = Ok (cannot_mate (abs b) White && cannot_mate (abs b) Black).
Proof. exact theoretical_draw_spec. Qed.
Theorem C04_status : forall b, MaskInv b -> valid (abs b) = true -> DerivedInv b -> b_term b = no_moves (abs b) ->
  get_status b = Ok (enc_status (board_status (abs b))).
Proof. exact get_status_spec. Qed.
Theorem C04_flag_after_move : forall K b mv b', make_move K b mv = Ok b' -> MaskInv b' -> valid (abs b') = true ->
  b_term b' = no_moves (abs b').
Proof. exact TermInv_move. Qed.
Theorem C04_flag_after_construction : forall K bd b', try_from_builder K bd = Ok b' -> MaskInv b' -> valid (abs b') = true ->
  b_term b' = no_moves (abs b').
Proof. exact TermInv_build. Qed.
(* in every position obtained by construction and play all hypotheses hold: the status is the rule-given one at every ply *)
Theorem C04_reachable : forall K b, wreachable K b ->
  b_term b = no_moves (abs b) /\ get_status b = Ok (enc_status (board_status (abs b))).
Proof.
  intros K b R. destruct (wreachable_good K b R) as [[I _] D V T]. split; [exact T|]. exact (get_status_spec b I V D T).
Qed.
