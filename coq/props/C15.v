(* C15 — PGN export and import are inverse for games from the standard start.
   PROVED about the model of Game (src/games.rs), for EVERY game obtained from ANY constructed valid start position (in
   particular the standard one) by ANY finite sequence of actions — moves, draw offers, acceptances, refusals,
   resignations, accepted or rejected — with no bound on its length (C15_roundtrip): importing the game's own move texts
   and result (after tokenisation) never panics and yields a game with the same positions, moves, recorded move
   properties, occurrence counters and result tag, and the same status, a merely pending draw offer excepted (the
   imported game is then simply ongoing).  It covers: no moves yet, in progress, ended by checkmate, stalemate, fifty-move,
   insufficient material or repetition (status reproduced by the replay itself), by resignation (re-enacted by the
   importer from the result tag) and by agreement (offer + accept re-enacted).
   The core (C15_lookup): looking a move text up among the texts of the legal moves finds exactly the move that produced
   it — this is C14 (uniqueness) and C01 (the legal-move list).  C15_export_layout: the exported text is the seven tags, a
   blank line, the numbered move list (C13 layout) and the result token.
   TEXT LEVEL (C15_text_roundtrip, C15_export_import): the importer's four regular-expression passes are modelled on the
   bytes (model/Pgn.v) and PROVED to read an exported game back: for EVERY game from the standard start (any finite action
   sequence) and EVERY text obtained from the export by turning any set of blanks of the move list into line ends (every
   possible line wrapping; W ranges over all of them), the blank-line split returns exactly the move text, the move
   pattern finds exactly the SAN texts in order (a complete sweep over all 933,126 SAN texts shows each is matched whole,
   leftmost-first, and contains no result token; move numbers, dots, blanks and line ends are barriers no match crosses),
   the result pattern finds exactly the result token, the tag pattern leaves the exported Result value; so the import
   returns the same moves, positions, move properties, counters, result tag and status (pending offer excepted).
   Outside the model: the line-wrapping crate (textwrap) is represented by the universally quantified W — that the library's
   export is such a W of the model's move list is checked on every explored game — and the regex crate's machinery (that
   it computes the leftmost-first match the model defines is checked by predicting, for every exported, re-wrapped,
   mutated and hand-assembled text, the import's outcome, moves, status, position and tag). *)
Require Import LC.model.Prims LC.model.Board LC.model.Text LC.model.San LC.model.Game LC.spec.Chess LC.spec.TextSpec LC.proofs.MoveInv LC.proofs.C05Proofs
  LC.proofs.C12Proofs LC.proofs.C11Proofs LC.proofs.C13Proofs LC.proofs.Reach LC.proofs.C13Flags LC.proofs.C10Total LC.proofs.C15Proofs LC.model.Pgn LC.proofs.PgnMatch LC.proofs.PgnText LC.proofs.PgnImport.
Open Scope N_scope.
Theorem C15_roundtrip : forall K b0 g0 acts, Good K b0 -> game_from_board b0 = Ok g0 -> Forall wf_action acts ->
  let g := run K g0 acts in
  exists g', from_pgn_tokens K g0 (san_list g) (result_of_tag (g_tag g)) = Ok g' /\ same_core g' g /\ g_tag g' = g_tag g /\
    (g_status g' = g_status g \/ (g_status g' = GOngoing /\ exists c, g_status g = GDrawOffered c)).
Proof. exact pgn_roundtrip. Qed.
Theorem C15_lookup : forall K b m mp, Good K b -> wf_bmove m -> legal (abs b) m = true -> move_props K m b = Ok mp ->
  san_lookup K b (san_string m mp) = Ok (Some m).
Proof. exact san_lookup_finds. Qed.
Theorem C15_replay_invariant : forall K g0 g a g', GameInv K g0 g -> wf_action a -> game_step K g a = Ok g' -> GameInv K g0 g'.
Proof. exact GameInv_step. Qed.
Theorem C15_export_layout : forall g p0, hd_error (g_positions g) = Some p0 ->
  as_pgn_unwrapped g = Ok (default_tags (g_tag g) ++ [10] ++ trim_end (movelist (color_eqb (b_stm p0) White) (san_list g)) ++ [32] ++ print_rtag (g_tag g)).
Proof.
  intros g p0 H. unfold as_pgn_unwrapped, history_string. rewrite H. cbn [unwrap_o bind]. rewrite history_layout. reflexivity.
Qed.
Theorem C15_text_roundtrip : forall K acts, Forall wf_action acts ->
  exists g0, default_game K = Ok g0 /\
  let g := run K g0 acts in
  exists hs, history_string g = Ok hs /\
  forall W, Forall2 (Rb blank) W (trim_end hs) ->
  exists g', from_pgn_text K (default_tags (g_tag g) ++ [10] ++ W ++ [32] ++ print_rtag (g_tag g)) = Ok (g', print_rtag (g_tag g)) /\
    same_core g' g /\ g_tag g' = g_tag g /\
    (g_status g' = g_status g \/ (g_status g' = GOngoing /\ exists c, g_status g = GDrawOffered c)).
Proof. exact pgn_text_roundtrip. Qed.
Theorem C15_export_import : forall K acts, Forall wf_action acts ->
  exists g0, default_game K = Ok g0 /\
  let g := run K g0 acts in
  exists txt g', as_pgn_unwrapped g = Ok txt /\ from_pgn_text K txt = Ok (g', print_rtag (g_tag g)) /\
    same_core g' g /\ g_tag g' = g_tag g /\
    (g_status g' = g_status g \/ (g_status g' = GOngoing /\ exists c, g_status g = GDrawOffered c)).
Proof. exact pgn_export_import. Qed.
(* a blank of the move text may be rendered as a blank or as a line end; everything else is kept *)
Theorem C15_rewrap_relation : forall a b, Rb blank a b <-> a = b \/ ((a = 32 \/ a = 10) /\ (b = 32 \/ b = 10)).
Proof. exact Rb_blank_spec. Qed.
(* the converse direction, for ARBITRARY text: whatever Game::from_pgn accepts is a game from the standard position played
   by the rules (every recorded move rule-legal, every position the rule successor, every flag the rule's), obtained by
   a sequence of accepted actions — no byte string makes the importer fabricate an illegal game *)
Theorem C15_import_sound : forall K t g tag, from_pgn_text K t = Ok (g, tag) ->
  exists g0 acts, default_game K = Ok g0 /\ Forall wf_action acts /\ g = run K g0 acts /\
                  RuleChain K (g_positions g) (g_moves g) (g_meta g) /\ GameGood K g /\
                  g_tag g = tag_of_status (g_status g) /\
                  (g_status g <> GOngoing -> tag = print_rtag (tag_of_status (g_status g))).
Proof. exact import_sound. Qed.
