(* C18 — Coordinate, piece, colour, castling-right and bitboard primitives are consistent. *)
Require Import LC.model.Prims LC.model.Text LC.spec.Chess LC.proofs.Bits LC.proofs.C18Proofs.
From Coq Require Import Sorted.
Open Scope N_scope.

(* index conversions: inverse in range, error outside, for EVERY index *)
Theorem C18_square_index : forall n, sq_new n = if n <? 64 then Ok n else Err EIndex. Proof. exact sq_new_spec. Qed.
Theorem C18_file_rank_index : forall n, idx8_of n = if n <? 8 then Ok n else Err EIndex. Proof. exact idx8_spec. Qed.
Theorem C18_color_index : (forall c, color_of_index (color_index c) = Ok c) /\ (forall n, 2 <= n -> color_of_index n = Err EIndex).
Proof. exact (conj color_index_rt color_index_range). Qed.
Theorem C18_ptype_index : (forall t, ptype_of_index (ptype_index t) = Ok t) /\ (forall n, 6 <= n -> ptype_of_index n = Err EIndex).
Proof. exact (conj ptype_index_rt ptype_index_range). Qed.
Theorem C18_castling_index : (forall r, cr_of_index (cr_index r) = Ok r) /\ (forall n, 4 <= n -> cr_of_index n = Err EIndex)
  /\ (forall n r, cr_of_index n = Ok r -> cr_index r = n).
Proof. exact (conj cr_index_rt (conj cr_index_range cr_index_inv)). Qed.
(* castling rights: + is union and - is difference over the two sides *)
Theorem C18_castling_add : forall a b, has_kingside (cr_add a b) = has_kingside a || has_kingside b
                                   /\ has_queenside (cr_add a b) = has_queenside a || has_queenside b.
Proof. exact cr_add_spec. Qed.
Theorem C18_castling_sub : forall a b, has_kingside (cr_sub a b) = has_kingside a && negb (has_kingside b)
                                   /\ has_queenside (cr_sub a b) = has_queenside a && negb (has_queenside b).
Proof. exact cr_sub_spec. Qed.
(* squares: text round trip, rank/file extraction, neighbours and colour follow geometry *)
Theorem C18_square_geometry : forall s, s < 64 ->
  parse_sq (print_sq s) = Ok s /\ rank s = s / 8 /\ file s = s mod 8 /\ mk_sq (rank s) (file s) = s /\
  (match step s (1, 0)%Z with Some t => sq_up s = Ok t | None => exists e, sq_up s = Err e end) /\
  (match step s (-1, 0)%Z with Some t => sq_down s = Ok t | None => exists e, sq_down s = Err e end) /\
  (match step s (0, 1)%Z with Some t => sq_right s = Ok t | None => exists e, sq_right s = Err e end) /\
  (match step s (0, -1)%Z with Some t => sq_left s = Ok t | None => exists e, sq_left s = Err e end) /\
  is_light s = N.odd (s / 8 + s mod 8).
Proof. exact square_facts. Qed.
(* text: files, ranks, piece letters; a text that parses is the canonical text of its value *)
Theorem C18_file_text : (forall f, f < 8 -> parse_file (print_file f) = Ok f) /\ (forall s f, parse_file s = Ok f -> f < 8 /\ s = print_file f).
Proof. exact (conj file_text_rt file_parse_inv). Qed.
Theorem C18_rank_text : (forall r, r < 8 -> parse_rank (print_rank r) = Ok r) /\ (forall s r, parse_rank s = Ok r -> r < 8 /\ s = print_rank r).
Proof. exact (conj rank_text_rt rank_parse_inv). Qed.
Theorem C18_piece_text : forall t, parse_pt (letter t) = Ok t. Proof. exact ptype_text_rt. Qed.
(* bitboards: for EVERY 64-bit value the iterator yields exactly the set squares in ascending order *)
Theorem C18_bitboard_iterator : forall b, b < 2 ^ 64 -> bits b = filter (N.testbit b) squares.
Proof. exact bits_spec. Qed.
Theorem C18_bitboard_sorted_nodup : forall b, b < 2 ^ 64 -> StronglySorted N.lt (bits b) /\ NoDup (bits b).
Proof. exact (fun b H => conj (bits_sorted b H) (bits_NoDup b H)). Qed.
Theorem C18_bitboard_count : forall b, b < 2 ^ 64 -> popcount b = N.of_nat (length (bits b)).
Proof. exact popcount_length. Qed.
Theorem C18_bitboard_lowest : forall b, b < 2 ^ 64 -> last_bit_square b = hd_error (bits b)
  /\ to_square b = match bits b with [] => Panic | s :: _ => Ok s end.
Proof. exact (fun b H => conj (last_bit_is_head b H) (to_square_spec b H)). Qed.
Theorem C18_bitboard_highest : forall b, b < 2 ^ 64 -> b <> 0 ->
  exists m, first_bit_square b = Some m /\ In m (bits b) /\ forall i, In i (bits b) -> i <= m.
Proof. exact first_bit_is_max. Qed.
Theorem C18_file_rank_masks : forall i, i < 8 ->
  bb_from_file i = of_list (filter (fun s => sfile s =? i) squares) /\ bb_from_rank i = of_list (filter (fun s => srank s =? i) squares).
Proof. exact (fun i H => conj (from_file_spec i H) (from_rank_spec i H)). Qed.
