(* C09 — Position construction accepts exactly valid positions.
   pos_of bd is the mailbox position described by a builder (64 optional pieces, side, rights, en-passant square, clocks);
   valid is the rule of spec/Chess.v: exactly one king per side, the side not to move not in check, every granted castling
   right has that side's king and rook on their home squares, an en-passant square on the correct rank, empty, with the
   just-moved enemy pawn in front of it and an empty origin square behind it.
   PROVED for EVERY builder with 64 squares (C09_exact): construction never panics; it returns a board iff the described
   position is valid, and then the board's mailbox position is exactly the described one and all representation, hash and
   cached-mask invariants hold; otherwise it returns an error.  validate() itself is proved to compute exactly the rule
   (C09_validate).  The FEN and piece-list entry points are this constructor after the (total, C10) builder parser /
   BoardBuilder::setup.
   Finding made while proving totality: the library computed the terminal flag before validating, so an en-passant square
   whose "victim" square holds the mover's own king made the constructor panic (7k/8/3p4/3PK3/8/8/8/8 w - e6 0 1);
   repaired upstream by the commit "fix: validate a constructed position before computing its terminal status". *)
Require Import LC.model.Prims LC.model.Board LC.spec.Chess LC.proofs.MaskInv LC.proofs.MoveInv LC.proofs.C05Proofs LC.proofs.C09Proofs.
Open Scope N_scope.
Theorem C09_exact : forall K bd, wf_builder bd ->
  (valid (pos_of bd) = true -> exists b, try_from_builder K bd = Ok b /\ abs b = pos_of bd /\ Inv K b /\ DerivedInv b) /\
  (valid (pos_of bd) = false -> exists e, try_from_builder K bd = Err e).
Proof. exact construction. Qed.
Theorem C09_never_panics : forall K bd, wf_builder bd -> try_from_builder K bd <> Panic.
Proof.
  intros K bd W. destruct (construction K bd W) as [H1 H2]. destruct (valid (pos_of bd)) eqn:V.
  - destruct (H1 eq_refl) as (b & E & _). rewrite E. discriminate.
  - destruct (H2 eq_refl) as (e & E). rewrite E. discriminate.
Qed.
Theorem C09_accepted_is_valid : forall K bd b, wf_builder bd -> try_from_builder K bd = Ok b ->
  valid (pos_of bd) = true /\ abs b = pos_of bd /\ valid (abs b) = true.
Proof.
  intros K bd b W E. destruct (construction K bd W) as [H1 H2]. destruct (valid (pos_of bd)) eqn:V.
  - destruct (H1 eq_refl) as (b' & E' & A & _). rewrite E in E'. injection E' as <-. split; [reflexivity|]. split; [exact A|]. rewrite A. exact V.
  - destruct (H2 eq_refl) as (e & E'). rewrite E in E'. discriminate.
Qed.
Theorem C09_validate : forall K b, MaskInv b -> (forall e, b_ep b = Some e -> e < 64) ->
  exists r, validate K b = Ok r /\ (r = None <-> valid (abs b) = true).
Proof. intros K b I He. exists (validate_spec_result b). split; [exact (validate_closed K b I He)|exact (validate_none_iff b)]. Qed.
