(* C05 — Check and pin masks name exactly the checking and pinned pieces.
   abs b is the mailbox position read off the masks; is_checker is the rule of spec/Chess.v ("an enemy piece on a
   attacks the king of the side to move": knight / king steps, pawn capture steps, slider walks to the first
   occupied square).
   PROVED: for EVERY board with consistent masks and EVERY square sq the check mask computed by the library's
   get_pins_and_checks(sq) is exactly the set of enemy pieces attacking sq (C05_attackers_of_any_square — this is
   also what castling and the king-safety test of move generation use), and in every position obtained by
   construction and any sequence of moves the stored check mask is exactly the set of checking pieces
   (C05_check_mask).  The proof combines complete 64x64 geometric sweeps of the tables (line alignment, between
   sets) with reasoning over all occupancies.
   Likewise the pin mask: exactly the own pieces that are the only occupied square strictly between their king
   and an enemy rook / bishop / queen moving along that line (C05_pin_mask; is_pinned in spec/Chess.v). *)
Require Import LC.model.Prims LC.model.Board LC.spec.Chess LC.proofs.MaskInv LC.proofs.C06Proofs LC.proofs.C05Proofs LC.proofs.C05Pins LC.proofs.Reach.
Open Scope N_scope.
Theorem C05_attackers_of_any_square : forall b sq P C, MaskInv b -> sq < 64 -> pins_and_checks b sq = Ok (P, C) ->
  forall a, a < 64 -> has C a = color_at (abs b) (opp (b_stm b)) a && mem sq (attacks_from (abs b) a).
Proof. exact checks_spec. Qed.
Theorem C05_never_panics : forall b sq, MaskInv b -> sq < 64 -> exists P C, pins_and_checks b sq = Ok (P, C).
Proof. intros b sq I H. destruct (pins_and_checks_ok b sq I H) as (P & C & E & _). eauto. Qed.
Theorem C05_check_mask : forall K b, reachable K b ->
  (forall a, a < 64 -> has (b_checks b) a = is_checker (abs b) a) /\ (forall a, has (b_checks b) a = true -> a < 64).
Proof.
  intros K b R. destruct (reachable_Inv K b R) as [I _]. pose proof (reachable_derived K b R) as D.
  split; [exact (check_mask_spec b I D)|exact (check_mask_small b I D)].
Qed.
Theorem C05_pin_mask : forall K b, reachable K b -> forall u, u < 64 -> has (b_pinned b) u = is_pinned (abs b) (b_stm b) u.
Proof.
  intros K b R. destruct (reachable_Inv K b R) as [I _]. exact (pin_mask_spec b I (reachable_derived K b R)).
Qed.
Theorem C05_pins_of_any_square : forall b k P C, MaskInv b -> k < 64 -> pins_and_checks b k = Ok (P, C) ->
  forall u, u < 64 -> has P u = color_at (abs b) (b_stm b) u && existsb (fun a =>
       match piece_at (abs b) a with
       | Some (t, c') => color_eqb (opp (b_stm b)) c' && existsb (pin_line (abs b) k u a) (slide_dirs t)
       | None => false end) squares.
Proof. exact pins_spec. Qed.
(* the hypotheses of the statements above hold in every position obtained by construction and play, which is moreover valid *)
Theorem C05_reachable_valid : forall K b, wreachable K b -> reachable K b /\ valid (abs b) = true.
Proof. intros K b R. split; [exact (wreachable_reachable K b R)|exact (g_valid K b (wreachable_good K b R))]. Qed.
