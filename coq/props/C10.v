(* C10 — Text parsers are total: any string gives a value or an error, never a panic.
   PROVED for ALL byte strings (a Rust &str is its byte list; no UTF-8 hypothesis is even needed):
   file, rank, square, piece letter, coordinate move and the unvalidated FEN builder parser return a value
   or an error; every accepted coordinate-move text re-prints to a canonical text that parses back to the
   same move.  All model functions are structurally recursive, so termination is by construction.
   PARTIAL: (1) ChessBoard::from_fen = builder parser followed by position construction; that construction
   never panics on arbitrary builder contents is part of C09 and, until that theorem exists, is decided by the
   differential run (grammar + mutation FEN streams); (2) the three regex passes and textwrap inside
   Game::from_pgn are not modelled: PGN totality is checked on the library only (catch_unwind + slow-parse
   monitor on exported, mutated and repetition-ending PGN texts). *)
Require Import LC.model.Prims LC.model.Text LC.model.Fen LC.proofs.C10Proofs.
Open Scope N_scope.
Theorem C10_file_total : forall s, parse_file s <> Panic. Proof. exact parse_file_total. Qed.
Theorem C10_rank_total : forall s, parse_rank s <> Panic. Proof. exact parse_rank_total. Qed.
Theorem C10_square_total : forall s, parse_sq s <> Panic. Proof. exact parse_sq_total. Qed.
Theorem C10_piece_total : forall s, parse_pt s <> Panic. Proof. exact parse_pt_total. Qed.
Theorem C10_move_total : forall s, parse_bmove s <> Panic. Proof. exact parse_bmove_total. Qed.
Theorem C10_move_canonical : forall s m, parse_bmove s = Ok m -> parse_bmove (print_bmove m) = Ok m.
Proof. exact parse_bmove_canonical. Qed.
Theorem C10_fen_builder_total : forall s, parse_fen s <> Panic. Proof. exact parse_fen_total. Qed.
