(* C10 — Text parsers are total: any string gives a value or an error, never a panic.
   PROVED for ALL byte strings (a Rust &str is its byte list; no UTF-8 hypothesis is even needed):
   file, rank, square, piece letter, coordinate move and the unvalidated FEN builder parser return a value
   or an error; every accepted coordinate-move text re-prints to a canonical text that parses back to the
   same move.  All model functions are structurally recursive, so termination is by construction.
   Also PROVED: ChessBoard::from_fen (builder parser followed by position construction) never panics on ANY string
   (C10_from_fen_total: the parser's output is always a well-formed builder, and construction is total by C09); the PGN
   importer after tokenisation never panics on ANY token list from any game whose position invariants hold
   (C10_pgn_import_total: move-text lookup, move application, history recording and status update are total).
   Game::from_pgn as a whole (C10_pgn_text_total): the four regular-expression passes (tag pairs, blank-line split, move
   tokens, result token) are modelled on the bytes of the text (model/Pgn.v: a leftmost-first backtracking matcher,
   structurally recursive, so termination is by construction) and composed with the replay; for EVERY byte string the
   import returns a game or an error.  What remains outside the model: the regex crate's own machinery (that it computes
   the leftmost-first match this model defines, without panicking or hanging, is decided by the differential run on
   exported, re-wrapped, mutated and hand-assembled PGN texts: outcome, error kind, imported moves, status, position and
   Result tag are predicted by the model for every text), and the Unicode-aware classes of the tag pattern on non-ASCII
   text (they touch only the tags, never moves, positions or status). *)
Require Import LC.model.Prims LC.model.Board LC.model.Text LC.model.Fen LC.model.Game LC.model.Pgn LC.proofs.C10Proofs LC.proofs.C10Total LC.proofs.PgnImport.
Open Scope N_scope.
Theorem C10_file_total : forall s, parse_file s <> Panic. Proof. exact parse_file_total. Qed.
Theorem C10_rank_total : forall s, parse_rank s <> Panic. Proof. exact parse_rank_total. Qed.
Theorem C10_square_total : forall s, parse_sq s <> Panic. Proof. exact parse_sq_total. Qed.
Theorem C10_piece_total : forall s, parse_pt s <> Panic. Proof. exact parse_pt_total. Qed.
Theorem C10_move_total : forall s, parse_bmove s <> Panic. Proof. exact parse_bmove_total. Qed.
Theorem C10_move_canonical : forall s m, parse_bmove s = Ok m -> parse_bmove (print_bmove m) = Ok m.
Proof. exact parse_bmove_canonical. Qed.
Theorem C10_fen_builder_total : forall s, parse_fen s <> Panic. Proof. exact parse_fen_total. Qed.
Theorem C10_from_fen_total : forall K s, from_fen K s <> Panic.
Proof. exact from_fen_total. Qed.
Theorem C10_fen_builder_wellformed : forall s bd, parse_fen s = Ok bd -> List.length (bd_pieces bd) = 64%nat /\ forall e, bd_ep bd = Some e -> e < 64.
Proof. exact parse_fen_wf. Qed.
Theorem C10_pgn_import_total : forall K g0 toks res, GameGood K g0 -> from_pgn_tokens K g0 toks res <> Panic.
Proof. exact from_pgn_tokens_total. Qed.
Theorem C10_pgn_text_total : forall K t, from_pgn_text K t <> Panic.
Proof. exact from_pgn_text_total. Qed.
