(* C01 — Generated legal moves are exactly the moves the rules of chess allow.
   The rule side is spec/Chess.v (legal, pseudo_dests, in_check, castle_legal); abs b is the mailbox position of board b.
   PROVED, for EVERY board with consistent masks and current check/pin masks whose mailbox position is valid
   (one king per side, opponent not in check, held rights have king and rook at home, consistent en-passant square) —
   i.e. for every valid position, reachable or not, with no bound on anything:
   * C01_exact: get_legal_moves returns a list l (never the Panic outcome) and a move is in l iff it is legal under the
     rules: piece movement and captures, single and double pawn pushes, en passant, all four promotion choices, both
     castlings, and never a move that leaves or puts the mover's own king in check;
   * C01_no_duplicates: no move is listed twice;
   * C01_castling_query: the separately queryable castling availability names exactly the legal castling moves.
   Ingredients, each proved for every board with consistent masks (all 2^64 occupancies): C01_pseudo_legal_masks
   (destination masks = rule's pseudo-legal destinations; sliders by a complete sweep over all subsets of all 512 rays
   lifted to all occupancies, C01_ray_truncation), C01_king_safety_test (check mask after the move blank <-> king not
   attacked in the rule-defined successor, incl. en passant), C01_pin_shortcut (rule-level justification of the moves
   accepted without the test), C01_square_attacked, C01_in_check_flag.
   The model is tied to the code by the differential run (legal-move sets, duplicates, castling query on every explored
   position incl. exhaustive slider / castling families, en-passant discovered-check and boxed-king families).    C01_reachable: the hypotheses hold in EVERY position obtained by construction and play (proofs/Reach.v: validity is
   preserved by every legal move, ValidStep.v), so there the statement is unconditional.
*)
Require Import LC.model.Prims LC.model.Board LC.spec.Chess LC.spec.Geometry LC.proofs.MaskInv LC.proofs.C05Proofs
  LC.proofs.Rays LC.proofs.Pseudo LC.proofs.Safety LC.proofs.PinLemma LC.proofs.C01a LC.proofs.C01b LC.proofs.Reach.
Open Scope N_scope.
Theorem C01_exact : forall K b, MaskInv b -> DerivedInv b -> valid (abs b) = true ->
  exists l, legal_moves K b = Ok l /\ forall mv, In mv l <-> legal (abs b) mv = true.
Proof. exact legal_moves_exact. Qed.
Theorem C01_no_duplicates : forall K b l, MaskInv b -> DerivedInv b -> valid (abs b) = true -> legal_moves K b = Ok l -> NoDup l.
Proof. intros K b l I D V. exact (legal_moves_nodup K b I D V l). Qed.
Theorem C01_castling_query : forall b, MaskInv b -> DerivedInv b -> valid (abs b) = true ->
  exists r, castling_available b None = Ok r /\ has_kingside r = legal (abs b) CastleK /\ has_queenside r = legal (abs b) CastleQ.
Proof. exact castling_query. Qed.
Theorem C01_ray_truncation : forall b s i, MaskInv b -> s < 64 -> (i < 8)%nat ->
  truncate_ray b s i = Ok (of_list (reach (abs b) s (dir i))).
Proof. exact truncate_ray_spec. Qed.
Theorem C01_pseudo_legal_masks : forall b t s, MaskInv b -> s < 64 -> cell_at b s = Some (t, b_stm b) ->
  exists M, piece_moves_mask b t s = Ok M /\ forall d, d < 64 -> has M d = mem d (pseudo_dests (abs b) s).
Proof. exact pseudo_mask_spec. Qed.
Theorem C01_king_safety_test : forall K b m, MaskInv b -> ep_ok (abs b) = true -> pm_from m < 64 -> pm_to m < 64 ->
  cell_at b (pm_from m) = Some (pm_type m, b_stm b) -> mem (pm_to m) (pseudo_dests (abs b) (pm_from m)) = true ->
  king_sq (apply_pm (abs b) m) (b_stm b) <> None ->
  exists cm, check_mask_after K b m = Ok cm /\ is_blank cm = negb (in_check (apply_pm (abs b) m) (b_stm b)).
Proof. exact check_mask_after_spec. Qed.
Theorem C01_pin_shortcut : forall (p : pos) (m : pmove), length (placement p) = 64%nat -> pm_from m < 64 -> pm_to m < 64 ->
  is_ep_capture p m = false -> piece_at p (pm_from m) = Some (pm_type m, stm p) -> pm_type m <> King ->
  match pm_promo m with Some q => q | None => pm_type m end <> King -> color_at p (stm p) (pm_to m) = false ->
  in_check p (stm p) = false -> is_pinned p (stm p) (pm_from m) = false -> in_check (apply_pm p m) (stm p) = false.
Proof. exact pin_lemma. Qed.
Theorem C01_square_attacked : forall b sq, MaskInv b -> sq < 64 -> is_under_attack b sq = Ok (attacked (abs b) (opp (b_stm b)) sq).
Proof. exact is_under_attack_spec. Qed.
Theorem C01_in_check_flag : forall b, MaskInv b -> DerivedInv b -> is_blank (b_checks b) = negb (in_check (abs b) (b_stm b)).
Proof. exact checks_blank. Qed.
(* every position obtained by construction from a well-formed description and any sequence of applied moves *)
Theorem C01_reachable : forall K b, wreachable K b ->
  exists l, legal_moves K b = Ok l /\ (forall mv, In mv l <-> legal (abs b) mv = true) /\ NoDup l.
Proof.
  intros K b R. destruct (wreachable_good K b R) as [[I _] D V _]. destruct (legal_moves_exact K b I D V) as (l & E & H).
  exists l. split; [exact E|]. split; [exact H|]. exact (legal_moves_nodup K b I D V l E).
Qed.
