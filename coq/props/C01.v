(* C01 — Generated legal moves are exactly the moves the rules of chess allow.
   The rule side is spec/Chess.v (legal, pseudo_dests, in_check, castle_legal); abs b is the mailbox position of board b.
   PROVED (for every board with consistent masks — any occupancy — and every square / move):
   * C01_pseudo_legal_masks: the destination mask the generator computes for the piece on s (knight / king tables, pawn
     pushes, double pushes and captures incl. the en-passant square, slider rays truncated at the nearest blocker) contains
     exactly the rule's pseudo-legal destinations; the slider case rests on a complete sweep over all subsets of all
     512 rays lifted to all 2^64 occupancies (C01_ray_truncation);
   * C01_king_safety_test: the generator's test "check mask after the move is empty" is exactly "the mover's king is not
     attacked in the rule-defined successor", for every pseudo-legal move incl. en passant (victim removed);
   * C01_pin_shortcut: (rule level) while not in check, a non-king, non-en-passant move of an unpinned piece cannot expose
     the king — the justification of the moves the generator accepts without running the test; the generator's "in check"
     and "pinned" conditions are the rule's by C05;
   * C01_square_attacked: the attack test used for the castling path is the rule's attacked predicate.
   PARTIAL: the assembly of these facts into "In m (legal_moves b) <-> legal (abs b) m", absence of duplicates and the
   castling query are decided by the differential run (legal-move sets and castling query on every explored position incl.
   exhaustive slider / castling families, en-passant discovered-check and boxed-king families, and the mailbox cross-check). *)
Require Import LC.model.Prims LC.model.Board LC.spec.Chess LC.spec.Geometry LC.proofs.MaskInv LC.proofs.C05Proofs
  LC.proofs.Rays LC.proofs.Pseudo LC.proofs.Safety LC.proofs.PinLemma LC.proofs.C01a.
Open Scope N_scope.
Theorem C01_ray_truncation : forall b s i, MaskInv b -> s < 64 -> (i < 8)%nat ->
  truncate_ray b s i = Ok (of_list (reach (abs b) s (dir i))).
Proof. exact truncate_ray_spec. Qed.
Theorem C01_pseudo_legal_masks : forall b t s, MaskInv b -> s < 64 -> cell_at b s = Some (t, b_stm b) ->
  exists M, piece_moves_mask b t s = Ok M /\ forall d, d < 64 -> has M d = mem d (pseudo_dests (abs b) s).
Proof. exact pseudo_mask_spec. Qed.
Theorem C01_king_safety_test : forall K b m, MaskInv b -> ep_ok (abs b) = true -> pm_from m < 64 -> pm_to m < 64 ->
  cell_at b (pm_from m) = Some (pm_type m, b_stm b) -> mem (pm_to m) (pseudo_dests (abs b) (pm_from m)) = true ->
  king_sq (apply_pm (abs b) m) (b_stm b) <> None ->
  exists cm, check_mask_after K b m = Ok cm /\ is_blank cm = negb (in_check (apply_pm (abs b) m) (b_stm b)).
Proof. exact check_mask_after_spec. Qed.
Theorem C01_pin_shortcut : forall (p : pos) (m : pmove), length (placement p) = 64%nat -> pm_from m < 64 -> pm_to m < 64 ->
  is_ep_capture p m = false -> piece_at p (pm_from m) = Some (pm_type m, stm p) -> pm_type m <> King ->
  match pm_promo m with Some q => q | None => pm_type m end <> King -> color_at p (stm p) (pm_to m) = false ->
  in_check p (stm p) = false -> is_pinned p (stm p) (pm_from m) = false -> in_check (apply_pm p m) (stm p) = false.
Proof. exact pin_lemma. Qed.
Theorem C01_square_attacked : forall b sq, MaskInv b -> sq < 64 -> is_under_attack b sq = Ok (attacked (abs b) (opp (b_stm b)) sq).
Proof. exact is_under_attack_spec. Qed.
Theorem C01_in_check_flag : forall b, MaskInv b -> DerivedInv b -> is_blank (b_checks b) = negb (in_check (abs b) (b_stm b)).
Proof. exact checks_blank. Qed.
