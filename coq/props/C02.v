(* C02 — Making a legal move produces exactly the successor position the rules define.
   abs b is the mailbox position read off the board's masks and fields; Chess.apply is the rule-defined successor of
   spec/Chess.v (placement with en-passant victim removed / rook relocated / promotion substituted, side flipped, castling
   rights removed exactly on king move or castling, rook leaving its home corner, home-corner rook captured; en-passant
   square exactly after a double push; half-move clock reset by pawn moves and captures else +1; move number +1 after Black).
   PROVED for EVERY board with consistent masks whose mailbox position is valid, and EVERY rule-legal move (no bound on
   anything): whenever the library's application returns a board, that board's mailbox position is exactly Chess.apply —
   all seven fields, for piece moves incl. en passant and promotion (C02_piece_move) and both castlings (C02_castling).
   The checked form make_move applies the same function after the legality test (C02_checked_form).  The non-mutating
   form is a pure function in the model; that the library leaves the receiver untouched is observed by the differential
   run (field forms).  C02_history: along EVERY finite sequence of applied moves from
   any constructed position every applied move is rule-legal and the board's mailbox position is the rule-level play of
   the same moves (so the successor is pinned at every ply of every history).  C02_total: on such a position the
   application of a rule-legal move never panics and never errs (proofs/Total.v). *)
Require Import LC.model.Prims LC.model.Board LC.spec.Chess LC.proofs.MaskInv LC.proofs.C05Proofs LC.proofs.C02Proofs LC.proofs.MoveInv LC.proofs.Reach LC.proofs.C09Proofs LC.proofs.Total.
Open Scope N_scope.
Theorem C02_piece_move : forall K b m b', MaskInv b -> valid (abs b) = true -> legal (abs b) (MovePiece m) = true ->
  pm_from m < 64 -> pm_to m < 64 -> make_move_unchecked K b (MovePiece m) = Ok b' -> abs b' = apply (abs b) (MovePiece m).
Proof. exact piece_move_refines. Qed.
Theorem C02_castling : forall K b (side : bool) b', MaskInv b -> valid (abs b) = true ->
  legal (abs b) (if side then CastleK else CastleQ) = true ->
  make_move_unchecked K b (if side then CastleK else CastleQ) = Ok b' -> abs b' = apply (abs b) (if side then CastleK else CastleQ).
Proof. exact castle_refines. Qed.
Theorem C02_checked_form : forall K b mv b', make_move K b mv = Ok b' -> make_move_unchecked K b mv = Ok b'.
Proof.
  intros K b mv b' E. unfold make_move in E. destruct (is_legal_move K b mv) as [[]| |]; cbn in E; try discriminate. exact E.
Qed.
Theorem C02_step : forall K b mv b', Good K b -> wf_bmove mv -> make_move K b mv = Ok b' ->
  legal (abs b) mv = true /\ abs b' = apply (abs b) mv /\ Good K b'.
Proof. exact good_step. Qed.
Theorem C02_history : forall K ms b b', Good K b -> Forall wf_bmove ms -> play K b ms = Ok b' ->
  Good K b' /\ abs b' = spec_play (abs b) ms /\ all_legal (abs b) ms = true.
Proof. exact good_play. Qed.
Theorem C02_constructed_is_good : forall K bd b, wf_builder bd -> try_from_builder K bd = Ok b -> Good K b /\ abs b = pos_of bd.
Proof. exact good_build. Qed.
Theorem C02_total : forall K b mv, MaskInv b -> valid (abs b) = true -> legal (abs b) mv = true -> wf_bmove mv ->
  exists b', make_move_unchecked K b mv = Ok b'.
Proof. exact make_move_unchecked_total. Qed.
