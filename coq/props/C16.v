(* C16 — Coordinate move text round-trips for every representable move value
   (6 piece types x 64 x 64 x {no promotion, N, B, R, Q, K} + 2 castlings = 147,458 values). *)
Require Import LC.model.Prims LC.model.Text LC.proofs.C16Proofs.
Open Scope N_scope.
Theorem C16_roundtrip : forall m : bmove, representable m -> parse_bmove (print_bmove m) = Ok m.
Proof. exact roundtrip. Qed.
Theorem C16_universe_size : N.of_nat (length all_types * length squares * length squares * length promos + 2) = 147458.
Proof. exact universe_size. Qed.
Print Assumptions C16_roundtrip.
Print Assumptions C16_universe_size.
