(* C20 — Text renderings show exactly the value rendered (board, bitboard grid, status).
   The model's outputs are the library's with the `colored` escape sequences removed (stripped by the harness
   exactly as the library's own test does). *)
Require Import LC.model.Prims LC.model.Board LC.model.Text LC.model.Render LC.model.Game LC.spec.TextSpec
  LC.proofs.MaskInv LC.proofs.MoveInv LC.proofs.C06Proofs LC.proofs.C20Proofs.
From Coq Require Import String.
Open Scope N_scope.

(* both renderings of every reachable position, in closed form: header with side and rights, eight labelled rows whose
   cells are exactly the piece letters (upper case White, lower case Black) or blanks, the legend *)
Theorem C20_board_rendering : forall K b, reachable K b ->
  render_straight b = Ok (render_text b [7;6;5;4;3;2;1;0] idx8 (B "     a  b  c  d  e  f  g  h")) /\
  render_flipped b = Ok (render_text b idx8 [7;6;5;4;3;2;1;0] (B "     h  g  f  e  d  c  b  a")).
Proof.
  intros K b R. destruct (reachable_Inv K b R) as [I _]. split; apply render_spec; exact I.
Qed.
Theorem C20_cell : forall t, cell_text None = B "   " /\ cell_text (Some (t, White)) = B " " ++ letter t ++ B " " /\
  cell_text (Some (t, Black)) = B " " ++ map lower (letter t) ++ B " ".
Proof. intros t. split; [reflexivity|apply cell_text_upper_lower]. Qed.
(* the flipped rendering lists the cells in the reverse order of the straight one: a 180-degree rotation *)
Theorem C20_rotation : cell_order idx8 [7;6;5;4;3;2;1;0] = rev (cell_order [7;6;5;4;3;2;1;0] idx8)
  /\ cell_order [7;6;5;4;3;2;1;0] idx8 = flat_map (fun r => map (fun f => 8 * r + f) idx8) [7;6;5;4;3;2;1;0].
Proof. exact (conj rotation straight_order). Qed.
(* the bitboard grid of EVERY value: row r (eighth rank first), column f (a-file first) shows X iff bit 8r+f is set *)
Theorem C20_bitboard_grid : forall x, render_bb x = grid x.
Proof. exact render_bb_grid. Qed.
Theorem C20_bitboard_cells : forall x r, grid_row x r =
  cell_txt (N.testbit x (8*r+0)) ++ cell_txt (N.testbit x (8*r+1)) ++ cell_txt (N.testbit x (8*r+2)) ++ cell_txt (N.testbit x (8*r+3)) ++
  cell_txt (N.testbit x (8*r+4)) ++ cell_txt (N.testbit x (8*r+5)) ++ cell_txt (N.testbit x (8*r+6)) ++ cell_txt (N.testbit x (8*r+7)) ++ [10].
Proof. exact grid_row_cells. Qed.
(* status sentences: the winner named is the side opposite to the one checkmated or resigned; no other status names a winner *)
Theorem C20_status_winner : forall c,
  print_gstatus (GCheckMated c) = print_color (opp c) ++ B " won by checkmate" /\
  print_gstatus (GResigned c) = print_color (opp c) ++ B " won by resignation" /\
  print_gstatus (GDrawOffered c) = B "draw offered by " ++ print_color c.
Proof. exact status_sentences. Qed.
Theorem C20_status_no_other_winner : forall s, (match s with GCheckMated _ | GResigned _ => False | _ => True end) ->
  forall c, print_gstatus s <> print_color c ++ B " won by checkmate" /\ print_gstatus s <> print_color c ++ B " won by resignation".
Proof. exact status_sentences_drawn_or_open. Qed.
