(* C07 — Position hash is path-independent and determined by the position key.
   K ranges over ALL key tables for the structural theorems; impl_zkeys is the table published by the
   library on this run (gen/ZobristKeys.v, regenerated and re-proved every run). *)
Require Import LC.model.Prims LC.model.Board LC.proofs.MaskInv LC.proofs.HashInv LC.proofs.MoveInv LC.proofs.C06Proofs
  LC.proofs.C07Proofs LC.gen.ZobristKeys LC.gen.KeysOk.
Open Scope N_scope.

(* stored hash = hash recomputed from scratch = XOR of the feature keys, in every reachable position *)
Theorem C07_incremental : forall K b, reachable K b -> b_hash b = feature_hash K b /\ calc_hash K b = Ok (b_hash b).
Proof. exact reachable_hash. Qed.
Theorem C07_xor_of_keys : forall K b, feature_hash K b =
  N.lxor (N.lxor (N.lxor (xor_keys K (cell_at b) squares 0) (side_key K (b_stm b)))
                 (N.lxor (zk_castle K White (b_wr b)) (zk_castle K Black (b_br b)))) (ep_key K (b_ep b)).
Proof. exact xor_of_keys. Qed.
Theorem C07_path_independent : forall K b1 b2, reachable K b1 -> reachable K b2 ->
  (forall x, x < 64 -> cell_at b1 x = cell_at b2 x) -> b_stm b1 = b_stm b2 -> b_wr b1 = b_wr b2 -> b_br b1 = b_br b2 -> b_ep b1 = b_ep b2 ->
  b_hash b1 = b_hash b2.
Proof. exact path_independent. Qed.
(* the published keys *)
Theorem C07_keys_nonzero_distinct : length all_keys = 785%nat /\ forallb (fun k => negb (k =? 0)) all_keys = true /\ nodupb all_keys = true.
Proof. exact (conj keys_count (conj keys_nonzero keys_distinct)). Qed.
(* positions that differ in exactly one feature never share a hash (published keys) *)
Theorem C07_one_square : forall f g s stm wr br e, s < 64 -> (forall x, x <> s -> f x = g x) -> f s <> g s ->
  feature_hash_of impl_zkeys f stm wr br e <> feature_hash_of impl_zkeys g stm wr br e.
Proof. exact one_square. Qed.
Theorem C07_side : forall f wr br e, feature_hash_of impl_zkeys f White wr br e <> feature_hash_of impl_zkeys f Black wr br e.
Proof. exact side_differs. Qed.
Theorem C07_rights : forall f stm wr wr' br br' e, (wr <> wr' /\ br = br') \/ (wr = wr' /\ br <> br') ->
  feature_hash_of impl_zkeys f stm wr br e <> feature_hash_of impl_zkeys f stm wr' br' e.
Proof. exact rights_differ. Qed.
Theorem C07_en_passant_file : forall f stm wr br a b, a < 8 -> b < 8 -> a <> b ->
  feature_hash_of impl_zkeys f stm wr br (Some a) <> feature_hash_of impl_zkeys f stm wr br (Some b) /\
  feature_hash_of impl_zkeys f stm wr br (Some a) <> feature_hash_of impl_zkeys f stm wr br None.
Proof. exact ep_file_differs. Qed.
