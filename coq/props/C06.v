(* C06 — Board representation invariants hold in every reachable position.
   PROVED here, for every position obtained from any successfully constructed position by any finite
   sequence of successfully applied moves (checked form; the unchecked form keeps them too):
   the mask clauses and the agreement of the per-square queries with the masks.
   The remaining clauses (exactly one king per side and the reported king square, mover not in check, castling rights
   and en-passant consistency) are PROVED too, for every position obtained from a well-formed description (64 squares,
   en-passant square on the board) by construction and any sequence of applied moves: C06_validity, C06_king_square.
   They rest on proofs/ValidStep.v (every rule-legal move preserves validity: C06_valid_step), proofs/C03Proofs.v (the
   library applies a move only if it is rule-legal) and C02 (the result is the rule-defined successor); C06_history
   says every reachable position is the rule-level result of a legal-move sequence from a valid position. *)
Require Import LC.model.Prims LC.model.Board LC.proofs.Bits LC.proofs.Cols LC.proofs.MaskInv LC.proofs.MoveInv LC.proofs.C06Proofs LC.spec.Chess LC.proofs.C05Proofs LC.proofs.C02Proofs LC.proofs.C01a LC.proofs.ValidStep LC.proofs.Reach.
Open Scope N_scope.

Theorem C06_masks : forall K b, reachable K b ->
  N.land (m_white b) (m_black b) = 0 /\
  (forall t t', t <> t' -> N.land (tmask b t) (tmask b t') = 0) /\
  N.lor (N.lor (N.lor (N.lor (N.lor (m_pawn b) (m_knight b)) (m_bishop b)) (m_rook b)) (m_queen b)) (m_king b) = m_all b /\
  N.lor (m_white b) (m_black b) = m_all b /\
  m_all b < 2 ^ 64.
Proof.
  intros K b R. destruct (reachable_Inv K b R) as [I _].
  exact (conj (colors_disjoint b I) (conj (types_disjoint b I) (conj (types_union b I) (conj (colors_union b I) (proj1 (masks_u64 b I)))))).
Qed.
(* the per-square queries return exactly what the masks say, and never panic *)
Theorem C06_queries : forall K b s, reachable K b ->
  piece_on b s = Ok (cell_at b s) /\
  piece_type_on b s = Ok (option_map fst (cell_at b s)) /\
  piece_color_on b s = option_map snd (cell_at b s) /\
  is_empty_square b s = (match cell_at b s with Some _ => false | None => true end) /\
  (forall t, has (tmask b t) s = match cell_at b s with Some (t', _) => ptype_eqb t' t | None => false end) /\
  (forall c, has (cmask b c) s = match cell_at b s with Some (_, c') => color_eqb c' c | None => false end).
Proof.
  intros K b s R. destruct (reachable_Inv K b R) as [I _].
  exact (conj (piece_on_inv b s I) (conj (piece_type_on_inv b s I) (conj (piece_color_on_inv b s I) (conj (is_empty_square_inv b s I)
        (conj (fun t => has_tmask_cell b t s I) (fun c => has_cmask_cell b c s I)))))).
Qed.
(* one step: the invariant is inductive for the unchecked application form as well *)
Theorem C06_step_unchecked : forall K b mv b', Inv K b -> wf_bmove mv -> make_move_unchecked K b mv = Ok b' -> Inv K b'.
Proof. exact Inv_make_move_unchecked. Qed.
(* the remaining clauses: every reachable position is a valid chess position *)
Theorem C06_validity : forall K b, wreachable K b ->
  length (placement (abs b)) = 64%nat /\ one_king (abs b) White = true /\ one_king (abs b) Black = true /\
  in_check (abs b) (opp (b_stm b)) = false /\ right_ok (abs b) White = true /\ right_ok (abs b) Black = true /\ ep_ok (abs b) = true.
Proof.
  intros K b R. pose proof (g_valid K b (wreachable_good K b R)) as V.
  destruct (valid_parts _ V) as (L & RW & RB & E). destruct (valid_parts2 _ V) as (KW & KB & NC). auto 10.
Qed.
(* the reported king square is the square of that side's only king *)
Theorem C06_king_square : forall K b c, wreachable K b ->
  exists k, king_square b c = Ok k /\ k < 64 /\ piece_at (abs b) k = Some (King, c) /\
            forall x, x < 64 -> piece_at (abs b) x = Some (King, c) -> x = k.
Proof.
  intros K b c R. pose proof (wreachable_good K b R) as [[I _] _ V _]. destruct (valid_parts2 _ V) as (KW & KB & _).
  assert (K1 : one_king (abs b) c = true) by (destruct c; [exact KW|exact KB]).
  destruct (one_king_sq _ _ K1) as (k & Ek & Hk & Pk). exists k. rewrite (king_square_spec b c I), Ek.
  split; [reflexivity|]. split; [exact Hk|]. split; [exact Pk|]. intros x Hx Px. exact (one_king_unique _ c k x K1 Hk Hx Pk Px).
Qed.
(* validity is preserved by every rule-legal move (rule level), and every applied move is rule-legal *)
Theorem C06_valid_step : forall p mv, valid p = true -> legal p mv = true -> valid (apply p mv) = true.
Proof. exact valid_step. Qed.
Theorem C06_history : forall K b, wreachable K b -> exists p0 ms, valid p0 = true /\ all_legal p0 ms = true /\ abs b = spec_play p0 ms.
Proof. exact wreachable_history. Qed.
