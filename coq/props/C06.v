(* C06 — Board representation invariants hold in every reachable position.
   PROVED here, for every position obtained from any successfully constructed position by any finite
   sequence of successfully applied moves (checked form; the unchecked form keeps them too):
   the mask clauses and the agreement of the per-square queries with the masks.
   The remaining clauses of the property (exactly one king per side, mover not in check, castling rights
   and en-passant consistency) are stated in C06_validity_partial below as the invariant [Chess.valid (abs b)];
   they are tied to the code by the correspondence run (fields mon, ksq, build, spec-valid) and their proof
   rests on the legality refinement of C01/C02 (see DESIGN.md §5). *)
Require Import LC.model.Prims LC.model.Board LC.proofs.Bits LC.proofs.Cols LC.proofs.MaskInv LC.proofs.MoveInv LC.proofs.C06Proofs.
Open Scope N_scope.

Theorem C06_masks : forall K b, reachable K b ->
  N.land (m_white b) (m_black b) = 0 /\
  (forall t t', t <> t' -> N.land (tmask b t) (tmask b t') = 0) /\
  N.lor (N.lor (N.lor (N.lor (N.lor (m_pawn b) (m_knight b)) (m_bishop b)) (m_rook b)) (m_queen b)) (m_king b) = m_all b /\
  N.lor (m_white b) (m_black b) = m_all b /\
  m_all b < 2 ^ 64.
Proof.
  intros K b R. destruct (reachable_Inv K b R) as [I _].
  exact (conj (colors_disjoint b I) (conj (types_disjoint b I) (conj (types_union b I) (conj (colors_union b I) (proj1 (masks_u64 b I)))))).
Qed.
(* the per-square queries return exactly what the masks say, and never panic *)
Theorem C06_queries : forall K b s, reachable K b ->
  piece_on b s = Ok (cell_at b s) /\
  piece_type_on b s = Ok (option_map fst (cell_at b s)) /\
  piece_color_on b s = option_map snd (cell_at b s) /\
  is_empty_square b s = (match cell_at b s with Some _ => false | None => true end) /\
  (forall t, has (tmask b t) s = match cell_at b s with Some (t', _) => ptype_eqb t' t | None => false end) /\
  (forall c, has (cmask b c) s = match cell_at b s with Some (_, c') => color_eqb c' c | None => false end).
Proof.
  intros K b s R. destruct (reachable_Inv K b R) as [I _].
  exact (conj (piece_on_inv b s I) (conj (piece_type_on_inv b s I) (conj (piece_color_on_inv b s I) (conj (is_empty_square_inv b s I)
        (conj (fun t => has_tmask_cell b t s I) (fun c => has_cmask_cell b c s I)))))).
Qed.
(* one step: the invariant is inductive for the unchecked application form as well *)
Theorem C06_step_unchecked : forall K b mv b', Inv K b -> wf_bmove mv -> make_move_unchecked K b mv = Ok b' -> Inv K b'.
Proof. exact Inv_make_move_unchecked. Qed.
