(* C08 — FEN output and input are inverse on valid positions.
   PROVED (no bound on placement, clocks below 2^64 = usize):
   * C08_board_roundtrip: for EVERY board whose invariants hold (every position obtained by construction and play is such,
     C03_reachable) as_fen never panics and returns the six-field text of the board's mailbox position, and from_fen of
     that text returns a board EQUAL to the original as a record — placement masks, side, castling rights, en-passant
     square, clocks, hash, check and pin masks, terminal flag (C08_board_determined_by_position: a board whose invariants
     hold is determined by its mailbox position, so status and every other observable agree too).
   * C08_setup_roundtrip / C08_piece_list: building the same position through the piece-list set-up path gives the same
     board, for any piece list describing the placement, in particular the canonical one.
   * C08_text_roundtrip: for EVERY builder with 64 squares (ANY contents, valid or not), en-passant square on the board and
     clocks below 2^64, the unvalidated parser reads the printed text back to exactly that builder; hence every canonical
     FEN string is parsed and re-printed unchanged (C08_canonical_fixed).
   * C08_standard_form: the printed placement field is ranks 8..1 joined by '/', each rank the run-length text of its
     eight squares (digits for runs of empty squares, piece letters, upper case = White); fields are joined by single
     spaces; castling field "-" or the subset of KQkq in that order; en-passant "-" or the square name; clocks in decimal
     (C08_decimal: digits only, no sign, value read back exactly).  Example: the initial position prints as the usual text.
   The model is tied to the code by the differential run: FEN text of every explored position, re-parse, set-up path,
   and canonical / corrupted FEN strings through the unvalidated builder. *)
Require Import LC.model.Prims LC.model.Board LC.model.Text LC.model.Fen LC.spec.Chess LC.proofs.MaskInv LC.proofs.C05Proofs
  LC.proofs.C09Proofs LC.proofs.Reach LC.proofs.C19Proofs LC.proofs.FenText LC.proofs.C08Proofs.
Open Scope N_scope.
Theorem C08_board_roundtrip : forall K b, Good K b -> clocks_fit b ->
  as_fen b = Ok (print_fen (builder_of_pos (abs b))) /\ from_fen K (print_fen (builder_of_pos (abs b))) = Ok b.
Proof. exact fen_board_roundtrip. Qed.
Theorem C08_board_determined_by_position : forall K b b', Good K b -> Good K b' -> abs b = abs b' -> b = b'.
Proof. exact board_ext. Qed.
Theorem C08_rebuild : forall K b, Good K b -> try_from_builder K (builder_of_pos (abs b)) = Ok b.
Proof. exact rebuild_is_identity. Qed.
Theorem C08_setup_roundtrip : forall K b pieces, Good K b ->
  bd_pieces (setup_builder pieces (b_stm b) (b_wr b) (b_br b) (b_ep b) (b_half b) (b_full b)) = placement (abs b) ->
  board_setup K pieces (b_stm b) (b_wr b) (b_br b) (b_ep b) (b_half b) (b_full b) = Ok b.
Proof. exact setup_roundtrip. Qed.
Theorem C08_piece_list : forall pl stm wr br ep h f, length pl = 64%nat -> bd_pieces (setup_builder (piece_list pl) stm wr br ep h f) = pl.
Proof. exact piece_list_ok. Qed.
Theorem C08_text_roundtrip : forall bd, wf_fen_builder bd -> parse_fen (print_fen bd) = Ok bd.
Proof. exact fen_roundtrip. Qed.
Theorem C08_canonical_fixed : forall bd, wf_fen_builder bd -> exists bd', parse_fen (print_fen bd) = Ok bd' /\ print_fen bd' = print_fen bd.
Proof. exact fen_canonical_fixed. Qed.
Theorem C08_standard_form : forall pcs, print_placement pcs =
  rle (row_cells pcs 7) 0 ++ [47] ++ rle (row_cells pcs 6) 0 ++ [47] ++ rle (row_cells pcs 5) 0 ++ [47] ++ rle (row_cells pcs 4) 0 ++ [47] ++
  rle (row_cells pcs 3) 0 ++ [47] ++ rle (row_cells pcs 2) 0 ++ [47] ++ rle (row_cells pcs 1) 0 ++ [47] ++ rle (row_cells pcs 0) 0.
Proof. exact print_placement_spec. Qed.
Theorem C08_decimal : forall n, n < two64 -> parse_usize (print_dec n) = Ok n /\ Forall digit (print_dec n).
Proof. intros n H. split; [exact (parse_print_dec n H)|exact (print_dec_chars n)]. Qed.
(* the statements are not vacuous: the usual text of the initial position is canonical *)
From Coq Require Import String.
Example C08_start : exists bd, parse_fen (B "rnbqkbnr/pppppppp/8/8/8/8/PPPPPPPP/RNBQKBNR w KQkq - 0 1") = Ok bd /\
  print_fen bd = B "rnbqkbnr/pppppppp/8/8/8/8/PPPPPPPP/RNBQKBNR w KQkq - 0 1" /\ List.length (bd_pieces bd) = 64%nat.
Proof. eexists. split; [vm_compute; reflexivity|]. split; vm_compute; reflexivity. Qed.
