(* C13 — Recorded game history replays to the current position.
   PROVED: after ANY finite action sequence the history is the start position followed by one position
   per recorded move, each obtained from its predecessor by that move (Chain), the last one is the current
   position, the three vectors have consistent lengths, the recorded per-move properties are the model's
   move_props of that move on its predecessor, ply indexing returns those positions and an error beyond the
   end; and the rendered move list equals the layout specification spec/TextSpec.movelist for EVERY list of
   move texts and either starting colour (incl. the empty list and Black-first games).
   C13_rule_game: for every game built on a constructed position, after ANY action sequence every recorded move is
   rule-legal, every recorded position is the rule-defined successor (Chess.apply) of its predecessor, and the recorded
   per-move flags are exactly the rules' capture / check / checkmate and the standard disambiguation class
   (SanSpec.spec_props) — by C01–C05, C14. *)
Require Import LC.model.Prims LC.model.Board LC.model.Text LC.model.San LC.model.Game LC.spec.TextSpec LC.proofs.C12Proofs LC.proofs.C13Proofs LC.proofs.C11Proofs LC.proofs.Reach LC.proofs.C13Flags LC.model.Pgn LC.proofs.PgnImport.
Open Scope N_scope.

Theorem C13_chain : forall K b g l, game_from_board b = Ok g ->
  let g' := run K g l in
  Chain K (g_positions g') (g_moves g') (g_meta g') /\ last (g_positions g') (g_pos g') = g_pos g' /\
  hd_error (g_positions g') = Some b /\
  length (g_positions g') = S (length (g_moves g')) /\ length (g_meta g') = length (g_moves g').
Proof.
  intros K b g l E g'. pose proof (HistInv_init K b g E) as H. destruct (game_from_board_spec b g E) as (_ & _ & P2 & _).
  assert (NE : g_positions g <> []) by (rewrite P2; discriminate).
  destruct (HistInv_run K l g H NE) as [[C L] _]. split; [exact C|]. split; [exact L|]. split.
  - unfold g'. rewrite (hd_run K l g H NE), P2. reflexivity.
  - exact (Chain_lengths K _ _ _ C).
Qed.
Theorem C13_ply_index : forall g i,
  get_position_on_move g i = match nth_error (g_positions g) (N.to_nat i) with Some b => Ok b | None => Err EWrongMoveNumber end
  /\ ((N.to_nat i < length (g_positions g))%nat <-> exists b, get_position_on_move g i = Ok b).
Proof. exact (fun g i => conj (position_on_move g i) (position_on_move_range g i)). Qed.
Theorem C13_layout : forall white_starts sans, history_string_of white_starts sans = movelist white_starts sans.
Proof. exact history_layout. Qed.
Theorem C13_rendered_history : forall g p0, hd_error (g_positions g) = Some p0 ->
  history_string g = Ok (movelist (color_eqb (b_stm p0) White) (san_list g)).
Proof. intros g p0 H. unfold history_string. rewrite H. cbn. now rewrite history_layout. Qed.
Theorem C13_rule_game : forall K b0 g0 acts, Good K b0 -> game_from_board b0 = Ok g0 -> Forall wf_action acts ->
  let g := run K g0 acts in RuleChain K (g_positions g) (g_moves g) (g_meta g).
Proof. exact history_is_rule_game. Qed.
(* "separately delimited tokens": for every game from every valid start, either side moving first, the move pattern of
   the PGN importer (leftmost-first search, model/Pgn.v) recovers from the rendered move list exactly the SAN texts of
   the recorded moves, in order — no token fuses with a move number, a dot, or its neighbour *)
Theorem C13_tokens_delimited : forall K b0 g0 acts, Good K b0 -> game_from_board b0 = Ok g0 -> Forall wf_action acts ->
  let g := run K g0 acts in exists hs, history_string g = Ok hs /\ scan_moves hs = san_list g.
Proof. exact history_tokens. Qed.
