(* C17 — Precomputed movement tables equal the geometric definitions on all squares.
   The impl_* tables are the values dumped from the running library on this run
   (gen/ImplTables.v); geo_* is spec/Geometry.v.  Finite domain, covered completely. *)
Require Import LC.model.Prims LC.spec.Chess LC.spec.Geometry LC.gen.ImplTables LC.proofs.C17Proofs.
Open Scope N_scope.

Theorem C17_piece_tables : forall s, s < 64 ->
  nth (N.to_nat s) impl_knight 0 = geo_knight s /\ nth (N.to_nat s) impl_king 0 = geo_king s /\
  nth (N.to_nat s) impl_bishop 0 = geo_bishop s /\ nth (N.to_nat s) impl_rook 0 = geo_rook s /\
  nth (N.to_nat s) impl_queen 0 = geo_queen s.
Proof. exact piece_tables. Qed.
Theorem C17_rays : forall s i, s < 64 -> (i < 8)%nat ->
  nth i (nth (N.to_nat s) impl_rays []) 0 = geo_ray s i.
Proof. exact ray_tables. Qed.
Theorem C17_pawn_tables : forall s, s < 64 ->
  nth (N.to_nat s) impl_pawn_push_w 0 = geo_pawn_push White s /\ nth (N.to_nat s) impl_pawn_push_b 0 = geo_pawn_push Black s /\
  nth (N.to_nat s) impl_pawn_dbl_w 0 = geo_pawn_double White s /\ nth (N.to_nat s) impl_pawn_dbl_b 0 = geo_pawn_double Black s /\
  nth (N.to_nat s) impl_pawn_cap_w 0 = geo_pawn_cap White s /\ nth (N.to_nat s) impl_pawn_cap_b 0 = geo_pawn_cap Black s.
Proof. exact pawn_tables. Qed.
Theorem C17_between : forall a b, a < 64 -> b < 64 ->
  nth (N.to_nat b) (nth (N.to_nat a) impl_between []) None = geo_between a b.
Proof. exact between_table. Qed.
Theorem C17_between_symmetric : forall a b, a < 64 -> b < 64 ->
  nth (N.to_nat b) (nth (N.to_nat a) impl_between []) None = nth (N.to_nat a) (nth (N.to_nat b) impl_between []) None.
Proof. exact between_symmetric. Qed.
Theorem C17_between_defined_iff_aligned : forall a b, a < 64 -> b < 64 ->
  (nth (N.to_nat b) (nth (N.to_nat a) impl_between []) None <> None <-> aligned a b = true).
Proof. exact between_defined_iff_aligned. Qed.
Theorem C17_between_adjacent_or_equal_empty : forall a b, a < 64 -> b < 64 -> aligned a b = true -> adjacent a b = true ->
  nth (N.to_nat b) (nth (N.to_nat a) impl_between []) None = Some 0.
Proof. exact between_adjacent_empty. Qed.
Print Assumptions C17_piece_tables.
Print Assumptions C17_rays.
Print Assumptions C17_pawn_tables.
Print Assumptions C17_between.
Print Assumptions C17_between_symmetric.
Print Assumptions C17_between_defined_iff_aligned.
Print Assumptions C17_between_adjacent_or_equal_empty.
