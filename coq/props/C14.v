(* C14 — Short algebraic notation identifies every legal move uniquely, in standard form.
   spec/SanSpec.v states the standard: the flags are check / checkmate of the position after the move and capture (incl.
   en passant); for a knight, bishop, rook or queen the rivals are the other pieces of the same type and colour that can
   LEGALLY move to the same destination; no rival -> no disambiguation, else the origin file if no rival shares it, else
   the origin rank if no rival shares it, else the full origin square; a pawn capture carries its origin file; the text
   is piece letter (none for pawns), disambiguation, 'x', destination, '=' + promotion letter, '#' or '+'.
   PROVED, no bound on the position:
   * C14_unique (rule level): in EVERY valid position no two different legal moves have the same text — by decoding the
     text into its parts (unique decomposition into character classes) and a case analysis of rivals / pawn geometry
     (single vs double push through an occupied square, captures from the two adjacent files: complete sweeps).
   * C14_properties: on EVERY board whose invariants hold (every position obtained by construction and play) the library's
     notation properties of a legal move — check, mate, capture flags and the ambiguity class computed from the
     table-based candidate pre-filter — are exactly the rule-level ones, so BoardMove::to_string produces exactly that
     text; for an illegal move an error (never a panic) is returned.  C14_ambiguity is the core: the pre-filter
     (destination's attack table + empty between-set) keeps every piece that can pseudo-legally reach the destination
     (table symmetry and between-table symmetry by complete sweeps), and filtering it by the legality test gives the rivals.
   * C14_unique_on_boards: consequently no two legal moves of such a board render to the same text.
   The model is tied to the code by the differential run (notation of every legal move of every explored position,
   uniqueness, error on illegal moves; families with three or more same-type pieces reaching one square, pinned
   candidates, promotions with capture and check). *)
Require Import LC.model.Prims LC.model.Board LC.model.Text LC.model.San LC.spec.Chess LC.spec.SanSpec LC.proofs.MoveInv LC.proofs.C05Proofs
  LC.proofs.Reach LC.proofs.C14Spec LC.proofs.C14Proofs.
Open Scope N_scope.
Theorem C14_unique : forall p mv1 mv2, valid p = true -> legal p mv1 = true -> legal p mv2 = true -> san p mv1 = san p mv2 -> mv1 = mv2.
Proof. exact san_injective. Qed.
Theorem C14_properties : forall K b mv, Good K b -> wf_bmove mv ->
  (legal (abs b) mv = true -> move_props K mv b = Ok (spec_props (abs b) mv)) /\
  (legal (abs b) mv = false -> move_props K mv b = Err EIllegalMove).
Proof. intros K b mv G W. exact (move_props_spec K b G mv W). Qed.
Theorem C14_ambiguity : forall K b m, Good K b -> pm_from m < 64 -> pm_to m < 64 -> legal (abs b) (MovePiece m) = true ->
  get_move_ambiguity_type K b m = Ok (spec_amb (abs b) m).
Proof. intros K b m G Hs Hd L. exact (ambiguity_spec K b G m Hs Hd L). Qed.
Theorem C14_unique_on_boards : forall K b mv1 mv2 pr1 pr2, Good K b -> wf_bmove mv1 -> wf_bmove mv2 ->
  move_props K mv1 b = Ok pr1 -> move_props K mv2 b = Ok pr2 -> san_string mv1 pr1 = san_string mv2 pr2 -> mv1 = mv2.
Proof.
  intros K b mv1 mv2 pr1 pr2 G W1 W2 E1 E2 E.
  destruct (move_props_spec K b G mv1 W1) as [A1 B1]. destruct (move_props_spec K b G mv2 W2) as [A2 B2].
  destruct (legal (abs b) mv1) eqn:L1; [|rewrite (B1 eq_refl) in E1; discriminate].
  destruct (legal (abs b) mv2) eqn:L2; [|rewrite (B2 eq_refl) in E2; discriminate].
  rewrite (A1 eq_refl) in E1. rewrite (A2 eq_refl) in E2. injection E1 as <-. injection E2 as <-.
  exact (san_injective (abs b) mv1 mv2 (g_valid K b G) L1 L2 E).
Qed.
(* the decoding used in the uniqueness proof: the text determines piece letter, disambiguation, capture mark, destination,
   promotion piece and check mark *)
Theorem C14_text_parts : forall m1 pr1 m2 pr2, pm_from m1 < 64 -> pm_to m1 < 64 -> pm_from m2 < 64 -> pm_to m2 < 64 ->
  san_string (MovePiece m1) pr1 = san_string (MovePiece m2) pr2 ->
  pm_type m1 = pm_type m2 /\ amb_text (mp_amb pr1) m1 = amb_text (mp_amb pr2) m2 /\ mp_capture pr1 = mp_capture pr2 /\
  pm_to m1 = pm_to m2 /\ pm_promo m1 = pm_promo m2 /\ chk_text pr1 = chk_text pr2.
Proof. exact san_piece_decode. Qed.
