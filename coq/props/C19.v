(* C19 — Rules are symmetric under colour flip and, without castling rights, file mirror.
   flip p mirrors the ranks (square s -> rank 7 - rank s, same file), swaps the colours of all pieces, the side to move
   and the castling rights, and maps the en-passant square; mirror p mirrors the files and keeps colours.
   PROVED at the rule level (spec/Chess.v), for EVERY valid position (any placement, side, rights, en-passant state,
   clocks; no bound): the image is valid; a move is legal iff its image is legal in the image position; the successor by
   the image move is the image of the successor in every field except the move number (which counts Black's moves and
   therefore is not colour-symmetric); the checking pieces, the pinned pieces and "in check" correspond square by
   square; the status corresponds (checkmated colour mapped); the map is an involution.  For the file mirror the same
   holds whenever neither side holds a castling right (C19_flip_rules, C19_mirror_rules).  Method: one generic proof for
   an abstract symmetry (square involution + direction map + colour map commuting with single steps), instantiated twice;
   the geometric side conditions are complete sweeps over squares x offsets inside the kernel.
   TRANSFERRED to the board model through C01–C05/C09 (C19_flip_boards, C19_mirror_boards): for every board b whose
   invariants hold (every position obtained by construction and play) the image position is constructible, and for
   ANY board b' with current invariants whose mailbox position is the image of b's: the legal-move lists correspond move
   by move, the check and pin masks correspond bit by bit, get_status answers the mapped status, and make_move succeeds
   on a move iff it succeeds on the image move, with corresponding successors.
   The metamorphic run against the real library (both symmetries on every explored position, all legal moves and
   successors) ties the model to the code and needs no reference implementation. *)
Require Import LC.model.Prims LC.model.Board LC.spec.Chess LC.spec.Sym LC.proofs.MoveInv LC.proofs.C05Proofs LC.proofs.C04Proofs LC.proofs.Reach
  LC.proofs.Symmetry LC.proofs.SymInst LC.proofs.C19Proofs.
Open Scope N_scope.
Definition flip_move := Tmv flip_sq.
Definition mirror_move := Tmv mirror_sq.
Theorem C19_flip_rules : forall p, valid p = true ->
  valid (flip p) = true /\
  (forall mv, wf_bmove mv -> legal (flip p) (flip_move mv) = legal p mv) /\
  (forall mv, wf_bmove mv -> legal p mv = true -> sim (apply (flip p) (flip_move mv)) (flip (apply p mv))) /\
  (forall a, a < 64 -> is_checker (flip p) (flip_sq a) = is_checker p a) /\
  (forall u, u < 64 -> is_pinned (flip p) (opp (stm p)) (flip_sq u) = is_pinned p (stm p) u) /\
  in_check (flip p) (opp (stm p)) = in_check p (stm p) /\
  board_status (flip p) = Tstatus opp (board_status p) /\
  flip (flip p) = p.
Proof.
  intros p V. destruct flip_sweeps as (S1 & S2 & S3). exact (sym_of_sweeps flip_sq flip_dr opp S1 S2 S3 p V (flip_home p)).
Qed.
Theorem C19_mirror_rules : forall p, valid p = true -> no_rights p ->
  valid (mirror p) = true /\
  (forall mv, wf_bmove mv -> legal (mirror p) (mirror_move mv) = legal p mv) /\
  (forall mv, wf_bmove mv -> legal p mv = true -> sim (apply (mirror p) (mirror_move mv)) (mirror (apply p mv))) /\
  (forall a, a < 64 -> is_checker (mirror p) (mirror_sq a) = is_checker p a) /\
  (forall u, u < 64 -> is_pinned (mirror p) (stm p) (mirror_sq u) = is_pinned p (stm p) u) /\
  in_check (mirror p) (stm p) = in_check p (stm p) /\
  board_status (mirror p) = Tstatus idc (board_status p) /\
  mirror (mirror p) = p.
Proof.
  intros p V NR. destruct mirror_sweeps as (S1 & S2 & S3). exact (sym_of_sweeps mirror_sq mirror_dr idc S1 S2 S3 p V (mirror_home p NR)).
Qed.
(* the board model: b' is any board with current invariants whose position is the image of b's *)
Theorem C19_flip_boards : forall K b, Good K b ->
  (exists b', try_from_builder K (builder_of_pos (flip (abs b))) = Ok b' /\ abs b' = flip (abs b) /\ Good K b') /\
  forall b', Good K b' -> abs b' = flip (abs b) ->
   (exists l l', legal_moves K b = Ok l /\ legal_moves K b' = Ok l' /\ forall mv, wf_bmove mv -> (In (flip_move mv) l' <-> In mv l)) /\
   (forall a, a < 64 -> has (b_checks b') (flip_sq a) = has (b_checks b) a) /\
   (forall u, u < 64 -> has (b_pinned b') (flip_sq u) = has (b_pinned b) u) /\
   get_status b' = Ok (enc_status (Tstatus opp (board_status (abs b)))) /\ get_status b = Ok (enc_status (board_status (abs b))) /\
   forall mv, wf_bmove mv ->
     (legal (abs b) mv = true -> exists b1 b1', make_move K b mv = Ok b1 /\ make_move K b' (flip_move mv) = Ok b1' /\ sim (abs b1') (flip (abs b1))) /\
     (legal (abs b) mv = false -> make_move K b mv = Err EIllegalMove /\ make_move K b' (flip_move mv) = Err EIllegalMove).
Proof.
  intros K b G. destruct flip_sweeps as (S1 & S2 & S3). pose proof (flip_home (abs b)) as HS.
  split; [exact (image_board K flip_sq flip_dr opp S1 S2 S3 b G HS)|]. intros b' G' A.
  split; [exact (transfer_legal_moves K flip_sq flip_dr opp S1 S2 S3 b b' G G' HS A)|].
  destruct (transfer_masks K flip_sq flip_dr opp S1 S2 S3 b b' G G' HS A) as (M1 & M2 & _).
  destruct (transfer_status K flip_sq flip_dr opp S1 S2 S3 b b' G G' HS A) as (T1 & T2).
  split; [exact M1|]. split; [exact M2|]. split; [exact T2|]. split; [exact T1|].
  intros mv W. exact (transfer_successor K flip_sq flip_dr opp S1 S2 S3 b b' G G' HS A mv W).
Qed.
Theorem C19_mirror_boards : forall K b, Good K b -> no_rights (abs b) ->
  (exists b', try_from_builder K (builder_of_pos (mirror (abs b))) = Ok b' /\ abs b' = mirror (abs b) /\ Good K b') /\
  forall b', Good K b' -> abs b' = mirror (abs b) ->
   (exists l l', legal_moves K b = Ok l /\ legal_moves K b' = Ok l' /\ forall mv, wf_bmove mv -> (In (mirror_move mv) l' <-> In mv l)) /\
   (forall a, a < 64 -> has (b_checks b') (mirror_sq a) = has (b_checks b) a) /\
   (forall u, u < 64 -> has (b_pinned b') (mirror_sq u) = has (b_pinned b) u) /\
   get_status b' = Ok (enc_status (Tstatus idc (board_status (abs b)))) /\
   forall mv, wf_bmove mv ->
     (legal (abs b) mv = true -> exists b1 b1', make_move K b mv = Ok b1 /\ make_move K b' (mirror_move mv) = Ok b1' /\ sim (abs b1') (mirror (abs b1))) /\
     (legal (abs b) mv = false -> make_move K b mv = Err EIllegalMove /\ make_move K b' (mirror_move mv) = Err EIllegalMove).
Proof.
  intros K b G NR. destruct mirror_sweeps as (S1 & S2 & S3). pose proof (mirror_home (abs b) NR) as HS.
  split; [exact (image_board K mirror_sq mirror_dr idc S1 S2 S3 b G HS)|]. intros b' G' A.
  split; [exact (transfer_legal_moves K mirror_sq mirror_dr idc S1 S2 S3 b b' G G' HS A)|].
  destruct (transfer_masks K mirror_sq mirror_dr idc S1 S2 S3 b b' G G' HS A) as (M1 & M2 & _).
  destruct (transfer_status K mirror_sq mirror_dr idc S1 S2 S3 b b' G G' HS A) as (_ & T2).
  split; [exact M1|]. split; [exact M2|]. split; [exact T2|].
  intros mv W. exact (transfer_successor K mirror_sq mirror_dr idc S1 S2 S3 b b' G G' HS A mv W).
Qed.
(* the definitions are the intended ones: a1 <-> a8, e2 <-> e7; a1 <-> h1 *)
Example C19_flip_squares : map flip_sq [0; 12; 63] = [56; 52; 7] /\ map mirror_sq [0; 12; 63] = [7; 11; 56].
Proof. split; reflexivity. Qed.
