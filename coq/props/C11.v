(* C11 — Threefold repetition is declared exactly on the third occurrence of a position.
   The counters are keyed by the 64-bit position hash, so "true number of occurrences" is proved under the
   hypothesis that no two different position keys of the history share a hash (no_collision); that hypothesis
   cannot be discharged for a 64-bit hash and is MONITORED instead: the differential run compares every
   reported counter with the number of equal (placement, side, rights, ep) keys in the reported history. *)
Require Import LC.model.Prims LC.model.Board LC.model.Game LC.spec.Protocol LC.proofs.MoveInv LC.proofs.C12Proofs LC.proofs.C11Proofs.
Open Scope N_scope.

(* after ANY finite action sequence the reported counter of any position is the number of history positions
   (start included) with that hash *)
Theorem C11_counter : forall K b g l p, game_from_board b = Ok g ->
  position_counter (run K g l) p = occ (b_hash p) (g_positions (run K g l)).
Proof.
  intros K b g l p E. apply reported_counter. destruct (CountInv_init b g E) as [C L]. exact (proj1 (CountInv_run K l g C L)).
Qed.
(* ... which is the true number of occurrences of its position key, unless two keys of the history collide *)
Theorem C11_true_occurrences : forall K bd b g l q, try_from_builder K bd = Ok b -> game_from_board b = Ok g -> Forall (wf_action) l ->
  In q (g_positions (run K g l)) -> no_collision (g_positions (run K g l)) ->
  position_counter (run K g l) q = true_occ q (g_positions (run K g l)).
Proof.
  intros K bd b g l q Eb E W Hq NC. rewrite (C11_counter K b g l q E). apply occ_true; [exact Hq|exact NC|].
  apply (history_respects_key K). apply AllInv_run; [|exact W]. eapply AllInv_init; [|exact E]. eapply Inv_try_from_builder; eauto.
Qed.
(* the verdict after a move: repetition iff no board result applies and the counter has reached three *)
Theorem C11_declared : forall K g m g', game_step K g (MakeMove m) = Ok g' ->
  exists bs, get_status (g_pos g') = Ok bs /\
    (g_status g' = GRepetition <-> bs = BOngoing /\ 3 <= position_counter g' (g_pos g')).
Proof.
  intros K g m g' E. destruct (game_step_status K g (MakeMove m) g' E) as (_ & _ & bs & Eb & _ & Hs).
  exists bs. split; [exact Eb|]. rewrite Hs. apply repetition_iff.
Qed.
