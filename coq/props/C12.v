(* C12 — Game action protocol and result bookkeeping.
   The model of Game::make_move (game_step) refines the three-phase protocol of spec/Protocol.v:
   exactly the stated actions are accepted in each phase, the two error kinds are the stated ones,
   the status after an accepted action is the one the rules give, and the result tag always follows
   the status.  A rejected action returns an error value and no new game (the model is a pure function;
   that the library leaves its mutable game untouched is observed by the correspondence run, field unch). *)
Require Import LC.model.Prims LC.model.Board LC.model.Game LC.spec.Protocol LC.proofs.C12Proofs LC.proofs.MoveInv LC.proofs.Reach LC.proofs.C11Proofs LC.proofs.C10Total.
Open Scope N_scope.

Theorem C12_initial : forall b g, game_from_board b = Ok g ->
  TagInv g /\ g_pos g = b /\ g_positions g = [b] /\ g_moves g = [] /\ exists bs, get_status b = Ok bs /\ g_status g = move_result bs 0.
Proof. exact game_from_board_spec. Qed.
Theorem C12_accepted_set_and_error_kinds : forall K g a, game_step K g a <> Panic ->
  match verdict_of (g_status g) a (move_legal K g a) with
  | Accepted => exists g', game_step K g a = Ok g'
  | RejectedIllegalAction => game_step K g a = Err EIllegalAction
  | RejectedFinished => game_step K g a = Err EFinished end.
Proof. exact game_step_verdict. Qed.
Theorem C12_status_after_accepted_action : forall K g a g', game_step K g a = Ok g' ->
  verdict_of (g_status g) a (move_legal K g a) = Accepted /\
  (TagInv g -> TagInv g') /\
  match a with
  | MakeMove m => exists bs, get_status (g_pos g') = Ok bs /\ make_move K (g_pos g) m = Ok (g_pos g') /\
                  g_status g' = move_result bs (position_counter g' (g_pos g'))
  | _ => g_status g' = status_after a GOngoing /\ g_pos g' = g_pos g /\ g_positions g' = g_positions g /\ g_moves g' = g_moves g
         /\ g_counter g' = g_counter g end.
Proof. exact game_step_status. Qed.
(* the result tag is 1-0, 0-1, 1/2-1/2 or ? exactly as the status dictates, after every action sequence *)
Theorem C12_result_tag : forall K b g l, game_from_board b = Ok g -> g_tag (run K g l) = tag_of_status (g_status (run K g l)).
Proof. intros K b g l E. apply run_tag. exact (proj1 (game_from_board_spec b g E)). Qed.
(* the protocol never panics: on a game whose current position satisfies the board invariants (every game built from a
   constructed position and any actions does) every action returns a game or an error *)
Theorem C12_never_panics : forall K g a, GameGood K g -> wf_action a -> game_step K g a <> Panic.
Proof. exact game_step_total. Qed.
Theorem C12_good_forever : forall K b g acts, Good K b -> game_from_board b = Ok g -> Forall wf_action acts -> GameGood K (run K g acts).
Proof. intros K b g acts G E W. exact (run_never_panics K acts g (GameGood_init K b g G E) W). Qed.
Theorem C12_construction_total : forall K b, Good K b -> exists g, game_from_board b = Ok g.
Proof. exact game_from_board_total. Qed.
