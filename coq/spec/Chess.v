(* spec/Chess.v — the rules of chess on a mailbox position (FIDE Laws art. 3, 5, 9), executable.
   Independent of the bitboard model: squares are numbered a1 = 0 .. h8 = 63, rank = s / 8,
   file = s mod 8; lines are walked step by step.  This file is the definition of "what the
   rules say" that the property theorems are stated against. *)
Require Import LC.model.Prims.
Open Scope N_scope.

Definition srank (s : square) := s / 8.
Definition sfile (s : square) := s mod 8.
Definition smk (r f : N) : square := 8 * r + f.

Definition step (s : square) (d : Z * Z) : option square :=
  let r := (Z.of_N (srank s) + fst d)%Z in
  let f := (Z.of_N (sfile s) + snd d)%Z in
  if ((0 <=? r) && (r <? 8) && (0 <=? f) && (f <? 8))%Z then Some (Z.to_N (r * 8 + f)) else None.

Fixpoint line_fuel (fuel : nat) (s : square) (d : Z * Z) : list square :=
  match fuel with O => [] | S k => match step s d with None => [] | Some t => t :: line_fuel k t d end end.
Definition line := line_fuel 7.

Definition rook_dirs : list (Z*Z) := [(1,0);(-1,0);(0,1);(0,-1)]%Z.
Definition bishop_dirs : list (Z*Z) := [(1,1);(1,-1);(-1,1);(-1,-1)]%Z.
Definition knight_offs : list (Z*Z) := [(1,2);(2,1);(-1,2);(-2,1);(1,-2);(2,-1);(-1,-2);(-2,-1)]%Z.
Definition king_offs : list (Z*Z) := rook_dirs ++ bishop_dirs.
Definition slide_dirs (t : ptype) : list (Z*Z) :=
  match t with Bishop => bishop_dirs | Rook => rook_dirs | Queen => rook_dirs ++ bishop_dirs | _ => [] end.
Definition fwd (c : color) : Z := match c with White => 1 | Black => -1 end%Z.
Definition start_rank c := match c with White => 1 | Black => 6 end.
Definition last_rank c := match c with White => 7 | Black => 0 end.
Definition home_rank c := match c with White => 0 | Black => 7 end.

Record pos := {
  placement : list (option piece);   (* 64 entries, a1 first *)
  stm : color;
  rights_w : cr;                      (* castling rights of White / Black *)
  rights_b : cr;
  ep : option square;
  half : N;
  full : N }.

Definition rights p c := match c with White => rights_w p | Black => rights_b p end.
Definition right_k p c := has_kingside (rights p c).
Definition right_q p c := has_queenside (rights p c).
Definition piece_at (p : pos) (s : square) : option piece := nth (N.to_nat s) (placement p) None.
Definition occupied p s := match piece_at p s with Some _ => true | None => false end.
Definition color_at p c s := match piece_at p s with Some (_, c') => color_eqb c c' | None => false end.

Fixpoint take_until (f : square -> bool) (l : list square) : list square :=
  match l with [] => [] | u :: r => if f u then [u] else u :: take_until f r end.
Definition reach p s d := take_until (occupied p) (line s d).
Definition steps s offs := flat_map (fun o => match step s o with Some t => [t] | None => [] end) offs.

(* squares attacked by the piece standing on a *)
Definition attacks_from (p : pos) (a : square) : list square :=
  match piece_at p a with
  | None => []
  | Some (Knight, _) => steps a knight_offs
  | Some (King, _) => steps a king_offs
  | Some (Pawn, c) => steps a [(fwd c, 1%Z); (fwd c, (-1)%Z)]
  | Some (t, _) => flat_map (reach p a) (slide_dirs t)
  end.
Definition attackers (p : pos) (c : color) (t : square) : list square :=
  filter (fun a => color_at p c a && mem t (attacks_from p a)) squares.
Definition attacked p c t := match attackers p c t with [] => false | _ => true end.
Definition king_sq p c := find (fun s => opiece_eqb (piece_at p s) (Some (King, c))) squares.
Definition checkers p c := match king_sq p c with Some k => attackers p (opp c) k | None => [] end.
Definition in_check p c := match checkers p c with [] => false | _ => true end.

(* squares strictly before t on a walk, when t lies on it *)
Fixpoint prefix_before (t : square) (l : list square) : option (list square) :=
  match l with [] => None | u :: r => if u =? t then Some [] else option_map (cons u) (prefix_before t r) end.
(* a piece of colour c on u is pinned: it is the only occupied square strictly between its king and an enemy
   slider that moves along that line *)
Definition pin_line p (k u a : square) (d : Z * Z) : bool :=
  match prefix_before k (line a d) with
  | Some pre => mem u pre && forallb (fun v => (v =? u) || negb (occupied p v)) pre
  | None => false end.
Definition is_pinned (p : pos) (c : color) (u : square) : bool :=
  match king_sq p c with
  | None => false
  | Some k => color_at p c u && existsb (fun a =>
       match piece_at p a with
       | Some (t, c') => color_eqb (opp c) c' && existsb (pin_line p k u a) (slide_dirs t)
       | None => false end) squares
  end.
Definition is_checker (p : pos) (a : square) : bool := mem a (checkers p (stm p)).

(* pseudo-legal destinations of the piece on s *)
Definition pawn_dests p c s : list square :=
  let f := fwd c in
  let push1 := match step s (f, 0%Z) with Some t => if occupied p t then [] else [t] | None => [] end in
  let push2 := if N.eqb (srank s) (start_rank c) then
                 match step s (f, 0%Z), step s ((2 * f)%Z, 0%Z) with
                 | Some t1, Some t2 => if occupied p t1 || occupied p t2 then [] else [t2]
                 | _, _ => [] end else [] in
  let caps := filter (fun t => color_at p (opp c) t || osq_eqb (ep p) (Some t)) (steps s [(f, 1%Z); (f, (-1)%Z)]) in
  push1 ++ push2 ++ caps.
Definition pseudo_dests (p : pos) (s : square) : list square :=
  match piece_at p s with
  | None => []
  | Some (Pawn, c) => pawn_dests p c s
  | Some (_, c) => filter (fun t => negb (color_at p c t)) (attacks_from p s)
  end.


Definition put (pl : list (option piece)) (s : square) (x : option piece) := set_nth (N.to_nat s) x pl.

Definition corner c (kingside : bool) : square := smk (home_rank c) (if kingside then 7 else 0).
Definition is_ep_capture p (m : pmove) := ptype_eqb (pm_type m) Pawn && osq_eqb (ep p) (Some (pm_to m)).
Definition is_capture p (m : pmove) := color_at p (opp (stm p)) (pm_to m) || is_ep_capture p m.
Definition absdiff (a b : N) := if a <=? b then b - a else a - b.

Definition apply_pm (p : pos) (m : pmove) : pos :=
  let c := stm p in let s := pm_from m in let d := pm_to m in
  let placed := match pm_promo m with Some q => q | None => pm_type m end in
  let pl0 := if is_ep_capture p m then put (placement p) (smk (srank s) (sfile d)) None else placement p in
  let pl := put (put pl0 s None) d (Some (placed, c)) in
  let lose_own side := ptype_eqb (pm_type m) King || (ptype_eqb (pm_type m) Rook && N.eqb s (corner c side)) in
  let lose_opp side := N.eqb d (corner (opp c) side) && opiece_eqb (piece_at p d) (Some (Rook, opp c)) in
  let rk x := if color_eqb x c then right_k p x && negb (lose_own true) else right_k p x && negb (lose_opp true) in
  let rq x := if color_eqb x c then right_q p x && negb (lose_own false) else right_q p x && negb (lose_opp false) in
  {| placement := pl; stm := opp c; rights_w := cr_of_bits (rk White) (rq White); rights_b := cr_of_bits (rk Black) (rq Black);
     ep := if ptype_eqb (pm_type m) Pawn && N.eqb (absdiff (srank s) (srank d)) 2
           then Some (smk ((srank s + srank d) / 2) (sfile s)) else None;
     half := if ptype_eqb (pm_type m) Pawn || is_capture p m then 0 else half p + 1;
     full := match c with Black => full p + 1 | White => full p end |}.

Definition apply_castle (p : pos) (kingside : bool) : pos :=
  let c := stm p in let r := home_rank c in
  let (kt, rf) := if kingside then (6, 7) else (2, 0) in
  let rt := if kingside then 5 else 3 in
  let pl := put (put (put (put (placement p) (smk r 4) None) (smk r rf) None)
                  (smk r kt) (Some (King, c))) (smk r rt) (Some (Rook, c)) in
  {| placement := pl; stm := opp c;
     rights_w := (if color_eqb White c then Neither else rights_w p);
     rights_b := (if color_eqb Black c then Neither else rights_b p);
     ep := None; half := half p + 1;
     full := match c with Black => full p + 1 | White => full p end |}.

Definition apply (p : pos) (m : bmove) : pos :=
  match m with MovePiece pm => apply_pm p pm | CastleK => apply_castle p true | CastleQ => apply_castle p false end.

Definition promo_ok p (m : pmove) : bool :=
  if ptype_eqb (pm_type m) Pawn && N.eqb (srank (pm_to m)) (last_rank (stm p))
  then match pm_promo m with Some Knight | Some Bishop | Some Rook | Some Queen => true | _ => false end
  else match pm_promo m with None => true | Some _ => false end.

Definition castle_legal (p : pos) (kingside : bool) : bool :=
  let c := stm p in let r := home_rank c in
  (if kingside then right_k p c else right_q p c)
  && opiece_eqb (piece_at p (smk r 4)) (Some (King, c))
  && opiece_eqb (piece_at p (corner c kingside)) (Some (Rook, c))
  && forallb (fun f => negb (occupied p (smk r f))) (if kingside then [5;6] else [1;2;3])
  && negb (in_check p c)
  && forallb (fun f => negb (attacked p (opp c) (smk r f))) (if kingside then [5;6] else [3;2]).

Definition legal (p : pos) (m : bmove) : bool :=
  match m with
  | MovePiece pm =>
      opiece_eqb (piece_at p (pm_from pm)) (Some (pm_type pm, stm p))
      && mem (pm_to pm) (pseudo_dests p (pm_from pm))
      && promo_ok p pm
      && negb (in_check (apply_pm p pm) (stm p))
  | CastleK => castle_legal p true
  | CastleQ => castle_legal p false
  end.

(* candidate enumeration (derived; In m (gen p) <-> legal p m is a lemma of the development) *)
Definition promos_for p (t : ptype) (d : square) : list (option ptype) :=
  if ptype_eqb t Pawn && N.eqb (srank d) (last_rank (stm p)) then [Some Knight; Some Bishop; Some Rook; Some Queen] else [None].
Definition gen (p : pos) : list bmove :=
  filter (legal p)
    (flat_map (fun s => match piece_at p s with
        | Some (t, c) => if color_eqb c (stm p) then
             flat_map (fun d => map (fun pr => MovePiece {| pm_type := t; pm_from := s; pm_to := d; pm_promo := pr |}) (promos_for p t d))
                      (pseudo_dests p s) else []
        | None => [] end) squares ++ [CastleK; CastleQ]).

Inductive status := Ongoing | CheckMated (c : color) | TheoreticalDraw | FiftyMovesDraw | Stalemate.
Definition count_color p c := length (filter (color_at p c) squares).
Definition minor_count p c := length (filter (fun s => match piece_at p s with
   | Some (Knight, c') | Some (Bishop, c') => color_eqb c c' | _ => false end) squares).
Definition cannot_mate p c := match count_color p c with 1%nat => true | 2%nat => Nat.eqb (minor_count p c) 1 | _ => false end.
Definition board_status (p : pos) : status :=
  match gen p with
  | [] => if in_check p (stm p) then CheckMated (stm p) else Stalemate
  | _ => if cannot_mate p White && cannot_mate p Black then TheoreticalDraw
         else if 100 <=? half p then FiftyMovesDraw else Ongoing
  end.

(* validity of a position description *)
Definition one_king p c := Nat.eqb (length (filter (fun s => opiece_eqb (piece_at p s) (Some (King, c))) squares)) 1.
Definition right_ok p c :=
  let r := home_rank c in
  (negb (right_k p c || right_q p c) || opiece_eqb (piece_at p (smk r 4)) (Some (King, c)))
  && (negb (right_k p c) || opiece_eqb (piece_at p (corner c true)) (Some (Rook, c)))
  && (negb (right_q p c) || opiece_eqb (piece_at p (corner c false)) (Some (Rook, c))).
Definition ep_ok p := match ep p with None => true | Some e =>
  let c := stm p in (* c captures; the pawn that just moved is opp c *)
  let er := match c with White => 5 | Black => 2 end in
  N.eqb (srank e) er && negb (occupied p e)
  && opiece_eqb (piece_at p (smk (match c with White => 4 | Black => 3 end) (sfile e))) (Some (Pawn, opp c))
  && negb (occupied p (smk (match c with White => 6 | Black => 1 end) (sfile e))) end.
Definition valid (p : pos) : bool :=
  Nat.eqb (length (placement p)) 64 && one_king p White && one_king p Black
  && negb (in_check p (opp (stm p))) && right_ok p White && right_ok p Black && ep_ok p.

Fixpoint perft (n : nat) (p : pos) : N :=
  match n with O => 1 | S k => fold_left (fun acc m => acc + perft k (apply p m)) (gen p) 0 end.
