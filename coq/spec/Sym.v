(* spec/Sym.v — board symmetries as maps on positions (definitions only; the theorems are in proofs/Symmetry.v).
   symT sq col p: the piece on square s of the image is the recoloured piece on square sq s of p; side to move,
   castling rights and en-passant square are mapped; clocks are kept. *)
Require Import LC.model.Prims LC.spec.Chess.
Open Scope N_scope.
Definition recolor (col : color -> color) (x : option piece) : option piece :=
  match x with Some (t, c) => Some (t, col c) | None => None end.
Definition symT (sq : square -> square) (col : color -> color) (p : pos) : pos :=
  {| placement := map (fun s => recolor col (piece_at p (sq s))) squares;
     stm := col (stm p); rights_w := rights p (col White); rights_b := rights p (col Black);
     ep := option_map sq (ep p); half := half p; full := full p |}.
Definition flip_sq (s : square) : square := smk (7 - srank s) (sfile s).       (* a1 <-> a8 *)
Definition mirror_sq (s : square) : square := smk (srank s) (7 - sfile s).     (* a1 <-> h1 *)
Definition idc (c : color) : color := c.
Definition flip : pos -> pos := symT flip_sq opp.
Definition mirror : pos -> pos := symT mirror_sq idc.
