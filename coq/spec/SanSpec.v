(* spec/SanSpec.v — what the short algebraic notation of a legal move is, stated on the mailbox rules.
   The flags: check / checkmate of the position after the move, capture (incl. en passant); the PGN-standard
   disambiguation: for a knight, bishop, rook or queen move, the rivals are the other pieces of the same type and colour
   that can legally move to the same destination; none -> nothing; else the origin file if no rival shares it; else the
   origin rank if no rival shares it; else the full origin square.  A pawn capture always carries its origin file.
   The text itself is assembled by San.san_string (piece letter, disambiguation, 'x', destination, '=' promotion, '+'/'#'). *)
Require Import LC.model.Prims LC.model.Board LC.model.Text LC.model.San LC.spec.Chess.
Open Scope N_scope.
Definition rivals (p : pos) (m : pmove) : list square :=
  filter (fun s => negb (s =? pm_from m) && opiece_eqb (piece_at p s) (Some (pm_type m, stm p))
                   && legal p (MovePiece (mk_pm (pm_type m) s (pm_to m) None))) squares.
Definition spec_amb (p : pos) (m : pmove) : amb :=
  match pm_type m with
  | Pawn => if negb (sfile (pm_from m) =? sfile (pm_to m)) then ExtraFile else AmbNeither
  | King => AmbNeither
  | _ => match rivals p m with
         | [] => AmbNeither
         | r => if forallb (fun s => negb (sfile s =? sfile (pm_from m))) r then ExtraFile
                else if forallb (fun s => negb (srank s =? srank (pm_from m))) r then ExtraRank else ExtraSquare end
  end.
Definition spec_props (p : pos) (mv : bmove) : mprops :=
  let q := apply p mv in
  let chk := in_check q (stm q) in
  {| mp_check := chk; mp_mate := (match gen q with [] => true | _ => false end) && chk;
     mp_capture := (match mv with MovePiece m => is_capture p m | _ => false end);
     mp_amb := (match mv with MovePiece m => spec_amb p m | _ => AmbNeither end) |}.
Definition san (p : pos) (mv : bmove) : bytes := san_string mv (spec_props p mv).
