(* spec/Protocol.v — the game protocol as a three-phase state machine (ongoing / offer pending /
   finished), as the property text states it. *)
Require Import LC.model.Prims LC.model.Board LC.model.Game.
Open Scope N_scope.

Inductive verdict := Accepted | RejectedIllegalAction | RejectedFinished.
Definition is_finished (s : gstatus) : bool := match s with GOngoing | GDrawOffered _ => false | _ => true end.
(* which actions are accepted in which phase; [legal] says whether a move action carries a legal move *)
Definition verdict_of (s : gstatus) (a : action) (legal : bool) : verdict :=
  if is_finished s then RejectedFinished else
  match s, a with
  | GOngoing, MakeMove _ => if legal then Accepted else RejectedIllegalAction
  | GOngoing, (AcceptDraw | DeclineDraw) => RejectedIllegalAction
  | GOngoing, _ => Accepted
  | _, (MakeMove _ | OfferDraw _) => RejectedIllegalAction      (* an offer is pending *)
  | _, _ => Accepted end.
(* the status the rules give after an accepted action; [after_move] is the result of the board after a move *)
Definition status_after (a : action) (after_move : gstatus) : gstatus :=
  match a with
  | MakeMove _ => after_move
  | OfferDraw c => GDrawOffered c
  | DeclineDraw => GOngoing
  | AcceptDraw => GDrawAccepted
  | Resign c => GResigned c end.
(* board result, or repetition when the position has now occurred at least three times *)
Definition move_result (bs : bstatus) (occurrences : N) : gstatus :=
  match bs with
  | BCheckMated c => GCheckMated c | BStalemate => GStalemate | BTheoreticalDraw => GTheoreticalDraw | BFiftyMoves => GFiftyMoves
  | BOngoing => if 3 <=? occurrences then GRepetition else GOngoing end.
