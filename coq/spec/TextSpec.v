(* spec/TextSpec.v — what the text forms ARE, independently of how the code computes them:
   the move-list layout (separately delimited tokens, consecutive move numbers), the bitboard grid. *)
Require Import LC.model.Prims LC.model.Text.
From Coq Require Import String.
Open Scope N_scope.

(* move list: White's moves carry the move number, every token is followed by one space; a list that starts
   with Black to move opens with "1. ... " and White's next move is number 2 *)
Fixpoint movelist_from (white_to_move : bool) (n : N) (sans : list bytes) : bytes :=
  match sans with
  | [] => []
  | s :: r => if white_to_move then print_dec n ++ B "." ++ s ++ B " " ++ movelist_from false n r
              else s ++ B " " ++ movelist_from true (n + 1) r end.
Definition movelist (white_starts : bool) (sans : list bytes) : bytes :=
  if white_starts then movelist_from true 1 sans
  else match sans with [] => [] | s :: r => B "1. ... " ++ s ++ B " " ++ movelist_from true 2 r end.

(* bitboard grid: eight rows, eighth rank first, a-file first; "X " for a set square, ". " otherwise *)
Definition grid_row (x : N) (r : N) : bytes :=
  flat_map (fun f => if N.testbit x (8 * r + f) then B "X " else B ". ") idx8 ++ [10].
Definition grid (x : N) : bytes := flat_map (grid_row x) [7;6;5;4;3;2;1;0].
