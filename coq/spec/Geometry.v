(* spec/Geometry.v — board geometry by walking: the definitions the movement tables are
   compared against (C17).  A second, relational, description (rank/file differences) is the
   one the generator models in model/Tables.v scan with; proofs/TablesGeo.v proves that the
   two agree on every square. *)
Require Import LC.model.Prims LC.spec.Chess.
Open Scope N_scope.

Definition dirs8 : list (Z * Z) := [(1,0);(-1,0);(0,1);(0,-1);(1,1);(1,-1);(-1,1);(-1,-1)]%Z.
Definition dir (i : nat) : Z * Z := nth i dirs8 (0,0)%Z.
Definition geo_knight (s : square) : bb := of_list (steps s knight_offs).
Definition geo_king (s : square) : bb := of_list (steps s king_offs).
Definition geo_ray (s : square) (i : nat) : bb := of_list (line s (dir i)).
Definition geo_rook (s : square) : bb := of_list (flat_map (line s) rook_dirs).
Definition geo_bishop (s : square) : bb := of_list (flat_map (line s) bishop_dirs).
Definition geo_queen (s : square) : bb := of_list (flat_map (line s) (rook_dirs ++ bishop_dirs)).
Definition geo_pawn_push (c : color) (s : square) : bb :=
  match step s (fwd c, 0%Z) with Some t => bit t | None => 0 end.
Definition geo_pawn_double (c : color) (s : square) : bb :=
  if srank s =? start_rank c then match step s ((2 * fwd c)%Z, 0%Z) with Some t => bit t | None => 0 end else 0.
Definition geo_pawn_cap (c : color) (s : square) : bb := of_list (steps s [(fwd c, 1%Z); (fwd c, (-1)%Z)]).

(* squares strictly between a and b when they share a rank, file or diagonal *)
Definition geo_between_list (a b : square) : option (list square) :=
  if a =? b then Some [] else
  fold_left (fun acc d => match acc with Some x => Some x | None => prefix_before b (line a d) end) dirs8 None.
Definition geo_between (a b : square) : option bb := option_map of_list (geo_between_list a b).

(* relational description *)
Definition aligned (a b : square) : bool :=
  let dr := Z.abs (Z.of_N (srank a) - Z.of_N (srank b)) in
  let df := Z.abs (Z.of_N (sfile a) - Z.of_N (sfile b)) in
  ((dr =? 0) || (df =? 0) || (dr =? df))%Z.
Definition adjacent (a b : square) : bool :=
  let dr := Z.abs (Z.of_N (srank a) - Z.of_N (srank b)) in
  let df := Z.abs (Z.of_N (sfile a) - Z.of_N (sfile b)) in
  ((dr <=? 1) && (df <=? 1))%Z.
