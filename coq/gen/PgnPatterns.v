(* gen/PgnPatterns.v — REGENERATED on every check by tools/pgn_patterns.py from the raw string literals of
   src/games.rs: the move and result patterns as data, the split and tag patterns as text. *)
Require Import LC.model.Prims LC.model.Text LC.model.Pgn.
Open Scope N_scope.
Definition gen_moves_src : rsrc := (SSeq (SAlt (SSeq (SStar [(110, 110); (78, 78); (98, 98); (66, 66); (114, 114); (82, 82); (113, 113); (81, 81); (107, 107); (75, 75)]) (SSeq (SStar [(97, 104)]) (SSeq (SStar [(49, 56)]) (SSeq (SStar [(120, 120)]) (SSeq (SCls [(97, 104)]) (SCls [(49, 56)])))))) (SSeq (SLit [79; 45; 79]) (SOpt (SLit [45; 79])))) (SSeq (SOpt (SSeq (SLit [61]) (SCls [(110, 110); (78, 78); (98, 98); (66, 66); (114, 114); (82, 82); (113, 113); (81, 81)]))) (SSeq (SOpt (SLit [43])) (SOpt (SLit [35]))))).
Definition gen_result_src : rsrc := (SAlt (SLit [49; 45; 48]) (SAlt (SLit [48; 45; 49]) (SLit [49; 47; 50; 45; 49; 47; 50]))).
Definition gen_split_pattern_text : bytes := [40; 92; 114; 63; 92; 110; 41; 123; 50; 44; 125].
Definition gen_tag_pattern_text : bytes := [92; 91; 40; 92; 115; 42; 91; 92; 119; 92; 100; 95; 93; 43; 41; 92; 115; 43; 34; 40; 91; 92; 115; 92; 119; 92; 100; 58; 47; 92; 46; 92; 63; 44; 45; 93; 42; 41; 34; 92; 115; 42; 92; 93].
