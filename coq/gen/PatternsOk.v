(* gen/PatternsOk.v — the patterns regenerated from src/games.rs (gen/PgnPatterns.v, rewritten on every check) are the
   patterns of the model (model/Pgn.v), about which the theorems of C10 and C15 speak. *)
Require Import LC.model.Prims LC.model.Text LC.model.Pgn LC.gen.PgnPatterns.
Lemma moves_pattern_ok : gen_moves_src = moves_src. Proof. reflexivity. Qed.
Lemma result_pattern_ok : gen_result_src = result_src. Proof. reflexivity. Qed.
Lemma split_pattern_ok : gen_split_pattern_text = split_pattern_text. Proof. reflexivity. Qed.
Lemma tag_pattern_ok : gen_tag_pattern_text = tag_pattern_text. Proof. reflexivity. Qed.
