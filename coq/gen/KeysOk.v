(* gen/KeysOk.v — re-proved on every run against gen/ZobristKeys.v (the 785 keys read from the running
   library): every key is non-zero, the keys are pairwise distinct, and the per-feature consequences
   used by C07 (two different contents of one square, two different rights of one colour, two different
   en-passant files, the two sides give different key contributions). *)
Require Import LC.model.Prims LC.model.Board LC.gen.ZobristKeys LC.proofs.HashInv.
Open Scope N_scope.

Definition impl_zkeys : zkeys :=
  {| zk_piece := fun c t s => nth (N.to_nat (color_index c * 384 + ptype_index t * 64 + s)) impl_piece_keys 0;
     zk_castle := fun c r => nth (N.to_nat (color_index c * 4 + cr_index r)) impl_castle_keys 0;
     zk_ep := fun f => nth (N.to_nat f) impl_ep_keys 0;
     zk_black := impl_black_key |}.
Definition all_keys : list N := impl_black_key :: impl_piece_keys ++ impl_castle_keys ++ impl_ep_keys.
Fixpoint nodupb (l : list N) : bool := match l with [] => true | x :: r => negb (existsb (N.eqb x) r) && nodupb r end.

Lemma keys_count : length all_keys = 785%nat. Proof. reflexivity. Qed.
Lemma keys_nonzero : forallb (fun k => negb (k =? 0)) all_keys = true. Proof. vm_compute. reflexivity. Qed.
Lemma keys_distinct : nodupb all_keys = true. Proof. vm_compute. reflexivity. Qed.
Lemma keys_u64 : forallb (fun k => k <? 18446744073709551616) all_keys = true. Proof. vm_compute. reflexivity. Qed.

Definition contents : list (option piece) :=
  None :: flat_map (fun c => map (fun t => Some (t, c)) all_types) all_colors.
Definition opiece_neq (a b : option piece) := negb (opiece_eqb a b).
Lemma cell_keys_distinct :
  forallb (fun s => forallb (fun a => forallb (fun b => negb (opiece_neq a b) || negb (cell_key impl_zkeys s a =? cell_key impl_zkeys s b)) contents) contents) squares = true.
Proof. vm_compute. reflexivity. Qed.
Lemma castle_keys_distinct :
  forallb (fun c => forallb (fun a => forallb (fun b => cr_eqb a b || negb (zk_castle impl_zkeys c a =? zk_castle impl_zkeys c b)) all_cr) all_cr) all_colors = true.
Proof. vm_compute. reflexivity. Qed.
Definition ep_files : list (option square) := None :: map Some idx8.
Lemma ep_keys_distinct :
  forallb (fun a => forallb (fun b => osq_eqb a b || negb (ep_key impl_zkeys a =? ep_key impl_zkeys b)) ep_files) ep_files = true.
Proof. vm_compute. reflexivity. Qed.
Lemma side_key_nonzero : negb (zk_black impl_zkeys =? 0) = true. Proof. vm_compute. reflexivity. Qed.
