(* gen/TablesOk.v — re-proved on every run against gen/ImplTables.v, which `harness dump`
   regenerates from the running library: every entry of every public movement table of the
   implementation equals the model's table (and hence, by proofs/TablesGeo.v, the geometry). *)
Require Import LC.model.Prims LC.model.Tables LC.gen.ImplTables.
Open Scope N_scope.
Lemma impl_knight_ok : impl_knight = KNIGHT_T. Proof. vm_compute. reflexivity. Qed.
Lemma impl_king_ok : impl_king = KING_T. Proof. vm_compute. reflexivity. Qed.
Lemma impl_bishop_ok : impl_bishop = BISHOP_T. Proof. vm_compute. reflexivity. Qed.
Lemma impl_rook_ok : impl_rook = ROOK_T. Proof. vm_compute. reflexivity. Qed.
Lemma impl_queen_ok : impl_queen = QUEEN_T. Proof. vm_compute. reflexivity. Qed.
Lemma impl_rays_ok : impl_rays = RAYS_T. Proof. vm_compute. reflexivity. Qed.
Lemma impl_pawn_push_w_ok : impl_pawn_push_w = PAWN_PUSH_W. Proof. vm_compute. reflexivity. Qed.
Lemma impl_pawn_push_b_ok : impl_pawn_push_b = PAWN_PUSH_B. Proof. vm_compute. reflexivity. Qed.
Lemma impl_pawn_dbl_w_ok : impl_pawn_dbl_w = PAWN_DBL_W. Proof. vm_compute. reflexivity. Qed.
Lemma impl_pawn_dbl_b_ok : impl_pawn_dbl_b = PAWN_DBL_B. Proof. vm_compute. reflexivity. Qed.
Lemma impl_pawn_cap_w_ok : impl_pawn_cap_w = PAWN_CAP_W. Proof. vm_compute. reflexivity. Qed.
Lemma impl_pawn_cap_b_ok : impl_pawn_cap_b = PAWN_CAP_B. Proof. vm_compute. reflexivity. Qed.
Lemma impl_between_ok : impl_between = BETWEEN_ROWS. Proof. vm_compute. reflexivity. Qed.
