(* proofs/C01b.v — the generated legal moves are exactly the rule-legal moves *)
Require Import LC.model.Prims LC.model.Tables LC.model.Board LC.spec.Chess LC.spec.Geometry
  LC.proofs.Basics LC.proofs.Bits LC.proofs.Cols LC.proofs.MaskInv LC.proofs.HashInv LC.proofs.MoveInv LC.proofs.Attack
  LC.proofs.C05Proofs LC.proofs.C05Pins LC.proofs.C02Proofs LC.proofs.Rays LC.proofs.Pseudo LC.proofs.Safety LC.proofs.PinLemma LC.proofs.C01a.
From Coq Require Import Lia.
Open Scope N_scope.

Section G.
Variable K : zkeys.
Variable b : board.
Hypothesis I : MaskInv b.
Hypothesis D : DerivedInv b.
Hypothesis V : valid (abs b) = true.
Let p := abs b.
Let c := b_stm b.

Lemma is_ep_eq m : is_en_passant_move m b = is_ep_capture p m.
Proof.
  unfold is_en_passant_move, is_ep_capture, p. cbn [ep abs]. destruct (b_ep b) as [e|]; [|now rewrite andb_false_r].
  cbn [osq_eqb]. now rewrite (N.eqb_sym (pm_to m) e).
Qed.
(* the filter of the generator: the move is kept iff the mover's king is not attacked afterwards *)
Lemma safe_pred t s d : s < 64 -> d < 64 -> cell_at b s = Some (t, c) -> mem d (pseudo_dests p s) = true ->
  (if needs_eval b (mk_pm t s d None) then cm <- check_mask_after K b (mk_pm t s d None) ;; Ok (is_blank cm) else Ok true)
  = Ok (negb (in_check (apply_pm p (mk_pm t s d None)) c)).
Proof.
  intros Hs Hd Hc Hm. destruct (valid_parts _ V) as (L & _ & _ & Vep).
  assert (Hp : piece_at p s = Some (t, stm p)) by (unfold p; rewrite (piece_at_abs b s I); exact Hc).
  destruct (needs_eval b (mk_pm t s d None)) eqn:En.
  - destruct (check_mask_after_spec K b (mk_pm t s d None) I Vep Hs Hd Hc Hm) as (cm & E & Hb).
    { apply (king_after (abs b) (mk_pm t s d None) V Hs Hd Hp Hm). reflexivity. }
    rewrite E. cbn [bind]. now rewrite Hb.
  - unfold needs_eval in En. cbn [pm_type pm_from mk_pm] in En. repeat (apply orb_false_elim in En; destruct En as [En ?]).
    apply negb_false_iff in En. rewrite (checks_blank b I D) in En. apply negb_true_iff in En.
    match goal with X : negb (is_blank (N.land (bit s) (b_pinned b))) = false |- _ => rewrite is_blank_land_bit', negb_involutive in X; rename X into Hpin end.
    rewrite (pin_mask_spec b I D s Hs) in Hpin.
    match goal with X : is_en_passant_move _ b = false |- _ => rewrite is_ep_eq in X; rename X into Hep end.
    f_equal. symmetry. apply negb_true_iff.
    apply (pin_lemma p (mk_pm t s d None) L Hs Hd Hep Hp).
    + cbn. intros ->. discriminate.
    + cbn. intros ->. discriminate.
    + apply (pseudo_not_own p s d t Vep Hp Hm).
    + exact En.
    + exact Hpin.
Qed.


(* ---------- the generator in closed form ---------- *)
Definition expand (t : ptype) (s d : square) : list bmove :=
  if ptype_eqb t Pawn && (rank d =? promotion_rank c)
  then map (fun q => MovePiece (mk_pm Pawn s d (Some q))) [Knight;Bishop;Rook;Queen]
  else [MovePiece (mk_pm t s d None)].
Definition safe (t : ptype) (s d : square) : bool := negb (in_check (apply_pm p (mk_pm t s d None)) c).
Definition gen_ts (t : ptype) (s : square) : list bmove :=
  flat_map (expand t s) (filter (safe t s) (filter (fun d => mem d (pseudo_dests p s)) squares)).
Definition own_squares (t : ptype) : list square := filter (fun s => opiece_eqb (piece_at p s) (Some (t, c))) squares.

Lemma own_bits t : bits (N.land (cmask b c) (tmask b t)) = own_squares t.
Proof.
  assert (U : u64 (N.land (cmask b c) (tmask b t))).
  { apply u64_has. intros x H. rewrite has_land in H. apply andb_prop in H. destruct H as [H _]. exact (mi_cmask_small b c x I H). }
  rewrite (bits_spec _ U). unfold own_squares. apply filter_ext'. intros s Hs.
  fold (has (N.land (cmask b c) (tmask b t)) s). rewrite has_land, (has_cmask_cell b c s I), (has_tmask_cell b t s I).
  unfold p. rewrite (piece_at_abs b s I). destruct (cell_at b s) as [[t0 c0]|]; [|reflexivity].
  unfold opiece_eqb, piece_eqb. cbn [fst snd]. apply andb_comm.
Qed.
Lemma own_squares_In t s : In s (own_squares t) <-> s < 64 /\ cell_at b s = Some (t, c).
Proof.
  unfold own_squares. rewrite filter_In, In_squares. unfold p. rewrite (piece_at_abs b s I). split.
  - intros [H1 H2]. split; [exact H1|]. now apply opiece_eqb_true in H2.
  - intros [H1 H2]. split; [exact H1|]. rewrite H2. destruct t, c; reflexivity.
Qed.
Lemma per_square t s : In s (own_squares t) ->
  (mask <- piece_moves_mask b t s ;;
   dests <- filter_res (fun d => let m := mk_pm t s d None in
              if needs_eval b m then cm <- check_mask_after K b m ;; Ok (is_blank cm) else Ok true) (bits mask) ;;
   Ok (flat_map (fun d =>
        if ptype_eqb t Pawn && (rank d =? promotion_rank c)
        then map (fun q => MovePiece (mk_pm Pawn s d (Some q))) [Knight;Bishop;Rook;Queen]
        else [MovePiece (mk_pm t s d None)]) dests)) = Ok (gen_ts t s).
Proof.
  intros Hin. apply own_squares_In in Hin. destruct Hin as [Hs Hc].
  destruct (pseudo_mask_spec b t s I Hs Hc) as (M & EM & HM). rewrite EM. cbn [bind].
  assert (U : u64 M) by (apply u64_has; apply (pseudo_mask_small b t s M I Hs EM)).
  assert (EB : bits M = filter (fun d => mem d (pseudo_dests p s)) squares).
  { rewrite (bits_spec M U). apply filter_ext'. intros d Hd. apply In_squares in Hd. fold (has M d). now apply HM. }
  rewrite EB. rewrite (filter_res_ok _ (safe t s)).
  2:{ intros d Hd. apply filter_In in Hd. destruct Hd as [Hd Hm]. apply In_squares in Hd. cbv zeta. now apply safe_pred. }
  cbn [bind]. unfold gen_ts, expand. reflexivity.
Qed.
Lemma legal_moves_closed : exists ca, castling_available b (Some (b_checks b)) = Ok ca /\
  has_kingside ca = castle_legal p true /\ has_queenside ca = castle_legal p false /\
  legal_moves K b = Ok (flat_map (fun t => flat_map (gen_ts t) (own_squares t)) all_types
     ++ match ca with QueenSide => [CastleQ] | KingSide => [CastleK] | BothSides => [CastleK; CastleQ] | Neither => [] end).
Proof.
  destruct (castling_spec b (Some (b_checks b)) I D V (or_intror eq_refl)) as (ca & Eca & Hk & Hq).
  exists ca. split; [exact Eca|]. split; [exact Hk|]. split; [exact Hq|].
  unfold legal_moves. fold c.
  rewrite (flat_map_res_ok _ (fun t => flat_map (gen_ts t) (own_squares t))).
  2:{ intros t _. rewrite own_bits. apply flat_map_res_ok. intros s Hs. now apply per_square. }
  cbn [bind]. rewrite Eca. reflexivity.
Qed.

(* ---------- membership ---------- *)
Lemma promo_rank_eq d : d < 64 -> (rank d =? promotion_rank c) = (srank d =? last_rank (stm p)).
Proof. intros H. rewrite (rank_val d H). unfold srank, p. cbn [stm abs]. fold c. now destruct c. Qed.
Lemma cell_lt s pc : cell_at b s = Some pc -> s < 64.
Proof.
  intros H. destruct (N.lt_ge_cases s 64) as [|Hge]; [assumption|]. unfold cell_at in H. rewrite (mi_zero b s I Hge) in H. discriminate.
Qed.
Lemma legal_piece_iff m : legal p (MovePiece m) = true <->
  cell_at b (pm_from m) = Some (pm_type m, c) /\ pm_to m < 64 /\ mem (pm_to m) (pseudo_dests p (pm_from m)) = true /\
  safe (pm_type m) (pm_from m) (pm_to m) = true /\
  (if ptype_eqb (pm_type m) Pawn && (rank (pm_to m) =? promotion_rank c)
   then exists q, pm_promo m = Some q /\ In q [Knight;Bishop;Rook;Queen] else pm_promo m = None).
Proof.
  destruct (valid_parts _ V) as (L & _).
  cbn [legal]. rewrite !andb_true_iff. change (stm p) with c. unfold p at 1. rewrite (piece_at_abs b _ I).
  split.
  - intros [[[H1 H2] H3] H4]. apply opiece_eqb_true in H1. pose proof (cell_lt _ _ H1) as Hs. pose proof (pseudo_dests_lt _ _ _ H2) as Hd.
    split; [exact H1|]. split; [exact Hd|]. split; [exact H2|].
    unfold promo_ok in H3. rewrite <- (promo_rank_eq _ Hd) in H3. 
    destruct (ptype_eqb (pm_type m) Pawn && (rank (pm_to m) =? promotion_rank c)) eqn:Ep.
    + apply andb_prop in Ep. destruct Ep as [Et _]. assert (pm_type m = Pawn) as Ht by (destruct (pm_type m); try discriminate; reflexivity).
      destruct (pm_promo m) as [q|] eqn:Eq; [|discriminate]. split.
      * unfold safe. apply negb_true_iff in H4. apply negb_true_iff. rewrite <- H4. rewrite Ht. symmetry.
        destruct m as [mt ms md mp]. cbn in *. subst mt mp. apply (promo_independent p ms md q L Hs Hd). intros ->. discriminate.
      * exists q. split; [reflexivity|]. destruct q; cbn; try discriminate; tauto.
    + destruct (pm_promo m) eqn:Eq; [discriminate|]. split; [|reflexivity].
      unfold safe. destruct m as [mt ms md mp]. cbn in *. subst mp. exact H4.
  - intros (H1 & Hd & H2 & H4 & H5). pose proof (cell_lt _ _ H1) as Hs. split; [split; [split|]|].
    + rewrite H1. destruct (pm_type m), c; reflexivity.
    + exact H2.
    + unfold promo_ok. rewrite <- (promo_rank_eq _ Hd). destruct (ptype_eqb (pm_type m) Pawn && (rank (pm_to m) =? promotion_rank c)).
      * destruct H5 as (q & -> & Hq). cbn in Hq. destruct Hq as [<-|[<-|[<-|[<-|[]]]]]; reflexivity.
      * now rewrite H5.
    + unfold safe in H4. destruct (ptype_eqb (pm_type m) Pawn && (rank (pm_to m) =? promotion_rank c)) eqn:Ep.
      * apply andb_prop in Ep. destruct Ep as [Et _]. assert (pm_type m = Pawn) as Ht by (destruct (pm_type m); try discriminate; reflexivity).
        destruct H5 as (q & Eq & Hq). destruct m as [mt ms md mp]. cbn in *. subst mt mp.
        change c with (stm p). rewrite (promo_independent p ms md q L Hs Hd); [exact H4|]. intros ->. cbn in Hq. intuition discriminate.
      * destruct m as [mt ms md mp]. cbn in *. subst mp. exact H4.
Qed.
Lemma In_expand m t s d : In (MovePiece m) (expand t s d) <->
  pm_from m = s /\ pm_to m = d /\
  (if ptype_eqb t Pawn && (rank d =? promotion_rank c)
   then pm_type m = Pawn /\ exists q, pm_promo m = Some q /\ In q [Knight;Bishop;Rook;Queen] else pm_type m = t /\ pm_promo m = None).
Proof.
  unfold expand. destruct (ptype_eqb t Pawn && (rank d =? promotion_rank c)).
  - rewrite in_map_iff. split.
    + intros (q & [= <-] & Hq). cbn. repeat split; eauto.
    + intros (<- & <- & Ht & q & Eq & Hq). exists q. split; [|exact Hq]. destruct m; cbn in *; now subst.
  - cbn [In]. split.
    + intros [[= <-]|[]]. cbn. auto.
    + intros (<- & <- & <- & Ep). left. destruct m; cbn in *; now subst.
Qed.
Lemma gen_ts_In mv t s : In mv (gen_ts t s) <->
  exists d, d < 64 /\ mem d (pseudo_dests p s) = true /\ safe t s d = true /\ In mv (expand t s d).
Proof.
  unfold gen_ts. rewrite in_flat_map. split.
  - intros (d & Hd & H). apply filter_In in Hd. destruct Hd as [Hd Hs]. apply filter_In in Hd. destruct Hd as [Hd Hm].
    apply In_squares in Hd. exists d. auto.
  - intros (d & Hd & Hm & Hs & H). exists d. split; [|exact H]. apply filter_In. split; [|exact Hs]. apply filter_In. split; [now apply In_squares|exact Hm].
Qed.
Theorem legal_moves_exact : exists l, legal_moves K b = Ok l /\ forall mv, In mv l <-> legal p mv = true.
Proof.
  destruct legal_moves_closed as (ca & _ & Hk & Hq & E). eexists. split; [exact E|]. intros mv. rewrite in_app_iff. split.
  - intros [H|H].
    + apply in_flat_map in H. destruct H as (t & _ & H). apply in_flat_map in H. destruct H as (s & Hs & H).
      apply own_squares_In in Hs. destruct Hs as [Hs Hc].
      apply gen_ts_In in H. destruct H as (d & Hd & Hm & Hsafe & H).
      destruct mv as [m| |]; [|unfold expand in H; destruct (_ && _); [apply in_map_iff in H; destruct H as (? & ? & _); discriminate|destruct H as [?|[]]; discriminate]..].
      apply In_expand in H. destruct H as (Es & Ed & H). apply legal_piece_iff. rewrite Es, Ed.
      destruct (ptype_eqb t Pawn && (rank d =? promotion_rank c)) eqn:Ep.
      * destruct H as (Et & q & Eq & Hq'). apply andb_prop in Ep. destruct Ep as [Et' Er].
        assert (t = Pawn) as -> by (destruct t; try discriminate; reflexivity). rewrite Et. cbn [ptype_eqb andb]. rewrite Er.
        repeat split; try assumption. eauto.
      * destruct H as (Et & Eq). rewrite Et, Ep. repeat split; assumption.
    + destruct mv as [m| |]; [destruct ca; cbn in H; intuition discriminate| |].
      * cbn [legal]. rewrite <- Hk. destruct ca; cbn in H; intuition discriminate.
      * cbn [legal]. rewrite <- Hq. destruct ca; cbn in H; intuition discriminate.
  - intros H. destruct mv as [m| |].
    + left. apply legal_piece_iff in H. destruct H as (H1 & Hd & H2 & H4 & H5). pose proof (cell_lt _ _ H1) as Hs.
      apply in_flat_map. exists (pm_type m). split; [destruct (pm_type m); cbn; tauto|].
      apply in_flat_map. exists (pm_from m). split; [apply own_squares_In; auto|].
      apply gen_ts_In. exists (pm_to m). split; [exact Hd|]. split; [exact H2|]. split; [exact H4|].
      apply In_expand. split; [reflexivity|]. split; [reflexivity|].
        destruct (ptype_eqb (pm_type m) Pawn && (rank (pm_to m) =? promotion_rank c)) eqn:Ep.
        -- apply andb_prop in Ep. destruct Ep as [Et _]. split; [destruct (pm_type m); try discriminate; reflexivity|exact H5].
        -- split; [reflexivity|exact H5].
    + right. cbn [legal] in H. rewrite <- Hk in H. destruct ca; try discriminate H; cbn [In]; tauto.
    + right. cbn [legal] in H. rewrite <- Hq in H. destruct ca; try discriminate H; cbn [In]; tauto.
Qed.

(* ---------- no move is listed twice ---------- *)
Lemma NoDup_app' {A} (l1 l2 : list A) : NoDup l1 -> NoDup l2 -> (forall x, In x l1 -> In x l2 -> False) -> NoDup (l1 ++ l2).
Proof.
  induction l1 as [|a l1 IH]; intros N1 N2 H; [exact N2|]. inversion N1 as [|? ? Ha N1']; subst. cbn. constructor.
  - rewrite in_app_iff. intros [X|X]; [contradiction|]. apply (H a); [now left|exact X].
  - apply IH; auto. intros x Hx. apply H. now right.
Qed.
Lemma NoDup_flat_map {A B} (f : A -> list B) l : NoDup l -> (forall x, In x l -> NoDup (f x)) ->
  (forall x y z, In x l -> In y l -> In z (f x) -> In z (f y) -> x = y) -> NoDup (flat_map f l).
Proof.
  induction l as [|a l IH]; intros N Hf Hd; [constructor|]. inversion N as [|? ? Ha N']; subst. cbn. apply NoDup_app'.
  - apply Hf. now left.
  - apply IH; [exact N'|intros x Hx; apply Hf; now right|intros x y z Hx Hy; apply Hd; now right].
  - intros z Hz1 Hz2. apply in_flat_map in Hz2. destruct Hz2 as (y & Hy & Hz2).
    assert (a = y) by (apply (Hd a y z); [now left|now right|exact Hz1|exact Hz2]). subst y. contradiction.
Qed.
Lemma NoDup_filter {A} (f : A -> bool) l : NoDup l -> NoDup (filter f l).
Proof.
  induction 1 as [|a l Ha N IH]; cbn; [constructor|]. destruct (f a); [|exact IH]. constructor; [|exact IH].
  intros X. apply filter_In in X. tauto.
Qed.
Lemma expand_NoDup t s d : NoDup (expand t s d).
Proof.
  unfold expand. destruct (_ && _); [|repeat constructor; intros []].
  repeat constructor; cbn; intuition discriminate.
Qed.
Lemma expand_facts t s d mv : In mv (expand t s d) -> exists m, mv = MovePiece m /\ pm_type m = t /\ pm_from m = s /\ pm_to m = d.
Proof.
  unfold expand. destruct (ptype_eqb t Pawn && (rank d =? promotion_rank c)) eqn:Ep.
  - apply andb_prop in Ep. destruct Ep as [Et _]. assert (t = Pawn) as -> by (destruct t; try discriminate; reflexivity).
    intros H. apply in_map_iff in H. destruct H as (q & <- & _). eexists. split; [reflexivity|]. cbn. auto.
  - intros [<-|[]]. eexists. split; [reflexivity|]. cbn. auto.
Qed.
Lemma gen_ts_NoDup t s : NoDup (gen_ts t s).
Proof.
  unfold gen_ts. apply NoDup_flat_map.
  - apply NoDup_filter, NoDup_filter, squares_NoDup.
  - intros d _. apply expand_NoDup.
  - intros d1 d2 z _ _ H1 H2. apply expand_facts in H1, H2. destruct H1 as (m1 & -> & _ & _ & <-). destruct H2 as (m2 & [= <-] & _ & _ & <-). reflexivity.
Qed.
Lemma gen_ts_facts t s mv : In mv (gen_ts t s) -> exists m, mv = MovePiece m /\ pm_type m = t /\ pm_from m = s.
Proof. intros H. apply gen_ts_In in H. destruct H as (d & _ & _ & _ & H). apply expand_facts in H. destruct H as (m & -> & Ht & Hs & _). eauto. Qed.
Lemma Ok_inj {A} (x y : A) : Ok x = Ok y -> x = y. Proof. now intros [= ->]. Qed.
Theorem legal_moves_nodup : forall l, legal_moves K b = Ok l -> NoDup l.
Proof.
  intros l E. destruct legal_moves_closed as (ca & _ & _ & _ & E'). rewrite E in E'. apply Ok_inj in E'. rewrite E'. clear E E'.
  apply NoDup_app'.
  - apply NoDup_flat_map.
    + repeat constructor; cbn; intuition discriminate.
    + intros t _. apply NoDup_flat_map.
      * unfold own_squares. apply NoDup_filter, squares_NoDup.
      * intros s _. apply gen_ts_NoDup.
      * intros s1 s2 z _ _ H1 H2. apply gen_ts_facts in H1, H2. destruct H1 as (m1 & -> & _ & <-). destruct H2 as (m2 & [= <-] & _ & <-). reflexivity.
    + intros t1 t2 z _ _ H1 H2. apply in_flat_map in H1, H2. destruct H1 as (s1 & _ & H1). destruct H2 as (s2 & _ & H2).
      apply gen_ts_facts in H1, H2. destruct H1 as (m1 & -> & <- & _). destruct H2 as (m2 & [= <-] & <- & _). reflexivity.
  - destruct ca; repeat constructor; cbn; intuition discriminate.
  - intros z H1 H2. apply in_flat_map in H1. destruct H1 as (t & _ & H1). apply in_flat_map in H1. destruct H1 as (s & _ & H1).
    apply gen_ts_facts in H1. destruct H1 as (m & -> & _). destruct ca; cbn in H2; intuition discriminate.
Qed.
Theorem castling_query : exists r, castling_available b None = Ok r /\
  has_kingside r = legal p CastleK /\ has_queenside r = legal p CastleQ.
Proof. exact (castling_spec b None I D V (or_introl eq_refl)). Qed.
End G.
