(* proofs/TablesGeo.v — the generator models of model/Tables.v (relation scans, ray conditions,
   triangular between index) produce exactly the walk-based geometry of spec/Geometry.v, for
   every square, square pair and colour.  Finite domains, evaluated completely by vm_compute. *)
Require Import LC.model.Prims LC.model.Tables LC.spec.Chess LC.spec.Geometry.
Open Scope N_scope.

Lemma knight_geo : KNIGHT_T = map geo_knight squares. Proof. vm_compute. reflexivity. Qed.
Lemma king_geo : KING_T = map geo_king squares. Proof. vm_compute. reflexivity. Qed.
Lemma rays_geo : RAYS_T = map (fun s => map (geo_ray s) (seq 0 8)) squares. Proof. vm_compute. reflexivity. Qed.
Lemma bishop_geo : BISHOP_T = map geo_bishop squares. Proof. vm_compute. reflexivity. Qed.
Lemma rook_geo : ROOK_T = map geo_rook squares. Proof. vm_compute. reflexivity. Qed.
Lemma queen_geo : QUEEN_T = map geo_queen squares. Proof. vm_compute. reflexivity. Qed.
Lemma pawn_push_w_geo : PAWN_PUSH_W = map (geo_pawn_push White) squares. Proof. vm_compute. reflexivity. Qed.
Lemma pawn_push_b_geo : PAWN_PUSH_B = map (geo_pawn_push Black) squares. Proof. vm_compute. reflexivity. Qed.
Lemma pawn_dbl_w_geo : PAWN_DBL_W = map (geo_pawn_double White) squares. Proof. vm_compute. reflexivity. Qed.
Lemma pawn_dbl_b_geo : PAWN_DBL_B = map (geo_pawn_double Black) squares. Proof. vm_compute. reflexivity. Qed.
Lemma pawn_cap_w_geo : PAWN_CAP_W = map (geo_pawn_cap White) squares. Proof. vm_compute. reflexivity. Qed.
Lemma pawn_cap_b_geo : PAWN_CAP_B = map (geo_pawn_cap Black) squares. Proof. vm_compute. reflexivity. Qed.
Lemma between_geo : BETWEEN_ROWS = map (fun a => map (geo_between a) squares) squares. Proof. vm_compute. reflexivity. Qed.

(* facts about the geometric between relation itself *)
Definition obb_eqb (x y : option bb) := match x, y with Some a, Some b => a =? b | None, None => true | _, _ => false end.
Lemma between_sym_sweep :
  forallb (fun a => forallb (fun b => obb_eqb (geo_between a b) (geo_between b a)) squares) squares = true.
Proof. vm_compute. reflexivity. Qed.
Lemma between_defined_iff_aligned_sweep :
  forallb (fun a => forallb (fun b => Bool.eqb (match geo_between a b with Some _ => true | None => false end) (aligned a b)) squares) squares = true.
Proof. vm_compute. reflexivity. Qed.
Lemma between_adjacent_empty_sweep :
  forallb (fun a => forallb (fun b => negb (aligned a b && adjacent a b) || obb_eqb (geo_between a b) (Some 0)) squares) squares = true.
Proof. vm_compute. reflexivity. Qed.
(* sanity totals of the attack graphs *)
Lemma arc_totals :
  (fold_left N.add (map (fun s => popcount (geo_knight s)) squares) 0 = 336 /\
   fold_left N.add (map (fun s => popcount (geo_king s)) squares) 0 = 420 /\
   fold_left N.add (map (fun s => popcount (geo_bishop s)) squares) 0 = 560 /\
   fold_left N.add (map (fun s => popcount (geo_rook s)) squares) 0 = 896)%N.
Proof. vm_compute. repeat split; reflexivity. Qed.
