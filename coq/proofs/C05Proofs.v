(* proofs/C05Proofs.v — the check mask computed by pins_and_checks is exactly the set of enemy pieces
   attacking the given square, for every board with consistent masks and every square *)
Require Import LC.model.Prims LC.model.Tables LC.model.Board LC.spec.Chess LC.spec.Geometry
  LC.proofs.Basics LC.proofs.Bits LC.proofs.Cols LC.proofs.MaskInv LC.proofs.Attack.
From Coq Require Import Lia.
Open Scope N_scope.

Lemma bool_eq_iff (a b : bool) : (a = true <-> b = true) -> a = b.
Proof. destruct a, b; intros [H1 H2]; try reflexivity; [symmetry; now apply H1|now apply H2]. Qed.

(* ---------- abstraction ---------- *)
Definition abs (b : board) : pos :=
  {| placement := abs_pl b; stm := b_stm b; rights_w := b_wr b; rights_b := b_br b; ep := b_ep b; half := b_half b; full := b_full b |}.
Lemma abs_pl_length b : length (abs_pl b) = 64%nat.
Proof. unfold abs_pl. now rewrite map_length. Qed.
Lemma piece_at_abs b s : MaskInv b -> piece_at (abs b) s = cell_at b s.
Proof.
  intros I. unfold piece_at, abs. cbn [placement]. destruct (N.lt_ge_cases s 64) as [H|H].
  - unfold abs_pl. now apply nth_map_squares.
  - rewrite nth_overflow by (rewrite abs_pl_length; lia). unfold cell_at. now rewrite (mi_zero b s I H).
Qed.
Lemma occupied_abs b v : MaskInv b -> occupied (abs b) v = has (m_all b) v.
Proof. intros I. unfold occupied. rewrite (piece_at_abs b v I), (has_all_cell b v I). now destruct (cell_at b v). Qed.
Lemma color_at_abs b c v : MaskInv b -> color_at (abs b) c v = has (cmask b c) v.
Proof.
  intros I. unfold color_at. rewrite (piece_at_abs b v I), (has_cmask_cell b c v I).
  destruct (cell_at b v) as [[t c']|]; [|reflexivity]. destruct c, c'; reflexivity.
Qed.

(* ---------- the loop over the sliding attackers ---------- *)
Definition btw_of (b : board) (sq a : square) : bb := match between sq a with Some m => N.land (m_all b) m | None => 0 end.
Definition slider_step (b : board) (sq : square) (acc : res (N * N)) (a : square) : res (N * N) :=
  '(p, k) <- acc ;;
  m <- unwrap_o (between sq a) ;;
  let btw := N.land (m_all b) m in
  match popcount btw with
  | 0 => Ok (p, N.lor k (bit a))
  | 1 => Ok (N.lor p btw, k)
  | _ => Ok (p, k) end.
Lemma slider_fold b sq l : (forall a, In a l -> between sq a <> None) -> forall p0 k0 : N,
  exists P C : N, fold_left (slider_step b sq) l (Ok (p0, k0)) = Ok (P, C) /\
    (forall x, has C x = has k0 x || existsb (fun a => (a =? x) && (popcount (btw_of b sq a) =? 0)) l) /\
    (forall x, has P x = has p0 x || existsb (fun a => (popcount (btw_of b sq a) =? 1) && has (btw_of b sq a) x) l).
Proof.
  induction l as [|a l IH]; intros Hdef p0 k0.
  - exists p0, k0. split; [reflexivity|]. split; intros x; cbn; now rewrite orb_false_r.
  - assert (Ha : between sq a <> None) by (apply Hdef; now left).
    assert (Hl : forall a', In a' l -> between sq a' <> None) by (intros a' H; apply Hdef; now right).
    cbn [fold_left]. unfold slider_step at 2. cbn [bind]. unfold btw_of at 1 2 3.
    destruct (between sq a) as [m|] eqn:Em; [|contradiction]. cbn [unwrap_o bind].
    set (btw := N.land (m_all b) m).
    destruct (popcount btw) as [|[q|q|]] eqn:Ep.
    + destruct (IH Hl p0 (N.lor k0 (bit a))) as (P & C & E & HC & HP). exists P, C. split; [exact E|]. split; intros x.
      * rewrite HC, has_lor, has_bit. cbn [existsb]. unfold btw_of at 1. rewrite Em. fold btw. rewrite Ep. cbn. rewrite andb_true_r. now rewrite orb_assoc.
      * rewrite HP. cbn [existsb]. unfold btw_of at 1. rewrite Em. fold btw. rewrite Ep. reflexivity.
    + destruct (IH Hl p0 k0) as (P & C & E & HC & HP). exists P, C. split; [exact E|]. split; intros x.
      * rewrite HC. cbn [existsb]. unfold btw_of at 1. rewrite Em. fold btw. rewrite Ep. cbn. now rewrite andb_false_r.
      * rewrite HP. cbn [existsb]. unfold btw_of at 1. rewrite Em. fold btw. rewrite Ep. reflexivity.
    + destruct (IH Hl p0 k0) as (P & C & E & HC & HP). exists P, C. split; [exact E|]. split; intros x.
      * rewrite HC. cbn [existsb]. unfold btw_of at 1. rewrite Em. fold btw. rewrite Ep. cbn. now rewrite andb_false_r.
      * rewrite HP. cbn [existsb]. unfold btw_of at 1. rewrite Em. fold btw. rewrite Ep. reflexivity.
    + destruct (IH Hl (N.lor p0 btw) k0) as (P & C & E & HC & HP). exists P, C. split; [exact E|]. split; intros x.
      * rewrite HC. cbn [existsb]. unfold btw_of at 1. rewrite Em. fold btw. rewrite Ep. cbn. now rewrite andb_false_r.
      * rewrite HP, has_lor. cbn [existsb]. unfold btw_of at 1 2. rewrite Em. fold btw. rewrite Ep. cbn. now rewrite orb_assoc.
Qed.
Lemma existsb_eq_mem (l : list square) x (f : square -> bool) :
  existsb (fun a => (a =? x) && f a) l = mem x l && f x.
Proof.
  induction l as [|a l IH]; [reflexivity|]. cbn [existsb mem]. rewrite IH. unfold mem. rewrite (N.eqb_sym x a).
  destruct (N.eqb_spec a x) as [->|]; cbn; [destruct (f x); cbn; [reflexivity|now rewrite andb_false_r]|reflexivity].
Qed.

(* ---------- pins_and_checks in closed form ---------- *)
Definition slider_att (b : board) (sq : square) : bb :=
  N.land (cmask b (opp (b_stm b)))
    (N.lor (N.land (look BISHOP_T sq) (N.lor (m_bishop b) (m_queen b))) (N.land (look ROOK_T sq) (N.lor (m_rook b) (m_queen b)))).
Lemma pawn_att_eq b sq :
  (match (match b_stm b with White => sq_up sq | Black => sq_down sq end) with
   | Ok u =>
       let r := rank u in
       let opawns := N.land (cmask b (opp (b_stm b))) (m_pawn b) in
       let l := match sq_left sq with Ok x => N.land opawns (bit (mk_sq r (file x))) | _ => 0 end in
       let rr := match sq_right sq with Ok x => N.land opawns (bit (mk_sq r (file x))) | _ => 0 end in
       N.lor l rr
   | _ => 0 end) = N.land (N.land (cmask b (opp (b_stm b))) (m_pawn b)) (pawn_src (b_stm b) sq).
Proof.
  unfold pawn_src. destruct (match b_stm b with White => sq_up sq | Black => sq_down sq end); [|now rewrite N.land_0_r|now rewrite N.land_0_r].
  cbv zeta. destruct (sq_left sq), (sq_right sq); rewrite ?N.land_lor_distr_r, ?N.land_0_r, ?N.lor_0_r, ?N.lor_0_l; reflexivity.
Qed.
Lemma pins_and_checks_eq b sq : pins_and_checks b sq =
  ('(pinned, checks) <- fold_left (slider_step b sq) (bits (slider_att b sq)) (Ok (0, 0)) ;;
   Ok (N.land pinned (cmask b (b_stm b)),
       N.lor (N.lor checks (N.land (cmask b (opp (b_stm b))) (N.lor (N.land (look KNIGHT_T sq) (m_knight b)) (N.land (look KING_T sq) (m_king b)))))
             (N.land (N.land (cmask b (opp (b_stm b))) (m_pawn b)) (pawn_src (b_stm b) sq)))).
Proof. unfold pins_and_checks. rewrite pawn_att_eq. reflexivity. Qed.

Lemma slider_att_small b sq : MaskInv b -> u64 (slider_att b sq).
Proof.
  intros I. apply u64_has. intros x H. unfold slider_att in H. rewrite has_land in H. apply andb_prop in H. destruct H as [H _].
  exact (mi_cmask_small b _ x I H).
Qed.
(* every sliding attacker candidate is aligned with sq, so the between table is defined for it *)
Lemma between_defined sq a : sq < 64 -> a < 64 -> has (look ROOK_T sq) a || has (look BISHOP_T sq) a = true -> between sq a <> None.
Proof.
  intros Hs Ha H. apply orb_prop in H. destruct H as [H|H].
  - pose proof (line_ok_rook sq a Hs Ha) as L. unfold line_ok in L. apply andb_prop in L. destruct L as [L1 L2].
    apply eqb_prop in L1. rewrite H in L1. symmetry in L1. apply existsb_exists in L1. destruct L1 as (d & Hd & Hp).
    rewrite forallb_forall in L2. specialize (L2 d Hd). destruct (prefix_before sq (line a d)); [|discriminate].
    destruct (between sq a); [discriminate|discriminate].
  - pose proof (line_ok_bishop sq a Hs Ha) as L. unfold line_ok in L. apply andb_prop in L. destruct L as [L1 L2].
    apply eqb_prop in L1. rewrite H in L1. symmetry in L1. apply existsb_exists in L1. destruct L1 as (d & Hd & Hp).
    rewrite forallb_forall in L2. specialize (L2 d Hd). destruct (prefix_before sq (line a d)); [|discriminate].
    destruct (between sq a); [discriminate|discriminate].
Qed.

Lemma pins_and_checks_ok b sq : MaskInv b -> sq < 64 ->
  exists P C : N, pins_and_checks b sq = Ok (P, C) /\
   (forall x, has C x = (has (slider_att b sq) x && (popcount (btw_of b sq x) =? 0))
       || (has (cmask b (opp (b_stm b))) x && ((has (look KNIGHT_T sq) x && has (m_knight b) x) || (has (look KING_T sq) x && has (m_king b) x)))
       || (has (cmask b (opp (b_stm b))) x && has (m_pawn b) x && has (pawn_src (b_stm b) sq) x)) /\
   (forall x, has P x = existsb (fun a => (popcount (btw_of b sq a) =? 1) && has (btw_of b sq a) x) (bits (slider_att b sq)) && has (cmask b (b_stm b)) x).
Proof.
  intros I Hs. rewrite pins_and_checks_eq.
  pose proof (slider_att_small b sq I) as U.
  destruct (slider_fold b sq (bits (slider_att b sq))) with (p0 := 0) (k0 := 0) as (P & C & E & HC & HP).
  { intros a Ha. apply (bits_In _ a U) in Ha. fold (has (slider_att b sq) a) in Ha.
    assert (a < 64) as Ha64 by (eapply u64_testbit; eauto).
    apply between_defined; [exact Hs|exact Ha64|]. unfold slider_att in Ha. rewrite has_land, has_lor, !has_land in Ha.
    apply andb_prop in Ha. destruct Ha as [_ Ha]. apply orb_prop in Ha. destruct Ha as [Ha|Ha]; apply andb_prop in Ha; destruct Ha as [Ha _]; rewrite Ha; [apply orb_true_r|reflexivity]. }
  eexists. eexists. rewrite E. cbn [bind]. split; [reflexivity|]. split; intros x.
  - rewrite !has_lor, HC, has_0, orb_false_l, existsb_eq_mem. rewrite !has_land, !has_lor, !has_land.
    assert (M : mem x (bits (slider_att b sq)) = has (slider_att b sq) x) by (apply bool_eq_iff; rewrite mem_true, (bits_In _ x U); reflexivity).
    rewrite M. reflexivity.
  - rewrite has_land, HP, has_0, orb_false_l. reflexivity.
Qed.

(* ---------- sliders: table bit + empty between-set = reachability along a line in the mailbox spec ---------- *)
Lemma forallb_ext' {A} (f g : A -> bool) l : (forall x, f x = g x) -> forallb f l = forallb g l.
Proof. intros H. induction l as [|a l IH]; [reflexivity|]. cbn. now rewrite H, IH. Qed.
Lemma unocc_blank b pre : MaskInv b ->
  forallb (fun v => negb (occupied (abs b) v)) pre = is_blank (N.land (m_all b) (of_list pre)).
Proof. intros I. rewrite is_blank_land_of_list. apply forallb_ext'. intros v. now rewrite (occupied_abs b v I). Qed.
Lemma popcount0_blank m : (popcount m =? 0) = is_blank m.
Proof. unfold is_blank. apply bool_eq_iff. rewrite !N.eqb_eq. apply popcount_zero. Qed.

Lemma slider_reach b dirs T sq a : MaskInv b -> line_ok dirs T sq a = true ->
  has (look T sq) a && (popcount (btw_of b sq a) =? 0) = mem sq (flat_map (reach (abs b) a) dirs).
Proof.
  intros I L. unfold line_ok in L. apply andb_prop in L. destruct L as [L1 L2]. apply eqb_prop in L1. rewrite forallb_forall in L2.
  apply bool_eq_iff. rewrite mem_reach, andb_true_iff. split.
  - intros [HT Hp]. rewrite HT in L1. symmetry in L1. apply existsb_exists in L1. destruct L1 as (d & Hd & Hdef).
    specialize (L2 d Hd). destruct (prefix_before sq (line a d)) as [pre|] eqn:Ep; [|discriminate].
    exists d, pre. split; [exact Hd|]. split; [exact Ep|].
    unfold obb_is in L2. unfold btw_of in Hp. destruct (between sq a) as [m|]; [|discriminate]. apply N.eqb_eq in L2. subst m.
    rewrite (unocc_blank b pre I). now rewrite <- popcount0_blank.
  - intros (d & pre & Hd & Ep & Hu). specialize (L2 d Hd). rewrite Ep in L2. split.
    + rewrite L1. apply existsb_exists. exists d. split; [exact Hd|]. now rewrite Ep.
    + unfold obb_is in L2. unfold btw_of. destruct (between sq a) as [m|]; [|discriminate]. apply N.eqb_eq in L2. subst m.
      rewrite popcount0_blank, <- (unocc_blank b pre I). exact Hu.
Qed.
Lemma mem_app x l1 l2 : mem x (l1 ++ l2) = mem x l1 || mem x l2.
Proof. unfold mem. apply existsb_app. Qed.

(* ---------- the check mask of any square ---------- *)
Lemma ptype_eqb_refl t : ptype_eqb t t = true. Proof. now destruct t. Qed.
Lemma color_eqb_refl c : color_eqb c c = true. Proof. now destruct c. Qed.
Lemma color_eqb_opp c : color_eqb (opp c) c = false. Proof. now destruct c. Qed.

Theorem checks_spec b sq P C : MaskInv b -> sq < 64 -> pins_and_checks b sq = Ok (P, C) ->
  forall a, a < 64 -> has C a = color_at (abs b) (opp (b_stm b)) a && mem sq (attacks_from (abs b) a).
Proof.
  intros I Hs E a Ha. destruct (pins_and_checks_ok b sq I Hs) as (P' & C' & E' & HC & _).
  rewrite E in E'. injection E' as <- <-. rewrite HC. clear HC E.
  unfold attacks_from, color_at. rewrite (piece_at_abs b a I).
  unfold slider_att. rewrite !has_land, !has_lor, !has_land, !has_lor.
  change (m_bishop b) with (tmask b Bishop). change (m_queen b) with (tmask b Queen). change (m_rook b) with (tmask b Rook).
  change (m_knight b) with (tmask b Knight). change (m_king b) with (tmask b King). change (m_pawn b) with (tmask b Pawn).
  rewrite !(has_tmask_cell b _ a I), (has_cmask_cell b _ a I).
  destruct (cell_at b a) as [[t c']|] eqn:Ec; [|reflexivity].
  destruct (color_eqb c' (opp (b_stm b))) eqn:Eo.
  2:{ assert (color_eqb (opp (b_stm b)) c' = false) as -> by (destruct (b_stm b), c'; cbn in *; congruence). reflexivity. }
  assert (c' = opp (b_stm b)) as -> by (destruct (b_stm b), c'; cbn in *; congruence). rewrite color_eqb_refl. cbn [andb].
  destruct t; cbn [ptype_eqb andb orb slide_dirs]; rewrite ?andb_false_r, ?orb_false_r, ?andb_true_r, ?orb_false_l.
  - (* pawn *) rewrite (pawn_rel (b_stm b) sq a Hs Ha). reflexivity.
  - (* knight *) apply (knight_rel sq a Hs Ha).
  - (* bishop *) apply (slider_reach b bishop_dirs BISHOP_T sq a I (line_ok_bishop sq a Hs Ha)).
  - (* rook *) apply (slider_reach b rook_dirs ROOK_T sq a I (line_ok_rook sq a Hs Ha)).
  - (* queen *) rewrite flat_map_app, mem_app.
    rewrite <- (slider_reach b rook_dirs ROOK_T sq a I (line_ok_rook sq a Hs Ha)), <- (slider_reach b bishop_dirs BISHOP_T sq a I (line_ok_bishop sq a Hs Ha)).
    destruct (has (look BISHOP_T sq) a), (has (look ROOK_T sq) a), (popcount (btw_of b sq a) =? 0); reflexivity.
  - (* king *) apply (king_rel sq a Hs Ha).
Qed.

(* ---------- the king square ---------- *)
Lemma find_hd_filter {A} (f : A -> bool) l : find f l = hd_error (filter f l).
Proof. induction l as [|a l IH]; [reflexivity|]. cbn. destruct (f a); [reflexivity|exact IH]. Qed.
Lemma filter_ext' {A} (f g : A -> bool) l : (forall x, In x l -> f x = g x) -> filter f l = filter g l.
Proof. induction l as [|a l IH]; intros H; [reflexivity|]. cbn. rewrite (H a (or_introl eq_refl)), IH; [reflexivity|]. intros x Hx. apply H. now right. Qed.
Lemma king_mask_cell b c s : MaskInv b -> N.testbit (N.land (m_king b) (cmask b c)) s = opiece_eqb (cell_at b s) (Some (King, c)).
Proof.
  intros I. fold (has (N.land (m_king b) (cmask b c)) s). rewrite has_land. change (m_king b) with (tmask b King).
  rewrite (has_tmask_cell b King s I), (has_cmask_cell b c s I). destruct (cell_at b s) as [[t c']|]; [|reflexivity].
  unfold opiece_eqb, piece_eqb. cbn [fst snd]. reflexivity.
Qed.
Lemma hd_match (L : list square) : match L with [] => @Panic square | s :: _ => Ok s end = match hd_error L with Some k => Ok k | None => Panic end.
Proof. destruct L; reflexivity. Qed.
Lemma king_square_spec b c : MaskInv b ->
  king_square b c = match king_sq (abs b) c with Some k => Ok k | None => Panic end.
Proof.
  intros I. unfold king_square.
  assert (U : u64 (N.land (m_king b) (cmask b c))).
  { apply u64_has. intros x H. rewrite has_land in H. apply andb_prop in H. destruct H as [H _]. exact (mi_tmask_small b King x I H). }
  rewrite (to_square_spec _ U), (bits_spec _ U). unfold king_sq. rewrite find_hd_filter.
  rewrite (filter_ext' (N.testbit (N.land (m_king b) (cmask b c))) (fun s => opiece_eqb (piece_at (abs b) s) (Some (King, c))) squares).
  2:{ intros x _. rewrite (piece_at_abs b x I). apply (king_mask_cell b c x I). }
  apply hd_match.
Qed.
Lemma king_sq_lt p c k : king_sq p c = Some k -> k < 64.
Proof. unfold king_sq. intros H. apply find_some in H. destruct H as [H _]. now apply In_squares. Qed.

(* ---------- the cached masks ---------- *)
Definition DerivedInv (b : board) : Prop :=
  exists k, king_square b (b_stm b) = Ok k /\ pins_and_checks b k = Ok (b_pinned b, b_checks b).
Lemma update_pins_derived b b' : update_pins_and_checks b = Ok b' -> DerivedInv b'.
Proof.
  intros E. unfold update_pins_and_checks in E. apply bind_ok in E. destruct E as (k & Ek & E).
  apply bind_ok in E. destruct E as ([p c] & Ep & [= <-]). exists k. split; [exact Ek|exact Ep].
Qed.
Lemma attackers_In p c t a : In a (attackers p c t) <-> In a squares /\ color_at p c a && mem t (attacks_from p a) = true.
Proof. unfold attackers. apply filter_In. Qed.

(* the check mask of a board whose cached masks are current: exactly the enemy pieces attacking the mover's king *)
Theorem check_mask_spec b : MaskInv b -> DerivedInv b -> forall a, a < 64 -> has (b_checks b) a = is_checker (abs b) a.
Proof.
  intros I (k & Ek & Ep) a Ha. rewrite (king_square_spec b (b_stm b) I) in Ek.
  destruct (king_sq (abs b) (b_stm b)) as [k'|] eqn:Eq; [|discriminate]. injection Ek as ->.
  pose proof (king_sq_lt _ _ _ Eq) as Hk.
  rewrite (checks_spec b k _ _ I Hk Ep a Ha). unfold is_checker, checkers. change (stm (abs b)) with (b_stm b). rewrite Eq.
  apply bool_eq_iff. rewrite mem_true, attackers_In, In_squares. tauto.
Qed.
Lemma check_mask_small b : MaskInv b -> DerivedInv b -> forall a, has (b_checks b) a = true -> a < 64.
Proof.
  intros I (k & Ek & Ep) a H. rewrite (king_square_spec b (b_stm b) I) in Ek.
  destruct (king_sq (abs b) (b_stm b)) as [k'|] eqn:Eq; [|discriminate]. injection Ek as ->.
  destruct (pins_and_checks_ok b k I (king_sq_lt _ _ _ Eq)) as (P' & C' & E' & HC & _). rewrite Ep in E'. injection E' as <- <-.
  rewrite HC in H. destruct (N.lt_ge_cases a 64) as [|Hge]; [assumption|]. exfalso.
  pose proof (mi_zero b a I Hge) as Z. unfold slider_att in H. rewrite !has_land in H.
  assert (has (cmask b (opp (b_stm b))) a = false) as Hc by (destruct (opp (b_stm b)); [exact (f_equal kw Z)|exact (f_equal kbl Z)]).
  rewrite Hc in H. cbn in H. discriminate.
Qed.

(* ---------- the cached masks are current in every constructed / reached position ---------- *)
Require Import LC.proofs.HashInv LC.proofs.MoveInv LC.proofs.C06Proofs.
Section Reach.
Variable K : zkeys.
Lemma DerivedInv_with_term b t : DerivedInv b -> DerivedInv (with_term b t).
Proof. intros (k & E1 & E2). exists k. split; [exact E1|exact E2]. Qed.
Lemma DerivedInv_with_hash b h : DerivedInv b -> DerivedInv (with_hash b h).
Proof. intros (k & E1 & E2). exists k. split; [exact E1|exact E2]. Qed.
Lemma update_terminal_derived b b' : DerivedInv b -> update_terminal_status K b = Ok b' -> DerivedInv b'.
Proof. intros D E. unfold update_terminal_status in E. apply bind_ok in E. destruct E as (f & _ & [= <-]). now apply DerivedInv_with_term. Qed.
Lemma make_move_unchecked_derived b mv b' : make_move_unchecked K b mv = Ok b' -> DerivedInv b'.
Proof.
  intros E. unfold make_move_unchecked in E. apply bind_ok in E. destruct E as (b1 & _ & E).
  apply bind_ok in E. destruct E as (b7 & E7 & E). eapply update_terminal_derived; [|exact E]. eapply update_pins_derived; eauto.
Qed.
Lemma make_move_derived b mv b' : make_move K b mv = Ok b' -> DerivedInv b'.
Proof.
  intros E. unfold make_move in E. apply bind_ok in E. destruct E as (ok & _ & E). destruct ok; [|discriminate].
  eapply make_move_unchecked_derived; eauto.
Qed.
Lemma try_from_builder_derived bd b : try_from_builder K bd = Ok b -> DerivedInv b.
Proof.
  intros E. unfold try_from_builder in E. apply bind_ok in E. destruct E as (b0 & _ & E).
  destruct (negb (popcount (N.land (m_king b0) (m_white b0)) =? 1)); [discriminate|].
  destruct (negb (popcount (N.land (m_king b0) (m_black b0)) =? 1)); [discriminate|].
  apply bind_ok in E. destruct E as (b6 & E6 & E). apply bind_ok in E. destruct E as (h & _ & E).
  apply bind_ok in E. destruct E as (v & _ & E). destruct v; [discriminate|].
  eapply update_terminal_derived; [|exact E]. apply DerivedInv_with_hash. eapply update_pins_derived; eauto.
Qed.
Lemma play_derived ms : forall b b', DerivedInv b -> play K b ms = Ok b' -> DerivedInv b'.
Proof.
  induction ms as [|m r IH]; intros b b' D E; [now injection E as <-|].
  cbn [play] in E. apply bind_ok in E. destruct E as (b1 & E1 & E). eapply IH; [|exact E]. eapply make_move_derived; eauto.
Qed.
Lemma reachable_derived b : reachable K b -> DerivedInv b.
Proof. intros (bd & b0 & ms & E0 & _ & E). eapply play_derived; [|exact E]. eapply try_from_builder_derived; eauto. Qed.
End Reach.
