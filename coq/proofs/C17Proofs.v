Require Import LC.model.Prims LC.model.Tables LC.spec.Chess LC.spec.Geometry LC.gen.ImplTables LC.gen.TablesOk
  LC.proofs.TablesGeo LC.proofs.Basics.
From Coq Require Import Lia.
Open Scope N_scope.

Lemma piece_tables : forall s, s < 64 ->
  nth (N.to_nat s) impl_knight 0 = geo_knight s /\ nth (N.to_nat s) impl_king 0 = geo_king s /\
  nth (N.to_nat s) impl_bishop 0 = geo_bishop s /\ nth (N.to_nat s) impl_rook 0 = geo_rook s /\
  nth (N.to_nat s) impl_queen 0 = geo_queen s.
Proof.
  intros s H. rewrite impl_knight_ok, impl_king_ok, impl_bishop_ok, impl_rook_ok, impl_queen_ok.
  rewrite knight_geo, king_geo, bishop_geo, rook_geo, queen_geo.
  repeat split; now apply nth_map_squares.
Qed.
Lemma ray_tables : forall s i, s < 64 -> (i < 8)%nat -> nth i (nth (N.to_nat s) impl_rays []) 0 = geo_ray s i.
Proof.
  intros s i H Hi. rewrite impl_rays_ok, rays_geo.
  rewrite (nth_map_squares (fun s => map (geo_ray s) (seq 0 8))) by exact H.
  rewrite nth_indep with (d' := geo_ray s 0%nat) by (rewrite map_length, seq_length; lia).
  rewrite map_nth. now rewrite seq_nth by lia.
Qed.
Lemma pawn_tables : forall s, s < 64 ->
  nth (N.to_nat s) impl_pawn_push_w 0 = geo_pawn_push White s /\ nth (N.to_nat s) impl_pawn_push_b 0 = geo_pawn_push Black s /\
  nth (N.to_nat s) impl_pawn_dbl_w 0 = geo_pawn_double White s /\ nth (N.to_nat s) impl_pawn_dbl_b 0 = geo_pawn_double Black s /\
  nth (N.to_nat s) impl_pawn_cap_w 0 = geo_pawn_cap White s /\ nth (N.to_nat s) impl_pawn_cap_b 0 = geo_pawn_cap Black s.
Proof.
  intros s H. rewrite impl_pawn_push_w_ok, impl_pawn_push_b_ok, impl_pawn_dbl_w_ok, impl_pawn_dbl_b_ok, impl_pawn_cap_w_ok, impl_pawn_cap_b_ok.
  rewrite pawn_push_w_geo, pawn_push_b_geo, pawn_dbl_w_geo, pawn_dbl_b_geo, pawn_cap_w_geo, pawn_cap_b_geo.
  repeat split; now apply nth_map_squares.
Qed.
Lemma between_table : forall a b, a < 64 -> b < 64 ->
  nth (N.to_nat b) (nth (N.to_nat a) impl_between []) None = geo_between a b.
Proof.
  intros a b Ha Hb. rewrite impl_between_ok, between_geo.
  rewrite (nth_map_squares (fun a => map (geo_between a) squares)) by exact Ha.
  now apply nth_map_squares.
Qed.
Lemma obb_eqb_eq x y : obb_eqb x y = true -> x = y.
Proof. destruct x, y; cbn; try discriminate; auto. intros H. apply N.eqb_eq in H. now subst. Qed.
Lemma between_symmetric : forall a b, a < 64 -> b < 64 ->
  nth (N.to_nat b) (nth (N.to_nat a) impl_between []) None = nth (N.to_nat a) (nth (N.to_nat b) impl_between []) None.
Proof.
  intros a b Ha Hb. rewrite !between_table by assumption.
  apply obb_eqb_eq. exact (forallb_squares2 _ between_sym_sweep a b Ha Hb).
Qed.
Lemma between_defined_iff_aligned : forall a b, a < 64 -> b < 64 ->
  (nth (N.to_nat b) (nth (N.to_nat a) impl_between []) None <> None <-> aligned a b = true).
Proof.
  intros a b Ha Hb. rewrite between_table by assumption.
  pose proof (forallb_squares2 _ between_defined_iff_aligned_sweep a b Ha Hb) as H. cbv beta in H.
  apply eqb_prop in H. rewrite <- H. destruct (geo_between a b); split; intros X; try reflexivity; try discriminate. exfalso; apply X; reflexivity.
Qed.
Lemma between_adjacent_empty : forall a b, a < 64 -> b < 64 -> aligned a b = true -> adjacent a b = true ->
  nth (N.to_nat b) (nth (N.to_nat a) impl_between []) None = Some 0.
Proof.
  intros a b Ha Hb H1 H2. rewrite between_table by assumption.
  pose proof (forallb_squares2 _ between_adjacent_empty_sweep a b Ha Hb) as H. cbv beta in H.
  rewrite H1, H2 in H. cbn in H. now apply obb_eqb_eq in H.
Qed.
