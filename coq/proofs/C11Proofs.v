(* proofs/C11Proofs.v — the occurrence counters count the positions of the history *)
Require Import LC.model.Prims LC.model.Tables LC.model.Board LC.model.Text LC.model.San LC.model.Game LC.spec.Protocol
  LC.proofs.Basics LC.proofs.C12Proofs.
From Coq Require Import Lia.
Open Scope N_scope.

Definition occ (h : N) (ps : list board) : N := N.of_nat (length (filter (fun p => b_hash p =? h) ps)).
Definition CountInv (g : game) : Prop := forall h, counter_get (g_counter g) h = occ h (g_positions g).
Definition LastInv (g : game) : Prop := last (g_positions g) (g_pos g) = g_pos g /\ g_positions g <> [].

Lemma counter_get_set m h v h' : counter_get (counter_set m h v) h' = if h' =? h then v else counter_get m h'.
Proof.
  unfold counter_get, counter_set. cbn [find fst snd]. rewrite (N.eqb_sym h h'). destruct (N.eqb_spec h' h) as [->|Hne]; [reflexivity|].
  induction m as [|[k v0] m IH]; [reflexivity|]. cbn [filter find fst snd].
  destruct (N.eqb_spec k h) as [->|Hk]; cbn [negb].
  - rewrite IH. destruct (N.eqb_spec h h'); [congruence|reflexivity].
  - cbn [find fst snd]. destruct (k =? h'); [reflexivity|exact IH].
Qed.
Lemma occ_app h ps p : occ h (ps ++ [p]) = occ h ps + (if b_hash p =? h then 1 else 0).
Proof.
  unfold occ. rewrite filter_app, app_length, Nat2N.inj_add. f_equal. cbn [filter]. destruct (b_hash p =? h); reflexivity.
Qed.

Section C.
Variable K : zkeys.
Lemma CountInv_init b g : game_from_board b = Ok g -> CountInv g /\ LastInv g.
Proof.
  intros E. unfold game_from_board in E. apply bind_ok in E. destruct E as (g0 & E0 & [= <-]).
  apply update_game_status_spec in E0. destruct E0 as (after & _ & _ & _ & P1 & P2 & P3 & P4 & P5).
  cbn [g_pos g_positions g_counter] in *. split.
  - intros h. unfold position_counter_increment, position_counter. cbn [g_counter g_positions g_pos]. rewrite counter_get_set, P5, P1, P2.
    cbn [counter_get find]. unfold occ. cbn [filter]. rewrite (N.eqb_sym h). destruct (b_hash b =? h); reflexivity.
  - unfold LastInv, position_counter_increment. cbn [g_positions g_pos]. rewrite P2, P1. split; [reflexivity|discriminate].
Qed.
Lemma last_app_one {A} (l : list A) x d : last (l ++ [x]) d = x.
Proof. induction l as [|a l IH]; [reflexivity|]. cbn [app last]. destruct (l ++ [x]) eqn:E; [destruct l; discriminate|exact IH]. Qed.
Lemma CountInv_step g a g' : CountInv g -> LastInv g -> game_step K g a = Ok g' -> CountInv g' /\ LastInv g'.
Proof.
  intros C L E. pose proof (game_step_status K g a g' E) as (_ & _ & S).
  destruct a as [m|c| | |c].
  2-5: destruct S as (_ & P1 & P2 & _ & P5); split; [intros h; rewrite P5, P2; apply C|unfold LastInv; rewrite P2, P1; exact L].
  unfold game_step in E. apply bind_ok in E. destruct E as (g1 & E1 & E2).
  apply update_game_status_spec in E2. destruct E2 as (after & _ & _ & _ & P1 & P2 & P3 & P4 & P5).
  destruct (g_status g); try discriminate. destruct (make_move K (g_pos g) m) as [b'| |] eqn:Em; try discriminate.
  unfold history_push in E1. apply bind_ok in E1. destruct E1 as (lp & _ & E1). apply bind_ok in E1. destruct E1 as (mp & _ & [= <-]).
  cbn [g_pos g_positions g_counter position_counter_increment with_pos position_counter] in *. split.
  - intros h. unfold position_counter in P5. cbn [g_counter with_pos] in P5. rewrite P5, P2, counter_get_set, occ_app, !C.
    rewrite (N.eqb_sym (b_hash b') h). destruct (N.eqb_spec h (b_hash b')) as [->|]; [reflexivity|lia].
  - unfold LastInv. rewrite P2, P1. split; [apply last_app_one|]. destruct (g_positions g); discriminate.
Qed.
(* after any finite sequence of actions (rejected ones change nothing) *)
Lemma CountInv_run l : forall g, CountInv g -> LastInv g -> CountInv (run K g l) /\ LastInv (run K g l).
Proof.
  induction l as [|a r IH]; intros g C L; [split; assumption|]. cbn [run].
  destruct (game_step K g a) as [g'| |] eqn:E; try now apply IH.
  destruct (CountInv_step g a g' C L E). now apply IH.
Qed.
(* the counter the game reports for a position *)
Lemma reported_counter g p : CountInv g -> position_counter g p = occ (b_hash p) (g_positions g).
Proof. intros C. unfold position_counter. apply C. Qed.
End C.

(* if the hash separates the position keys that occur in the history, the counter is the true number of occurrences *)
Definition key_eqb (p q : board) : bool :=
  (m_pawn p =? m_pawn q) && (m_knight p =? m_knight q) && (m_bishop p =? m_bishop q) && (m_rook p =? m_rook q)
  && (m_queen p =? m_queen q) && (m_king p =? m_king q) && (m_white p =? m_white q) && (m_black p =? m_black q)
  && color_eqb (b_stm p) (b_stm q) && cr_eqb (b_wr p) (b_wr q) && cr_eqb (b_br p) (b_br q) && osq_eqb (b_ep p) (b_ep q).
Definition true_occ (q : board) (ps : list board) : N := N.of_nat (length (filter (key_eqb q) ps)).
Definition no_collision (ps : list board) : Prop := forall p q, In p ps -> In q ps -> b_hash p = b_hash q -> key_eqb q p = true.
Definition hash_respects_key (ps : list board) : Prop := forall p q, In p ps -> In q ps -> key_eqb q p = true -> b_hash p = b_hash q.
Lemma occ_true ps q : In q ps -> no_collision ps -> hash_respects_key ps -> occ (b_hash q) ps = true_occ q ps.
Proof.
  intros Hq NC HR. unfold occ, true_occ. f_equal. f_equal. apply filter_ext_in. intros p Hp.
  destruct (key_eqb q p) eqn:E.
  - apply N.eqb_eq. apply HR; assumption.
  - apply N.eqb_neq. intros H. rewrite (NC p q Hp Hq H) in E. discriminate.
Qed.

(* equal position keys give equal hashes for boards satisfying the invariants (C07) *)
Require Import LC.proofs.Bits LC.proofs.Cols LC.proofs.MaskInv LC.proofs.HashInv LC.proofs.MoveInv LC.proofs.C06Proofs.
Section R.
Variable K : zkeys.
Lemma key_eqb_hash p q : Inv K p -> Inv K q -> key_eqb q p = true -> b_hash p = b_hash q.
Proof.
  intros [Ip Hp] [Iq Hq] E. unfold key_eqb in E. repeat (apply andb_prop in E; destruct E as [E ?]).
  repeat match goal with X : (_ =? _) = true |- _ => apply N.eqb_eq in X end.
  assert (Ea : m_all q = m_all p) by (rewrite <- (colors_union q Iq), <- (colors_union p Ip); congruence).
  assert (Ec : forall x, col_of p x = col_of q x) by (intros x; unfold col_of; congruence).
  rewrite Hp, Hq, !feature_hash_unfold.
  assert (b_stm q = b_stm p) as -> by (destruct (b_stm q), (b_stm p); try discriminate; reflexivity).
  assert (b_wr q = b_wr p) as -> by (destruct (b_wr q), (b_wr p); try discriminate; reflexivity).
  assert (b_br q = b_br p) as -> by (destruct (b_br q), (b_br p); try discriminate; reflexivity).
  assert (b_ep q = b_ep p) as -> by (destruct (b_ep q), (b_ep p); cbn in *; try discriminate; [f_equal; now apply N.eqb_eq|reflexivity]).
  unfold feature_hash_of. do 3 f_equal. apply xor_keys_ext. intros x _. unfold cell_at. now rewrite Ec.
Qed.
Definition wf_action (a : action) : Prop := match a with MakeMove m => wf_bmove m | _ => True end.
Definition AllInv (g : game) : Prop := Forall (Inv K) (g_positions g) /\ Inv K (g_pos g).
Lemma AllInv_init b g : Inv K b -> game_from_board b = Ok g -> AllInv g.
Proof.
  intros I E. destruct (game_from_board_spec b g E) as (_ & P1 & P2 & _). unfold AllInv. rewrite P1, P2. split; [constructor; [exact I|constructor]|exact I].
Qed.
Lemma AllInv_step g a g' : AllInv g -> wf_action a -> game_step K g a = Ok g' -> AllInv g'.
Proof.
  intros [A I] W E. pose proof (game_step_status K g a g' E) as (_ & _ & S).
  destruct a as [m|c| | |c].
  2-5: destruct S as (_ & P1 & P2 & _); unfold AllInv; rewrite P1, P2; split; assumption.
  destruct S as (bs & _ & Em & _).
  assert (I' : Inv K (g_pos g')) by (eapply Inv_make_move; eauto).
  unfold game_step in E. apply bind_ok in E. destruct E as (g1 & E1 & E2).
  apply update_game_status_spec in E2. destruct E2 as (after & _ & _ & _ & P1 & P2 & _).
  destruct (g_status g); try discriminate. destruct (make_move K (g_pos g) m) as [b'| |] eqn:Em'; try discriminate.
  unfold history_push in E1. apply bind_ok in E1. destruct E1 as (lp & _ & E1). apply bind_ok in E1. destruct E1 as (mp & _ & [= <-]).
  cbn [g_pos g_positions] in *. unfold AllInv. rewrite P2. split; [|exact I'].
  apply Forall_app. split; [exact A|]. constructor; [|constructor]. rewrite <- P1. exact I'.
Qed.
Lemma AllInv_run l : forall g, AllInv g -> Forall wf_action l -> AllInv (run K g l).
Proof.
  induction l as [|a r IH]; intros g A W; [exact A|]. inversion W as [|? ? Wa Wr]; subst. cbn [run].
  destruct (game_step K g a) as [g'| |] eqn:E; try now apply IH. apply IH; [eapply AllInv_step; eauto|exact Wr].
Qed.
Lemma history_respects_key g : AllInv g -> hash_respects_key (g_positions g).
Proof.
  intros [A _] p q Hp Hq E. rewrite Forall_forall in A. apply key_eqb_hash; auto.
Qed.
End R.
Lemma repetition_iff bs n : move_result bs n = GRepetition <-> bs = BOngoing /\ 3 <= n.
Proof.
  destruct bs as [|c| | |]; cbn; try (split; [discriminate|intros [? _]; discriminate]).
  destruct (N.leb_spec 3 n); split; try discriminate; auto; intros [_ ?]; lia.
Qed.
