(* proofs/C15Proofs.v — importing the exported move list and result reproduces the game (after tokenisation) *)
Require Import LC.model.Prims LC.model.Tables LC.model.Board LC.model.Text LC.model.San LC.model.Game LC.spec.Chess LC.spec.SanSpec LC.spec.Protocol
  LC.proofs.Basics LC.proofs.MaskInv LC.proofs.MoveInv LC.proofs.C05Proofs LC.proofs.C01b LC.proofs.C12Proofs LC.proofs.C11Proofs LC.proofs.C13Proofs
  LC.proofs.Reach LC.proofs.Symmetry LC.proofs.C14Spec LC.proofs.C14Proofs.
From Coq Require Import Lia.
Open Scope N_scope.

(* ---------- the last element satisfying a test that only one element satisfies ---------- *)
Lemma pick_last {A} (f : A -> bool) x l : forall a0, In x l -> f x = true -> (forall y, In y l -> f y = true -> y = x) ->
  fold_left (fun acc m => if f m then Some m else acc) l a0 = Some x.
Proof.
  induction l as [|y l IH] using rev_ind; intros a0 Hin Fx U; [destruct Hin|]. rewrite fold_left_app. cbn [fold_left].
  destruct (f y) eqn:Fy.
  - f_equal. apply U; [apply in_or_app; right; now left|exact Fy].
  - apply in_app_or in Hin. destruct Hin as [Hin|[->|[]]]; [|congruence].
    apply IH; [exact Hin|exact Fx|]. intros z Hz. apply U. apply in_or_app. now left.
Qed.

Section P.
Variable K : zkeys.
Lemma fold_res_ok {A B} (f : B -> A -> res B) (g : B -> A -> B) l : forall b0, (forall b1 x, In x l -> f b1 x = Ok (g b1 x)) ->
  fold_left (fun acc x => a <- acc ;; f a x) l (Ok b0) = Ok (fold_left g l b0).
Proof.
  induction l as [|x l IH]; intros b0 H; [reflexivity|]. cbn [fold_left bind]. rewrite (H b0 x (or_introl eq_refl)). apply IH. intros b1 y Hy. apply H. now right.
Qed.
Theorem san_lookup_finds b m mp : Good K b -> wf_bmove m -> legal (abs b) m = true -> move_props K m b = Ok mp ->
  san_lookup K b (san_string m mp) = Ok (Some m).
Proof.
  intros G W L Ep. destruct G as [[I HI] D V T] eqn:EG. unfold san_lookup.
  destruct (legal_moves_exact K b I D V) as (l & El & Hl). rewrite El. cbn [bind].
  set (f := fun m0 : bmove => match move_props K m0 b with Ok mp0 => beq (san_string m0 mp0) (san_string m mp) | _ => false end).
  rewrite (fold_res_ok (fun a m0 => mp0 <- unwrap (move_props K m0 b) ;; Ok (if beq (san_string m0 mp0) (san_string m mp) then Some m0 else a))
             (fun a m0 => if f m0 then Some m0 else a)).
  - f_equal. apply pick_last.
    + now apply Hl.
    + unfold f. rewrite Ep. unfold beq. destruct (list_eq_dec N.eq_dec (san_string m mp) (san_string m mp)); [reflexivity|contradiction].
    + intros y Hy Fy. apply Hl in Hy. unfold f in Fy. destruct (move_props K y b) as [mpy| |] eqn:Ey; try discriminate.
      unfold beq in Fy. destruct (list_eq_dec N.eq_dec (san_string y mpy) (san_string m mp)) as [E|]; [|discriminate].
      pose proof (legal_off_board (abs b) y (proj1 (valid_wfpos (abs b) V)) Hy) as Wy.
      destruct (move_props_spec K b (Build_Good K b (conj I HI) D V T) y Wy) as [A1 _]. rewrite (A1 Hy) in Ey. injection Ey as <-.
      destruct (move_props_spec K b (Build_Good K b (conj I HI) D V T) m W) as [A2 _]. rewrite (A2 L) in Ep. injection Ep as <-.
      exact (san_injective (abs b) y m V Hy L E).
  - intros a y Hy. apply Hl in Hy. pose proof (legal_off_board (abs b) y (proj1 (valid_wfpos (abs b) V)) Hy) as Wy.
    destruct (move_props_spec K b (Build_Good K b (conj I HI) D V T) y Wy) as [A1 _]. unfold f. rewrite (A1 Hy). reflexivity.
Qed.

(* ---------- replaying the recorded moves ---------- *)
Definition replay (g : game) (ms : list bmove) : res game := fold_left (fun acc m => a <- acc ;; game_step K a (MakeMove m)) ms (Ok g).
Definition token_fold (g : game) (toks : list bytes) : res game :=
  fold_left (fun acc tok => g0 <- acc ;; om <- san_lookup K (g_pos g0) tok ;; match om with None => Err EPgn | Some m => game_step K g0 (MakeMove m) end) toks (Ok g).
Lemma fold_bind_stuck {A B} (f : B -> A -> res B) l r : (forall x, r <> Ok x) -> fold_left (fun acc x => a <- acc ;; f a x) l r = r.
Proof. induction l as [|x l IH]; intros H; [reflexivity|]. cbn [fold_left]. destruct r as [y| |]; [exfalso; now apply (H y)|apply IH; discriminate|apply IH; discriminate]. Qed.
Lemma replay_cons g m ms gend : replay g (m :: ms) = Ok gend -> exists g1, game_step K g (MakeMove m) = Ok g1 /\ replay g1 ms = Ok gend.
Proof.
  unfold replay. cbn [fold_left bind]. intros E. destruct (game_step K g (MakeMove m)) as [g1| |] eqn:E1.
  - exists g1. auto.
  - rewrite fold_bind_stuck in E by discriminate. discriminate.
  - rewrite fold_bind_stuck in E by discriminate. discriminate.
Qed.
Lemma replay_snoc g ms m : replay g (ms ++ [m]) = (a <- replay g ms ;; game_step K a (MakeMove m)).
Proof. unfold replay. now rewrite fold_left_app. Qed.
Lemma tokens_replay ms : forall ps mps g1 gend, Chain K ps ms mps -> hd_error ps = Some (g_pos g1) -> Good K (g_pos g1) -> Forall wf_bmove ms ->
  replay g1 ms = Ok gend -> token_fold g1 (map (fun '(m, p) => san_string m p) (combine ms mps)) = Ok gend.
Proof.
  induction ms as [|m ms IH]; intros ps mps g1 gend C Hh G W E.
  - cbn in *. exact E.
  - destruct ps as [|p [|q r]]; destruct mps as [|mp mps]; cbn [Chain] in C; try contradiction. destruct C as (Em & Ep & C).
    cbn [hd_error] in Hh. injection Hh as ->. inversion W as [|? ? Wm Wms]; subst.
    destruct (replay_cons g1 m ms gend E) as (g2 & E1 & E2).
    destruct (good_step K (g_pos g1) m q G Wm Em) as (L & _ & Gq).
    cbn [combine map]. unfold token_fold. cbn [fold_left bind]. rewrite (san_lookup_finds (g_pos g1) m mp G Wm L Ep). cbn [bind]. rewrite E1.
    fold (token_fold g2 (map (fun '(m0, p) => san_string m0 p) (combine ms mps))).
    destruct (game_step_status K g1 (MakeMove m) g2 E1) as (_ & _ & (bs & _ & Em' & _)). rewrite Em in Em'. injection Em' as Eq.
    apply (IH (q :: r) mps g2 gend C); [cbn; now rewrite Eq|rewrite <- Eq; exact Gq|exact Wms|exact E2].
Qed.

(* ---------- the game is the replay of its moves, up to the non-move actions ---------- *)
Definition same_core (a b : game) : Prop :=
  g_pos a = g_pos b /\ g_positions a = g_positions b /\ g_moves a = g_moves b /\ g_meta a = g_meta b /\ g_counter a = g_counter b.
Definition by_agreement (s : gstatus) : bool := match s with GDrawOffered _ | GResigned _ | GDrawAccepted => true | _ => false end.
Definition Rep (g0 g : game) : Prop := exists gm, replay g0 (g_moves g) = Ok gm /\ same_core gm g /\ TagInv gm /\ by_agreement (g_status gm) = false /\
  (g_status g = g_status gm \/ (g_status gm = GOngoing /\ by_agreement (g_status g) = true)).
Lemma game_eq a b : same_core a b -> g_status a = g_status b -> TagInv a -> TagInv b -> a = b.
Proof. intros (E1 & E2 & E3 & E4 & E5) Es Ta Tb. unfold TagInv in *. destruct a, b. cbn in *. subst. reflexivity. Qed.
Lemma move_result_not_agreed bs n : by_agreement (move_result bs n) = false.
Proof. destruct bs; cbn; try reflexivity. destruct (3 <=? n); reflexivity. Qed.
Lemma Rep_init b0 g0 : game_from_board b0 = Ok g0 -> Rep g0 g0.
Proof.
  intros E. destruct (game_from_board_spec b0 g0 E) as (T & _ & _ & Em & bs & _ & Es). exists g0. rewrite Em. split; [reflexivity|].
  split; [repeat split|]. split; [exact T|]. split; [rewrite Es; apply move_result_not_agreed|now left].
Qed.
Lemma step_moves g a g' : game_step K g a = Ok g' -> g_moves g' = match a with MakeMove m => g_moves g ++ [m] | _ => g_moves g end.
Proof.
  intros E. unfold game_step in E. apply bind_ok in E. destruct E as (g1 & E1 & E2).
  apply update_game_status_spec in E2. destruct E2 as (after & _ & _ & _ & _ & _ & P3 & _). rewrite P3.
  destruct (g_status g) as [|x1|x1|x1| | | | |]; try discriminate; destruct a as [m|c1| | |c1]; try discriminate; try (injection E1 as <-; reflexivity).
  destruct (make_move K (g_pos g) m); try discriminate. unfold history_push in E1. apply bind_ok in E1. destruct E1 as (lp & _ & E1).
  apply bind_ok in E1. destruct E1 as (mp & _ & [= <-]). reflexivity.
Qed.
Lemma step_core_nonmove g a g' : game_step K g a = Ok g' -> (forall m, a <> MakeMove m) ->
  same_core g g' /\ g_status g' = status_after a GOngoing /\ (g_status g = GOngoing \/ exists c, g_status g = GDrawOffered c).
Proof.
  intros E N. unfold game_step in E. apply bind_ok in E. destruct E as (g1 & E1 & E2).
  apply update_game_status_spec in E2. destruct E2 as (after & _ & Hs & _ & P1 & P2 & P3 & P4 & P5).
  destruct (g_status g) as [|x1|x1|x1| | | | |] eqn:Es; try discriminate; destruct a as [m|c0| | |c0]; try discriminate; try (exfalso; now apply (N m));
  injection E1 as <-; (split; [repeat split; congruence|]); (split; [rewrite Hs; reflexivity|]); eauto.
Qed.
Lemma Rep_step g0 g a g' : Rep g0 g -> TagInv g -> game_step K g a = Ok g' -> Rep g0 g'.
Proof.
  intros (gm & Er & SC & Tm & Ag & Rel) Tg E. pose proof (step_moves g a g' E) as Mv.
  destruct a as [m|c| | |c].
  - (* a move: the game was open, so it is its own replay *)
    assert (Es : g_status g = GOngoing).
    { unfold game_step in E. destruct (g_status g); try reflexivity; cbn [bind] in E; discriminate. }
    assert (Em : g_status gm = GOngoing). { destruct Rel as [R|[R _]]; [now rewrite <- R|exact R]. }
    assert (gm = g) by (apply game_eq; [exact SC|congruence|exact Tm|exact Tg]). subst gm.
    exists g'. rewrite Mv, replay_snoc, Er. cbn [bind]. split; [exact E|]. split; [repeat split|].
    destruct (game_step_status K g (MakeMove m) g' E) as (_ & Tg' & (bs & _ & _ & Es')).
    split; [exact (Tg' Tg)|]. split; [rewrite Es'; apply move_result_not_agreed|now left].
  - destruct (step_core_nonmove g _ g' E ltac:(discriminate)) as (SC' & Es' & Hs). exists gm. rewrite Mv. split; [exact Er|].
    assert (Em : g_status gm = GOngoing).
    { destruct Hs as [Hs|(c1 & Hs)]; destruct Rel as [R|[R _]]; try exact R; rewrite Hs in R; [now rewrite <- R|rewrite <- R in Ag; discriminate]. }
    split; [destruct SC as (A1 & A2 & A3 & A4 & A5); destruct SC' as (B1 & B2 & B3 & B4 & B5); repeat split; congruence|].
    split; [exact Tm|]. split; [exact Ag|]. right. split; [exact Em|]. now rewrite Es'.
  - destruct (step_core_nonmove g _ g' E ltac:(discriminate)) as (SC' & Es' & Hs). exists gm. rewrite Mv. split; [exact Er|].
    assert (Em : g_status gm = GOngoing).
    { destruct Hs as [Hs|(c1 & Hs)]; destruct Rel as [R|[R _]]; try exact R; rewrite Hs in R; [now rewrite <- R|rewrite <- R in Ag; discriminate]. }
    split; [destruct SC as (A1 & A2 & A3 & A4 & A5); destruct SC' as (B1 & B2 & B3 & B4 & B5); repeat split; congruence|].
    split; [exact Tm|]. split; [exact Ag|]. right. split; [exact Em|]. now rewrite Es'.
  - destruct (step_core_nonmove g _ g' E ltac:(discriminate)) as (SC' & Es' & Hs). exists gm. rewrite Mv. split; [exact Er|].
    assert (Em : g_status gm = GOngoing).
    { destruct Hs as [Hs|(c1 & Hs)]; destruct Rel as [R|[R _]]; try exact R; rewrite Hs in R; [now rewrite <- R|rewrite <- R in Ag; discriminate]. }
    split; [destruct SC as (A1 & A2 & A3 & A4 & A5); destruct SC' as (B1 & B2 & B3 & B4 & B5); repeat split; congruence|].
    split; [exact Tm|]. split; [exact Ag|]. left. rewrite Es', Em. reflexivity.
  - destruct (step_core_nonmove g _ g' E ltac:(discriminate)) as (SC' & Es' & Hs). exists gm. rewrite Mv. split; [exact Er|].
    assert (Em : g_status gm = GOngoing).
    { destruct Hs as [Hs|(c1 & Hs)]; destruct Rel as [R|[R _]]; try exact R; rewrite Hs in R; [now rewrite <- R|rewrite <- R in Ag; discriminate]. }
    split; [destruct SC as (A1 & A2 & A3 & A4 & A5); destruct SC' as (B1 & B2 & B3 & B4 & B5); repeat split; congruence|].
    split; [exact Tm|]. split; [exact Ag|]. right. split; [exact Em|]. now rewrite Es'.
Qed.

(* ---------- export -> import ---------- *)
Definition result_of_tag (t : rtag) : option rtag := match t with TagOpen => None | x => Some x end.
Definition GameInv (g0 g : game) : Prop :=
  Rep g0 g /\ TagInv g /\ HistInv K g /\ g_positions g <> [] /\ Forall wf_bmove (g_moves g) /\ hd_error (g_positions g) = Some (g_pos g0).
Lemma GameInv_step g0 g a g' : GameInv g0 g -> wf_action a -> game_step K g a = Ok g' -> GameInv g0 g'.
Proof.
  intros (R & T & H & NE & W & Hd) Wa E. destruct (HistInv_step K g a g' H NE E) as [H' NE'].
  destruct (game_step_status K g a g' E) as (_ & T' & _).
  split; [exact (Rep_step g0 g a g' R T E)|]. split; [exact (T' T)|]. split; [exact H'|]. split; [exact NE'|]. split.
  - rewrite (step_moves g a g' E). destruct a; try exact W. apply Forall_app. split; [exact W|constructor; [exact Wa|constructor]].
  - rewrite (hd_step K g a g' NE E). exact Hd.
Qed.
Lemma GameInv_run g0 acts : forall g, GameInv g0 g -> Forall wf_action acts -> GameInv g0 (run K g acts).
Proof.
  induction acts as [|a r IH]; intros g G W; [exact G|]. inversion W as [|? ? Wa Wr]; subst. cbn [run].
  destruct (game_step K g a) as [g'| |] eqn:E; try now apply IH. apply IH; [exact (GameInv_step g0 g a g' G Wa E)|exact Wr].
Qed.
Lemma GameInv_init b0 g0 : game_from_board b0 = Ok g0 -> GameInv g0 g0.
Proof.
  intros E. destruct (game_from_board_spec b0 g0 E) as (T & P1 & P2 & P3 & _).
  split; [exact (Rep_init b0 g0 E)|]. split; [exact T|]. split; [exact (HistInv_init K b0 g0 E)|]. rewrite P2, P3, P1. split; [discriminate|]. split; [constructor|reflexivity].
Qed.
Lemma set_status_fields g s : TagInv g -> g_status g <> s ->
  let g' := set_game_status g s in same_core g' g /\ g_status g' = s /\ g_tag g' = tag_of_status s.
Proof.
  intros T N. unfold set_game_status. destruct (gstatus_eqb s (g_status g)) eqn:E; [apply gstatus_eqb_eq in E; congruence|]. cbn. repeat split.
Qed.
Theorem pgn_roundtrip b0 g0 acts : Good K b0 -> game_from_board b0 = Ok g0 -> Forall wf_action acts ->
  let g := run K g0 acts in
  exists g', from_pgn_tokens K g0 (san_list g) (result_of_tag (g_tag g)) = Ok g' /\ same_core g' g /\ g_tag g' = g_tag g /\
    (g_status g' = g_status g \/ (g_status g' = GOngoing /\ exists c, g_status g = GDrawOffered c)).
Proof.
  intros G0 E0 W g. destruct (GameInv_run g0 acts g0 (GameInv_init b0 g0 E0) W) as (R & T & [C _] & NE & Wm & Hd). fold g in R, T, C, NE, Wm, Hd.
  destruct R as (gm & Er & SC & Tm & Ag & Rel).
  destruct (game_from_board_spec b0 g0 E0) as (_ & P1 & _). rewrite <- P1 in G0.
  pose proof (tokens_replay (g_moves g) (g_positions g) (g_meta g) g0 gm C Hd G0 Wm Er) as TF.
  unfold from_pgn_tokens. change (fold_left _ (san_list g) (Ok g0)) with (token_fold g0 (san_list g)). unfold san_list. rewrite TF. cbn [bind].
  unfold TagInv in T, Tm.
  destruct Rel as [Rel|[Em Rel]].
  - (* the game ended (or stands) by the moves themselves *)
    assert (gm = g) by (apply game_eq; [exact SC|now symmetry|exact Tm|exact T]). subst gm.
    destruct (g_status g) eqn:Es; try discriminate Ag; try (exists g; split; [reflexivity|]; split; [repeat split|]; split; [reflexivity|now left]).
    rewrite T. cbn [tag_of_status result_of_tag]. exists g. split; [reflexivity|]. split; [repeat split|]. split; [now rewrite T|now left].
  - rewrite Em. destruct (g_status g) as [|c|c|c| | | | |] eqn:Es; try discriminate Rel; rewrite T; cbn [tag_of_status result_of_tag].
    + (* a pending draw offer *) exists gm. split; [reflexivity|]. split; [exact SC|]. split; [rewrite Tm, Em; reflexivity|]. right. split; [exact Em|eauto].
    + (* resignation *)
      assert (X : forall c0, exists g', unwrap (game_step K gm (Resign c0)) = Ok g' /\ same_core g' gm /\ g_status g' = GResigned c0 /\ g_tag g' = tag_of_status (GResigned c0)).
      { intros c0. unfold game_step. rewrite Em. cbn [bind]. unfold update_game_status. cbn [bind unwrap].
        destruct (set_status_fields gm (GResigned c0) Tm ltac:(rewrite Em; discriminate)) as (A1 & A2 & A3). eexists. split; [reflexivity|]. auto. }
      destruct c.
      * destruct (X White) as (g' & E' & S' & St & Tg). cbn [tag_of_status]. exists g'. split; [exact E'|].
        split; [destruct S' as (A1 & A2 & A3 & A4 & A5); destruct SC as (B1 & B2 & B3 & B4 & B5); repeat split; congruence|]. split; [exact Tg|left; exact St].
      * destruct (X Black) as (g' & E' & S' & St & Tg). cbn [tag_of_status]. exists g'. split; [exact E'|].
        split; [destruct S' as (A1 & A2 & A3 & A4 & A5); destruct SC as (B1 & B2 & B3 & B4 & B5); repeat split; congruence|]. split; [exact Tg|left; exact St].
    + (* draw by agreement: offer and accept *)
      destruct (set_status_fields gm (GDrawOffered White) Tm ltac:(rewrite Em; discriminate)) as (A1 & A2 & A3).
      set (g1 := set_game_status gm (GDrawOffered White)) in *.
      assert (T1 : TagInv g1) by (unfold TagInv; rewrite A2, A3; reflexivity).
      destruct (set_status_fields g1 GDrawAccepted T1 ltac:(rewrite A2; discriminate)) as (B1 & B2 & B3).
      exists (set_game_status g1 GDrawAccepted). split.
      * assert (E1 : game_step K gm (OfferDraw White) = Ok g1) by (unfold game_step; rewrite Em; reflexivity).
        assert (E2 : game_step K g1 AcceptDraw = Ok (set_game_status g1 GDrawAccepted)) by (unfold game_step; rewrite A2; reflexivity).
        rewrite E1. cbn [unwrap bind]. rewrite E2. reflexivity.
      * split; [destruct A1 as (X1 & X2 & X3 & X4 & X5); destruct B1 as (Y1 & Y2 & Y3 & Y4 & Y5); destruct SC as (Z1 & Z2 & Z3 & Z4 & Z5); repeat split; congruence|].
        split; [exact B3|left; exact B2].
Qed.
End P.
