(* proofs/Attack.v — list / bit infrastructure and the geometric sweeps behind the check and pin masks *)
Require Import LC.model.Prims LC.model.Tables LC.model.Board LC.spec.Chess LC.spec.Geometry
  LC.proofs.Basics LC.proofs.Bits LC.proofs.Cols LC.proofs.MaskInv LC.proofs.TablesGeo.
From Coq Require Import Lia.
Open Scope N_scope.

(* ---------- lists and masks ---------- *)
Lemma mem_true s l : mem s l = true <-> In s l.
Proof. unfold mem. rewrite existsb_exists. split; [intros [x [H E]]; apply N.eqb_eq in E; now subst|intros H; exists s; split; [exact H|apply N.eqb_refl]]. Qed.
Lemma has_of_list_acc l : forall acc x, has (fold_left (fun a s => N.lor a (bit s)) l acc) x = has acc x || mem x l.
Proof.
  induction l as [|s l IH]; intros acc x; cbn [fold_left mem existsb]; [now rewrite orb_false_r|].
  rewrite IH, has_lor, has_bit. unfold mem. rewrite (N.eqb_sym s x), orb_assoc. reflexivity.
Qed.
Lemma has_of_list l x : has (of_list l) x = mem x l.
Proof. unfold of_list. rewrite has_of_list_acc, has_0. reflexivity. Qed.
Lemma is_blank_spec m : is_blank m = true <-> forall x, has m x = false.
Proof.
  unfold is_blank. rewrite N.eqb_eq. split; [intros -> x; apply has_0|].
  intros H. apply N.bits_inj. intros x. rewrite N.bits_0. apply H.
Qed.
Lemma is_blank_land_of_list m l : is_blank (N.land m (of_list l)) = forallb (fun v => negb (has m v)) l.
Proof.
  destruct (forallb (fun v => negb (has m v)) l) eqn:E.
  - apply is_blank_spec. intros x. rewrite has_land, has_of_list. destruct (mem x l) eqn:M; [|apply andb_false_r].
    apply mem_true in M. rewrite forallb_forall in E. specialize (E x M). apply negb_true_iff in E. now rewrite E.
  - destruct (is_blank (N.land m (of_list l))) eqn:B; [|reflexivity]. exfalso.
    assert (forallb (fun v => negb (has m v)) l = true); [|congruence]. apply forallb_forall. intros x Hx.
    pose proof (proj1 (is_blank_spec _) B x) as Hb. rewrite has_land, has_of_list, (proj2 (mem_true x l) Hx), andb_true_r in Hb. now rewrite Hb.
Qed.
Lemma popc_pos_ge1 p : 1 <= popc_pos p.
Proof. induction p; cbn [popc_pos]; lia. Qed.
Lemma popcount_zero m : popcount m = 0 <-> m = 0.
Proof.
  destruct m as [|p]; [split; reflexivity|]. split; [|discriminate]. cbn [popcount]. pose proof (popc_pos_ge1 p). lia.
Qed.

(* take_until (walk to the first occupied square) in terms of the prefix before the target *)
Lemma take_until_In f k l : In k (take_until f l) ->
  exists pre, prefix_before k l = Some pre /\ forallb (fun v => negb (f v)) pre = true.
Proof.
  induction l as [|u r IH]; cbn [take_until prefix_before]; [intros []|].
  destruct (N.eqb_spec u k) as [->|Hne].
  - intros _. exists []. now split.
  - destruct (f u) eqn:Fu.
    + intros [E|[]]. congruence.
    + intros [E|H]; [congruence|].
      destruct (IH H) as [pre [Hp Hf]]. exists (u :: pre). rewrite Hp. split; [reflexivity|]. cbn. now rewrite Fu, Hf.
Qed.
Lemma prefix_take_until f k l pre : prefix_before k l = Some pre -> forallb (fun v => negb (f v)) pre = true ->
  In k (take_until f l).
Proof.
  revert pre; induction l as [|u r IH]; intros pre; cbn [take_until prefix_before]; [discriminate|].
  destruct (N.eqb_spec u k) as [->|Hne].
  - intros _ _. destruct (f k); now left.
  - destruct (prefix_before k r) as [pre'|] eqn:E; [|discriminate]. cbn [option_map]. intros [= <-]. cbn [forallb]. intros H.
    apply andb_prop in H as [H1 H2]. apply negb_true_iff in H1. rewrite H1. right. now apply (IH pre').
Qed.
Lemma mem_reach p a dirs k : mem k (flat_map (reach p a) dirs) = true <->
  exists d pre, In d dirs /\ prefix_before k (line a d) = Some pre /\ forallb (fun v => negb (occupied p v)) pre = true.
Proof.
  rewrite mem_true, in_flat_map. split.
  - intros (d & Hd & Hin). apply take_until_In in Hin. destruct Hin as (pre & H1 & H2). eauto.
  - intros (d & pre & Hd & H1 & H2). exists d. split; [exact Hd|]. eapply prefix_take_until; eauto.
Qed.

(* ---------- geometry sweeps over all pairs of squares ---------- *)
Definition defined_some {A} (o : option A) := match o with Some _ => true | None => false end.
Definition obb_is (o : option bb) (l : list square) := match o with Some m => m =? of_list l | None => false end.
Definition line_ok (dirs : list (Z * Z)) (T : list bb) (sq a : square) : bool :=
  Bool.eqb (has (look T sq) a) (existsb (fun d => defined_some (prefix_before sq (line a d))) dirs)
  && forallb (fun d => match prefix_before sq (line a d) with Some pre => obb_is (between sq a) pre | None => true end) dirs.
Lemma rook_lines_sweep : forallb (fun sq => forallb (fun a => line_ok rook_dirs ROOK_T sq a) squares) squares = true.
Proof. vm_compute. reflexivity. Qed.
Lemma bishop_lines_sweep : forallb (fun sq => forallb (fun a => line_ok bishop_dirs BISHOP_T sq a) squares) squares = true.
Proof. vm_compute. reflexivity. Qed.
Lemma knight_sweep : forallb (fun sq => forallb (fun a => Bool.eqb (has (look KNIGHT_T sq) a) (mem sq (steps a knight_offs))) squares) squares = true.
Proof. vm_compute. reflexivity. Qed.
Lemma king_sweep : forallb (fun sq => forallb (fun a => Bool.eqb (has (look KING_T sq) a) (mem sq (steps a king_offs))) squares) squares = true.
Proof. vm_compute. reflexivity. Qed.
(* squares from which a pawn of colour (opp c) attacks sq, as the board model computes them *)
Definition pawn_src (c : color) (sq : square) : bb :=
  match (match c with White => sq_up sq | Black => sq_down sq end) with
  | Ok u =>
      let r := rank u in
      let l := match sq_left sq with Ok x => bit (mk_sq r (file x)) | _ => 0 end in
      let rr := match sq_right sq with Ok x => bit (mk_sq r (file x)) | _ => 0 end in
      N.lor l rr
  | _ => 0 end.
Lemma pawn_sweep : forallb (fun c => forallb (fun sq => forallb (fun a =>
    Bool.eqb (has (pawn_src c sq) a) (mem sq (steps a [(fwd (opp c), 1%Z); (fwd (opp c), (-1)%Z)]))) squares) squares) all_colors = true.
Proof. vm_compute. reflexivity. Qed.
(* tables only hold squares of the board *)
Lemma tables_small_sweep : forallb (fun sq => (look ROOK_T sq <? 2 ^ 64) && (look BISHOP_T sq <? 2 ^ 64) && (look KNIGHT_T sq <? 2 ^ 64)
   && (look KING_T sq <? 2 ^ 64) && (pawn_src White sq <? 2 ^ 64) && (pawn_src Black sq <? 2 ^ 64)) squares = true.
Proof. vm_compute. reflexivity. Qed.

Lemma line_ok_rook sq a : sq < 64 -> a < 64 -> line_ok rook_dirs ROOK_T sq a = true.
Proof. intros H1 H2. exact (forallb_squares2 _ rook_lines_sweep sq a H1 H2). Qed.
Lemma line_ok_bishop sq a : sq < 64 -> a < 64 -> line_ok bishop_dirs BISHOP_T sq a = true.
Proof. intros H1 H2. exact (forallb_squares2 _ bishop_lines_sweep sq a H1 H2). Qed.
Lemma knight_rel sq a : sq < 64 -> a < 64 -> has (look KNIGHT_T sq) a = mem sq (steps a knight_offs).
Proof. intros H1 H2. apply eqb_prop. exact (forallb_squares2 _ knight_sweep sq a H1 H2). Qed.
Lemma king_rel sq a : sq < 64 -> a < 64 -> has (look KING_T sq) a = mem sq (steps a king_offs).
Proof. intros H1 H2. apply eqb_prop. exact (forallb_squares2 _ king_sweep sq a H1 H2). Qed.
Lemma pawn_rel c sq a : sq < 64 -> a < 64 -> has (pawn_src c sq) a = mem sq (steps a [(fwd (opp c), 1%Z); (fwd (opp c), (-1)%Z)]).
Proof.
  intros H1 H2. pose proof pawn_sweep as S. rewrite forallb_forall in S.
  assert (In c all_colors) as Hc by (destruct c; cbn; tauto). specialize (S c Hc). apply eqb_prop. exact (forallb_squares2 _ S sq a H1 H2).
Qed.
