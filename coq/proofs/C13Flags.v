(* proofs/C13Flags.v — the recorded history is a rule-level game: every recorded move is rule-legal, every recorded position
   is the rule-defined successor of its predecessor, and the recorded flags are the rule-level capture / check / mate *)
Require Import LC.model.Prims LC.model.Tables LC.model.Board LC.model.Text LC.model.San LC.model.Game LC.spec.Chess LC.spec.SanSpec
  LC.proofs.Basics LC.proofs.MoveInv LC.proofs.C05Proofs LC.proofs.C12Proofs LC.proofs.C11Proofs LC.proofs.C13Proofs
  LC.proofs.Reach LC.proofs.C14Proofs LC.proofs.C15Proofs.
Open Scope N_scope.
Section F.
Variable K : zkeys.
Fixpoint RuleChain (ps : list board) (ms : list bmove) (mps : list mprops) : Prop :=
  match ps, ms, mps with
  | [_], [], [] => True
  | p :: ((q :: _) as r), m :: ms', mp :: mps' =>
      legal (abs p) m = true /\ abs q = apply (abs p) m /\ mp = spec_props (abs p) m /\ Good K q /\ RuleChain r ms' mps'
  | _, _, _ => False end.
Lemma chain_rule ps : forall ms mps, Chain K ps ms mps -> (forall p, hd_error ps = Some p -> Good K p) -> Forall wf_bmove ms -> RuleChain ps ms mps.
Proof.
  induction ps as [|p ps IH]; intros ms mps C G W; [destruct C|].
  destruct ps as [|q r]; destruct ms as [|m ms], mps as [|mp mps]; cbn [Chain] in C; try contradiction; [exact I|].
  destruct C as (Em & Ep & C). inversion W as [|? ? Wm Wms]; subst. pose proof (G p eq_refl) as Gp.
  destruct (good_step K p m q Gp Wm Em) as (L & A & Gq). destruct (move_props_spec K p Gp m Wm) as [A1 _]. rewrite (A1 L) in Ep. injection Ep as <-.
  cbn [RuleChain]. split; [exact L|]. split; [exact A|]. split; [reflexivity|]. split; [exact Gq|].
  apply (IH ms mps C); [|exact Wms]. intros p' Hp'. cbn in Hp'. injection Hp' as <-. exact Gq.
Qed.
Theorem history_is_rule_game b0 g0 acts : Good K b0 -> game_from_board b0 = Ok g0 -> Forall wf_action acts ->
  let g := run K g0 acts in RuleChain (g_positions g) (g_moves g) (g_meta g).
Proof.
  intros G0 E0 W g. destruct (GameInv_run K g0 acts g0 (GameInv_init K b0 g0 E0) W) as (_ & _ & [C _] & _ & Wm & Hd). fold g in C, Wm, Hd.
  destruct (game_from_board_spec b0 g0 E0) as (_ & P1 & _).
  apply (chain_rule _ _ _ C); [|exact Wm]. intros p Hp. rewrite Hd in Hp. injection Hp as <-. now rewrite P1.
Qed.
End F.
