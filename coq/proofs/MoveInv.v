(* proofs/MoveInv.v — every way of building or changing a board keeps the mask invariant and
   the hash invariant: construction from a builder, and move application (checked or not). *)
Require Import LC.model.Prims LC.model.Tables LC.model.Board LC.proofs.Basics LC.proofs.Bits LC.proofs.Cols
  LC.proofs.MaskInv LC.proofs.HashInv.
From Coq Require Import Lia.
Open Scope N_scope.

(* coordinates *)
Lemma mk_sq_sweep : forallb (fun r => forallb (fun f => (mk_sq r f =? 8 * r + f)) idx8) idx8 = true.
Proof. vm_compute. reflexivity. Qed.
Lemma In_idx8' n : n < 8 -> In n idx8.
Proof. intros H. assert (n = 0 \/ n = 1 \/ n = 2 \/ n = 3 \/ n = 4 \/ n = 5 \/ n = 6 \/ n = 7) as X by lia. cbn. intuition. Qed.
Lemma mk_sq_val r f : r < 8 -> f < 8 -> mk_sq r f = 8 * r + f.
Proof.
  intros Hr Hf. pose proof mk_sq_sweep as S. rewrite forallb_forall in S. specialize (S r (In_idx8' r Hr)).
  rewrite forallb_forall in S. apply N.eqb_eq, S, In_idx8', Hf.
Qed.
Lemma mk_sq_lt r f : r < 8 -> f < 8 -> mk_sq r f < 64.
Proof. intros Hr Hf. rewrite mk_sq_val by assumption. lia. Qed.
Lemma rank_file_sweep : forallb (fun s => (rank s =? s / 8) && (file s =? s mod 8)) squares = true.
Proof. vm_compute. reflexivity. Qed.
Lemma rank_val s : s < 64 -> rank s = s / 8.
Proof. intros H. pose proof (forallb_squares _ rank_file_sweep s H) as S. apply andb_prop in S. now apply N.eqb_eq. Qed.
Lemma file_val s : s < 64 -> file s = s mod 8.
Proof. intros H. pose proof (forallb_squares _ rank_file_sweep s H) as S. apply andb_prop in S. now apply N.eqb_eq. Qed.
Lemma rank_lt s : s < 64 -> rank s < 8.
Proof. intros H. rewrite rank_val by assumption. apply N.div_lt_upper_bound; lia. Qed.
Lemma file_lt s : s < 64 -> file s < 8.
Proof. intros H. rewrite file_val by assumption. apply N.mod_lt. lia. Qed.
Lemma idx_up_lt i j : idx_up i = Ok j -> j < 8.
Proof. unfold idx_up, idx8_of. destruct (N.ltb_spec (i + 1) 8); [intros [= <-]; assumption|discriminate]. Qed.
Lemma idx_down_lt i j : i < 8 -> idx_down i = Ok j -> j < 8.
Proof. unfold idx_down, idx8_of. intros Hi. destruct (i =? 0); [discriminate|]. destruct (N.ltb_spec (i - 1) 8); [intros [= <-]; assumption|discriminate]. Qed.
Lemma sq_up_lt s t : s < 64 -> sq_up s = Ok t -> t < 64.
Proof. unfold sq_up. intros Hs H. apply bind_ok in H. destruct H as (r & Hr & [= <-]). apply mk_sq_lt; [eapply idx_up_lt; eauto|now apply file_lt]. Qed.
Lemma sq_down_lt s t : s < 64 -> sq_down s = Ok t -> t < 64.
Proof. unfold sq_down. intros Hs H. apply bind_ok in H. destruct H as (r & Hr & [= <-]). apply mk_sq_lt; [eapply idx_down_lt; eauto; now apply rank_lt|now apply file_lt]. Qed.

(* boards that differ only outside the masks *)
Lemma MaskInv_ext b b' : (forall x, col_of b' x = col_of b x) -> MaskInv b -> MaskInv b'.
Proof.
  intros H I. split.
  - intros x. rewrite H. apply I.
  - intros x Hx. change (has (m_all b') x) with (ka (col_of b' x)). rewrite H. apply (mi_small b I x Hx).
Qed.

Section Moves.
Variable K : zkeys.
Definition Inv (b : board) : Prop := MaskInv b /\ HashInv K b.

Lemma HashInv_ext b b' : (forall x, col_of b' x = col_of b x) -> b_hash b' = b_hash b -> b_stm b' = b_stm b ->
  b_wr b' = b_wr b -> b_br b' = b_br b -> b_ep b' = b_ep b -> HashInv K b -> HashInv K b'.
Proof.
  intros H Hh H1 H2 H3 H4 HI. unfold HashInv. rewrite (feature_hash_meta K b b' H), Hh, H1, H2, H3, H4.
  rewrite <- feature_hash_unfold. exact HI.
Qed.
Lemma Inv_ext b b' : (forall x, col_of b' x = col_of b x) -> b_hash b' = b_hash b -> b_stm b' = b_stm b ->
  b_wr b' = b_wr b -> b_br b' = b_br b -> b_ep b' = b_ep b -> Inv b -> Inv b'.
Proof. intros H Hh H1 H2 H3 H4 [I HI]. split; [eapply MaskInv_ext; eauto|eapply HashInv_ext; eauto]. Qed.

Lemma Inv_clear b s b' : Inv b -> s < 64 -> clear_square K b s = Ok b' -> Inv b'.
Proof. intros [I H] Hs E. split; [eapply clear_square_inv; eauto|eapply clear_square_hash; eauto]. Qed.
Lemma Inv_put b pc s b' : Inv b -> s < 64 -> put_piece K b pc s = Ok b' -> Inv b'.
Proof. intros [I H] Hs E. split; [eapply put_piece_inv; eauto|eapply put_piece_hash; eauto]. Qed.
Lemma Inv_set_side b c : Inv b -> Inv (set_side_to_move K b c).
Proof.
  intros [I H]. split; [|now apply set_side_hash]. eapply MaskInv_ext; [|exact I].
  intros x. unfold set_side_to_move. now destruct (color_eqb c (b_stm b)).
Qed.
Lemma Inv_set_castling b c r : Inv b -> Inv (set_castling_rights K b c r).
Proof.
  intros [I H]. split; [|now apply set_castling_hash]. eapply MaskInv_ext; [|exact I].
  intros x. unfold set_castling_rights. now destruct (cr_eqb (rights_of b c) r).
Qed.
Lemma Inv_set_ep b e : Inv b -> Inv (set_en_passant K b e).
Proof. intros [I H]. split; [|now apply set_en_passant_hash]. eapply MaskInv_ext; [|exact I]. reflexivity. Qed.
Lemma Inv_with_clocks b h f : Inv b -> Inv (with_clocks b h f).
Proof. apply Inv_ext; reflexivity. Qed.
Lemma Inv_with_pc b p c : Inv b -> Inv (with_pc b p c).
Proof. apply Inv_ext; reflexivity. Qed.
Lemma Inv_with_term b t : Inv b -> Inv (with_term b t).
Proof. apply Inv_ext; reflexivity. Qed.

Lemma Inv_move_piece b m b' : Inv b -> pm_from m < 64 -> pm_to m < 64 -> move_piece K b m = Ok b' -> Inv b'.
Proof.
  intros HI Hs Hd E. unfold move_piece in E. apply bind_ok in E. destruct E as (c & _ & E).
  apply bind_ok in E. destruct E as (b1 & E1 & E2).
  eapply Inv_put; [exact (Inv_clear b (pm_from m) b1 HI Hs E1)|exact Hd|exact E2].
Qed.
Lemma Inv_clear_ep b m b' : Inv b -> pm_to m < 64 -> clear_square_if_en_passant K b m = Ok b' -> Inv b'.
Proof.
  intros HI Hd E. unfold clear_square_if_en_passant in E. destruct (is_en_passant_move m b); [|now injection E as <-].
  apply bind_ok in E. destruct E as (v & Ev & E). eapply Inv_clear; [exact HI| |exact E].
  destruct (b_stm b); [destruct (sq_down (pm_to m)) eqn:Q|destruct (sq_up (pm_to m)) eqn:Q]; cbn in Ev; try discriminate; injection Ev as <-.
  - eapply sq_down_lt; eauto. - eapply sq_up_lt; eauto.
Qed.
Lemma Inv_update_pins b b' : Inv b -> update_pins_and_checks b = Ok b' -> Inv b'.
Proof.
  intros HI E. unfold update_pins_and_checks in E. apply bind_ok in E. destruct E as (k & _ & E).
  apply bind_ok in E. destruct E as ([p c] & _ & [= <-]). now apply Inv_with_pc.
Qed.
Lemma Inv_update_terminal b b' : Inv b -> update_terminal_status K b = Ok b' -> Inv b'.
Proof.
  intros HI E. unfold update_terminal_status in E. apply bind_ok in E. destruct E as (f & _ & [= <-]). now apply Inv_with_term.
Qed.
Lemma Inv_update_castling b mv : Inv b -> Inv (update_castling_rights K b mv).
Proof.
  intros HI. unfold update_castling_rights.
  set (b1 := match mv with MovePiece m => if negb (cr_eqb (rights_of b (opp (b_stm b))) Neither) then _ else b | _ => b end).
  assert (Inv b1) as H1. { subst b1. destruct mv; try exact HI. destruct (negb _); [now apply Inv_set_castling|exact HI]. }
  destruct (negb (cr_eqb (rights_of b1 (b_stm b)) Neither)); [now apply Inv_set_castling|exact H1].
Qed.
Lemma Inv_update_ep b mv : Inv b -> Inv (update_en_passant K b mv).
Proof. intros HI. unfold update_en_passant. destruct mv; try now apply Inv_set_ep. destruct (_ && _); now apply Inv_set_ep. Qed.

Lemma Inv_update_move_number b : Inv b -> Inv (update_move_number b).
Proof. intros HI. unfold update_move_number. destruct (b_stm b); [exact HI|now apply Inv_with_clocks]. Qed.
Lemma Inv_update_moves_since b mv cap : Inv b -> Inv (update_moves_since_capture b mv cap).
Proof. intros HI. unfold update_moves_since_capture. destruct mv as [m| |]; [destruct (_ || _)| |]; now apply Inv_with_clocks. Qed.
Definition wf_bmove (mv : bmove) : Prop := match mv with MovePiece m => pm_from m < 64 /\ pm_to m < 64 | _ => True end.
Lemma back_rank_lt c : back_rank c < 8. Proof. destruct c; cbn; lia. Qed.

Theorem Inv_make_move_unchecked b mv b' : Inv b -> wf_bmove mv -> make_move_unchecked K b mv = Ok b' -> Inv b'.
Proof.
  intros HI W E. unfold make_move_unchecked in E. apply bind_ok in E. destruct E as (b1 & E1 & E).
  assert (Inv b1) as H1.
  { destruct mv as [m| |].
    - destruct W as [Ws Wd]. apply bind_ok in E1. destruct E1 as (x & Ex & E1).
      eapply Inv_clear_ep; [eapply Inv_move_piece; eauto|exact Wd|exact E1].
    - apply bind_ok in E1. destruct E1 as (x & Ex & E1).
      pose proof (back_rank_lt (b_stm b)) as R.
      eapply Inv_move_piece; [eapply Inv_move_piece; [exact HI| | |exact Ex]| | |exact E1]; cbn [pm_from pm_to mk_pm]; apply mk_sq_lt; (exact R || lia).
    - apply bind_ok in E1. destruct E1 as (x & Ex & E1).
      pose proof (back_rank_lt (b_stm b)) as R.
      eapply Inv_move_piece; [eapply Inv_move_piece; [exact HI| | |exact Ex]| | |exact E1]; cbn [pm_from pm_to mk_pm]; apply mk_sq_lt; (exact R || lia). }
  apply bind_ok in E. destruct E as (b7 & E7 & E).
  eapply Inv_update_terminal; [|exact E]. eapply Inv_update_pins; [|exact E7].
  apply Inv_update_ep, Inv_set_side, Inv_update_castling, Inv_update_moves_since, Inv_update_move_number. exact H1.
Qed.
Theorem Inv_make_move b mv b' : Inv b -> wf_bmove mv -> make_move K b mv = Ok b' -> Inv b'.
Proof.
  intros HI W E. unfold make_move in E. apply bind_ok in E. destruct E as (ok & _ & E).
  destruct ok; [|discriminate]. eapply Inv_make_move_unchecked; eauto.
Qed.

(* every finite sequence of successfully applied moves *)
Fixpoint play (b : board) (ms : list bmove) : res board :=
  match ms with [] => Ok b | m :: r => b1 <- make_move K b m ;; play b1 r end.
Theorem Inv_play ms : forall b b', Inv b -> Forall wf_bmove ms -> play b ms = Ok b' -> Inv b'.
Proof.
  induction ms as [|m r IH]; intros b b' HI W E; [now injection E as <-|].
  inversion W as [|? ? Wm Wr]; subst. cbn [play] in E. apply bind_ok in E. destruct E as (b1 & E1 & E).
  eapply IH; [eapply Inv_make_move; eauto|exact Wr|exact E].
Qed.

(* construction *)
Lemma MaskInv_new : MaskInv new_board.
Proof. split; intros x; [|intros _]; cbn; rewrite ?has_0; reflexivity. Qed.
Lemma MaskInv_fold_put pcs : forall l, (forall s, In s l -> s < 64) -> forall bi b0, MaskInv bi ->
  fold_left (fun acc s => b1 <- acc ;; match nth (N.to_nat s) pcs None with Some pc => put_piece K b1 pc s | None => Ok b1 end) l (Ok bi) = Ok b0 ->
  MaskInv b0.
Proof.
  induction l as [|s l IH]; intros Hl bi b0 Ii El; [now injection El as <-|].
  cbn [fold_left bind] in El. destruct (nth (N.to_nat s) pcs None) as [pc|].
  - destruct (put_piece_spec K bi pc s Ii (Hl s (or_introl eq_refl))) as (b2 & E2 & C2 & _). rewrite E2 in El.
    eapply IH; [intros y Hy; apply Hl; now right| |exact El]. eapply put_piece_inv; eauto. apply Hl. now left.
  - eapply IH; [intros y Hy; apply Hl; now right|exact Ii|exact El].
Qed.
Lemma MaskInv_set_side b c : MaskInv b -> MaskInv (set_side_to_move K b c).
Proof. apply MaskInv_ext. intros x. unfold set_side_to_move. now destruct (color_eqb c (b_stm b)). Qed.
Lemma MaskInv_set_castling b c r : MaskInv b -> MaskInv (set_castling_rights K b c r).
Proof. apply MaskInv_ext. intros x. unfold set_castling_rights. now destruct (cr_eqb (rights_of b c) r). Qed.
Lemma MaskInv_set_ep b e : MaskInv b -> MaskInv (set_en_passant K b e).
Proof. apply MaskInv_ext. reflexivity. Qed.
Lemma MaskInv_with_clocks b h f : MaskInv b -> MaskInv (with_clocks b h f).
Proof. apply MaskInv_ext. reflexivity. Qed.
Lemma MaskInv_update_pins b b' : MaskInv b -> update_pins_and_checks b = Ok b' -> MaskInv b'.
Proof.
  intros I E. unfold update_pins_and_checks in E. apply bind_ok in E. destruct E as (k & _ & E).
  apply bind_ok in E. destruct E as ([p c] & _ & [= <-]). revert I. apply MaskInv_ext. reflexivity.
Qed.
Lemma MaskInv_update_terminal b b' : MaskInv b -> update_terminal_status K b = Ok b' -> MaskInv b'.
Proof.
  intros I E. unfold update_terminal_status in E. apply bind_ok in E. destruct E as (f & _ & [= <-]).
  revert I. apply MaskInv_ext. reflexivity.
Qed.
Lemma HashInv_with_hash b h : h = feature_hash K b -> HashInv K (with_hash b h).
Proof.
  intros E. unfold HashInv. rewrite (feature_hash_meta K b) by reflexivity.
  change (h = feature_hash_of K (cell_at b) (b_stm b) (b_wr b) (b_br b) (b_ep b)).
  rewrite E. apply feature_hash_unfold.
Qed.
Lemma HashInv_with_calc b h : MaskInv b -> calc_hash K b = Ok h -> HashInv K (with_hash b h).
Proof.
  intros I E. apply HashInv_with_hash. pose proof (calc_hash_spec K b I) as S. congruence.
Qed.
Theorem Inv_try_from_builder bd b : try_from_builder K bd = Ok b -> Inv b.
Proof.
  intros E. unfold try_from_builder in E. apply bind_ok in E. destruct E as (b0 & E0 & E).
  assert (I0 : MaskInv b0).
  { eapply MaskInv_fold_put; [|exact MaskInv_new|exact E0]. intros s. apply In_squares. }
  destruct (negb (popcount (N.land (m_king b0) (m_white b0)) =? 1)); [discriminate|].
  destruct (negb (popcount (N.land (m_king b0) (m_black b0)) =? 1)); [discriminate|].
  apply bind_ok in E. destruct E as (b6 & E6 & E). apply bind_ok in E. destruct E as (h & Eh & E).
  apply bind_ok in E. destruct E as (v & _ & E). destruct v; [discriminate|].
  assert (I6 : MaskInv b6).
  { eapply MaskInv_update_pins; [|exact E6].
    apply MaskInv_with_clocks, MaskInv_set_castling, MaskInv_set_castling, MaskInv_set_ep, MaskInv_set_side, I0. }
  eapply Inv_update_terminal; [|exact E]. split.
  - revert I6. apply MaskInv_ext. reflexivity.
  - now apply HashInv_with_calc.
Qed.
End Moves.
