(* proofs/MaskInv.v — the representation invariant on the nine occupancy masks, what the
   per-square queries return under it, and how clear_square / put_piece act on columns. *)
Require Import LC.model.Prims LC.model.Tables LC.model.Board LC.proofs.Basics LC.proofs.Bits LC.proofs.Cols.
From Coq Require Import Lia.
Open Scope N_scope.

Record MaskInv (b : board) : Prop := {
  mi_wf : forall x, wf_col (col_of b x) = true;
  mi_small : forall x, 64 <= x -> has (m_all b) x = false }.

Definition cell_at (b : board) (x : square) : option piece := cell (col_of b x).
Definition abs_pl (b : board) : list (option piece) := map (cell_at b) squares.

Lemma mi_zero b x : MaskInv b -> 64 <= x -> col_of b x = zero_col.
Proof.
  intros I H. apply wf_cell_none; [apply I|]. unfold cell. change (ka (col_of b x)) with (has (m_all b) x).
  now rewrite (mi_small b I x H).
Qed.
Lemma mi_tmask_small b t x : MaskInv b -> has (tmask b t) x = true -> x < 64.
Proof.
  intros I H. destruct (N.lt_ge_cases x 64) as [|Hge]; [assumption|]. exfalso.
  pose proof (mi_zero b x I Hge) as Z. assert (ctype (col_of b x) t = true) as C by (destruct t; exact H).
  rewrite Z in C. destruct t; discriminate.
Qed.
Lemma mi_cmask_small b c x : MaskInv b -> has (cmask b c) x = true -> x < 64.
Proof.
  intros I H. destruct (N.lt_ge_cases x 64) as [|Hge]; [assumption|]. exfalso.
  pose proof (mi_zero b x I Hge) as Z. assert (ccolor (col_of b x) c = true) as C by (destruct c; exact H).
  rewrite Z in C. destruct c; discriminate.
Qed.
Lemma mi_all_small b x : MaskInv b -> has (m_all b) x = true -> x < 64.
Proof. intros I H. destruct (N.lt_ge_cases x 64) as [|Hge]; [assumption|]. rewrite (mi_small b I x Hge) in H. discriminate. Qed.

(* ---------- the per-square queries as functions of the column ---------- *)
Definition piece_type_on_col (c : col) : res (option ptype) :=
  if negb (ka c) then Ok None else
  let sum := 0 + 1 * b2n (kn c) + 2 * b2n (kb c) + 3 * b2n (kr c) + 4 * b2n (kq c) + 5 * b2n (kk c) in
  t <- unwrap (ptype_of_index sum) ;; Ok (Some t).
Lemma is_empty_square_col b s : is_empty_square b s = negb (ka (col_of b s)).
Proof. unfold is_empty_square. apply is_blank_land_bit. Qed.
Lemma piece_type_on_eq b s : piece_type_on b s = piece_type_on_col (col_of b s).
Proof.
  unfold piece_type_on, piece_type_on_col. rewrite is_empty_square_col.
  cbn [fold_left tmask ptype_index]. rewrite !is_blank_land_bit, !negb_involutive. reflexivity.
Qed.
Lemma piece_type_on_wf c : wf_col c = true -> piece_type_on_col c = Ok (option_map fst (cell c)).
Proof. destruct c as [[] [] [] [] [] [] [] [] []]; cbn; try discriminate; reflexivity. Qed.
Definition piece_color_on_col (c : col) : option color :=
  if negb (ka c) then None else if negb (kw c) then Some Black else Some White.
Lemma piece_color_on_eq b s : piece_color_on b s = piece_color_on_col (col_of b s).
Proof. unfold piece_color_on, piece_color_on_col. rewrite is_empty_square_col, is_blank_land_bit. reflexivity. Qed.
Lemma piece_color_on_wf c : wf_col c = true -> piece_color_on_col c = option_map snd (cell c).
Proof. destruct c as [[] [] [] [] [] [] [] [] []]; cbn; try discriminate; reflexivity. Qed.
Definition piece_on_col (c : col) : res (option piece) :=
  ot <- piece_type_on_col c ;;
  match ot with None => Ok None | Some t => Ok (Some (t, if negb (kw c) then Black else White)) end.
Lemma piece_on_eq b s : piece_on b s = piece_on_col (col_of b s).
Proof. unfold piece_on, piece_on_col. rewrite piece_type_on_eq, is_blank_land_bit. reflexivity. Qed.
Lemma piece_on_col_wf c : wf_col c = true -> piece_on_col c = Ok (cell c).
Proof. destruct c as [[] [] [] [] [] [] [] [] []]; cbn; try discriminate; reflexivity. Qed.

Lemma piece_on_inv b s : MaskInv b -> piece_on b s = Ok (cell_at b s).
Proof. intros I. rewrite piece_on_eq. apply piece_on_col_wf, I. Qed.
Lemma piece_type_on_inv b s : MaskInv b -> piece_type_on b s = Ok (option_map fst (cell_at b s)).
Proof. intros I. rewrite piece_type_on_eq. apply piece_type_on_wf, I. Qed.
Lemma piece_color_on_inv b s : MaskInv b -> piece_color_on b s = option_map snd (cell_at b s).
Proof. intros I. rewrite piece_color_on_eq. apply piece_color_on_wf, I. Qed.
Lemma is_empty_square_inv b s : MaskInv b -> is_empty_square b s = match cell_at b s with Some _ => false | None => true end.
Proof. intros I. rewrite is_empty_square_col, (wf_ka _ (mi_wf b I s)). unfold cell_at. now destruct (cell (col_of b s)). Qed.

(* masks read through cells *)
Lemma has_tmask_cell b t x : MaskInv b -> has (tmask b t) x = match cell_at b x with Some (t', _) => ptype_eqb t' t | None => false end.
Proof. intros I. unfold cell_at. rewrite <- (wf_ctype _ t (mi_wf b I x)). now destruct t. Qed.
Lemma has_cmask_cell b c x : MaskInv b -> has (cmask b c) x = match cell_at b x with Some (_, c') => color_eqb c' c | None => false end.
Proof. intros I. unfold cell_at. rewrite <- (wf_ccolor _ c (mi_wf b I x)). now destruct c. Qed.
Lemma has_all_cell b x : MaskInv b -> has (m_all b) x = match cell_at b x with Some _ => true | None => false end.
Proof. intros I. exact (wf_ka _ (mi_wf b I x)). Qed.

(* ---------- updating the masks of one piece kind at one square ---------- *)
Definition upd (b : board) (t : ptype) (c : color) (f : bb -> bb) : board := with_c (with_t (with_all b f) t f) c f.
Definition upd_col (k : col) (t : ptype) (c : color) (g : bool -> bool) : col :=
  {| kp := (if ptype_eqb t Pawn then g else id) (kp k); kn := (if ptype_eqb t Knight then g else id) (kn k);
     kb := (if ptype_eqb t Bishop then g else id) (kb k); kr := (if ptype_eqb t Rook then g else id) (kr k);
     kq := (if ptype_eqb t Queen then g else id) (kq k); kk := (if ptype_eqb t King then g else id) (kk k);
     kw := (if color_eqb c White then g else id) (kw k); kbl := (if color_eqb c Black then g else id) (kbl k); ka := g (ka k) |}.
Lemma col_upd b t c f x (g : bool -> bool) : (forall m, has (f m) x = g (has m x)) ->
  col_of (upd b t c f) x = upd_col (col_of b x) t c g.
Proof. intros H. destruct t, c; unfold upd, col_of, upd_col; cbn; rewrite ?H; reflexivity. Qed.
Lemma upd_stm b t c f : b_stm (upd b t c f) = b_stm b. Proof. reflexivity. Qed.
Lemma upd_wr b t c f : b_wr (upd b t c f) = b_wr b. Proof. reflexivity. Qed.
Lemma upd_br b t c f : b_br (upd b t c f) = b_br b. Proof. reflexivity. Qed.
Lemma upd_ep b t c f : b_ep (upd b t c f) = b_ep b. Proof. reflexivity. Qed.
Lemma upd_hash b t c f : b_hash (upd b t c f) = b_hash b. Proof. reflexivity. Qed.

(* column-level effect of clearing / toggling *)
Lemma upd_col_clear_at pc : upd_col (piece_col pc) (fst pc) (snd pc) (fun _ => false) = zero_col.
Proof. destruct pc as [[] []]; reflexivity. Qed.
Lemma upd_col_id k t c : upd_col k t c (fun v => v) = k.
Proof. destruct k, t, c; reflexivity. Qed.
Lemma upd_col_ext k t c g : (forall v, g v = v) -> upd_col k t c g = k.
Proof. intros H. destruct k, t, c; unfold upd_col; cbn; rewrite ?H; reflexivity. Qed.
Lemma upd_col_set_at pc : upd_col zero_col (fst pc) (snd pc) (fun v => xorb true v) = piece_col pc.
Proof. destruct pc as [[] []]; reflexivity. Qed.

(* ---------- clear_square and put_piece ---------- *)
Definition same_meta (b b' : board) : Prop :=
  b_stm b' = b_stm b /\ b_wr b' = b_wr b /\ b_br b' = b_br b /\ b_ep b' = b_ep b /\ b_pinned b' = b_pinned b /\
  b_checks b' = b_checks b /\ b_term b' = b_term b /\ b_half b' = b_half b /\ b_full b' = b_full b.
Lemma same_meta_refl b : same_meta b b. Proof. repeat split. Qed.
Lemma same_meta_trans a b c : same_meta a b -> same_meta b c -> same_meta a c.
Proof. unfold same_meta. intuition congruence. Qed.

Lemma MaskInv_of_cols b b' s C : MaskInv b -> s < 64 -> wf_col C = true ->
  (forall x, col_of b' x = if s =? x then C else col_of b x) -> MaskInv b'.
Proof.
  intros I Hs HC H. split.
  - intros x. rewrite H. destruct (s =? x); [exact HC|apply I].
  - intros x Hx. change (has (m_all b') x) with (ka (col_of b' x)). rewrite H.
    destruct (N.eqb_spec s x) as [->|]; [lia|]. apply (mi_small b I x Hx).
Qed.
Lemma upd_col_false_zero t c : upd_col zero_col t c (fun _ => false) = zero_col.
Proof. destruct t, c; reflexivity. Qed.

Section Prim.
Variable K : zkeys.

Lemma clear_square_spec b s : MaskInv b -> s < 64 ->
  exists b', clear_square K b s = Ok b' /\
    (forall x, col_of b' x = if s =? x then zero_col else col_of b x) /\ same_meta b b' /\
    b_hash b' = match cell_at b s with Some (t, c) => N.lxor (b_hash b) (zk_piece K c t s) | None => b_hash b end.
Proof.
  intros I Hs. unfold clear_square. rewrite (piece_on_inv b s I). cbn [bind].
  destruct (cell_at b s) as [[t c]|] eqn:E.
  - eexists. split; [reflexivity|]. split; [|split; [repeat split|reflexivity]].
    intros x. change (col_of (with_hash ?b0 _) x) with (col_of b0 x).
    fold (upd b t c (N.land (bnot (bit s)))).
    rewrite (col_upd b t c _ x (fun v => xorb (s =? x) (x <? 64) && v)).
    2:{ intros m. now rewrite has_land, has_bnot, has_bit. }
    destruct (N.eqb_spec s x) as [<-|Hne].
    + assert (s <? 64 = true) as -> by now apply N.ltb_lt. cbn [xorb andb].
      rewrite (wf_cell_inv _ _ (mi_wf b I s) E). apply (upd_col_clear_at (t, c)).
    + destruct (N.ltb_spec x 64) as [Hx|Hx]; cbn [xorb andb].
      * apply upd_col_id.
      * rewrite (mi_zero b x I Hx). apply upd_col_false_zero.
  - exists b. split; [reflexivity|]. split; [|split; [apply same_meta_refl|reflexivity]].
    intros x. destruct (N.eqb_spec s x) as [<-|]; [|reflexivity]. apply wf_cell_none; [apply I|exact E].
Qed.

Lemma put_piece_spec b pc s : MaskInv b -> s < 64 ->
  exists b', put_piece K b pc s = Ok b' /\
    (forall x, col_of b' x = if s =? x then piece_col pc else col_of b x) /\ same_meta b b' /\
    b_hash b' = N.lxor (match cell_at b s with Some (t, c) => N.lxor (b_hash b) (zk_piece K c t s) | None => b_hash b end)
                       (zk_piece K (snd pc) (fst pc) s).
Proof.
  intros I Hs. unfold put_piece.
  destruct (clear_square_spec b s I Hs) as (b1 & E1 & C1 & M1 & H1).
  assert (exists b1', (if negb (is_empty_square b s) then clear_square K b s else Ok b) = Ok b1' /\
            (forall x, col_of b1' x = if s =? x then zero_col else col_of b x) /\ same_meta b b1' /\
            b_hash b1' = match cell_at b s with Some (t, c) => N.lxor (b_hash b) (zk_piece K c t s) | None => b_hash b end) as (b1' & E & C & M & H).
  { rewrite (is_empty_square_inv b s I). destruct (cell_at b s) as [[t c]|] eqn:Ec; cbn [negb].
    - exists b1. auto.
    - exists b. split; [reflexivity|]. split; [|split; [apply same_meta_refl|reflexivity]].
      intros x. destruct (N.eqb_spec s x) as [<-|]; [|reflexivity]. apply wf_cell_none; [apply I|exact Ec]. }
  rewrite E. cbn [bind]. eexists. split; [reflexivity|]. split; [|split].
  - intros x. change (col_of (with_hash ?b0 _) x) with (col_of b0 x).
    fold (upd b1' (fst pc) (snd pc) (N.lxor (bit s))).
    rewrite (col_upd b1' (fst pc) (snd pc) _ x (fun v => xorb (s =? x) v)).
    2:{ intros m. apply has_toggle. }
    rewrite C. destruct (s =? x).
    + apply upd_col_set_at.
    + apply upd_col_ext. intros []; reflexivity.
  - destruct M as (?&?&?&?&?&?&?&?&?). repeat split; assumption.
  - cbn. rewrite H. reflexivity.
Qed.

Lemma clear_square_inv b s b' : MaskInv b -> s < 64 -> clear_square K b s = Ok b' -> MaskInv b'.
Proof.
  intros I Hs E. destruct (clear_square_spec b s I Hs) as (b1 & E1 & C1 & _). rewrite E in E1. injection E1 as <-.
  eapply MaskInv_of_cols; eauto. apply wf_zero.
Qed.
Lemma put_piece_inv b pc s b' : MaskInv b -> s < 64 -> put_piece K b pc s = Ok b' -> MaskInv b'.
Proof.
  intros I Hs E. destruct (put_piece_spec b pc s I Hs) as (b1 & E1 & C1 & _). rewrite E in E1. injection E1 as <-.
  eapply MaskInv_of_cols; eauto. apply wf_piece.
Qed.
End Prim.

(* cells after an update of one column *)
Lemma cell_at_cols b b' s C : (forall x, col_of b' x = if s =? x then C else col_of b x) ->
  forall x, cell_at b' x = if s =? x then cell C else cell_at b x.
Proof. intros H x. unfold cell_at. rewrite H. now destruct (s =? x). Qed.
