(* proofs/C20Proofs.v — text renderings *)
Require Import LC.model.Prims LC.model.Tables LC.model.Board LC.model.Text LC.model.Render LC.model.Game LC.spec.TextSpec
  LC.proofs.Basics LC.proofs.Bits LC.proofs.Cols LC.proofs.MaskInv.
From Coq Require Import Lia String.
Open Scope N_scope.

(* ---- bitboard grid ---- *)
Lemma bit_nonzero i : bit i <> 0.
Proof. unfold bit. rewrite N.shiftl_1_l. apply N.pow_nonzero. lia. Qed.
Lemma land_bit_test x i : (N.land x (bit i) =? bit i) = N.testbit x i.
Proof.
  destruct (N.testbit x i) eqn:E.
  - apply N.eqb_eq. apply N.bits_inj. intros j. rewrite N.land_spec. fold (has (bit i) j). rewrite has_bit.
    destruct (N.eqb_spec i j) as [<-|]; [now rewrite E|apply andb_false_r].
  - apply N.eqb_neq. intros H. pose proof (is_blank_land_bit x i) as B. unfold has in B. rewrite E in B. cbn [negb] in B.
    unfold is_blank in B. apply N.eqb_eq in B. rewrite B in H. symmetry in H. now apply bit_nonzero in H.
Qed.
Lemma render_bb_grid x : render_bb x = grid x.
Proof.
  unfold render_bb, grid, grid_row. apply flat_map_ext. intros r. f_equal. apply flat_map_ext. intros f.
  rewrite land_bit_test. now rewrite (N.mul_comm r 8).
Qed.
(* the cell (r, f) of the grid shows X exactly when square 8r+f is set; rank 8 is the first row, file a the first column *)
Lemma grid_rows x : grid x = grid_row x 7 ++ grid_row x 6 ++ grid_row x 5 ++ grid_row x 4 ++ grid_row x 3 ++ grid_row x 2 ++ grid_row x 1 ++ grid_row x 0.
Proof. unfold grid. cbn [flat_map]. now rewrite app_nil_r. Qed.
Definition cell_txt (v : bool) : bytes := if v then B "X " else B ". ".
Lemma grid_row_cells x r : grid_row x r =
  cell_txt (N.testbit x (8*r+0)) ++ cell_txt (N.testbit x (8*r+1)) ++ cell_txt (N.testbit x (8*r+2)) ++ cell_txt (N.testbit x (8*r+3)) ++
  cell_txt (N.testbit x (8*r+4)) ++ cell_txt (N.testbit x (8*r+5)) ++ cell_txt (N.testbit x (8*r+6)) ++ cell_txt (N.testbit x (8*r+7)) ++ [10].
Proof. unfold grid_row, cell_txt. cbn [flat_map idx8]. rewrite <- !app_assoc. cbn [app]. reflexivity. Qed.

(* ---- status sentences: the winner named is the side opposite to the one checkmated / resigned ---- *)
Lemma status_sentences : forall c,
  print_gstatus (GCheckMated c) = print_color (opp c) ++ B " won by checkmate" /\
  print_gstatus (GResigned c) = print_color (opp c) ++ B " won by resignation" /\
  print_gstatus (GDrawOffered c) = B "draw offered by " ++ print_color c.
Proof. intros c. repeat split. Qed.
Lemma status_sentences_drawn_or_open : forall s, (match s with GCheckMated _ | GResigned _ => False | _ => True end) ->
  forall c, print_gstatus s <> print_color c ++ B " won by checkmate" /\ print_gstatus s <> print_color c ++ B " won by resignation".
Proof. intros [|[]|[]|[]| | | | |] H []; try contradiction; split; cbv; discriminate. Qed.

(* ---- board rendering: a cell shows exactly the piece on its square ---- *)
Definition cell_text (o : option piece) : bytes :=
  match o with
  | None => B "   "
  | Some (t, c) => map (match c with White => upper | Black => lower end) (B " " ++ letter t ++ B " ") end.
Lemma render_cell_spec b s : MaskInv b -> render_cell b s = Ok (cell_text (cell_at b s)).
Proof.
  intros I. unfold render_cell. rewrite (is_empty_square_inv b s I), (piece_type_on_inv b s I), (piece_color_on_inv b s I).
  destruct (cell_at b s) as [[t c]|]; reflexivity.
Qed.
Lemma cell_text_upper_lower t : cell_text (Some (t, White)) = B " " ++ letter t ++ B " " /\
  cell_text (Some (t, Black)) = B " " ++ map lower (letter t) ++ B " ".
Proof. destruct t; split; reflexivity. Qed.

(* the whole rendering in closed form *)
Definition row_text (b : board) (files : list N) (r : N) : bytes :=
  print_dec (r + 1) ++ B "  " ++ box_v ++ flat_map (fun f => cell_text (cell_at b (mk_sq r f))) files ++ box_v ++ [10].
Definition render_text (b : board) (ranks files : list N) (footer : bytes) : bytes :=
  B "   " ++ print_color (b_stm b) ++ B "  " ++ map upper (print_cr (b_wr b)) ++ print_cr (b_br b) ++ [10]
  ++ B "   " ++ box_tl ++ rep 24 box_h ++ box_tr ++ [10]
  ++ flat_map (row_text b files) ranks
  ++ B "   " ++ box_bl ++ rep 24 box_h ++ box_br ++ [10] ++ footer ++ [10].
Lemma render_row b files : MaskInv b -> forall r acc,
  fold_left (fun acc2 f => x <- acc2 ;; c <- render_cell b (mk_sq r f) ;; Ok (x ++ c)) files (Ok acc)
  = Ok (acc ++ flat_map (fun f => cell_text (cell_at b (mk_sq r f))) files).
Proof.
  intros I r. induction files as [|f fs IH]; intros acc; [cbn; now rewrite app_nil_r|].
  cbn [fold_left bind flat_map]. rewrite (render_cell_spec b _ I). cbn [bind]. rewrite IH, <- app_assoc. reflexivity.
Qed.
Lemma render_spec b ranks files footer : MaskInv b -> render b ranks files footer = Ok (render_text b ranks files footer).
Proof.
  intros I. unfold render, render_text.
  assert (F : forall rs acc, fold_left (fun acc r => a <- acc ;;
       row <- fold_left (fun acc2 f => x <- acc2 ;; c <- render_cell b (mk_sq r f) ;; Ok (x ++ c)) files (Ok (a ++ print_dec (r + 1) ++ B "  " ++ box_v)) ;;
       Ok (row ++ box_v ++ [10])) rs (Ok acc) = Ok (acc ++ flat_map (row_text b files) rs)).
  { induction rs as [|r rs IH]; intros acc; [cbn; now rewrite app_nil_r|].
    cbn [fold_left bind flat_map]. rewrite (render_row b files I). cbn [bind]. rewrite IH. f_equal.
    unfold row_text. rewrite <- !app_assoc. reflexivity. }
  rewrite F. cbn [bind app]. reflexivity.
Qed.
(* the flipped rendering lists the 64 cells in exactly the reverse order of the straight one (180-degree rotation) *)
Definition cell_order (ranks files : list N) : list square := flat_map (fun r => map (mk_sq r) files) ranks.
Lemma rotation : cell_order idx8 [7;6;5;4;3;2;1;0] = rev (cell_order [7;6;5;4;3;2;1;0] idx8).
Proof. vm_compute. reflexivity. Qed.
Lemma straight_order : cell_order [7;6;5;4;3;2;1;0] idx8 =
  flat_map (fun r => map (fun f => 8 * r + f) idx8) [7;6;5;4;3;2;1;0].
Proof. vm_compute. reflexivity. Qed.
