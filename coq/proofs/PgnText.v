(* proofs/PgnText.v — the text layer of PGN import (model/Pgn.v) applied to an exported game:
   the blank-line split returns the move text, the move pattern finds exactly the SAN texts of the
   move list in order, the result pattern finds exactly the result token, the tag pattern leaves the
   exported Result value — for the unwrapped text and for every re-wrapping of it (any blanks of the
   move text turned into line ends). *)
Require Import LC.model.Prims LC.model.Tables LC.model.Board LC.model.Text LC.model.San LC.model.Game LC.model.Pgn
  LC.spec.TextSpec LC.proofs.Basics LC.proofs.MoveInv LC.proofs.FenText LC.proofs.PgnMatch LC.proofs.PgnSweep.
From Coq Require Import Lia String.
Open Scope N_scope.

(* ---------- separators of the move text ---------- *)
Definition blank (c : N) : bool := (c =? 32) || (c =? 10).
Definition sep (c : N) : bool := blank c || (c =? 46).
Lemma sep_cases c : sep c = true -> c = 32 \/ c = 10 \/ c = 46.
Proof.
  unfold sep, blank. destruct (c =? 32) eqn:E1; [apply N.eqb_eq in E1; auto|]. destruct (c =? 10) eqn:E2; [apply N.eqb_eq in E2; auto|].
  destruct (c =? 46) eqn:E3; [apply N.eqb_eq in E3; auto|discriminate].
Qed.
Lemma sep_barrier_moves c : sep c = true -> barrier moves_re c = true.
Proof. intros H. destruct (sep_cases c H) as [->|[->| ->]]; reflexivity. Qed.
Lemma sep_barrier_result c : sep c = true -> barrier result_re c = true.
Proof. intros H. destruct (sep_cases c H) as [->|[->| ->]]; reflexivity. Qed.
Lemma blank_sep c : blank c = true -> sep c = true. Proof. unfold sep. intros ->. reflexivity. Qed.

(* ---------- digit strings contain no move and no result ---------- *)
Definition is_digit (c : N) : bool := (48 <=? c) && (c <=? 57).
Lemma is_digit_spec c : is_digit c = true <-> 48 <= c <= 57.
Proof. unfold is_digit. rewrite Bool.andb_true_iff, !N.leb_le. reflexivity. Qed.
Lemma flat_map_nil {A B} (f : A -> list B) l : (forall x, In x l -> f x = []) -> flat_map f l = [].
Proof. induction l as [|a l IH]; intros H; [reflexivity|]. cbn [flat_map]. rewrite (H a (or_introl eq_refl)), IH; [reflexivity|]. intros x Hx. apply H. right. exact Hx. Qed.
Lemma star_digits p s x : forallb is_digit s = true -> In x (star p s) -> forallb is_digit x = true.
Proof. intros D Hx. destruct (star_prefix p s x Hx) as (pre & -> & _). rewrite forallb_app in D. apply andb_prop in D. apply D. Qed.
Lemma digit_not_file c : is_digit c = true -> in_ranges cls_file c = false.
Proof. rewrite is_digit_spec. intros H. unfold in_ranges, cls_file. cbn [existsb fst snd]. destruct (97 <=? c) eqn:E; [apply N.leb_le in E; lia|reflexivity]. Qed.
Lemma ms_moves_digits s : forallb is_digit s = true -> ms moves_re s = [].
Proof.
  intros D. change moves_re with (Seq (Alt piece_move_re castle_re) suffix_re). cbn [ms].
  assert (E : ms piece_move_re s ++ ms castle_re s = []); [|rewrite E; reflexivity].
  assert (E2 : ms castle_re s = []).
  { change castle_re with (Seq (Lit [79; 45; 79]) (Opt (Lit [45; 79]))). cbn [ms]. destruct s as [|c s]; [reflexivity|]. cbn [forallb] in D. apply andb_prop in D. destruct D as [D _].
    apply is_digit_spec in D. cbn [lit]. destruct (79 =? c) eqn:E; [apply N.eqb_eq in E; lia|reflexivity]. }
  rewrite E2, app_nil_r.
  change piece_move_re with (Seq (StarC (in_ranges cls_piece)) (Seq (StarC (in_ranges cls_file)) (Seq (StarC (in_ranges cls_rank)) (Seq (StarC (in_ranges cls_x))
                              (Seq (Cls (in_ranges cls_file)) (Cls (in_ranges cls_rank))))))). cbn [ms].
  apply flat_map_nil. intros x1 H1. pose proof (star_digits _ _ _ D H1) as D1.
  apply flat_map_nil. intros x2 H2. pose proof (star_digits _ _ _ D1 H2) as D2.
  apply flat_map_nil. intros x3 H3. pose proof (star_digits _ _ _ D2 H3) as D3.
  apply flat_map_nil. intros x4 H4. pose proof (star_digits _ _ _ D3 H4) as D4.
  destruct x4 as [|c x4]; [reflexivity|]. cbn [forallb] in D4. apply andb_prop in D4. destruct D4 as [D4 _]. rewrite (digit_not_file c D4). reflexivity.
Qed.
Lemma lit3_digits a b l s : (b = 45 \/ b = 47) -> forallb is_digit s = true -> lit (a :: b :: l) s = None.
Proof.
  intros Hb D. destruct s as [|c [|d s]]; cbn [lit]; [reflexivity|destruct (a =? c); reflexivity|].
  cbn [forallb] in D. apply andb_prop in D. destruct D as [_ D]. apply andb_prop in D. destruct D as [D _]. apply is_digit_spec in D.
  destruct (a =? c); [|reflexivity]. destruct (b =? d) eqn:E; [apply N.eqb_eq in E; lia|reflexivity].
Qed.
Lemma ms_result_digits s : forallb is_digit s = true -> ms result_re s = [].
Proof.
  intros D. change result_re with (Alt (Lit [49; 45; 48]) (Alt (Lit [48; 45; 49]) (Lit [49; 47; 50; 45; 49; 47; 50]))). cbn [ms].
  rewrite !lit3_digits by (auto; exact D). reflexivity.
Qed.
Lemma scan_nothing r s : (forall t, forallb is_digit t = true -> ms r t = []) -> forallb is_digit s = true -> forall k, scan r s k = [].
Proof.
  intros Hr. induction s as [|c s IH]; intros D k; [reflexivity|]. cbn [scan]. pose proof D as D'. cbn [forallb] in D'. apply andb_prop in D'. destruct D' as [_ Ds].
  destruct k; [|apply IH; exact Ds]. rewrite (Hr (c :: s) D). apply IH. exact Ds.
Qed.
Lemma print_dec_digits n : forallb is_digit (print_dec n) = true.
Proof. apply forallb_forall. intros c Hc. apply is_digit_spec. pose proof (print_dec_chars n) as F. rewrite Forall_forall in F. exact (F c Hc). Qed.

(* ---------- trim_end ---------- *)
Lemma trim_end_split s : exists k, s = trim_end s ++ repeat 32 k.
Proof.
  induction s as [|c s [k IH]]; [exists O; reflexivity|]. cbn [trim_end]. destruct (trim_end s) as [|d t] eqn:E.
  - destruct (c =? 32) eqn:Ec.
    + apply N.eqb_eq in Ec. subst c. exists (S k). cbn [app repeat]. cbn [app] in IH. rewrite IH at 1. reflexivity.
    + exists k. cbn [app] in *. rewrite IH at 1. reflexivity.
  - exists k. rewrite IH at 1. reflexivity.
Qed.

(* ---------- searching a numbered move list ---------- *)
Section Search.
Variable r : re.
Hypothesis r_sep : forall c, sep c = true -> barrier r c = true.
Hypothesis r_nonnull : ms r [] = [].
Hypothesis r_digits : forall t, forallb is_digit t = true -> ms r t = [].

Lemma scan_cut seg c rest : sep c = true -> scan r (seg ++ c :: rest) 0 = scan r seg 0 ++ scan r rest 0.
Proof. intros H. apply (scan_barrier r c (r_sep c H) r_nonnull). lia. Qed.
Lemma scan_movelist sans : forall wt n tail,
  scan r (movelist_from wt n sans ++ tail) 0 = List.concat (map (fun s => scan r s 0) sans) ++ scan r tail 0.
Proof.
  induction sans as [|s sans IH]; intros wt n tail; [reflexivity|]. cbn [movelist_from map List.concat]. destruct wt.
  - change (B ".") with [46]. change (B " ") with [32]. rewrite <- !app_assoc. cbn [app].
    rewrite (scan_cut (print_dec n) 46) by reflexivity. rewrite (scan_nothing r _ r_digits (print_dec_digits n)). cbn [app].
    rewrite (scan_cut s 32) by reflexivity. rewrite IH, app_assoc. reflexivity.
  - change (B " ") with [32]. rewrite <- !app_assoc. cbn [app]. rewrite (scan_cut s 32) by reflexivity. rewrite IH, app_assoc. reflexivity.
Qed.
Lemma scan_spaces k tail : scan r (repeat 32 k ++ tail) 0 = scan r tail 0.
Proof. induction k as [|k IH]; [reflexivity|]. cbn [repeat app]. change (32 :: repeat 32 k ++ tail) with ([] ++ 32 :: (repeat 32 k ++ tail)). rewrite scan_cut by reflexivity. exact IH. Qed.
Lemma scan_skip c rest : sep c = true -> scan r (c :: rest) 0 = scan r rest 0.
Proof. intros H. change (c :: rest) with ([] ++ c :: rest). rewrite (scan_cut [] c rest H). reflexivity. Qed.
Lemma scan_movelist_any ws sans : scan r (movelist ws sans) 0 = List.concat (map (fun s => scan r s 0) sans).
Proof.
  unfold movelist. destruct ws.
  - rewrite <- (app_nil_r (movelist_from true 1 sans)), scan_movelist. cbn [scan]. apply app_nil_r.
  - destruct sans as [|s sans]; [reflexivity|]. change (B "1. ... ") with [49; 46; 32; 46; 46; 46; 32]. change (B " ") with [32]. cbn [app map List.concat].
    change (49 :: 46 :: 32 :: 46 :: 46 :: 46 :: 32 :: s ++ 32 :: movelist_from true 2 sans) with ([49] ++ 46 :: 32 :: 46 :: 46 :: 46 :: 32 :: s ++ 32 :: movelist_from true 2 sans).
    rewrite (scan_cut [49] 46) by reflexivity. rewrite (scan_nothing r [49] r_digits eq_refl). cbn [app].
    rewrite !scan_skip by reflexivity. rewrite (scan_cut s 32) by reflexivity.
    rewrite <- (app_nil_r (movelist_from true 2 sans)), scan_movelist. cbn [scan]. rewrite app_nil_r. reflexivity.
Qed.
Lemma scan_trim s : scan r (trim_end s) 0 = scan r s 0.
Proof.
  destruct (trim_end_split s) as [k E]. rewrite E at 2. destruct k as [|k]; [cbn [repeat]; rewrite app_nil_r; reflexivity|].
  cbn [repeat]. rewrite scan_cut by reflexivity. rewrite <- (app_nil_r (repeat 32 k)), scan_spaces. cbn [scan]. rewrite app_nil_r. reflexivity.
Qed.
End Search.

Definition promo_ok (mv : bmove) : Prop := match mv with MovePiece m => In (pm_promo m) promo_opts | _ => True end.
Lemma In_of_nat8 x : x < 8 -> In x (map N.of_nat (seq 0 8)).
Proof. intros H. apply in_map_iff. exists (N.to_nat x). split; [apply N2Nat.id|]. apply in_seq. lia. Qed.
Lemma san_string_ok mv p : wf_bmove mv -> promo_ok mv -> san_ok (san_string mv p) = true.
Proof.
  intros W P.
  set (chk := if mp_mate p then [35] else if mp_check p then [43] else []).
  assert (Ik : In chk chk_texts) by (unfold chk, chk_texts; destruct (mp_mate p); [left; reflexivity|]; destruct (mp_check p); [right; left; reflexivity|right; right; left; reflexivity]).
  destruct mv as [m| |].
  - destruct W as [Wf Wt]. cbn [promo_ok] in P.
    set (a := match mp_amb p with ExtraFile => print_file (file (pm_from m)) | ExtraRank => print_rank (rank (pm_from m))
                                | ExtraSquare => print_sq (pm_from m) | AmbNeither => [] end).
    assert (E : san_string (MovePiece m) p = core_parts (pm_type m) a (mp_capture p) (pm_to m) ++ suffix_parts (pm_promo m) chk)
      by (unfold san_string, core_parts, suffix_parts, a, chk; destruct (pm_type m); rewrite <- ?app_assoc; reflexivity).
    rewrite E. clear E. apply combine_ok.
    + pose proof core_sweep as S. rewrite forallb_forall in S.
      assert (I1 : In (pm_type m) all_types) by (destruct (pm_type m); cbn; tauto). specialize (S _ I1). cbn beta in S. rewrite forallb_forall in S.
      assert (I2 : In a amb_texts).
      { unfold a, amb_texts. destruct (mp_amb p).
        - right. apply in_or_app. left. apply in_map. apply In_of_nat8. apply file_lt. exact Wf.
        - right. apply in_or_app. right. apply in_or_app. left. apply in_map. apply In_of_nat8. apply rank_lt. exact Wf.
        - right. apply in_or_app. right. apply in_or_app. right. apply in_map. apply In_squares. exact Wf.
        - left. reflexivity. }
      specialize (S _ I2). cbn beta in S. rewrite forallb_forall in S.
      assert (I3 : In (mp_capture p) [true; false]) by (destruct (mp_capture p); cbn; tauto). specialize (S _ I3). cbn beta in S. rewrite forallb_forall in S.
      exact (S _ (proj2 (In_squares _) Wt)).
    + pose proof suffix_sweep as S. rewrite forallb_forall in S. specialize (S _ P). cbn beta in S. rewrite forallb_forall in S. exact (S _ Ik).
  - change (san_string CastleK p) with ([79; 45; 79] ++ suffix_parts None chk). apply combine_ok.
    + pose proof castle_cores as S. apply andb_prop in S. exact (proj1 S).
    + pose proof suffix_sweep as S. rewrite forallb_forall in S. specialize (S None (or_introl eq_refl)). cbn beta in S. rewrite forallb_forall in S. exact (S _ Ik).
  - change (san_string CastleQ p) with ([79; 45; 79; 45; 79] ++ suffix_parts None chk). apply combine_ok.
    + pose proof castle_cores as S. apply andb_prop in S. exact (proj2 S).
    + pose proof suffix_sweep as S. rewrite forallb_forall in S. specialize (S None (or_introl eq_refl)). cbn beta in S. rewrite forallb_forall in S. exact (S _ Ik).
Qed.
Lemma san_ok_spec s : san_ok s = true -> scan moves_re s 0 = [s] /\ scan result_re s 0 = [] /\ forallb plain_char s = true.
Proof. unfold san_ok. intros H. apply andb_prop in H. destruct H as [H H3]. apply andb_prop in H. destruct H as [H1 H2]. auto using beq_toks_eq. Qed.

(* ---------- the body of an exported game: trimmed move list, a blank, the result token ---------- *)
Definition SansOk (sans : list bytes) : Prop := Forall (fun s => san_ok s = true) sans.
Lemma concat_singletons (l : list bytes) : List.concat (map (fun s => [s]) l) = l.
Proof. induction l as [|a l IH]; [reflexivity|]. cbn [map List.concat app]. rewrite IH. reflexivity. Qed.
Lemma map_scan_ext (f g : bytes -> list bytes) l : Forall (fun s => f s = g s) l -> map f l = map g l.
Proof. induction 1; cbn [map]; congruence. Qed.
Lemma body_moves sans t : SansOk sans -> scan moves_re (trim_end (movelist true sans) ++ 32 :: print_rtag t) 0 = sans.
Proof.
  intros S. rewrite (scan_cut moves_re sep_barrier_moves eq_refl _ 32) by reflexivity.
  rewrite (scan_trim moves_re sep_barrier_moves eq_refl). cbn [movelist].
  rewrite <- (app_nil_r (movelist_from true 1 sans)), (scan_movelist moves_re sep_barrier_moves eq_refl ms_moves_digits).
  rewrite (map_scan_ext _ (fun s => [s]) sans); [|eapply Forall_impl; [|exact S]; intros s Hs; exact (proj1 (san_ok_spec s Hs))].
  rewrite concat_singletons. destruct t; cbn; rewrite !app_nil_r; reflexivity.
Qed.
Lemma concat_nils (l : list bytes) : List.concat (map (fun _ : bytes => @nil bytes) l) = [].
Proof. induction l; [reflexivity|exact IHl]. Qed.
Lemma body_result sans t : SansOk sans ->
  scan result_re (trim_end (movelist true sans) ++ 32 :: print_rtag t) 0 = match t with TagOpen => [] | _ => [print_rtag t] end.
Proof.
  intros S. rewrite (scan_cut result_re sep_barrier_result eq_refl _ 32) by reflexivity.
  rewrite (scan_trim result_re sep_barrier_result eq_refl). cbn [movelist].
  rewrite <- (app_nil_r (movelist_from true 1 sans)), (scan_movelist result_re sep_barrier_result eq_refl ms_result_digits).
  rewrite (map_scan_ext _ (fun _ => []) sans); [|eapply Forall_impl; [|exact S]; intros s Hs; exact (proj1 (proj2 (san_ok_spec s Hs)))].
  rewrite concat_nils. destruct t; reflexivity.
Qed.

(* characters and adjacent blanks of the move list *)
Definition okc (c : N) : bool := negb ((c =? 10) || (c =? 13) || (c =? 91)).
Fixpoint nb2 (s : bytes) : bool :=
  match s with
  | a :: t => (match t with b :: _ => negb (blank a && blank b) | [] => true end) && nb2 t
  | [] => true end.
Definition hd_nonblank (s : bytes) : Prop := match s with c :: _ => blank c = false | [] => True end.
Lemma nb2_tok t : forall X, t <> [] -> forallb (fun c => negb (blank c)) t = true -> nb2 X = true -> hd_nonblank X -> nb2 (t ++ 32 :: X) = true.
Proof.
  induction t as [|c t IH]; intros X NE F NX HX; [contradiction|]. cbn [forallb] in F. apply andb_prop in F. destruct F as [Fc Ft]. apply Bool.negb_true_iff in Fc.
  destruct t as [|c2 t].
  - cbn [app nb2]. rewrite Fc. cbn [andb negb]. rewrite NX. destruct X as [|b X]; [reflexivity|]. cbn in HX. rewrite HX. reflexivity.
  - change ((c :: c2 :: t) ++ 32 :: X) with (c :: (c2 :: t) ++ 32 :: X). cbn [nb2]. cbn [app]. rewrite Fc. cbn [andb negb].
    apply (IH X); [discriminate|exact Ft|exact NX|exact HX].
Qed.
Lemma nb2_prefix a : forall b, nb2 (a ++ b) = true -> nb2 a = true.
Proof.
  induction a as [|x a IH]; intros b H; [reflexivity|]. cbn [app nb2] in *. apply andb_prop in H. destruct H as [H1 H2]. rewrite (IH b H2), Bool.andb_true_r.
  destruct a as [|y a]; [reflexivity|exact H1].
Qed.
Lemma plain_nonblank c : plain_char c = true -> negb (blank c) = true.
Proof. unfold plain_char, blank. destruct (c =? 10), (c =? 13), (c =? 32), (c =? 91), (c =? 46); cbn; intros H; try discriminate; reflexivity. Qed.
Lemma plain_okc c : plain_char c = true -> okc c = true.
Proof. unfold plain_char, okc. destruct (c =? 10), (c =? 13), (c =? 32), (c =? 91), (c =? 46); cbn; intros H; try discriminate; reflexivity. Qed.
Lemma digit_nonblank c : is_digit c = true -> negb (blank c) = true.
Proof. rewrite is_digit_spec. intros H. unfold blank. destruct (c =? 32) eqn:E1; [apply N.eqb_eq in E1; lia|]. destruct (c =? 10) eqn:E2; [apply N.eqb_eq in E2; lia|reflexivity]. Qed.
Lemma digit_okc c : is_digit c = true -> okc c = true.
Proof.
  rewrite is_digit_spec. intros H. unfold okc. destruct (c =? 10) eqn:E1; [apply N.eqb_eq in E1; lia|]. destruct (c =? 13) eqn:E2; [apply N.eqb_eq in E2; lia|].
  destruct (c =? 91) eqn:E3; [apply N.eqb_eq in E3; lia|reflexivity].
Qed.
Lemma forallb_impl {A} (f g : A -> bool) l : (forall x, f x = true -> g x = true) -> forallb f l = true -> forallb g l = true.
Proof. intros H F. apply forallb_forall. intros x Hx. apply H. exact (proj1 (forallb_forall f l) F x Hx). Qed.
Lemma print_dec_nonempty n : print_dec n <> [].
Proof. destruct (print_dec_spec n) as (ds & <- & NE & _). exact NE. Qed.
Lemma movelist_shape sans : SansOk sans -> forall wt n,
  let h := movelist_from wt n sans in nb2 h = true /\ hd_nonblank h /\ forallb okc h = true.
Proof.
  induction 1 as [|s sans Hs S IH]; intros wt n; [cbn; auto|]. cbn zeta. cbn [movelist_from].
  destruct (san_ok_spec s Hs) as (Hm & _ & Hp).
  assert (NEs : s <> []) by (intros ->; discriminate Hm).
  destruct wt.
  - destruct (IH false n) as (I1 & I2 & I3). change (B ".") with [46]. change (B " ") with [32].
    set (tok := print_dec n ++ 46 :: s).
    assert (E : print_dec n ++ [46] ++ s ++ [32] ++ movelist_from false n sans = tok ++ 32 :: movelist_from false n sans)
      by (unfold tok; rewrite <- !app_assoc; reflexivity). rewrite E.
    assert (NEt : tok <> []) by (unfold tok; pose proof (print_dec_nonempty n); destruct (print_dec n); [contradiction|discriminate]).
    assert (Ft : forallb (fun c => negb (blank c)) tok = true).
    { unfold tok. rewrite forallb_app. rewrite (forallb_impl _ _ _ digit_nonblank (print_dec_digits n)). cbn [forallb andb]. change (negb (blank 46)) with true. cbn [andb].
      exact (forallb_impl _ _ _ plain_nonblank Hp). }
    split; [apply nb2_tok; assumption|]. split.
    + destruct tok as [|c tk]; [contradiction|]. cbn [app hd_nonblank]. cbn [forallb] in Ft. apply andb_prop in Ft. apply Bool.negb_true_iff. exact (proj1 Ft).
    + rewrite forallb_app. cbn [forallb]. rewrite I3. unfold tok. rewrite forallb_app. rewrite (forallb_impl _ _ _ digit_okc (print_dec_digits n)). cbn [forallb].
      rewrite (forallb_impl _ _ _ plain_okc Hp). reflexivity.
  - destruct (IH true (n + 1)) as (I1 & I2 & I3). change (B " ") with [32].
    assert (E : s ++ [32] ++ movelist_from true (n + 1) sans = s ++ 32 :: movelist_from true (n + 1) sans) by reflexivity. rewrite E.
    pose proof (forallb_impl _ _ _ plain_nonblank Hp) as Ft.
    split; [apply nb2_tok; assumption|]. split.
    + destruct s as [|c tk]; [contradiction|]. cbn [app hd_nonblank]. cbn [forallb] in Ft. apply andb_prop in Ft. apply Bool.negb_true_iff. exact (proj1 Ft).
    + rewrite forallb_app. cbn [forallb]. rewrite I3, (forallb_impl _ _ _ plain_okc Hp). reflexivity.
Qed.
Lemma trim_hd c r : (c =? 32) = false -> exists y, trim_end (c :: r) = c :: y.
Proof. intros E. cbn [trim_end]. destruct (trim_end r); [rewrite E; eauto|eauto]. Qed.
Lemma trimmed_shape sans : SansOk sans -> let T := trim_end (movelist true sans) in nb2 T = true /\ hd_nonblank T /\ forallb okc T = true.
Proof.
  intros S T. destruct (movelist_shape sans S true 1) as (H1 & H2 & H3). cbn zeta in *. change (movelist_from true 1 sans) with (movelist true sans) in *.
  destruct (trim_end_split (movelist true sans)) as [k E]. fold T in E.
  split; [apply (nb2_prefix T (repeat 32 k)); rewrite <- E; exact H1|]. split.
  - unfold T. destruct (movelist true sans) as [|c r]; [exact I|]. cbn in H2.
    assert (E32 : (c =? 32) = false) by (unfold blank in H2; apply Bool.orb_false_iff in H2; apply H2).
    destruct (trim_hd c r E32) as [y ->]. exact H2.
  - rewrite E, forallb_app in H3. apply andb_prop in H3. apply H3.
Qed.

(* ---------- the blank-line split ---------- *)
Fixpoint calm (s : bytes) : bool :=
  match s with
  | a :: t => negb (a =? 13) && (match t with b :: _ => negb ((a =? 10) && (b =? 10)) | [] => true end) && calm t
  | [] => true end.
Lemma skip_nls_other c t : (c =? 10) = false -> (c =? 13) = false -> skip_nls (c :: t) = (O, c :: t).
Proof. intros E1 E2. cbn [skip_nls]. rewrite E1, E2. reflexivity. Qed.
Lemma calm_inv a t : calm (a :: t) = true -> (a =? 13) = false /\ calm t = true /\ match t with b :: _ => ((a =? 10) && (b =? 10)) = false | [] => True end.
Proof.
  cbn [calm]. intros H. apply andb_prop in H. destruct H as [H H3]. apply andb_prop in H. destruct H as [H1 H2]. apply Bool.negb_true_iff in H1.
  split; [exact H1|]. split; [exact H3|]. destruct t; [exact I|apply Bool.negb_true_iff; exact H2].
Qed.
Lemma skip_one_nl t : calm (10 :: t) = true -> skip_nls (10 :: t) = (1%nat, t).
Proof.
  intros C. destruct (calm_inv _ _ C) as (_ & Ct & P). cbn [skip_nls]. change (10 =? 10) with true. cbn iota.
  destruct t as [|b t]; [reflexivity|]. change (10 =? 10) with true in P. cbn [andb] in P. destruct (calm_inv _ _ Ct) as (Eb & _ & _).
  rewrite (skip_nls_other b t P Eb). reflexivity.
Qed.
Lemma find_blank_calm s : calm s = true -> find_blank s = None.
Proof.
  induction s as [|c t IH]; intros C; [reflexivity|]. destruct (calm_inv _ _ C) as (E13 & Ct & P). cbn [find_blank].
  destruct (c =? 10) eqn:E10.
  - apply N.eqb_eq in E10. subst c. rewrite (skip_one_nl t C). cbn [Nat.leb]. rewrite (IH Ct). reflexivity.
  - rewrite (skip_nls_other c t E10 E13). cbn [Nat.leb]. rewrite (IH Ct). reflexivity.
Qed.
Lemma find_blank_header X : forall Y, calm X = true -> (last X 0 =? 10) = false ->
  find_blank (X ++ 10 :: 10 :: Y) = Some (X, snd (skip_nls Y)).
Proof.
  induction X as [|c X IH]; intros Y C L.
  - cbn [app find_blank skip_nls]. change (10 =? 10) with true. cbn iota. destruct (skip_nls Y) as [n r]. reflexivity.
  - destruct (calm_inv _ _ C) as (E13 & Ct & P).
    assert (L' : (last X 0 =? 10) = false) by (destruct X as [|d X]; [reflexivity|exact L]).
    cbn [app find_blank]. destruct (c =? 10) eqn:E10.
    + apply N.eqb_eq in E10. subst c. destruct X as [|b X]; [discriminate L|]. change (10 =? 10) with true in P. cbn [andb] in P.
      destruct (calm_inv _ _ Ct) as (Eb & _ & _). cbn [app]. cbn [skip_nls]. change (10 =? 10) with true. cbn iota. rewrite P, Eb. cbn [Nat.leb].
      change (b :: X ++ 10 :: 10 :: Y) with ((b :: X) ++ 10 :: 10 :: Y). rewrite (IH Y Ct L'). reflexivity.
    + rewrite (skip_nls_other c _ E10 E13). cbn [Nat.leb]. rewrite (IH Y Ct L'). reflexivity.
Qed.
Lemma Rb_blank_cases w t : Rb blank w t -> w = t \/ (blank w = true /\ blank t = true). Proof. exact (fun H => H). Qed.
Lemma blank_cases c : blank c = true -> c = 32 \/ c = 10.
Proof. unfold blank. destruct (c =? 32) eqn:E1; [apply N.eqb_eq in E1; auto|]. destruct (c =? 10) eqn:E2; [apply N.eqb_eq in E2; auto|discriminate]. Qed.
Lemma calm_rewrap X : calm X = true -> match X with b :: _ => (b =? 10) = false | [] => True end ->
  forall W T, Forall2 (Rb blank) W T -> forallb okc T = true -> nb2 T = true -> calm (W ++ X) = true.
Proof.
  intros CX HX W T F. induction F as [|w t W T R F IH]; intros O NB; [exact CX|].
  cbn [forallb] in O. apply andb_prop in O. destruct O as [Ot O]. cbn [nb2] in NB. apply andb_prop in NB. destruct NB as [NBp NB].
  cbn [app calm]. rewrite (IH O NB), Bool.andb_true_r.
  assert (Ot' : (t =? 10) = false /\ (t =? 13) = false).
  { unfold okc in Ot. apply Bool.negb_true_iff in Ot. apply Bool.orb_false_iff in Ot. destruct Ot as [Ot _]. apply Bool.orb_false_iff in Ot. exact Ot. }
  assert (E13 : (w =? 13) = false).
  { destruct R as [->|[Bw _]]; [exact (proj2 Ot')|]. destruct (blank_cases w Bw) as [->| ->]; reflexivity. }
  rewrite E13. cbn [negb andb].
  destruct F as [|w2 t2 W T R2 F].
  - cbn [app]. destruct X as [|b X]; [reflexivity|]. rewrite HX, Bool.andb_false_r. reflexivity.
  - cbn [app]. apply Bool.negb_true_iff. destruct (w =? 10) eqn:Ew; [|reflexivity]. destruct (w2 =? 10) eqn:Ew2; [|reflexivity]. exfalso.
    apply N.eqb_eq in Ew. apply N.eqb_eq in Ew2. subst w w2.
    assert (Bt : blank t = true) by (destruct R as [<-|[_ Bt]]; [destruct Ot' as [Ot' _]; discriminate Ot'|exact Bt]).
    cbn [forallb] in O. apply andb_prop in O. destruct O as [Ot2 _].
    assert (Bt2 : blank t2 = true).
    { destruct R2 as [<-|[_ Bt2]]; [|exact Bt2]. unfold okc in Ot2. cbn in Ot2. discriminate Ot2. }
    rewrite Bt, Bt2 in NBp. discriminate NBp.
Qed.

(* ---------- tag pairs ---------- *)
Lemma span_app p a : forall c r, forallb p a = true -> p c = false -> span p (a ++ c :: r) = (a, c :: r).
Proof.
  induction a as [|x a IH]; intros c r F E; cbn [app span]; [rewrite E; reflexivity|].
  cbn [forallb] in F. apply andb_prop in F. destruct F as [Fx Fa]. rewrite Fx, (IH c r Fa E). reflexivity.
Qed.
Lemma scan_tags_skip a : forall b, scan_tags (a ++ b) (List.length a) = scan_tags b 0.
Proof.
  induction a as [|x a IH]; intros b; [reflexivity|]. cbn [app List.length scan_tags]. apply IH.
Qed.
Definition tagline (k v : bytes) : bytes := 91 :: k ++ 32 :: 34 :: v ++ [34; 93; 10].
Lemma word_not_space c : is_word c = true -> is_space c = false.
Proof.
  unfold is_word, is_space. intros H.
  destruct (9 <=? c) eqn:A1; destruct (c <=? 13) eqn:A2; destruct (c =? 32) eqn:A3; cbn; try reflexivity; exfalso;
    try apply N.leb_le in A1; try apply N.leb_le in A2; try apply N.eqb_eq in A3;
    repeat (apply Bool.orb_true_iff in H; destruct H as [H|H]); try (apply andb_prop in H; destruct H as [H1 H2]; apply N.leb_le in H1; apply N.leb_le in H2; lia);
    try (apply N.eqb_eq in H; lia).
Qed.
Lemma scan_tags_tagline k v rest : k <> [] -> forallb is_word k = true -> forallb is_val v = true ->
  scan_tags (tagline k v ++ rest) 0 = (k, v) :: scan_tags rest 0.
Proof.
  intros NE Fk Fv. unfold tagline. cbn [app scan_tags]. change (91 =? 91) with true. cbn iota.
  assert (M : match_tag ((k ++ 32 :: 34 :: v ++ [34; 93; 10]) ++ rest) = Some (k, v, 10 :: rest)).
  { unfold match_tag. rewrite <- app_assoc. cbn [app]. destruct k as [|c k]; [contradiction|].
    pose proof Fk as Fk'. cbn [forallb] in Fk'. apply andb_prop in Fk'. destruct Fk' as [Fc _].
    cbn [app]. cbn [span]. rewrite (word_not_space c Fc).
    change (c :: k ++ 32 :: 34 :: (v ++ [34; 93; 10]) ++ rest) with ((c :: k) ++ 32 :: 34 :: (v ++ [34; 93; 10]) ++ rest).
    rewrite (span_app is_word (c :: k) 32 _ Fk eq_refl).
    cbn [span]. change (is_space 32) with true. change (is_space 34) with false. cbn iota.
    rewrite <- app_assoc. cbn [app]. rewrite (span_app is_val v 34 _ Fv eq_refl).
    cbn [span]. change (is_space 93) with false. cbn iota. reflexivity. }
  rewrite M.
  replace (Nat.sub (List.length ((k ++ 32 :: 34 :: v ++ [34; 93; 10]) ++ rest)) (List.length (10 :: rest))) with (List.length (k ++ 32 :: 34 :: v ++ [34; 93])).
  - replace ((k ++ 32 :: 34 :: v ++ [34; 93; 10]) ++ rest) with ((k ++ 32 :: 34 :: v ++ [34; 93]) ++ 10 :: rest).
    + rewrite scan_tags_skip. reflexivity.
    + rewrite <- !app_assoc. cbn [app]. rewrite <- !app_assoc. reflexivity.
  - rewrite !app_length. cbn [List.length]. rewrite !app_length. cbn [List.length]. lia.
Qed.
Lemma scan_tags_none s : forallb (fun c => negb (c =? 91)) s = true -> forall k, scan_tags s k = [].
Proof.
  induction s as [|c s IH]; intros F k; [reflexivity|]. cbn [forallb] in F. apply andb_prop in F. destruct F as [Fc Fs]. apply Bool.negb_true_iff in Fc.
  cbn [scan_tags]. destruct k; [rewrite Fc|]; apply IH; exact Fs.
Qed.

Lemma Rb_blank_spec a b : Rb blank a b <-> a = b \/ ((a = 32 \/ a = 10) /\ (b = 32 \/ b = 10)).
Proof.
  unfold Rb. split; intros [H|[H1 H2]]; auto; right.
  - split; apply blank_cases; assumption.
  - split; [destruct H1 as [->| ->]|destruct H2 as [->| ->]]; reflexivity.
Qed.

(* the rendered move list is a list of separately delimited tokens: the move pattern recovers exactly the SAN texts *)
Lemma movelist_tokens ws sans : SansOk sans -> scan_moves (movelist ws sans) = sans.
Proof.
  intros S. unfold scan_moves. rewrite (scan_movelist_any moves_re sep_barrier_moves eq_refl ms_moves_digits).
  rewrite (map_scan_ext _ (fun s => [s]) sans); [apply concat_singletons|]. eapply Forall_impl; [|exact S]. intros s Hs. exact (proj1 (san_ok_spec s Hs)).
Qed.
