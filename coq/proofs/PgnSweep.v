(* proofs/PgnSweep.v — the complete sweep over all SAN texts (933,126 of them): the move pattern, started at the
   first byte, matches exactly the whole text and nothing else inside it; the result pattern matches nowhere in it;
   no byte of it is a line end, blank, full stop or opening bracket. *)
Require Import LC.model.Prims LC.model.Tables LC.model.Board LC.model.Text LC.model.San LC.model.Game LC.model.Pgn.
From Coq Require Import String.
Open Scope N_scope.

(* ---------- every SAN text is found whole by the move pattern and holds no result token (finite, complete) ---------- *)
Definition amb_texts : list bytes := [] :: map print_file (map N.of_nat (seq 0 8)) ++ map print_rank (map N.of_nat (seq 0 8)) ++ map print_sq squares.
Definition promo_opts : list (option ptype) := [None; Some Knight; Some Bishop; Some Rook; Some Queen].
Definition chk_texts : list bytes := [[35]; [43]; []].
Definition san_parts (t : ptype) (a : bytes) (cap : bool) (d : square) (q : option ptype) (chk : bytes) : bytes :=
  (match t with Pawn => [] | t => letter t end) ++ a ++ (if cap then [120] else []) ++ print_sq d
  ++ (match q with Some q => 61 :: letter q | None => [] end) ++ chk.
Definition plain_char (c : N) : bool := negb ((c =? 10) || (c =? 13) || (c =? 32) || (c =? 91) || (c =? 46)).
Definition beq_toks (a b : list bytes) : bool := if list_eq_dec (list_eq_dec N.eq_dec) a b then true else false.
Definition san_ok (s : bytes) : bool :=
  beq_toks (scan moves_re s 0) [s] && beq_toks (scan result_re s 0) [] && forallb plain_char s.
Lemma san_sweep : forallb (fun t => forallb (fun a => forallb (fun cap => forallb (fun d => forallb (fun q => forallb (fun k =>
  san_ok (san_parts t a cap d q k)) chk_texts) promo_opts) squares) [true; false]) amb_texts) all_types = true.
Proof. vm_compute. reflexivity. Qed.
Lemma castle_sweep : forallb (fun k => san_ok ([79; 45; 79] ++ k) && san_ok ([79; 45; 79; 45; 79] ++ k)) chk_texts = true.
Proof. vm_compute. reflexivity. Qed.

