(* proofs/PgnSweep.v — the complete sweep over all SAN texts (933,126 of them, as 62,210 cores x 15 suffixes): the move
   pattern, started at the first byte, matches exactly the whole text and nothing else inside it; the result pattern
   matches nowhere in it; no byte of it is a line end, blank, full stop or opening bracket. *)
Require Import LC.model.Prims LC.model.Tables LC.model.Board LC.model.Text LC.model.San LC.model.Game LC.model.Pgn LC.proofs.PgnMatch.
From Coq Require Import String Lia.
Open Scope N_scope.

(* ---------- every SAN text is found whole by the move pattern and holds no result token (finite, complete) ---------- *)
Definition amb_texts : list bytes := [] :: map print_file (map N.of_nat (seq 0 8)) ++ map print_rank (map N.of_nat (seq 0 8)) ++ map print_sq squares.
Definition promo_opts : list (option ptype) := [None; Some Knight; Some Bishop; Some Rook; Some Queen].
Definition chk_texts : list bytes := [[35]; [43]; []].
Definition san_parts (t : ptype) (a : bytes) (cap : bool) (d : square) (q : option ptype) (chk : bytes) : bytes :=
  (match t with Pawn => [] | t => letter t end) ++ a ++ (if cap then [120] else []) ++ print_sq d
  ++ (match q with Some q => 61 :: letter q | None => [] end) ++ chk.
Definition plain_char (c : N) : bool := negb ((c =? 10) || (c =? 13) || (c =? 32) || (c =? 91) || (c =? 46)).
Definition beq_toks (a b : list bytes) : bool := if list_eq_dec (list_eq_dec N.eq_dec) a b then true else false.
Definition san_ok (s : bytes) : bool :=
  beq_toks (scan moves_re s 0) [s] && beq_toks (scan result_re s 0) [] && forallb plain_char s.

(* the text of a move is a core (piece letter, disambiguation, capture mark, destination; or a castling) followed by a
   suffix (promotion, check or mate sign); the two are swept separately — 62,208 + 2 cores, 15 suffixes — and combined
   by the barrier lemmas: the first byte of a non-empty suffix is in no class and no literal of the core pattern *)
Definition core_parts (t : ptype) (a : bytes) (cap : bool) (d : square) : bytes :=
  (match t with Pawn => [] | t => letter t end) ++ a ++ (if cap then [120] else []) ++ print_sq d.
Definition suffix_parts (q : option ptype) (chk : bytes) : bytes := (match q with Some q => 61 :: letter q | None => [] end) ++ chk.
Definition alt_re : re := Alt piece_move_re castle_re.
Definition whole (l : list bytes) : bool := match l with [] :: _ => true | _ => false end.
Definition core_ok (c : bytes) : bool :=
  whole (ms alt_re c) && beq_toks (scan result_re c 0) [] && forallb plain_char c && negb (beq c []).
Definition suffix_ok (u : bytes) : bool :=
  whole (ms suffix_re u) && beq_toks (scan result_re u 0) [] && forallb plain_char u
  && match u with [] => true | b :: _ => barrier alt_re b && barrier result_re b end.
Lemma core_sweep : forallb (fun t => forallb (fun a => forallb (fun cap => forallb (fun d => core_ok (core_parts t a cap d)) squares) [true; false]) amb_texts) all_types = true.
Proof. vm_compute. reflexivity. Qed.
Lemma castle_cores : core_ok [79; 45; 79] && core_ok [79; 45; 79; 45; 79] = true.
Proof. vm_compute. reflexivity. Qed.
Lemma suffix_sweep : forallb (fun q => forallb (fun k => suffix_ok (suffix_parts q k)) chk_texts) promo_opts = true.
Proof. vm_compute. reflexivity. Qed.

Lemma beq_toks_eq a b : beq_toks a b = true -> a = b.
Proof. unfold beq_toks. destruct (list_eq_dec (list_eq_dec N.eq_dec) a b); [trivial|discriminate]. Qed.
Lemma beq_toks_refl a : beq_toks a a = true.
Proof. unfold beq_toks. destruct (list_eq_dec (list_eq_dec N.eq_dec) a a); [trivial|contradiction]. Qed.
Lemma scan_past r : forall s k, (List.length s <= k)%nat -> scan r s k = [].
Proof. induction s as [|c s IH]; intros k H; [reflexivity|]. cbn [scan]. destruct k; [cbn in H; lia|]. apply IH. cbn in H. lia. Qed.
Lemma scan_whole r s rest : s <> [] -> ms r s = [] :: rest -> scan r s 0 = [s].
Proof.
  intros NE E. destruct s as [|c s]; [contradiction|]. cbn [scan]. rewrite E. change (List.length (@nil N)) with O. rewrite Nat.sub_0_r, firstn_all.
  rewrite scan_past; [reflexivity|cbn [List.length]; lia].
Qed.
Lemma whole_spec l : whole l = true -> exists rest, l = [] :: rest.
Proof. destruct l as [|[|] rest]; try discriminate. eauto. Qed.
Lemma combine_ok c u : core_ok c = true -> suffix_ok u = true -> san_ok (c ++ u) = true.
Proof.
  unfold core_ok, suffix_ok, san_ok. intros Hc Hu.
  apply andb_prop in Hc. destruct Hc as [Hc C4]. apply andb_prop in Hc. destruct Hc as [Hc C3]. apply andb_prop in Hc. destruct Hc as [C1 C2].
  apply andb_prop in Hu. destruct Hu as [Hu U4]. apply andb_prop in Hu. destruct Hu as [Hu U3]. apply andb_prop in Hu. destruct Hu as [U1 U2].
  apply whole_spec in C1. destruct C1 as [rc C1]. apply whole_spec in U1. destruct U1 as [ru U1]. apply beq_toks_eq in C2. apply beq_toks_eq in U2.
  assert (NEc : c <> []) by (intros ->; discriminate C4).
  rewrite forallb_app, C3, U3. cbn [andb]. rewrite Bool.andb_true_r.
  destruct u as [|b u].
  - rewrite app_nil_r, C2, beq_toks_refl, Bool.andb_true_r.
    assert (E : ms moves_re c = [] :: (ru ++ flat_map (ms suffix_re) rc)).
    { change moves_re with (Seq alt_re suffix_re). cbn [ms]. rewrite C1. cbn [flat_map]. rewrite U1. reflexivity. }
    rewrite (scan_whole moves_re c _ NEc E). apply beq_toks_refl.
  - apply andb_prop in U4. destruct U4 as [B1 B2].
    assert (E : ms moves_re (c ++ b :: u) = [] :: (ru ++ flat_map (ms suffix_re) (map (fun x => x ++ b :: u) rc))).
    { change moves_re with (Seq alt_re suffix_re). cbn [ms]. rewrite (ms_barrier alt_re c b u B1), C1. cbn [map flat_map app]. rewrite U1. reflexivity. }
    assert (NE : c ++ b :: u <> []) by (destruct c; discriminate).
    rewrite (scan_whole moves_re _ _ NE E), beq_toks_refl. cbn [andb].
    rewrite (scan_barrier result_re b B2 eq_refl c u 0) by lia. rewrite C2. cbn [app].
    assert (E2 : scan result_re (b :: u) 0 = scan result_re u 0).
    { cbn [scan]. change (b :: u) with ([] ++ b :: u). rewrite (ms_barrier result_re [] b u B2). reflexivity. }
    rewrite <- E2, U2. apply beq_toks_refl.
Qed.
