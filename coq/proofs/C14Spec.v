(* proofs/C14Spec.v — no two legal moves of a valid position have the same short algebraic notation (rule level) *)
Require Import LC.model.Prims LC.model.Board LC.model.Text LC.model.San LC.spec.Chess LC.spec.SanSpec
  LC.proofs.Basics LC.proofs.Attack LC.proofs.C05Proofs LC.proofs.MoveInv LC.proofs.C02Proofs LC.proofs.Pseudo LC.proofs.PinLemma LC.proofs.C01a
  LC.proofs.C04Spec LC.proofs.ValidStep.
From Coq Require Import Lia.
Open Scope N_scope.

(* ---------- unique decomposition of a text into class-homogeneous parts ---------- *)
Definition starts_non (P : N -> bool) (r : bytes) : bool := match r with [] => true | c :: _ => negb (P c) end.
Lemma split_class (P : N -> bool) : forall l1 l2 r1 r2, forallb P l1 = true -> forallb P l2 = true ->
  starts_non P r1 = true -> starts_non P r2 = true -> l1 ++ r1 = l2 ++ r2 -> l1 = l2 /\ r1 = r2.
Proof.
  induction l1 as [|a l1 IH]; intros l2 r1 r2 F1 F2 S1 S2 E.
  - destruct l2 as [|b l2]; [auto|]. cbn in E. subst r1. cbn in S1, F2. apply andb_prop in F2. destruct F2 as [F2 _]. rewrite F2 in S1. discriminate.
  - destruct l2 as [|b l2].
    + cbn in E. subst r2. cbn in S2, F1. apply andb_prop in F1. destruct F1 as [F1 _]. rewrite F1 in S2. discriminate.
    + cbn in E. injection E as -> E. cbn in F1, F2. apply andb_prop in F1. apply andb_prop in F2. destruct F1 as [_ F1]. destruct F2 as [_ F2].
      destruct (IH l2 r1 r2 F1 F2 S1 S2 E) as [-> ->]. auto.
Qed.
Lemma app_tail2 {A} (a b : list A) x y x' y' : a ++ [x; y] = b ++ [x'; y'] -> a = b /\ x = x' /\ y = y'.
Proof.
  intros E. change (a ++ [x; y]) with (a ++ [x] ++ [y]) in E. change (b ++ [x'; y']) with (b ++ [x'] ++ [y']) in E.
  rewrite !app_assoc in E. apply app_inj_tail in E. destruct E as [E ->]. apply app_inj_tail in E. destruct E as [-> ->]. auto.
Qed.

(* ---------- characters ---------- *)
Definition isupper (c : N) : bool := (65 <=? c) && (c <=? 90).
Definition isbody (c : N) : bool := ((97 <=? c) && (c <=? 104)) || ((49 <=? c) && (c <=? 56)) || (c =? 120).
Lemma sq_text s : s < 64 -> print_sq s = [97 + sfile s; 49 + srank s] /\ sfile s < 8 /\ srank s < 8.
Proof.
  intros H. unfold print_sq. change (N.land s 7) with (file s). change (N.shiftr s 3) with (rank s).
  rewrite (file_val s H), (rank_val s H). unfold sfile, srank. split; [f_equal; [lia|f_equal; lia]|].
  split; [apply N.mod_lt; lia|apply N.div_lt_upper_bound; lia].
Qed.
Lemma sq_of_parts s t : s < 64 -> t < 64 -> sfile s = sfile t -> srank s = srank t -> s = t.
Proof.
  unfold sfile, srank. intros Hs Ht E1 E2. pose proof (N.div_mod s 8 ltac:(lia)) as X. pose proof (N.div_mod t 8 ltac:(lia)) as Y.
  rewrite E1, E2 in X. revert X Y. generalize (t / 8) (t mod 8). intros q m X Y. lia.
Qed.
Lemma letter_text t : exists c, letter t = [c] /\ isupper c = true /\ c <> 79 /\ c <> 61 /\ c <> 43 /\ c <> 35.
Proof. destruct t; eexists; (split; [reflexivity|]); repeat split; discriminate. Qed.
Lemma letter_inj t u : letter t = letter u -> t = u.
Proof. destruct t, u; cbn; try reflexivity; discriminate. Qed.

(* ---------- the parts of the text of a piece move ---------- *)
Definition head_of (m : pmove) : bytes := match pm_type m with Pawn => [] | t => letter t end.
Definition amb_text (a : amb) (m : pmove) : bytes :=
  match a with ExtraFile => print_file (file (pm_from m)) | ExtraRank => print_rank (rank (pm_from m)) | ExtraSquare => print_sq (pm_from m) | AmbNeither => [] end.
Definition cap_text (c : bool) : bytes := if c then [120] else [].
Definition promo_text (m : pmove) : bytes := match pm_promo m with Some q => 61 :: letter q | None => [] end.
Definition chk_text (pr : mprops) : bytes := if mp_mate pr then [35] else if mp_check pr then [43] else [].
Lemma san_parts m pr : san_string (MovePiece m) pr =
  head_of m ++ ((amb_text (mp_amb pr) m ++ cap_text (mp_capture pr)) ++ print_sq (pm_to m)) ++ (promo_text m ++ chk_text pr).
Proof. unfold san_string, head_of, amb_text, cap_text, promo_text, chk_text. rewrite <- !app_assoc. reflexivity. Qed.
Lemma amb_text_chars a m : pm_from m < 64 -> forallb (fun c => isbody c && negb (c =? 120)) (amb_text a m) = true.
Proof.
  intros H. destruct (sq_text _ H) as (E & F & R). pose proof (file_val _ H) as Fv. pose proof (rank_val _ H) as Rv. fold (sfile (pm_from m)) in Fv. fold (srank (pm_from m)) in Rv.
  assert (C1 : forall x, x < 8 -> isbody (97 + x) && negb (97 + x =? 120) = true).
  { intros x Hx. unfold isbody. assert ((97 <=? 97 + x) && (97 + x <=? 104) = true) as -> by (apply andb_true_intro; split; apply N.leb_le; lia).
    assert ((97 + x =? 120) = false) as -> by (apply N.eqb_neq; lia). reflexivity. }
  assert (C2 : forall x, x < 8 -> isbody (49 + x) && negb (49 + x =? 120) = true).
  { intros x Hx. unfold isbody. assert ((49 <=? 49 + x) && (49 + x <=? 56) = true) as -> by (apply andb_true_intro; split; apply N.leb_le; lia).
    assert ((49 + x =? 120) = false) as -> by (apply N.eqb_neq; lia). now rewrite orb_true_r. }
  destruct a; unfold amb_text, print_file, print_rank; rewrite ?Fv, ?Rv, ?E; cbn [forallb]; rewrite ?C1, ?C2 by assumption; reflexivity.
Qed.

Lemma body_not_upper c : isbody c = true -> isupper c = false.
Proof.
  unfold isbody, isupper. intros H. apply orb_prop in H. destruct H as [H|H]; [apply orb_prop in H; destruct H as [H|H]|].
  - apply andb_prop in H. destruct H as [H _]. apply N.leb_le in H. apply andb_false_intro2. apply N.leb_gt. lia.
  - apply andb_prop in H. destruct H as [_ H]. apply N.leb_le in H. apply andb_false_intro1. apply N.leb_gt. lia.
  - apply N.eqb_eq in H. apply andb_false_intro2. apply N.leb_gt. lia.
Qed.
Lemma starts_non_app (P Q : N -> bool) l r : (forall c, Q c = true -> P c = false) -> forallb Q l = true -> l <> [] -> starts_non P (l ++ r) = true.
Proof. intros H F N. destruct l as [|c l]; [contradiction|]. cbn in *. apply andb_prop in F. destruct F as [F _]. now rewrite (H c F). Qed.
Lemma sq_chars s : s < 64 -> forallb isbody (print_sq s) = true.
Proof.
  intros H. destruct (sq_text s H) as (E & F & R). rewrite E. cbn [forallb]. unfold isbody.
  assert ((97 <=? 97 + sfile s) && (97 + sfile s <=? 104) = true) as -> by (apply andb_true_intro; split; apply N.leb_le; lia).
  assert ((49 <=? 49 + srank s) && (49 + srank s <=? 56) = true) as -> by (apply andb_true_intro; split; apply N.leb_le; lia).
  cbn. now rewrite orb_true_r.
Qed.
Lemma forallb_weaken (P Q : N -> bool) l : (forall c, P c = true -> Q c = true) -> forallb P l = true -> forallb Q l = true.
Proof. intros H F. rewrite forallb_forall in *. intros x Hx. apply H, F, Hx. Qed.
Theorem san_piece_decode m1 pr1 m2 pr2 : pm_from m1 < 64 -> pm_to m1 < 64 -> pm_from m2 < 64 -> pm_to m2 < 64 ->
  san_string (MovePiece m1) pr1 = san_string (MovePiece m2) pr2 ->
  pm_type m1 = pm_type m2 /\ amb_text (mp_amb pr1) m1 = amb_text (mp_amb pr2) m2 /\ mp_capture pr1 = mp_capture pr2 /\
  pm_to m1 = pm_to m2 /\ pm_promo m1 = pm_promo m2 /\ chk_text pr1 = chk_text pr2.
Proof.
  intros Hs1 Hd1 Hs2 Hd2 E. rewrite !san_parts in E.
  assert (BodyAll : forall a m c, pm_from m < 64 -> pm_to m < 64 -> forallb isbody ((amb_text a m ++ cap_text c) ++ print_sq (pm_to m)) = true).
  { intros a m c H1 H2. rewrite !forallb_app, (sq_chars _ H2), andb_true_r.
    rewrite (forallb_weaken _ isbody _ (fun x Hx => proj1 (andb_prop _ _ Hx)) (amb_text_chars a m H1)). destruct c; reflexivity. }
  assert (BodyNe : forall a m c, pm_to m < 64 -> (amb_text a m ++ cap_text c) ++ print_sq (pm_to m) <> []).
  { intros a m c H2. destruct (sq_text _ H2) as (Es & _). rewrite Es. intros X. apply app_eq_nil in X. destruct X as [_ X]. discriminate. }
  assert (HeadUp : forall m, forallb isupper (head_of m) = true).
  { intros m. unfold head_of. destruct (pm_type m); try reflexivity; cbn; reflexivity. }
  (* head | rest *)
  destruct (split_class isupper _ _ _ _ (HeadUp m1) (HeadUp m2)
      (starts_non_app isupper isbody _ _ body_not_upper (BodyAll _ m1 _ Hs1 Hd1) (BodyNe _ m1 _ Hd1))
      (starts_non_app isupper isbody _ _ body_not_upper (BodyAll _ m2 _ Hs2 Hd2) (BodyNe _ m2 _ Hd2)) E) as [Eh E2].
  (* body | tail *)
  assert (TailSt : forall m pr, starts_non isbody (promo_text m ++ chk_text pr) = true).
  { intros m pr. unfold promo_text, chk_text. destruct (pm_promo m); [reflexivity|]. destruct (mp_mate pr); [reflexivity|]. destruct (mp_check pr); reflexivity. }
  destruct (split_class isbody _ _ _ _ (BodyAll _ m1 _ Hs1 Hd1) (BodyAll _ m2 _ Hs2 Hd2) (TailSt m1 pr1) (TailSt m2 pr2) E2) as [Eb Et].
  (* destination *)
  destruct (sq_text _ Hd1) as (Ed1 & F1 & R1). destruct (sq_text _ Hd2) as (Ed2 & F2 & R2). rewrite Ed1, Ed2 in Eb.
  apply app_tail2 in Eb. destruct Eb as (Epre & Ef & Er).
  assert (Eto : pm_to m1 = pm_to m2) by (apply sq_of_parts; auto; lia).
  (* disambiguation | capture mark *)
  assert (CapSt : forall c, starts_non (fun c => isbody c && negb (c =? 120)) (cap_text c) = true) by (intros []; reflexivity).
  destruct (split_class _ _ _ _ _ (amb_text_chars (mp_amb pr1) m1 Hs1) (amb_text_chars (mp_amb pr2) m2 Hs2) (CapSt _) (CapSt _) Epre) as [Ea Ec].
  assert (Ecap : mp_capture pr1 = mp_capture pr2) by (destruct (mp_capture pr1), (mp_capture pr2); try reflexivity; discriminate).
  (* promotion | check mark *)
  set (P := fun c : N => negb ((c =? 43) || (c =? 35))).
  assert (PromoAll : forall m, forallb P (promo_text m) = true).
  { intros m. unfold promo_text. destruct (pm_promo m) as [q|]; [|reflexivity]. destruct (letter_text q) as (c & -> & _ & _ & _ & N1 & N2).
    cbn [forallb]. unfold P. cbn. apply N.eqb_neq in N1. apply N.eqb_neq in N2. now rewrite N1, N2. }
  assert (ChkSt : forall pr, starts_non P (chk_text pr) = true).
  { intros pr. unfold chk_text. destruct (mp_mate pr); [reflexivity|]. destruct (mp_check pr); reflexivity. }
  destruct (split_class P _ _ _ _ (PromoAll m1) (PromoAll m2) (ChkSt pr1) (ChkSt pr2) Et) as [Ep Ek].
  assert (Epromo : pm_promo m1 = pm_promo m2).
  { unfold promo_text in Ep. destruct (pm_promo m1) as [q1|], (pm_promo m2) as [q2|]; try discriminate; [|reflexivity]. injection Ep as Ep. now rewrite (letter_inj _ _ Ep). }
  assert (Etype : pm_type m1 = pm_type m2).
  { unfold head_of in Eh. destruct (pm_type m1) eqn:T1, (pm_type m2) eqn:T2; try reflexivity; try discriminate Eh;
    try (apply (letter_inj _ _) in Eh; discriminate Eh). }
  auto 10.
Qed.

(* ---------- pawn geometry for uniqueness ---------- *)
Definition pw1 (c : color) (x d : square) : bool := match step x (fwd c, 0%Z) with Some t => t =? d | None => false end.
Definition pw2 (c : color) (x d : square) : bool :=
  (srank x =? start_rank c) && match step x (fwd c, 0%Z), step x ((2 * fwd c)%Z, 0%Z) with Some _, Some t2 => t2 =? d | _, _ => false end.
Definition pwc (c : color) (x d : square) : bool := mem d (steps x [(fwd c, 1%Z); (fwd c, (-1)%Z)]).
Definition imp (a b : bool) : bool := negb a || b.
Definition pgeoA (c : color) (s d : square) : bool :=
  imp (pw1 c s d || pw2 c s d) (sfile s =? sfile d) && imp (pwc c s d) (negb (sfile s =? sfile d)).
Definition pgeoB (c : color) (s1 s2 d : square) : bool :=
  imp (pwc c s1 d && pwc c s2 d && (sfile s1 =? sfile s2)) (s1 =? s2)
  && imp (pw1 c s1 d && pw1 c s2 d) (s1 =? s2) && imp (pw2 c s1 d && pw2 c s2 d) (s1 =? s2)
  && imp (pw1 c s1 d && pw2 c s2 d) (match step s2 (fwd c, 0%Z) with Some t => t =? s1 | None => false end).
Lemma pgeoA_sweep : forallb (fun c => forallb (fun s => forallb (fun d => pgeoA c s d) squares) squares) all_colors = true.
Proof. vm_compute. reflexivity. Qed.
Definition psrc (c : color) (d : square) : list square := filter (fun s => pw1 c s d || pw2 c s d || pwc c s d) squares.
Lemma pgeoB_sweep : forallb (fun c => forallb (fun d => forallb (fun s1 => forallb (fun s2 => pgeoB c s1 s2 d) (psrc c d)) (psrc c d)) squares) all_colors = true.
Proof. vm_compute. reflexivity. Qed.
Lemma pgeoA_ok c s d : s < 64 -> d < 64 -> pgeoA c s d = true.
Proof. intros Hs Hd. pose proof pgeoA_sweep as G. rewrite forallb_forall in G. specialize (G c ltac:(destruct c; cbn; tauto)). exact (forallb_squares2 _ G s d Hs Hd). Qed.
Lemma pgeoB_ok c s1 s2 d : s1 < 64 -> s2 < 64 -> d < 64 -> pw1 c s1 d || pw2 c s1 d || pwc c s1 d = true -> pw1 c s2 d || pw2 c s2 d || pwc c s2 d = true ->
  pgeoB c s1 s2 d = true.
Proof.
  intros H1 H2 Hd P1 P2. pose proof pgeoB_sweep as G. rewrite forallb_forall in G. specialize (G c ltac:(destruct c; cbn; tauto)).
  pose proof (forallb_squares _ G d Hd) as G1. cbv beta in G1. rewrite forallb_forall in G1.
  assert (I1 : In s1 (psrc c d)) by (apply filter_In; split; [now apply In_squares|exact P1]).
  assert (I2 : In s2 (psrc c d)) by (apply filter_In; split; [now apply In_squares|exact P2]).
  specialize (G1 s1 I1). rewrite forallb_forall in G1. exact (G1 s2 I2).
Qed.

(* a pseudo-legal pawn destination is a single push, a double push or a capture square *)
Lemma pawn_dest_kind p c s d : mem d (pawn_dests p c s) = true ->
  (pw1 c s d = true /\ occupied p d = false) \/
  (pw2 c s d = true /\ occupied p d = false /\ exists t1, step s (fwd c, 0%Z) = Some t1 /\ occupied p t1 = false) \/
  (pwc c s d = true).
Proof.
  unfold pawn_dests. rewrite !mem_app. intros H. apply orb_prop in H. destruct H as [H|H].
  - left. unfold pw1. destruct (step s (fwd c, 0%Z)) as [t|]; [|discriminate]. destruct (occupied p t) eqn:O; [discriminate|].
    rewrite mem_single in H. apply N.eqb_eq in H. subst d. now rewrite N.eqb_refl.
  - apply orb_prop in H. destruct H as [H|H].
    + right. left. unfold pw2. destruct (srank s =? start_rank c); [|discriminate]. destruct (step s (fwd c, 0%Z)) as [t1|]; [|discriminate].
      destruct (step s ((2 * fwd c)%Z, 0%Z)) as [t2|]; [|discriminate]. destruct (occupied p t1 || occupied p t2) eqn:O; [discriminate|].
      apply orb_false_elim in O. destruct O as [O1 O2]. rewrite mem_single in H. apply N.eqb_eq in H. subst d. rewrite N.eqb_refl.
      split; [reflexivity|]. split; [exact O2|]. exists t1. auto.
    + right. right. unfold pwc. rewrite mem_filter in H. apply andb_prop in H. tauto.
Qed.
Lemma opiece_refl (x : option piece) : opiece_eqb x x = true. Proof. destruct x as [[[] []]|]; reflexivity. Qed.
Section Unique.
Variable p : pos.
Hypothesis V : valid p = true.
Let c := stm p.
Lemma legal_parts m : legal p (MovePiece m) = true ->
  piece_at p (pm_from m) = Some (pm_type m, c) /\ mem (pm_to m) (pseudo_dests p (pm_from m)) = true /\ promo_ok p m = true /\
  pm_from m < 64 /\ pm_to m < 64.
Proof.
  intros L. cbn [legal] in L. repeat (apply andb_prop in L; destruct L as [L ?]). apply opiece_eqb_true in L.
  destruct (valid_parts _ V) as (Len & _). repeat split; try assumption; [exact (piece_lt _ _ _ Len L)|eapply pseudo_dests_lt; eauto].
Qed.
Lemma nonpawn_promo m : legal p (MovePiece m) = true -> pm_type m <> Pawn -> pm_promo m = None.
Proof.
  intros L Ht. destruct (legal_parts m L) as (_ & _ & Pr & _). unfold promo_ok in Pr.
  assert (ptype_eqb (pm_type m) Pawn = false) as E by (destruct (pm_type m); try reflexivity; contradiction). rewrite E in Pr. cbn [andb] in Pr.
  destruct (pm_promo m); [discriminate|reflexivity].
Qed.
Lemma rival_in m1 m2 : legal p (MovePiece m1) = true -> legal p (MovePiece m2) = true -> pm_type m1 = pm_type m2 -> pm_to m1 = pm_to m2 ->
  pm_type m1 <> Pawn -> pm_from m1 <> pm_from m2 -> In (pm_from m2) (rivals p m1).
Proof.
  intros L1 L2 Et Ed Np Nf. destruct (legal_parts m2 L2) as (P2 & _ & _ & Hs2 & _). unfold rivals. apply filter_In.
  split; [now apply In_squares|]. rewrite Et, P2, opiece_refl. fold c.
  assert ((pm_from m2 =? pm_from m1) = false) as -> by (apply N.eqb_neq; congruence). cbn [negb andb].
  assert (E : mk_pm (pm_type m2) (pm_from m2) (pm_to m1) None = m2).
  { rewrite Ed. rewrite <- (nonpawn_promo m2 L2 ltac:(congruence)). destruct m2; reflexivity. }
  rewrite E. exact L2.
Qed.
Lemma amb_rival m s : In s (rivals p m) -> pm_type m <> Pawn -> pm_type m <> King ->
  match spec_amb p m with
  | ExtraFile => sfile s <> sfile (pm_from m)
  | ExtraRank => srank s <> srank (pm_from m)
  | ExtraSquare => True
  | AmbNeither => False end.
Proof.
  intros Hin Np Nk. unfold spec_amb. destruct (pm_type m) eqn:Et; try contradiction;
  (destruct (rivals p m) as [|r0 rs] eqn:Er; [destruct Hin|]; rewrite <- Er in *;
   destruct (forallb (fun s0 => negb (sfile s0 =? sfile (pm_from m))) (rivals p m)) eqn:F1;
   [rewrite forallb_forall in F1; specialize (F1 s Hin); apply negb_true_iff in F1; now apply N.eqb_neq in F1|];
   destruct (forallb (fun s0 => negb (srank s0 =? srank (pm_from m))) (rivals p m)) eqn:F2;
   [rewrite forallb_forall in F2; specialize (F2 s Hin); apply negb_true_iff in F2; now apply N.eqb_neq in F2|exact I]).
Qed.
Lemma amb_text_shape a m : pm_from m < 64 ->
  amb_text a m = match a with ExtraFile => [97 + sfile (pm_from m)] | ExtraRank => [49 + srank (pm_from m)]
                            | ExtraSquare => [97 + sfile (pm_from m); 49 + srank (pm_from m)] | AmbNeither => [] end.
Proof.
  intros H. destruct (sq_text _ H) as (E & _). unfold amb_text, print_file, print_rank. rewrite (file_val _ H), (rank_val _ H).
  fold (sfile (pm_from m)). fold (srank (pm_from m)). destruct a; try reflexivity. exact E.
Qed.
Theorem same_origin m1 m2 : legal p (MovePiece m1) = true -> legal p (MovePiece m2) = true -> pm_type m1 = pm_type m2 -> pm_to m1 = pm_to m2 ->
  amb_text (spec_amb p m1) m1 = amb_text (spec_amb p m2) m2 -> pm_from m1 = pm_from m2.
Proof.
  intros L1 L2 Et Ed Ea. destruct (legal_parts m1 L1) as (P1 & M1 & _ & Hs1 & Hd1). destruct (legal_parts m2 L2) as (P2 & M2 & _ & Hs2 & Hd2).
  destruct (valid_parts2 _ V) as (KW & KB & _). assert (K1 : one_king p c = true) by (unfold c; destruct (stm p); assumption).
  destruct (sq_text _ Hs1) as (_ & F1 & R1). destruct (sq_text _ Hs2) as (_ & F2 & R2).
  rewrite (amb_text_shape _ m1 Hs1), (amb_text_shape _ m2 Hs2) in Ea.
  destruct (N.eq_dec (pm_from m1) (pm_from m2)) as [|Nf]; [assumption|exfalso].
  destruct (ptype_eq_dec (pm_type m1) King) as [Tk|Nk].
  { apply Nf. symmetry. apply (one_king_unique p c (pm_from m1) (pm_from m2) K1 Hs1 Hs2); [rewrite P1, Tk|rewrite P2, <- Et, Tk]; reflexivity. }
  destruct (ptype_eq_dec (pm_type m1) Pawn) as [Tp|Np].
  - (* pawns *)
    unfold spec_amb in Ea. rewrite <- Et, Tp in Ea. rewrite <- Ed in Ea.
    unfold pseudo_dests in M1, M2. rewrite P1, Tp in M1. rewrite P2, <- Et, Tp, <- Ed in M2. set (d := pm_to m1) in *.
    set (s1 := pm_from m1) in *. set (s2 := pm_from m2) in *.
    assert (IMP : forall a b0 : bool, imp a b0 = true -> a = true -> b0 = true) by (intros [] []; cbn; congruence).
    assert (FA : forall s, s < 64 -> pw1 c s d || pw2 c s d = true -> (sfile s =? sfile d) = true).
    { intros s Hs X. pose proof (pgeoA_ok c s d Hs Hd1) as A. unfold pgeoA in A. apply andb_prop in A. exact (IMP _ _ (proj1 A) X). }
    assert (FC : forall s, s < 64 -> pwc c s d = true -> (sfile s =? sfile d) = false).
    { intros s Hs X. pose proof (pgeoA_ok c s d Hs Hd1) as A. unfold pgeoA in A. apply andb_prop in A. apply negb_true_iff. exact (IMP _ _ (proj2 A) X). }
    apply pawn_dest_kind in M1. apply pawn_dest_kind in M2.
    assert (S1 : pw1 c s1 d || pw2 c s1 d || pwc c s1 d = true) by (destruct M1 as [[X _]|[[X _]|X]]; rewrite X; rewrite ?orb_true_r; reflexivity).
    assert (S2 : pw1 c s2 d || pw2 c s2 d || pwc c s2 d = true) by (destruct M2 as [[X _]|[[X _]|X]]; rewrite X; rewrite ?orb_true_r; reflexivity).
    pose proof (pgeoB_ok c s1 s2 d Hs1 Hs2 Hd1 S1 S2) as B. pose proof (pgeoB_ok c s2 s1 d Hs2 Hs1 Hd1 S2 S1) as B'. unfold pgeoB in B, B'.
    apply andb_prop in B. destruct B as [B B4]. apply andb_prop in B. destruct B as [B B3]. apply andb_prop in B. destruct B as [B1 B2].
    apply andb_prop in B'. destruct B' as [_ B4'].
    assert (Occ1 : occupied p s1 = true) by (unfold occupied; now rewrite P1).
    assert (Occ2 : occupied p s2 = true) by (unfold occupied; now rewrite P2).
    assert (PushTxt : forall s, s < 64 -> pw1 c s d || pw2 c s d = true ->
       match (if negb (sfile s =? sfile d) then ExtraFile else AmbNeither) with ExtraFile => [97 + sfile s] | ExtraRank => [49 + srank s] | ExtraSquare => [97 + sfile s; 49 + srank s] | AmbNeither => [] end = []).
    { intros s Hs X. now rewrite (FA s Hs X). }
    assert (CapTxt : forall s, s < 64 -> pwc c s d = true ->
       match (if negb (sfile s =? sfile d) then ExtraFile else AmbNeither) with ExtraFile => [97 + sfile s] | ExtraRank => [49 + srank s] | ExtraSquare => [97 + sfile s; 49 + srank s] | AmbNeither => [] end = [97 + sfile s]).
    { intros s Hs X. now rewrite (FC s Hs X). }
    destruct M1 as [[X1 O1]|[[X1 [O1 (t1 & St1 & Ot1)]]|X1]]; destruct M2 as [[X2 O2]|[[X2 [O2 (t2 & St2 & Ot2)]]|X2]].
    + apply Nf. apply N.eqb_eq. apply (IMP _ _ B2). now rewrite X1, X2.
    + pose proof (IMP _ _ B4 ltac:(now rewrite X1, X2)) as Y. rewrite St2 in Y. apply N.eqb_eq in Y. subst t2. congruence.
    + rewrite (FA s1 Hs1 ltac:(now rewrite X1)), (FC s2 Hs2 X2) in Ea. discriminate.
    + pose proof (IMP _ _ B4' ltac:(now rewrite X1, X2)) as Y. rewrite St1 in Y. apply N.eqb_eq in Y. subst t1. congruence.
    + apply Nf. apply N.eqb_eq. apply (IMP _ _ B3). now rewrite X1, X2.
    + rewrite (FA s1 Hs1 ltac:(rewrite X1; apply orb_true_r)), (FC s2 Hs2 X2) in Ea. discriminate.
    + rewrite (FC s1 Hs1 X1), (FA s2 Hs2 ltac:(now rewrite X2)) in Ea. discriminate.
    + rewrite (FC s1 Hs1 X1), (FA s2 Hs2 ltac:(rewrite X2; apply orb_true_r)) in Ea. discriminate.
    + rewrite (FC s1 Hs1 X1), (FC s2 Hs2 X2) in Ea. cbn [negb] in Ea.
      assert (Ef : sfile s1 = sfile s2) by (apply (N.add_cancel_l _ _ 97); congruence).
      apply Nf. apply N.eqb_eq. apply (IMP _ _ B1). rewrite X1, X2, Ef, N.eqb_refl. reflexivity.
  - (* knights, bishops, rooks, queens *)
    pose proof (rival_in m1 m2 L1 L2 Et Ed Np Nf) as R1'.
    pose proof (rival_in m2 m1 L2 L1 (eq_sym Et) (eq_sym Ed) ltac:(congruence) ltac:(congruence)) as R2'.
    pose proof (amb_rival m1 _ R1' Np Nk) as Q1. pose proof (amb_rival m2 _ R2' ltac:(congruence) ltac:(congruence)) as Q2.
    remember (sfile (pm_from m1)) as f1 eqn:Ef1. remember (sfile (pm_from m2)) as f2 eqn:Ef2.
    remember (srank (pm_from m1)) as r1 eqn:Er1. remember (srank (pm_from m2)) as r2 eqn:Er2.
    assert (one_inj : forall a b0 : N, [a] = [b0] -> a = b0) by (intros a b0 X; exact (f_equal (hd 0) X)).
    assert (two_inj : forall a a' b0 b' : N, [a; a'] = [b0; b'] -> a = b0 /\ a' = b') by (intros a a' b0 b' X; split; [exact (f_equal (hd 0) X)|exact (f_equal (fun l => nth 1 l 0) X)]).
    destruct (spec_amb p m1), (spec_amb p m2); try contradiction; try discriminate Ea.
    + apply one_inj in Ea. lia.
    + apply one_inj in Ea. lia.
    + apply one_inj in Ea. lia.
    + apply one_inj in Ea. lia.
    + apply two_inj in Ea. destruct Ea as [Ea1 Ea2]. apply Nf. apply sq_of_parts; auto; [rewrite <- Ef1, <- Ef2|rewrite <- Er1, <- Er2]; lia.
Qed.
End Unique.

(* ---------- no two legal moves share a text ---------- *)
Lemma first_char_piece m pr : pm_from m < 64 -> pm_to m < 64 -> exists ch rest, san_string (MovePiece m) pr = ch :: rest /\ ch <> 79.
Proof.
  intros Hs Hd. rewrite san_parts. unfold head_of. destruct (sq_text _ Hd) as (Ed & Fd & Rd). destruct (sq_text _ Hs) as (Es & Fs & Rs).
  assert (Body : exists ch rest, (amb_text (mp_amb pr) m ++ cap_text (mp_capture pr)) ++ print_sq (pm_to m) = ch :: rest /\ ch <> 79).
  { rewrite (amb_text_shape _ m Hs), Ed. destruct (mp_amb pr); cbn [app]; try (eexists; eexists; split; [reflexivity|lia]).
    destruct (mp_capture pr); cbn [cap_text app]; eexists; eexists; (split; [reflexivity|lia]). }
  destruct (pm_type m) eqn:Et; try (destruct (letter_text (pm_type m)) as (ch & El & _ & N79 & _); rewrite Et in El; rewrite El; cbn [app]; eauto).
  destruct Body as (ch & rest & E & N). cbn [app]. rewrite E. cbn [app]. eauto.
Qed.
Lemma chk_short pr : chk_text pr = [] \/ chk_text pr = [43] \/ chk_text pr = [35].
Proof. unfold chk_text. destruct (mp_mate pr); [auto|]. destruct (mp_check pr); auto. Qed.
Theorem san_injective p mv1 mv2 : valid p = true -> legal p mv1 = true -> legal p mv2 = true -> san p mv1 = san p mv2 -> mv1 = mv2.
Proof.
  intros V L1 L2 E. unfold san in E.
  destruct mv1 as [m1| |], mv2 as [m2| |]; try reflexivity.
  - destruct (legal_parts p V m1 L1) as (_ & _ & _ & Hs1 & Hd1). destruct (legal_parts p V m2 L2) as (_ & _ & _ & Hs2 & Hd2).
    destruct (san_piece_decode m1 _ m2 _ Hs1 Hd1 Hs2 Hd2 E) as (Et & Ea & _ & Ed & Ep & _). cbn [spec_props mp_amb] in Ea.
    pose proof (same_origin p V m1 m2 L1 L2 Et Ed Ea) as Ef. destruct m1, m2. cbn in *. now subst.
  - exfalso. destruct (legal_parts p V m1 L1) as (_ & _ & _ & Hs1 & Hd1). destruct (first_char_piece m1 (spec_props p (MovePiece m1)) Hs1 Hd1) as (ch & rest & E1 & N).
    rewrite E1 in E. cbn in E. congruence.
  - exfalso. destruct (legal_parts p V m1 L1) as (_ & _ & _ & Hs1 & Hd1). destruct (first_char_piece m1 (spec_props p (MovePiece m1)) Hs1 Hd1) as (ch & rest & E1 & N).
    rewrite E1 in E. cbn in E. congruence.
  - exfalso. destruct (legal_parts p V m2 L2) as (_ & _ & _ & Hs2 & Hd2). destruct (first_char_piece m2 (spec_props p (MovePiece m2)) Hs2 Hd2) as (ch & rest & E2 & N).
    rewrite E2 in E. cbn in E. congruence.
  - exfalso. change (san_string CastleK ?x) with ([79; 45; 79] ++ chk_text x) in E. change (san_string CastleQ ?x) with ([79; 45; 79; 45; 79] ++ chk_text x) in E.
    cbn [app] in E. injection E as E. destruct (chk_short (spec_props p CastleK)) as [X|[X|X]]; rewrite X in E; discriminate.
  - exfalso. destruct (legal_parts p V m2 L2) as (_ & _ & _ & Hs2 & Hd2). destruct (first_char_piece m2 (spec_props p (MovePiece m2)) Hs2 Hd2) as (ch & rest & E2 & N).
    rewrite E2 in E. cbn in E. congruence.
  - exfalso. change (san_string CastleK ?x) with ([79; 45; 79] ++ chk_text x) in E. change (san_string CastleQ ?x) with ([79; 45; 79; 45; 79] ++ chk_text x) in E.
    cbn [app] in E. injection E as E. destruct (chk_short (spec_props p CastleK)) as [X|[X|X]]; rewrite X in E; discriminate.
Qed.
