(* proofs/Bits.v — the bitboard iterator (trailing_zeros + xor) enumerates exactly the set bits in
   ascending order, for every bitboard; population count, lowest and highest square. *)
Require Import LC.model.Prims LC.proofs.Basics.
From Coq Require Import Lia Sorted.
Open Scope N_scope.

(* structural enumeration of the set bits of a positive, offset by k *)
Fixpoint pbits (p : positive) (k : N) : list N :=
  match p with xH => [k] | xO q => pbits q (N.succ k) | xI q => k :: pbits q (N.succ k) end.
Definition sbits (b : N) : list N := match b with N0 => [] | Npos p => pbits p 0 end.

Lemma pbits_In p : forall k i, In i (pbits p k) <-> (k <= i /\ N.testbit (Npos p) (i - k) = true).
Proof.
  induction p as [q IH|q IH|]; intros k i; cbn [pbits].
  - cbn [In]. rewrite IH. split.
    + intros [<-|[H1 H2]]. { split; [lia|]. now rewrite N.sub_diag. }
      split; [lia|]. replace (i - k) with (N.succ (i - N.succ k)) by lia.
      rewrite <- H2. change (N.pos q~1) with (2 * N.pos q + 1). now rewrite N.testbit_odd_succ by lia.
    + intros [H1 H2]. destruct (N.eq_dec k i) as [->|Hne]; [now left|right].
      split; [lia|]. replace (i - k) with (N.succ (i - N.succ k)) in H2 by lia.
      change (N.pos q~1) with (2 * N.pos q + 1) in H2. now rewrite N.testbit_odd_succ in H2 by lia.
  - rewrite IH. split.
    + intros [H1 H2]. split; [lia|]. replace (i - k) with (N.succ (i - N.succ k)) by lia.
      change (N.pos q~0) with (2 * N.pos q). now rewrite N.testbit_even_succ by lia.
    + intros [H1 H2]. destruct (N.eq_dec k i) as [->|Hne].
      { rewrite N.sub_diag in H2. discriminate. }
      split; [lia|]. replace (i - k) with (N.succ (i - N.succ k)) in H2 by lia.
      change (N.pos q~0) with (2 * N.pos q) in H2. now rewrite N.testbit_even_succ in H2 by lia.
  - cbn [In]. split.
    + intros [<-|[]]. split; [lia|]. now rewrite N.sub_diag.
    + intros [H1 H2]. left. destruct (N.eq_dec (i-k) 0) as [E|E]; [lia|].
      exfalso. destruct (i - k) eqn:E2; [lia|]. cbn in H2. destruct p; discriminate.
Qed.
Lemma sbits_In b i : In i (sbits b) <-> N.testbit b i = true.
Proof.
  destruct b as [|p]; cbn [sbits].
  - rewrite N.bits_0. split; [intros []|discriminate].
  - rewrite pbits_In, N.sub_0_r. split; [tauto|]. intros H; split; [lia|exact H].
Qed.
Lemma pbits_lb p : forall k i, In i (pbits p k) -> k <= i.
Proof. intros k i H. apply pbits_In in H. tauto. Qed.
Lemma pbits_sorted p : forall k, StronglySorted N.lt (pbits p k).
Proof.
  induction p as [q IH|q IH|]; intros k; cbn [pbits].
  - constructor; [apply IH|]. apply Forall_forall. intros x Hx. apply pbits_lb in Hx. lia.
  - apply IH.
  - repeat constructor.
Qed.
Lemma sbits_sorted b : StronglySorted N.lt (sbits b).
Proof. destruct b; cbn; [constructor|apply pbits_sorted]. Qed.
Lemma pbits_head p : forall k, exists r, pbits p k = (k + ctz_pos p) :: r.
Proof.
  induction p as [q IH|q IH|]; intros k; cbn [pbits ctz_pos].
  - eexists. now rewrite N.add_0_r.
  - destruct (IH (N.succ k)) as [r Hr]. exists r. rewrite Hr. f_equal. lia.
  - eexists. now rewrite N.add_0_r.
Qed.
Lemma pbits_length p k : N.of_nat (length (pbits p k)) = popc_pos p.
Proof. revert k; induction p as [q IH|q IH|]; intros k; cbn [pbits popc_pos length]; rewrite ?Nat2N.inj_succ, ?IH; reflexivity. Qed.
Lemma sbits_length b : N.of_nat (length (sbits b)) = popcount b.
Proof. destruct b; [reflexivity|apply pbits_length]. Qed.

Lemma sorted_ext (l1 l2 : list N) : StronglySorted N.lt l1 -> StronglySorted N.lt l2 ->
  (forall x, In x l1 <-> In x l2) -> l1 = l2.
Proof.
  revert l2; induction l1 as [|a l1 IH]; intros l2 S1 S2 H.
  - destruct l2 as [|b l2]; [reflexivity|]. exfalso. apply (H b). now left.
  - destruct l2 as [|b l2]. { exfalso. apply (H a). now left. }
    inversion S1 as [|? ? S1' F1]; subst. inversion S2 as [|? ? S2' F2]; subst.
    rewrite Forall_forall in F1, F2.
    assert (a = b).
    { destruct (proj1 (H a) (or_introl eq_refl)) as [E|E]; [now symmetry|].
      destruct (proj2 (H b) (or_introl eq_refl)) as [E'|E']; [exact E'|].
      specialize (F1 _ E'). specialize (F2 _ E). lia. }
    subst b. f_equal. apply IH; auto. intros x. split; intros Hx.
    + destruct (proj1 (H x) (or_intror Hx)) as [E|E]; [|exact E]. subst x. specialize (F1 _ Hx). lia.
    + destruct (proj2 (H x) (or_intror Hx)) as [E|E]; [|exact E]. subst x. specialize (F2 _ Hx). lia.
Qed.
Lemma sorted_NoDup (l : list N) : StronglySorted N.lt l -> NoDup l.
Proof.
  induction 1 as [|a l S IH F]; constructor; auto. rewrite Forall_forall in F. intros Hin. specialize (F _ Hin). lia.
Qed.

Lemma sbits_clear_lowest b t : last_bit_square b = Some t -> sbits b = t :: sbits (N.lxor b (bit t)).
Proof.
  intros Hl. destruct b as [|p]; [discriminate|]. cbn in Hl. injection Hl as <-.
  destruct (pbits_head p 0) as [r Hr]. rewrite N.add_0_l in Hr. cbn [sbits]. rewrite Hr. f_equal.
  pose proof (sbits_sorted (Npos p)) as S. cbn [sbits] in S. rewrite Hr in S. inversion S as [|? ? S' F]; subst.
  apply sorted_ext; [exact S'|apply sbits_sorted|]. rewrite Forall_forall in F.
  intros x. rewrite sbits_In, N.lxor_spec. unfold bit. rewrite N.shiftl_1_l, N.pow2_bits_eqb.
  pose proof (sbits_In (Npos p) x) as HI. cbn [sbits] in HI. rewrite Hr in HI. cbn [In] in HI.
  destruct (N.eqb_spec (ctz_pos p) x) as [E|E].
  - subst x. split.
    + intros Hx. specialize (F _ Hx). lia.
    + intros Hx. assert (N.testbit (N.pos p) (ctz_pos p) = true) as Ht by (apply HI; now left).
      rewrite Ht in Hx. discriminate.
  - rewrite xorb_false_r. split.
    + intros Hx. apply HI. now right.
    + intros Hx. apply HI in Hx. destruct Hx; [contradiction|assumption].
Qed.
Lemma iter_sbits fuel : forall b, (length (sbits b) <= fuel)%nat -> iter_fuel fuel b = sbits b.
Proof.
  induction fuel as [|f IH]; intros b Hb.
  - destruct (sbits b); [reflexivity|cbn in Hb; lia].
  - cbn [iter_fuel]. destruct (last_bit_square b) as [t|] eqn:E.
    + rewrite (sbits_clear_lowest _ _ E). f_equal. apply IH. rewrite (sbits_clear_lowest _ _ E) in Hb. cbn [length] in Hb. lia.
    + destruct b; [reflexivity|discriminate].
Qed.

(* a bitboard is a u64 *)
Definition u64 (b : N) : Prop := b < 2 ^ 64.
Lemma u64_testbit b i : u64 b -> N.testbit b i = true -> i < 64.
Proof.
  intros Hb Ht. destruct (N.lt_ge_cases i 64) as [|Hge]; [assumption|].
  destruct (N.eq_dec b 0) as [->|Hz]. { rewrite N.bits_0 in Ht. discriminate. }
  rewrite N.bits_above_log2 in Ht; [discriminate|].
  apply N.log2_lt_pow2 in Hb; [|lia]. lia.
Qed.
Lemma sbits_len64 b : u64 b -> (length (sbits b) <= 64)%nat.
Proof.
  intros Hb. change 64%nat with (length squares). apply NoDup_incl_length.
  - apply sorted_NoDup, sbits_sorted.
  - intros x Hx. apply In_squares. apply sbits_In in Hx. eapply u64_testbit; eauto.
Qed.
Lemma bits_sbits b : u64 b -> bits b = sbits b.
Proof. intros Hb. apply iter_sbits. now apply sbits_len64. Qed.

Lemma squares_sorted_gen a n : StronglySorted N.lt (map N.of_nat (seq a n)).
Proof.
  revert a; induction n as [|n IH]; intros a; cbn; constructor; [apply IH|].
  apply Forall_forall. intros x Hx. apply in_map_iff in Hx. destruct Hx as [y [<- Hy]]. apply in_seq in Hy. lia.
Qed.
Lemma filter_sorted (f : N -> bool) l : StronglySorted N.lt l -> StronglySorted N.lt (filter f l).
Proof.
  induction 1 as [|a l S IH F]; cbn; [constructor|]. destruct (f a); [|exact IH].
  constructor; [exact IH|]. rewrite Forall_forall in *. intros x Hx. apply filter_In in Hx. apply F. tauto.
Qed.

(* the headline facts *)
Lemma bits_spec b : u64 b -> bits b = filter (N.testbit b) squares.
Proof.
  intros Hb. rewrite bits_sbits by assumption.
  apply sorted_ext; [apply sbits_sorted|apply filter_sorted, squares_sorted_gen|].
  intros x. rewrite sbits_In, filter_In, In_squares. split; [|tauto].
  intros H. split; [eapply u64_testbit; eauto|assumption].
Qed.
Lemma bits_In b i : u64 b -> (In i (bits b) <-> N.testbit b i = true).
Proof. intros Hb. rewrite bits_sbits by assumption. apply sbits_In. Qed.
Lemma bits_NoDup b : u64 b -> NoDup (bits b).
Proof. intros Hb. rewrite bits_sbits by assumption. apply sorted_NoDup, sbits_sorted. Qed.
Lemma bits_sorted b : u64 b -> StronglySorted N.lt (bits b).
Proof. intros Hb. rewrite bits_sbits by assumption. apply sbits_sorted. Qed.
Lemma popcount_length b : u64 b -> popcount b = N.of_nat (length (bits b)).
Proof. intros Hb. rewrite bits_sbits by assumption. symmetry. apply sbits_length. Qed.
Lemma last_bit_is_head b : u64 b -> last_bit_square b = hd_error (bits b).
Proof.
  intros Hb. rewrite bits_sbits by assumption. destruct b as [|p]; [reflexivity|].
  cbn. destruct (pbits_head p 0) as [r ->]. reflexivity.
Qed.
Lemma first_bit_is_max b : u64 b -> b <> 0 ->
  exists m, first_bit_square b = Some m /\ In m (bits b) /\ forall i, In i (bits b) -> i <= m.
Proof.
  intros Hb Hz. exists (N.log2 b). split; [destruct b; [contradiction|reflexivity]|]. split.
  - apply bits_In; [assumption|]. apply N.bit_log2. exact Hz.
  - intros i Hi. apply bits_In in Hi; [|assumption]. destruct (N.le_gt_cases i (N.log2 b)) as [|Hgt]; [assumption|].
    rewrite N.bits_above_log2 in Hi by assumption. discriminate.
Qed.
Lemma to_square_spec b : u64 b -> to_square b = match bits b with [] => Panic | s :: _ => Ok s end.
Proof.
  intros Hb. pose proof (last_bit_is_head b Hb) as H. unfold to_square, ctz. destruct b as [|p].
  - reflexivity.
  - destruct (bits (N.pos p)) as [|s r] eqn:E; cbn [hd_error last_bit_square] in H; [discriminate|].
    assert (Hs' : ctz_pos p = s) by congruence.
    assert (In s (bits (N.pos p))) as Hin by (rewrite E; now left).
    apply bits_In in Hin; [|assumption]. pose proof (u64_testbit _ _ Hb Hin) as Hs.
    rewrite Hs'. unfold sq_new. apply N.ltb_lt in Hs. now rewrite Hs.
Qed.
