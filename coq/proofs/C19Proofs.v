(* proofs/C19Proofs.v — the symmetry of the rules (Symmetry.v) transferred to the board model through C01–C05:
   for a board b whose invariants hold and any board b' whose invariants hold and whose mailbox position is the image of
   b's (such a board exists: the constructor builds it), legal moves, check and pin masks, status and successors of b'
   are the images of those of b. *)
Require Import LC.model.Prims LC.model.Tables LC.model.Board LC.spec.Chess LC.spec.Sym
  LC.proofs.Basics LC.proofs.MaskInv LC.proofs.HashInv LC.proofs.MoveInv LC.proofs.C05Proofs LC.proofs.C05Pins LC.proofs.C02Proofs
  LC.proofs.C01a LC.proofs.C01b LC.proofs.C09Proofs LC.proofs.C04Proofs LC.proofs.C03Proofs LC.proofs.ValidStep LC.proofs.Reach LC.proofs.Total
  LC.proofs.Symmetry LC.proofs.SymInst.
From Coq Require Import Lia.
Open Scope N_scope.

Definition builder_of_pos (p : pos) : builder :=
  {| bd_pieces := placement p; bd_stm := stm p; bd_wr := rights_w p; bd_br := rights_b p; bd_ep := ep p; bd_half := half p; bd_full := full p |}.
Lemma pos_of_builder p : pos_of (builder_of_pos p) = p. Proof. now destruct p. Qed.

Section Transfer.
Variable K : zkeys.
Variables (sq : square -> square) (dr : Z * Z -> Z * Z) (col : color -> color).
Hypothesis S1 : sweep1 sq dr col = true.
Hypothesis S2 : sweep2 sq = true.
Hypothesis S3 : sweep3 dr col = true.
Let TT := symT sq col.

(* the image position is constructible, and the constructed board is Good *)
Theorem image_board b : Good K b -> HomeSym sq col (abs b) ->
  exists b', try_from_builder K (builder_of_pos (TT (abs b))) = Ok b' /\ abs b' = TT (abs b) /\ Good K b'.
Proof.
  intros G HS. destruct (sym_of_sweeps sq dr col S1 S2 S3 (abs b) (g_valid K b G) HS) as (V' & _).
  assert (W : wf_builder (builder_of_pos (TT (abs b)))).
  { destruct (valid_wfpos _ V') as [L E]. split; [exact L|exact E]. }
  destruct (construction K _ W) as [H1 _]. rewrite pos_of_builder in H1. destruct (H1 V') as (b' & E & A & _).
  exists b'. split; [exact E|]. split; [exact A|]. destruct (good_build K _ b' W E) as [G' _]. exact G'.
Qed.

Variables b b' : board.
Hypothesis G : Good K b.
Hypothesis G' : Good K b'.
Hypothesis HS : HomeSym sq col (abs b).
Hypothesis A : abs b' = TT (abs b).

Theorem transfer_legal_moves : exists l l', legal_moves K b = Ok l /\ legal_moves K b' = Ok l' /\
  forall mv, wf_bmove mv -> (In (Tmv sq mv) l' <-> In mv l).
Proof.
  destruct G as [[I _] D V _]. destruct G' as [[I' _] D' V' _].
  destruct (legal_moves_exact K b I D V) as (l & E & H). destruct (legal_moves_exact K b' I' D' V') as (l' & E' & H').
  exists l, l'. split; [exact E|]. split; [exact E'|]. intros mv W. rewrite (H' (Tmv sq mv)), (H mv), A.
  destruct (sym_of_sweeps sq dr col S1 S2 S3 (abs b) V HS) as (_ & L & _). unfold TT. rewrite (L mv W). reflexivity.
Qed.
Theorem transfer_masks : (forall a, a < 64 -> has (b_checks b') (sq a) = has (b_checks b) a) /\
  (forall u, u < 64 -> has (b_pinned b') (sq u) = has (b_pinned b) u) /\ b_stm b' = col (b_stm b).
Proof.
  destruct G as [[I _] D V _]. destruct G' as [[I' _] D' V' _].
  destruct (sym_of_sweeps sq dr col S1 S2 S3 (abs b) V HS) as (_ & _ & _ & C & P & _).
  assert (Sq : forall s, s < 64 -> sq s < 64).
  { intros s Hs. pose proof (forallb_squares _ S1 s Hs) as X. repeat (apply andb_prop in X; destruct X as [X ?]). now apply N.ltb_lt. }
  assert (St : b_stm b' = col (b_stm b)) by (change (b_stm b') with (stm (abs b')); rewrite A; reflexivity).
  split; [|split; [|exact St]].
  - intros a Ha. rewrite (check_mask_spec b' I' D' (sq a) (Sq a Ha)), (check_mask_spec b I D a Ha), A. exact (C a Ha).
  - intros u Hu. rewrite (pin_mask_spec b' I' D' (sq u) (Sq u Hu)), (pin_mask_spec b I D u Hu), A, St. exact (P u Hu).
Qed.
Theorem transfer_status : get_status b = Ok (enc_status (board_status (abs b))) /\
  get_status b' = Ok (enc_status (Tstatus col (board_status (abs b)))).
Proof.
  destruct G as [[I _] D V Tm]. destruct G' as [[I' _] D' V' Tm'].
  destruct (sym_of_sweeps sq dr col S1 S2 S3 (abs b) V HS) as (_ & _ & _ & _ & _ & _ & St & _).
  split; [exact (get_status_spec b I V D Tm)|]. rewrite (get_status_spec b' I' V' D' Tm'), A. unfold TT. now rewrite St.
Qed.
Theorem transfer_successor mv : wf_bmove mv ->
  (legal (abs b) mv = true ->
     exists b1 b1', make_move K b mv = Ok b1 /\ make_move K b' (Tmv sq mv) = Ok b1' /\ sim (abs b1') (TT (abs b1))) /\
  (legal (abs b) mv = false -> make_move K b mv = Err EIllegalMove /\ make_move K b' (Tmv sq mv) = Err EIllegalMove).
Proof.
  intros W. destruct (sym_of_sweeps sq dr col S1 S2 S3 (abs b) (g_valid K b G) HS) as (_ & L & Sm & _).
  assert (Sq : forall s, s < 64 -> sq s < 64).
  { intros s Hs. pose proof (forallb_squares _ S1 s Hs) as X. repeat (apply andb_prop in X; destruct X as [X ?]). now apply N.ltb_lt. }
  assert (W' : wf_bmove (Tmv sq mv)) by (destruct mv as [m| |]; cbn; [destruct W; split; now apply Sq|exact I|exact I]).
  destruct (make_move_total K b mv G W) as [T1 T2]. destruct (make_move_total K b' (Tmv sq mv) G' W') as [T1' T2'].
  assert (EL : legal (abs b') (Tmv sq mv) = legal (abs b) mv) by (rewrite A; exact (L mv W)).
  split; intros Lm.
  - destruct (T1 Lm) as (b1 & E1). destruct (T1' ltac:(rewrite EL; exact Lm)) as (b1' & E1').
    exists b1, b1'. split; [exact E1|]. split; [exact E1'|].
    destruct (good_step K b mv b1 G W E1) as (_ & A1 & _). destruct (good_step K b' (Tmv sq mv) b1' G' W' E1') as (_ & A1' & _).
    rewrite A1, A1', A. exact (Sm mv W Lm).
  - split; [exact (T2 Lm)|]. apply T2'. rewrite EL. exact Lm.
Qed.
End Transfer.
