(* proofs/C10Total.v — the entry points built on the parsers never panic: from_fen on any string, the game protocol
   on any action, PGN import (after tokenisation) on any tokens *)
Require Import LC.model.Prims LC.model.Tables LC.model.Board LC.model.Text LC.model.Fen LC.model.San LC.model.Game LC.spec.Chess LC.spec.SanSpec LC.spec.Protocol
  LC.proofs.Basics LC.proofs.MaskInv LC.proofs.MoveInv LC.proofs.C05Proofs LC.proofs.C02Proofs LC.proofs.C01b LC.proofs.C09Proofs LC.proofs.C10Proofs
  LC.proofs.C04Proofs LC.proofs.C12Proofs LC.proofs.C11Proofs LC.proofs.C13Proofs LC.proofs.Reach LC.proofs.Total LC.proofs.Symmetry LC.proofs.C14Proofs LC.proofs.C15Proofs.
From Coq Require Import Lia.
Open Scope N_scope.

(* ---------- from_fen ---------- *)
Lemma fen_step_len st c st' : fen_step st c = Ok st' -> length (snd st') = length (snd st).
Proof.
  destruct st as [[r f] pcs]. unfold fen_step. destruct (c =? 47).
  - destruct (idx_down r); try discriminate. now intros [= <-].
  - destruct (_ && _). { destruct (idx8_of _); intros [= <-]; reflexivity. }
    destruct (is_fen_letter c); [|discriminate]. destruct (fen_piece_of c); [|discriminate]. intros [= <-]. cbn [snd]. apply set_nth_length.
Qed.
Lemma parse_placement_len s pcs : parse_placement s = Ok pcs -> length pcs = 64%nat.
Proof.
  unfold parse_placement. intros E. apply bind_ok in E. destruct E as (st & E & [= <-]).
  assert (F : forall l acc st0, fold_left (fun acc c => a <- acc ;; fen_step a c) l acc = Ok st0 ->
              exists a0, acc = Ok a0 /\ length (snd st0) = length (snd a0)).
  { induction l as [|c l IH]; intros acc st0 H; [exists st0; auto|]. cbn [fold_left] in H. destruct (IH _ _ H) as (a1 & E1 & L1).
    destruct acc as [a0| |]; cbn [bind] in E1; try discriminate. exists a0. split; [reflexivity|]. rewrite L1. exact (fen_step_len a0 c a1 E1). }
  destruct (F _ _ _ E) as (a0 & E0 & L0). injection E0 as <-. rewrite L0. reflexivity.
Qed.
Lemma parse_fen_wf s bd : parse_fen s = Ok bd -> wf_builder bd.
Proof.
  unfold parse_fen. destruct (split_on 32 s []) as [|p [|sd [|c [|e [|h [|f [|? ?]]]]]]]; try discriminate.
  intros E. apply bind_ok in E. destruct E as (hv & _ & E). apply bind_ok in E. destruct E as (fv & _ & E).
  apply bind_ok in E. destruct E as (pcs & Ep & E). apply bind_ok in E. destruct E as (col & _ & [= <-]).
  split; cbn [bd_pieces bd_ep]; [exact (parse_placement_len p pcs Ep)|].
  intros q Hq. destruct (parse_sq e) as [x| |] eqn:Ex; try discriminate. injection Hq as <-. exact (parse_sq_lt e x Ex).
Qed.
Section T.
Variable K : zkeys.
Theorem from_fen_total s : from_fen K s <> Panic.
Proof.
  unfold from_fen. destruct (parse_fen s) as [bd| |] eqn:E; cbn [bind]; [|discriminate|exfalso; exact (parse_fen_total s E)].
  destruct (construction K bd (parse_fen_wf s bd E)) as [H1 H2]. destruct (valid (pos_of bd)).
  - destruct (H1 eq_refl) as (b & -> & _). discriminate.
  - destruct (H2 eq_refl) as (e & ->). discriminate.
Qed.

(* ---------- the game protocol ---------- *)
Definition GameGood (g : game) : Prop := Good K (g_pos g) /\ CountInv g /\ LastInv g.
Lemma get_status_good b : Good K b -> exists bs, get_status b = Ok bs.
Proof. intros [[I _] D V T]. eexists. exact (get_status_spec b I V D T). Qed.
Lemma update_status_total g a : Good K (g_pos g) -> exists g', update_game_status g a = Ok g'.
Proof.
  intros G. unfold update_game_status. destruct (get_status_good _ G) as (bs & E). destruct a as [[m|c| | |c]|]; cbn [bind]; rewrite ?E; cbn [bind]; eexists; reflexivity.
Qed.
Lemma last_some (l : list board) d : l <> [] -> last (map Some l) None = Some (last l d).
Proof. intros NE. induction l as [|x l IH]; [contradiction|]. destruct l as [|y r]; [reflexivity|]. cbn [map last] in *. apply IH. discriminate. Qed.
Theorem game_step_total g a : GameGood g -> wf_action a -> game_step K g a <> Panic.
Proof.
  intros (G & _ & L & NE) W. unfold game_step. destruct (g_status g) as [|c0|c0|c0| | | | |]; try discriminate; destruct a as [m|c| | |c]; try discriminate.
  destruct (make_move_total K (g_pos g) m G W) as [T1 T2]. destruct (legal (abs (g_pos g)) m) eqn:Lg.
  - destruct (T1 eq_refl) as (b' & Em). rewrite Em. destruct (good_step K (g_pos g) m b' G W Em) as (_ & _ & G').
    unfold history_push. cbn [g_positions position_counter_increment with_pos]. rewrite (last_some _ (g_pos g) NE), L. cbn [unwrap_o bind].
    destruct (move_props_spec K (g_pos g) G m W) as [A1 _]. rewrite (A1 Lg). cbn [unwrap bind].
    match goal with |- update_game_status ?gg ?aa <> Panic => destruct (update_status_total gg aa G') as (g' & ->) end. discriminate.
  - rewrite (T2 eq_refl). discriminate.
Qed.
Theorem GameGood_step g a g' : GameGood g -> wf_action a -> game_step K g a = Ok g' -> GameGood g'.
Proof.
  intros (G & C & L) W E. destruct (CountInv_step K g a g' C L E) as [C' L']. split; [|split; assumption].
  destruct (game_step_status K g a g' E) as (_ & _ & S). destruct a as [m|c| | |c].
  - destruct S as (bs & _ & Em & _). exact (proj2 (proj2 (good_step K (g_pos g) m (g_pos g') G W Em))).
  - destruct S as (_ & -> & _). exact G.
  - destruct S as (_ & -> & _). exact G.
  - destruct S as (_ & -> & _). exact G.
  - destruct S as (_ & -> & _). exact G.
Qed.
Theorem GameGood_init b g : Good K b -> game_from_board b = Ok g -> GameGood g.
Proof.
  intros G E. destruct (CountInv_init b g E) as [C L]. destruct (game_from_board_spec b g E) as (_ & P1 & _). split; [now rewrite P1|split; assumption].
Qed.
Theorem game_from_board_total b : Good K b -> exists g, game_from_board b = Ok g.
Proof.
  intros G. unfold game_from_board.
  match goal with |- context [update_game_status ?gg None] => destruct (update_status_total gg None G) as (g' & ->) end. cbn [bind]. eexists. reflexivity.
Qed.
(* every action sequence: no panic anywhere *)
Theorem run_never_panics acts : forall g, GameGood g -> Forall wf_action acts -> GameGood (run K g acts).
Proof.
  induction acts as [|a r IH]; intros g G W; [exact G|]. inversion W as [|? ? Wa Wr]; subst. cbn [run].
  destruct (game_step K g a) as [g'| |] eqn:E; try now apply IH. apply IH; [exact (GameGood_step g a g' G Wa E)|exact Wr].
Qed.

(* ---------- PGN import after tokenisation ---------- *)
Lemma san_lookup_total b tok : Good K b -> exists om, san_lookup K b tok = Ok om /\ (forall m, om = Some m -> legal (abs b) m = true /\ wf_bmove m).
Proof.
  intros G. destruct G as [[I HI] D V T] eqn:EG. unfold san_lookup. destruct (legal_moves_exact K b I D V) as (l & El & Hl). rewrite El. cbn [bind].
  assert (F : forall l0 a0, (forall m, In m l0 -> legal (abs b) m = true) -> (forall m, a0 = Some m -> legal (abs b) m = true) ->
     exists om, fold_left (fun acc m => a <- acc ;; mp <- unwrap (move_props K m b) ;; Ok (if beq (san_string m mp) tok then Some m else a)) l0 (Ok a0) = Ok om /\
                (forall m, om = Some m -> legal (abs b) m = true)).
  { induction l0 as [|y l0 IH]; intros a0 H0 Ha; [exists a0; auto|]. cbn [fold_left bind].
    pose proof (H0 y (or_introl eq_refl)) as Ly. pose proof (legal_off_board (abs b) y (proj1 (valid_wfpos (abs b) V)) Ly) as Wy.
    destruct (move_props_spec K b (Build_Good K b (conj I HI) D V T) y Wy) as [A1 _]. rewrite (A1 Ly). cbn [unwrap bind].
    apply IH; [intros m Hm; apply H0; now right|]. intros m. destruct (beq _ tok); [intros [= <-]; exact Ly|apply Ha]. }
  destruct (F l None (fun m Hm => proj1 (Hl m) Hm) ltac:(discriminate)) as (om & E & H). exists om. split; [exact E|].
  intros m Hm. split; [exact (H m Hm)|exact (legal_off_board (abs b) m (proj1 (valid_wfpos (abs b) V)) (H m Hm))].
Qed.
Theorem from_pgn_tokens_total g0 toks res : GameGood g0 -> from_pgn_tokens K g0 toks res <> Panic.
Proof.
  intros G0. unfold from_pgn_tokens.
  assert (F : forall l r, (forall g, r = Ok g -> GameGood g) -> r <> Panic ->
     let r' := fold_left (fun acc tok => g <- acc ;; om <- san_lookup K (g_pos g) tok ;; match om with None => Err EPgn | Some m => game_step K g (MakeMove m) end) l r in
     r' <> Panic /\ (forall g, r' = Ok g -> GameGood g)).
  { induction l as [|tok l IH]; intros r Hg Hp; [cbn; auto|]. cbn [fold_left]. apply IH.
    - intros g Eg. destruct r as [g1| |]; cbn [bind] in Eg; try discriminate. pose proof (Hg g1 eq_refl) as G1.
      destruct (san_lookup_total (g_pos g1) tok (proj1 G1)) as (om & El & Hl). rewrite El in Eg. cbn [bind] in Eg.
      destruct om as [m|]; [|discriminate]. destruct (Hl m eq_refl) as [_ Wm]. exact (GameGood_step g1 (MakeMove m) g G1 Wm Eg).
    - destruct r as [g1| |]; cbn [bind]; try discriminate; [|congruence]. pose proof (Hg g1 eq_refl) as G1.
      destruct (san_lookup_total (g_pos g1) tok (proj1 G1)) as (om & El & Hl). rewrite El. cbn [bind].
      destruct om as [m|]; [|discriminate]. destruct (Hl m eq_refl) as [_ Wm]. exact (game_step_total g1 (MakeMove m) G1 Wm). }
  destruct (F toks (Ok g0) ltac:(intros g [= <-]; exact G0) ltac:(discriminate)) as [P1 P2]. cbv zeta in P1, P2.
  destruct (fold_left _ toks (Ok g0)) as [g| |] eqn:E; cbn [bind]; [|discriminate|congruence].
  pose proof (P2 g eq_refl) as Gg. destruct (g_status g) eqn:Es; try discriminate.
  assert (R : forall c, exists g', game_step K g (Resign c) = Ok g').
  { intros c. unfold game_step. rewrite Es. cbn [bind]. exact (update_status_total g (Some (Resign c)) (proj1 Gg)). }
  destruct res as [[]|]; try discriminate.
  - destruct (R Black) as (g' & ->). discriminate.
  - destruct (R White) as (g' & ->). discriminate.
  - assert (E1 : exists g1, game_step K g (OfferDraw White) = Ok g1 /\ g_status g1 = GDrawOffered White /\ g_pos g1 = g_pos g).
    { unfold game_step. rewrite Es. cbn [bind]. destruct (update_status_total g (Some (OfferDraw White)) (proj1 Gg)) as (g1 & E1). exists g1. split; [exact E1|].
      apply update_game_status_spec in E1. destruct E1 as (after & _ & Hs & _ & Q1 & _). split; [exact Hs|exact Q1]. }
    destruct E1 as (g1 & E1 & S1 & Q1). rewrite E1. cbn [unwrap bind]. unfold game_step. rewrite S1. cbn [bind].
    destruct (update_status_total g1 (Some AcceptDraw) ltac:(rewrite Q1; exact (proj1 Gg))) as (g2 & ->). discriminate.
Qed.
End T.
