(* proofs/C10Proofs.v — the text parsers are total on ALL byte strings *)
Require Import LC.model.Prims LC.model.Tables LC.model.Board LC.model.Text LC.model.Fen LC.proofs.Basics LC.proofs.MoveInv LC.proofs.C16Proofs.
From Coq Require Import Lia.
Open Scope N_scope.

Lemma parse_file_total s : parse_file s <> Panic.
Proof. destruct s as [|c [|? ?]]; cbn; try discriminate. destruct (_ && _); discriminate. Qed.
Lemma parse_rank_total s : parse_rank s <> Panic.
Proof. destruct s as [|c [|? ?]]; cbn; try discriminate. destruct (_ && _); discriminate. Qed.
Lemma parse_pt_total s : parse_pt s <> Panic.
Proof. destruct s as [|c [|? ?]]; cbn; try discriminate. destruct (upper c) as [|p]; try discriminate. do 7 (destruct p; try discriminate). Qed.
Lemma parse_sq_total s : parse_sq s <> Panic.
Proof.
  destruct s as [|f [|r [|? ?]]]; cbn [parse_sq]; try discriminate. destruct (128 <=? f); [discriminate|].
  destruct (parse_file [f]); try discriminate; destruct (parse_rank [r]); discriminate.
Qed.
Lemma parse_sq_lt s q : parse_sq s = Ok q -> q < 64.
Proof.
  destruct s as [|f [|r [|? ?]]]; cbn [parse_sq]; try discriminate. destruct (128 <=? f); [discriminate|].
  destruct (parse_file [f]) as [fi| |] eqn:Ef; try discriminate; destruct (parse_rank [r]) as [ri| |] eqn:Er; try discriminate.
  intros [= <-]. cbn in Ef, Er. destruct (_ && _) eqn:A in Ef; [|discriminate]. destruct (_ && _) eqn:B in Er; [|discriminate].
  injection Ef as <-. injection Er as <-. apply andb_prop in A, B. destruct A as [A1 A2], B as [B1 B2]. apply N.leb_le in A1, A2, B1, B2.
  apply mk_sq_lt; lia.
Qed.
Lemma usub_ok a b : b <= a -> usub a b = Ok (a - b).
Proof. intros H. unfold usub. now rewrite (proj2 (N.leb_le b a) H). Qed.
Lemma pmove_new_total t a b pr : pmove_new t a b pr <> Panic.
Proof. destruct pr as [[]|]; discriminate. Qed.

Lemma parse_pmove_total v : parse_pmove v <> Panic.
Proof.
  unfold parse_pmove. set (tokens := split_on 61 v []). set (t0 := hd [] tokens). set (len := blen t0).
  destruct (N.ltb_spec len 4) as [|Hlen]; [discriminate|].
  rewrite (usub_ok len 4), (usub_ok len 2) by lia. cbn [bind].
  apply bind_not_panic.
  { destruct (len =? 4); [discriminate|]. destruct (get t0 0 1) as [h|]; [|discriminate]. destruct (parse_pt h); discriminate. }
  intros t _. apply bind_not_panic.
  { destruct (get t0 (len - 4) (len - 2)) as [x|]; [|discriminate]. destruct (parse_sq x); discriminate. }
  intros a _. apply bind_not_panic.
  { destruct (get t0 (len - 2) len) as [x|]; [|discriminate]. destruct (parse_sq x); discriminate. }
  intros b _. destruct tokens as [|? [|t1 ?]]; try apply pmove_new_total.
  apply bind_not_panic; [destruct (parse_pt t1); discriminate|]. intros q _. apply pmove_new_total.
Qed.
Lemma parse_bmove_total v : parse_bmove v <> Panic.
Proof.
  unfold parse_bmove. destruct (beq _ _); [discriminate|]. destruct (beq _ _); [discriminate|].
  apply bind_not_panic; [apply parse_pmove_total|discriminate].
Qed.

(* accepted move texts denote representable moves, hence re-print to a canonical text that parses back (C16) *)
Lemma parse_pmove_repr v m : parse_pmove v = Ok m -> pm_from m < 64 /\ pm_to m < 64 /\ pm_promo m <> Some Pawn.
Proof.
  unfold parse_pmove. set (tokens := split_on 61 v []). set (t0 := hd [] tokens). set (len := blen t0).
  destruct (len <? 4); [discriminate|]. intros E.
  apply bind_ok in E. destruct E as (t & _ & E). apply bind_ok in E. destruct E as (i4 & _ & E). apply bind_ok in E. destruct E as (i2 & _ & E).
  apply bind_ok in E. destruct E as (a & Ea & E). apply bind_ok in E. destruct E as (b & Eb & E).
  assert (Ha : a < 64). { destruct (get t0 i4 i2) as [x|]; [|discriminate]. destruct (parse_sq x) as [q| |] eqn:Q; try discriminate. injection Ea as <-. eapply parse_sq_lt; eauto. }
  assert (Hb : b < 64). { destruct (get t0 i2 len) as [x|]; [|discriminate]. destruct (parse_sq x) as [q| |] eqn:Q; try discriminate. injection Eb as <-. eapply parse_sq_lt; eauto. }
  assert (N : forall pr, pmove_new t a b pr = Ok m -> pm_from m < 64 /\ pm_to m < 64 /\ pm_promo m <> Some Pawn).
  { intros pr. unfold pmove_new. destruct pr as [[]|]; try discriminate; intros [= <-]; cbn; repeat split; try assumption; discriminate. }
  destruct tokens as [|? [|t1 ?]]; try (eapply N; eauto; fail).
  apply bind_ok in E. destruct E as (q & _ & E). eapply N; eauto.
Qed.
Lemma parse_bmove_canonical v m : parse_bmove v = Ok m -> parse_bmove (print_bmove m) = Ok m.
Proof.
  intros E. apply roundtrip. unfold parse_bmove in E. destruct (beq _ _); [injection E as <-; exact I|].
  destruct (beq _ _); [injection E as <-; exact I|]. apply bind_ok in E. destruct E as (pm & Ep & [= <-]).
  exact (parse_pmove_repr v pm Ep).
Qed.

(* FEN text: the unvalidated builder parser never panics *)
Lemma parse_usize_total s : parse_usize s <> Panic.
Proof.
  unfold parse_usize. set (ds := match s with 43 :: r => r | _ => s end). destruct ds as [|d ds']; [discriminate|].
  assert (F : forall l acc, acc <> Panic -> fold_left (fun acc c => a <- acc ;;
           if (48 <=? c) && (c <=? 57) then let v := a * 10 + (c - 48) in if v <? two64 then Ok v else Err EFen else Err EFen) l acc <> Panic).
  { induction l as [|c l IH]; intros acc Ha; [exact Ha|]. cbn [fold_left]. apply IH.
    destruct acc as [a| |]; cbn [bind]; try discriminate; [|congruence]. destruct (_ && _); [|discriminate]. destruct (_ <? _); discriminate. }
  apply F. discriminate.
Qed.
Lemma fen_step_total st c : fen_step st c <> Panic.
Proof.
  destruct st as [[r f] pcs]. unfold fen_step. destruct (c =? 47); [destruct (idx_down r); discriminate|].
  destruct (_ && _); [destruct (idx8_of _); discriminate|]. destruct (is_fen_letter c); [|discriminate]. destruct (fen_piece_of c); discriminate.
Qed.
Lemma parse_placement_total s : parse_placement s <> Panic.
Proof.
  unfold parse_placement.
  assert (F : forall l acc, acc <> Panic -> fold_left (fun acc c => a <- acc ;; fen_step a c) l acc <> Panic).
  { induction l as [|c l IH]; intros acc Ha; [exact Ha|]. cbn [fold_left]. apply IH.
    destruct acc as [a| |]; cbn [bind]; try discriminate; [apply fen_step_total|congruence]. }
  apply bind_not_panic; [apply F; discriminate|discriminate].
Qed.
Lemma parse_fen_total v : parse_fen v <> Panic.
Proof.
  unfold parse_fen. destruct (split_on 32 v []) as [|p [|s [|c [|e [|h [|f [|? ?]]]]]]]; try discriminate.
  apply bind_not_panic; [apply parse_usize_total|]. intros hv _.
  apply bind_not_panic; [apply parse_usize_total|]. intros fv _.
  apply bind_not_panic; [apply parse_placement_total|]. intros pcs _.
  apply bind_not_panic; [|discriminate]. destruct (_ || _); [discriminate|]. destruct (_ || _); discriminate.
Qed.
