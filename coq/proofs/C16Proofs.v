(* proofs/C16Proofs.v — coordinate move text round-trips for every representable move value. *)
Require Import LC.model.Prims LC.model.Text LC.proofs.Basics.
From Coq Require Import Lia.
Open Scope N_scope.

Definition promos : list (option ptype) := [None; Some Knight; Some Bishop; Some Rook; Some Queen; Some King].
Definition rt_ok (m : bmove) : bool := match parse_bmove (print_bmove m) with Ok m' => bmove_eqb m m' | _ => false end.
Lemma sweep_piece_moves :
  forallb (fun t => forallb (fun a => forallb (fun b => forallb (fun pr => rt_ok (MovePiece {| pm_type := t; pm_from := a; pm_to := b; pm_promo := pr |})) promos) squares) squares) all_types = true.
Proof. vm_compute. reflexivity. Qed.

Lemma ptype_eqb_eq a b : ptype_eqb a b = true <-> a = b.
Proof. destruct a, b; cbn; split; congruence. Qed.
Lemma optype_eqb_eq a b : optype_eqb a b = true <-> a = b.
Proof. destruct a as [a|], b as [b|]; cbn; try (split; congruence). rewrite ptype_eqb_eq. split; congruence. Qed.
Lemma pmove_eqb_eq a b : pmove_eqb a b = true <-> a = b.
Proof.
  destruct a, b; unfold pmove_eqb; cbn. rewrite !andb_true_iff, ptype_eqb_eq, !N.eqb_eq, optype_eqb_eq.
  split; [intros [[[-> ->] ->] ->]; reflexivity | intros [= -> -> -> ->]; auto].
Qed.
Lemma bmove_eqb_eq a b : bmove_eqb a b = true <-> a = b.
Proof. destruct a, b; cbn; try (split; congruence). rewrite pmove_eqb_eq. split; congruence. Qed.
Lemma In_all_types t : In t all_types. Proof. destruct t; cbn; tauto. Qed.

(* a representable move value: squares < 64, promotion piece anything but a pawn (PieceMove::new rejects it) *)
Definition representable (m : bmove) : Prop :=
  match m with
  | MovePiece pm => pm_from pm < 64 /\ pm_to pm < 64 /\ pm_promo pm <> Some Pawn
  | _ => True end.
Lemma roundtrip m : representable m -> parse_bmove (print_bmove m) = Ok m.
Proof.
  intros H.
  assert (R : rt_ok m = true).
  { destruct m as [[t a b pr]| |]; [|reflexivity|reflexivity]. cbn in H. destruct H as (Ha & Hb & Hp).
    pose proof sweep_piece_moves as S. rewrite forallb_forall in S. specialize (S t (In_all_types t)).
    rewrite forallb_forall in S. specialize (S a (proj2 (In_squares a) Ha)).
    rewrite forallb_forall in S. specialize (S b (proj2 (In_squares b) Hb)).
    rewrite forallb_forall in S. apply S. destruct pr as [[]|]; cbn; tauto. }
  unfold rt_ok in R. destruct (parse_bmove (print_bmove m)) as [m'| |]; try discriminate.
  apply bmove_eqb_eq in R. now subst.
Qed.
Lemma universe_size : N.of_nat (length all_types * length squares * length squares * length promos + 2) = 147458.
Proof. reflexivity. Qed.
