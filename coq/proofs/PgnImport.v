(* proofs/PgnImport.v — Game::from_pgn on the text of an exported game (and on any re-wrapping of it)
   reproduces the game; Game::from_pgn never panics on any byte string. *)
Require Import LC.model.Prims LC.model.Tables LC.model.Board LC.model.Text LC.model.Fen LC.model.San LC.model.Game LC.model.Pgn
  LC.spec.Chess LC.spec.TextSpec LC.proofs.Basics LC.proofs.MoveInv LC.proofs.C05Proofs LC.proofs.C09Proofs LC.proofs.Reach LC.proofs.C10Total
  LC.proofs.C11Proofs LC.proofs.C12Proofs LC.proofs.C13Proofs LC.proofs.C13Flags LC.proofs.C15Proofs LC.proofs.PgnMatch LC.proofs.PgnSweep LC.proofs.PgnText.
From Coq Require Import Lia String.
Open Scope N_scope.

Definition std_fen : bytes := B "rnbqkbnr/pppppppp/8/8/8/8/PPPPPPPP/RNBQKBNR w KQkq - 0 1".
Lemma std_valid : match parse_fen std_fen with Ok bd => valid (pos_of bd) = true /\ stm (pos_of bd) = White | _ => False end.
Proof. vm_compute. split; reflexivity. Qed.

(* the header of an exported game *)
Definition header_body (t : rtag) : bytes :=          (* default_tags without its last line end *)
  removelast (default_tags t).
Lemma default_tags_split t : default_tags t = header_body t ++ [10].
Proof. destruct t; reflexivity. Qed.
Lemma header_calm t : calm (header_body t) = true /\ (last (header_body t) 0 =? 10) = false.
Proof. destruct t; split; reflexivity. Qed.
Lemma default_tags_lines t : default_tags t =
  tagline (B "Event") (B "?") ++ tagline (B "Site") (B "?") ++ tagline (B "Date") (B "?") ++ tagline (B "Round") (B "?")
  ++ tagline (B "White") (B "Player 1") ++ tagline (B "Black") (B "Player 2") ++ tagline (B "Result") (print_rtag t).
Proof. destruct t; reflexivity. Qed.
Lemma header_tags t rest : forallb (fun c => negb (c =? 91)) rest = true ->
  header_result (default_tags t ++ rest) = Some (print_rtag t).
Proof.
  intros NR. unfold header_result. rewrite default_tags_lines, <- !app_assoc.
  rewrite !scan_tags_tagline; try discriminate; try reflexivity; try (destruct t; reflexivity).
  rewrite (scan_tags_none rest NR). destruct t; reflexivity.
Qed.

Section Import.
Variable K : zkeys.

Lemma default_ok : exists b0 g0, default_board K = Ok b0 /\ Good K b0 /\ game_from_board b0 = Ok g0 /\ default_game K = Ok g0 /\ stm (abs b0) = White.
Proof.
  pose proof std_valid as V. unfold default_game, default_board, from_fen. fold std_fen.
  destruct (parse_fen std_fen) as [bd| |] eqn:E; try contradiction. destruct V as [V Vs]. cbn [bind].
  pose proof (parse_fen_wf std_fen bd E) as W. destruct (construction K bd W) as [H1 _]. destruct (H1 V) as (b0 & Eb & _).
  destruct (good_build K bd b0 W Eb) as [G A]. destruct (game_from_board_total K b0 G) as [g0 Eg].
  exists b0, g0. rewrite Eb. cbn [unwrap bind]. rewrite A. auto.
Qed.

(* totality: whatever the bytes, the import returns a game or an error *)
Theorem from_pgn_text_total t : from_pgn_text K t <> Panic.
Proof.
  unfold from_pgn_text. destruct default_ok as (b0 & g0 & _ & G & Eg & -> & _). cbn [bind].
  destruct (moves_part t) as [body|]; [|discriminate].
  pose proof (from_pgn_tokens_total K g0 (scan_moves body) (scan_result body) (GameGood_init K b0 g0 G Eg)) as T.
  destruct (from_pgn_tokens K g0 (scan_moves body) (scan_result body)); cbn [bind]; try discriminate. contradiction.
Qed.

(* the SAN texts of a recorded game are SAN texts *)
Lemma legal_promo_ok b m q : make_move K b m = Ok q -> promo_ok m.
Proof.
  destruct m as [m| |]; try exact (fun _ => I). unfold make_move. intros H.
  destruct (is_legal_move K b (MovePiece m)) as [[]| |] eqn:E; cbn [bind] in H; try discriminate. clear H. cbn [promo_ok].
  unfold is_legal_move in E. destruct (b_term b); [discriminate|].
  destruct (is_blank _); [discriminate|]. destruct (piece_moves_mask b (pm_type m) (pm_from m)) as [mask| |]; cbn [bind] in E; try discriminate.
  destruct (is_blank _); [discriminate|]. cbv zeta in E.
  destruct (ptype_eqb (pm_type m) Pawn && (rank (pm_to m) =? promotion_rank (b_stm b))); destruct (pm_promo m) as [[]|]; cbn in E; try discriminate; cbn; tauto.
Qed.
Lemma chain_sans ps : forall ms mps, Chain K ps ms mps -> Forall wf_bmove ms ->
  SansOk (map (fun '(m, p) => san_string m p) (combine ms mps)).
Proof.
  induction ps as [|p ps IH]; intros ms mps C W; [destruct C|].
  destruct ps as [|q r]; destruct ms as [|m ms], mps as [|mp mps]; cbn [Chain] in C; try contradiction; [constructor|].
  destruct C as (Em & _ & C). inversion W as [|? ? Wm Wms]; subst. cbn [combine map]. constructor.
  - apply san_string_ok; [exact Wm|exact (legal_promo_ok p m q Em)].
  - apply (IH ms mps C Wms).
Qed.

(* ---------- soundness of the import on ARBITRARY text: whatever is accepted is a game played by the rules ---------- *)
Lemma run_app_ok l1 : forall g l2, run K g (l1 ++ l2) = run K (run K g l1) l2.
Proof. induction l1 as [|a l1 IH]; intros g l2; [reflexivity|]. cbn [app run]. destruct (game_step K g a); apply IH. Qed.
Lemma run_one g a g' : game_step K g a = Ok g' -> run K g [a] = g'.
Proof. intros E. cbn [run]. rewrite E. reflexivity. Qed.
Lemma tokens_are_actions g0 toks res g : GameGood K g0 -> from_pgn_tokens K g0 toks res = Ok g ->
  exists acts, Forall wf_action acts /\ run K g0 acts = g.
Proof.
  intros G0. unfold from_pgn_tokens.
  assert (F : forall l gc acts0, run K g0 acts0 = gc -> Forall wf_action acts0 -> forall gm,
     fold_left (fun acc tok => g <- acc ;; om <- san_lookup K (g_pos g) tok ;; match om with None => Err EPgn | Some m => game_step K g (MakeMove m) end) l (Ok gc) = Ok gm ->
     exists acts, Forall wf_action acts /\ run K g0 acts = gm).
  { induction l as [|tok l IH]; intros gc acts0 R W gm E; [cbn in E; injection E as <-; eauto|]. cbn [fold_left bind] in E.
    assert (Gc : GameGood K gc) by (rewrite <- R; apply run_never_panics; assumption).
    destruct (san_lookup_total K (g_pos gc) tok (proj1 Gc)) as (om & El & Hl). rewrite El in E. cbn [bind] in E.
    destruct om as [m|]; [|rewrite fold_bind_stuck in E by discriminate; discriminate].
    destruct (Hl m eq_refl) as [_ Wm].
    destruct (game_step K gc (MakeMove m)) as [g1| |] eqn:E1; try (rewrite fold_bind_stuck in E by discriminate; discriminate).
    apply (IH g1 (acts0 ++ [MakeMove m])); [rewrite run_app_ok, R; apply run_one; exact E1|apply Forall_app; split; [exact W|constructor; [exact Wm|constructor]]|exact E]. }
  intros E. apply bind_ok in E. destruct E as (gm & Em & E). destruct (F toks g0 [] eq_refl (Forall_nil _) gm Em) as (acts & Wa & Ra).
  assert (X : forall a g', game_step K gm a = Ok g' -> (forall m, a <> MakeMove m) -> exists acts', Forall wf_action acts' /\ run K g0 acts' = g').
  { intros a g' Ea Na. exists (acts ++ [a]). split; [apply Forall_app; split; [exact Wa|constructor; [destruct a; try exact I; exfalso; eapply Na; reflexivity|constructor]]|].
    rewrite run_app_ok, Ra. apply run_one. exact Ea. }
  destruct (g_status gm) eqn:Es; try (injection E as <-; eauto).
  destruct res as [[]|]; try (injection E as <-; eauto).
  - destruct (game_step K gm (Resign Black)) as [g'| |] eqn:E1; cbn [unwrap] in E; try discriminate. injection E as <-. apply (X _ _ E1). discriminate.
  - destruct (game_step K gm (Resign White)) as [g'| |] eqn:E1; cbn [unwrap] in E; try discriminate. injection E as <-. apply (X _ _ E1). discriminate.
  - destruct (game_step K gm (OfferDraw White)) as [g1| |] eqn:E1; cbn [unwrap bind] in E; try discriminate.
    destruct (game_step K g1 AcceptDraw) as [g2| |] eqn:E2; cbn [unwrap] in E; try discriminate. injection E as <-.
    exists (acts ++ [OfferDraw White; AcceptDraw]). split; [apply Forall_app; split; [exact Wa|repeat constructor]|].
    rewrite run_app_ok, Ra. cbn [run]. rewrite E1, E2. reflexivity.
Qed.
(* every accepted import, of ANY byte string, is a game from the standard position in which every recorded move is legal by
   the rules, every recorded position the rule successor of its predecessor, every recorded flag the rule's *)
Theorem import_sound t g tag : from_pgn_text K t = Ok (g, tag) ->
  exists g0 acts, default_game K = Ok g0 /\ Forall wf_action acts /\ g = run K g0 acts /\
                  LC.proofs.C13Flags.RuleChain K (g_positions g) (g_moves g) (g_meta g) /\ GameGood K g /\
                  g_tag g = tag_of_status (g_status g) /\
                  (g_status g <> GOngoing -> tag = print_rtag (tag_of_status (g_status g))).
Proof.
  unfold from_pgn_text. destruct default_ok as (b0 & g0 & Eb & G0 & Eg & Ed & _). rewrite Ed. cbn [bind].
  destruct (moves_part t) as [body|]; [|discriminate]. intros E. apply bind_ok in E. destruct E as (g1 & E1 & E). injection E as <- Et.
  pose proof (GameGood_init K b0 g0 G0 Eg) as GG0.
  destruct (tokens_are_actions g0 _ _ g1 GG0 E1) as (acts & Wa & Ra).
  assert (T : TagInv g1) by (rewrite <- Ra; apply run_tag; exact (proj1 (game_from_board_spec b0 g0 Eg))).
  exists g0, acts. split; [reflexivity|]. split; [exact Wa|]. split; [symmetry; exact Ra|]. split; [|split; [|split]].
  - rewrite <- Ra. exact (LC.proofs.C13Flags.history_is_rule_game K b0 g0 acts G0 Eg Wa).
  - rewrite <- Ra. apply run_never_panics; assumption.
  - exact T.
  - intros N. rewrite <- Et. unfold TagInv in T. rewrite <- T. destruct (g_status g1); try reflexivity. contradiction.
Qed.

(* C13: the rendered move list of every game (either side moving first) consists of separately delimited tokens *)
Theorem history_tokens b0 g0 acts : Good K b0 -> game_from_board b0 = Ok g0 -> Forall wf_action acts ->
  let g := run K g0 acts in exists hs, history_string g = Ok hs /\ scan_moves hs = san_list g.
Proof.
  intros G0 Eg Wa g. destruct (GameInv_run K g0 acts g0 (GameInv_init K b0 g0 Eg) Wa) as (_ & _ & [C _] & NE & Wm & Hd). fold g in C, NE, Wm, Hd.
  pose proof (chain_sans _ _ _ C Wm) as S. fold (san_list g) in S.
  unfold history_string. rewrite Hd. cbn [unwrap_o bind]. eexists. split; [reflexivity|]. rewrite history_layout. apply movelist_tokens. exact S.
Qed.

(* Rb-related texts: a blank stays a blank *)
Lemma rewrap_no91 W T : Forall2 (Rb blank) W T -> forallb okc T = true -> forallb (fun c => negb (c =? 91)) W = true.
Proof.
  induction 1 as [|w t W T R F IH]; intros O; [reflexivity|]. cbn [forallb] in *. apply andb_prop in O. destruct O as [Ot O]. rewrite (IH O), Bool.andb_true_r.
  destruct R as [->|[Bw _]].
  - unfold okc in Ot. destruct (t =? 91); [rewrite !Bool.orb_true_r in Ot; discriminate|reflexivity].
  - destruct (blank_cases w Bw) as [->| ->]; reflexivity.
Qed.
Lemma rewrap_head W T : Forall2 (Rb blank) W T -> hd_nonblank T -> forallb okc T = true ->
  match W with c :: _ => (c =? 10) = false /\ (c =? 13) = false | [] => True end.
Proof.
  intros F H O. destruct F as [|w t W T R F]; [exact I|]. cbn in H. cbn [forallb] in O. apply andb_prop in O. destruct O as [Ot _].
  destruct R as [->|[_ Bt]]; [|rewrite Bt in H; discriminate]. unfold okc in Ot. destruct (t =? 10), (t =? 13); cbn in Ot; try discriminate. auto.
Qed.

(* ---------- export -> import on the text ---------- *)
Theorem pgn_text_roundtrip acts : Forall wf_action acts ->
  exists g0, default_game K = Ok g0 /\
  let g := run K g0 acts in
  exists hs, history_string g = Ok hs /\
  forall W, Forall2 (Rb blank) W (trim_end hs) ->
  exists g', from_pgn_text K (default_tags (g_tag g) ++ [10] ++ W ++ [32] ++ print_rtag (g_tag g)) = Ok (g', print_rtag (g_tag g)) /\
    same_core g' g /\ g_tag g' = g_tag g /\
    (g_status g' = g_status g \/ (g_status g' = GOngoing /\ exists c, g_status g = GDrawOffered c)).
Proof.
  intros Wa. destruct default_ok as (b0 & g0 & Eb & G0 & Eg & Ed & Es). exists g0. split; [exact Ed|]. intros g.
  destruct (GameInv_run K g0 acts g0 (GameInv_init K b0 g0 Eg) Wa) as (_ & _ & [C _] & NE & Wm & Hd). fold g in C, NE, Wm, Hd.
  destruct (game_from_board_spec b0 g0 Eg) as (_ & P1 & _).
  pose proof (chain_sans _ _ _ C Wm) as S. fold (san_list g) in S.
  assert (Ws : color_eqb (b_stm b0) White = true) by (change (b_stm b0) with (stm (abs b0)); rewrite Es; reflexivity).
  exists (movelist true (san_list g)). split.
  { unfold history_string. rewrite Hd, P1. cbn [unwrap_o bind]. rewrite Ws, history_layout. reflexivity. }
  intros W F.
  destruct (pgn_roundtrip K b0 g0 acts G0 Eg Wa) as (g' & Ei & SC & Tg & St). fold g in Ei, SC, Tg, St.
  exists g'. split; [|auto].
  set (T := trim_end (movelist true (san_list g))) in *. set (t := g_tag g) in *.
  destruct (trimmed_shape (san_list g) S) as (NB & HN & OK). fold T in NB, HN, OK.
  set (Wb := W ++ [32] ++ print_rtag t).
  assert (FW : Forall2 (Rb blank) Wb (T ++ 32 :: print_rtag t)) by (unfold Wb; apply Forall2_app; [exact F|apply Rb_refl]).
  (* tokens *)
  assert (Em : scan_moves Wb = san_list g).
  { unfold scan_moves. rewrite (scan_rel blank moves_re (fun c H => sep_barrier_moves c (blank_sep c H)) _ _ FW). apply body_moves. exact S. }
  assert (Er : scan_result Wb = result_of_tag t).
  { unfold scan_result. rewrite (scan_rel blank result_re (fun c H => sep_barrier_result c (blank_sep c H)) _ _ FW). unfold T. rewrite (body_result _ t S).
    destruct t; reflexivity. }
  (* split *)
  assert (CW : calm Wb = true).
  { unfold Wb. refine (calm_rewrap ([32] ++ print_rtag t) _ _ W T F OK NB); destruct t; reflexivity. }
  assert (HW : skip_nls Wb = (O, Wb)).
  { pose proof (rewrap_head W T F HN OK) as H. unfold Wb. destruct W as [|c W]; [reflexivity|]. destruct H as [H1 H2]. cbn [app]. apply skip_nls_other; assumption. }
  assert (Ep : moves_part (default_tags t ++ [10] ++ Wb) = Some Wb).
  { unfold moves_part. rewrite default_tags_split, <- app_assoc. cbn [app]. destruct (header_calm t) as [C1 C2].
    rewrite (find_blank_header (header_body t) Wb C1 C2), HW. cbn [snd]. rewrite (find_blank_calm Wb CW). reflexivity. }
  (* tags *)
  assert (Eh : header_result (default_tags t ++ [10] ++ Wb) = Some (print_rtag t)).
  { apply header_tags. cbn [app forallb]. change (negb (10 =? 91)) with true. cbn [andb]. unfold Wb. rewrite forallb_app.
    rewrite (rewrap_no91 W T F OK). destruct t; reflexivity. }
  unfold from_pgn_text. rewrite Ed. cbn [bind]. fold Wb. rewrite Ep, Em, Er. fold t in Ei. rewrite Ei. cbn [bind]. rewrite Eh.
  f_equal. f_equal. fold t in Tg. destruct (g_status g'); rewrite ?Tg; reflexivity.
Qed.

(* in particular the unwrapped export *)
Corollary pgn_export_import acts : Forall wf_action acts ->
  exists g0, default_game K = Ok g0 /\
  let g := run K g0 acts in
  exists txt g', as_pgn_unwrapped g = Ok txt /\ from_pgn_text K txt = Ok (g', print_rtag (g_tag g)) /\
    same_core g' g /\ g_tag g' = g_tag g /\
    (g_status g' = g_status g \/ (g_status g' = GOngoing /\ exists c, g_status g = GDrawOffered c)).
Proof.
  intros Wa. destruct (pgn_text_roundtrip acts Wa) as (g0 & Ed & H). exists g0. split; [exact Ed|]. intros g.
  destruct H as (hs & Eh & H). fold g in Eh, H. destruct (H (trim_end hs) (Rb_refl blank _)) as (g' & E & R).
  exists (default_tags (g_tag g) ++ [10] ++ trim_end hs ++ [32] ++ print_rtag (g_tag g)), g'. split; [|split; [exact E|exact R]].
  unfold as_pgn_unwrapped. rewrite Eh. reflexivity.
Qed.
End Import.
