(* proofs/C04Proofs.v — status classification and the terminal flag *)
Require Import LC.model.Prims LC.model.Tables LC.model.Board LC.spec.Chess LC.spec.Geometry
  LC.proofs.Basics LC.proofs.Bits LC.proofs.Cols LC.proofs.MaskInv LC.proofs.HashInv LC.proofs.MoveInv LC.proofs.Attack
  LC.proofs.C05Proofs LC.proofs.C05Pins LC.proofs.C02Proofs LC.proofs.Pseudo LC.proofs.Safety LC.proofs.C01a LC.proofs.C01b LC.proofs.C09Proofs.
From Coq Require Import Lia.
Open Scope N_scope.

(* ---------- material ---------- *)
Definition is_minor (p : pos) (c : color) (s : square) : bool :=
  match piece_at p s with Some (Knight, c') | Some (Bishop, c') => color_eqb c c' | _ => false end.
Lemma count_color_def p c : count_color p c = length (filter (color_at p c) squares). Proof. reflexivity. Qed.
Lemma minor_count_def p c : minor_count p c = length (filter (is_minor p c) squares). Proof. reflexivity. Qed.
Lemma count_color_pop b c : MaskInv b -> popcount (cmask b c) = N.of_nat (count_color (abs b) c).
Proof.
  intros I. assert (U : u64 (cmask b c)) by (apply u64_has; intros x; apply (mi_cmask_small b c x I)).
  rewrite (popcount_length _ U), (bits_spec _ U), count_color_def. f_equal. f_equal.
  apply filter_ext'. intros x _. fold (has (cmask b c) x). now rewrite (color_at_abs b c x I).
Qed.
Lemma minors_blank b c : MaskInv b ->
  is_blank (N.land (cmask b c) (N.lor (m_knight b) (m_bishop b))) = (minor_count (abs b) c =? 0)%nat.
Proof.
  intros I. rewrite minor_count_def.
  assert (H : forall x, has (N.land (cmask b c) (N.lor (m_knight b) (m_bishop b))) x = is_minor (abs b) c x).
  { intros x. rewrite has_land, has_lor. change (m_knight b) with (tmask b Knight). change (m_bishop b) with (tmask b Bishop).
    rewrite (has_cmask_cell b c x I), !(has_tmask_cell b _ x I). unfold is_minor. rewrite (piece_at_abs b x I).
    destruct (cell_at b x) as [[[] c']|]; cbn; rewrite ?andb_false_r, ?andb_true_r; try reflexivity; destruct c, c'; reflexivity. }
  apply bool_eq_iff. rewrite is_blank_spec, Nat.eqb_eq. split.
  - intros Hb. destruct (filter (is_minor (abs b) c) squares) as [|x l] eqn:E; [reflexivity|]. exfalso.
    assert (In x (filter (is_minor (abs b) c) squares)) as Hin by (rewrite E; now left). apply filter_In in Hin. destruct Hin as [_ Hx].
    rewrite <- H, Hb in Hx. discriminate.
  - intros Hl x. rewrite H. destruct (is_minor (abs b) c x) eqn:Ex; [|reflexivity]. exfalso.
    assert (x < 64). { unfold is_minor in Ex. rewrite (piece_at_abs b x I) in Ex. destruct (cell_at b x) eqn:Ec; [eapply cell_lt; eauto|discriminate]. }
    assert (In x (filter (is_minor (abs b) c) squares)) as Hin by (apply filter_In; split; [now apply In_squares|exact Ex]).
    destruct (filter (is_minor (abs b) c) squares); [destruct Hin|discriminate].
Qed.
(* a side with exactly two pieces, one of them its king, has at most one minor piece *)
Lemma is_minor_color p c x : is_minor p c x = true -> color_at p c x = true.
Proof. unfold is_minor, color_at. destruct (piece_at p x) as [[[] c']|]; try discriminate; auto. Qed.
Lemma is_minor_not_king p c x : piece_at p x = Some (King, c) -> is_minor p c x = false.
Proof. unfold is_minor. now intros ->. Qed.
Lemma filter_sub_len {A} (l : list A) (f g : A -> bool) k : NoDup l -> In k l -> g k = true -> f k = false ->
  (forall x, f x = true -> g x = true) -> (S (length (filter f l)) <= length (filter g l))%nat.
Proof.
  intros ND Hk Gk Fk Sub.
  assert (Incl : incl (k :: filter f l) (filter g l)).
  { intros x [<-|Hx]; apply filter_In; [split; assumption|]. apply filter_In in Hx. destruct Hx as [Hx Hm]. split; [exact Hx|]. apply Sub, Hm. }
  assert (ND2 : NoDup (k :: filter f l)).
  { constructor; [|apply NoDup_filter, ND]. intros Hx. apply filter_In in Hx. destruct Hx as [_ Hm]. rewrite Fk in Hm. discriminate. }
  exact (NoDup_incl_length ND2 Incl).
Qed.
Lemma color_at_king p c k : piece_at p k = Some (King, c) -> color_at p c k = true.
Proof. intros Hp. unfold color_at. rewrite Hp. destruct c; reflexivity. Qed.
Lemma minor_le p c : one_king p c = true -> count_color p c = 2%nat -> (minor_count p c <= 1)%nat.
Proof.
  intros K1 H2. destruct (one_king_sq p c K1) as (k & _ & Hk & Hp). rewrite count_color_def in H2. rewrite minor_count_def.
  pose proof (filter_sub_len squares (is_minor p c) (color_at p c) k squares_NoDup (proj2 (In_squares k) Hk) (color_at_king p c k Hp)
     (is_minor_not_king p c k Hp) (is_minor_color p c)) as Len.
  revert Len H2. generalize (length (filter (is_minor p c) squares)) (length (filter (color_at p c) squares)). intros n1 n2 Len H2. lia.
Qed.
Lemma draw_arith (w k mw mk : nat) : (1 <= w)%nat -> (1 <= k)%nat -> (w = 2%nat -> (mw <= 1)%nat) -> (k = 2%nat -> (mk <= 1)%nat) ->
  (if (2 <? N.of_nat w) || (2 <? N.of_nat k) then Ok false else
     wc <- (match N.of_nat w with 1 => Ok true | 2 => Ok (negb (Nat.eqb mw 0)) | _ => Panic end) ;; bc <- (match N.of_nat k with 1 => Ok true | 2 => Ok (negb (Nat.eqb mk 0)) | _ => Panic end) ;; Ok (wc && bc))
  = Ok ((match w with 1%nat => true | 2%nat => Nat.eqb mw 1 | _ => false end) && (match k with 1%nat => true | 2%nat => Nat.eqb mk 1 | _ => false end)).
Proof.
  intros Hw Hk Mw Mk.
  assert (Big : forall n, (2 <? N.of_nat (S (S (S n)))) = true) by (intros n; apply N.ltb_lt; lia).
  destruct w as [|[|[|w]]]; [lia| | |]; (destruct k as [|[|[|k]]]; [lia| | |]); rewrite ?Big, ?orb_true_r; try reflexivity.
  - specialize (Mk eq_refl). destruct mk as [|[|?]]; [reflexivity|reflexivity|lia].
  - specialize (Mw eq_refl). destruct mw as [|[|?]]; [reflexivity|reflexivity|lia].
  - specialize (Mw eq_refl). specialize (Mk eq_refl). destruct mw as [|[|?]]; [|  |lia]; (destruct mk as [|[|?]]; [reflexivity|reflexivity|lia]).
  - specialize (Mw eq_refl). destruct mw as [|[|?]]; [reflexivity|reflexivity|lia].
Qed.
Lemma count_color_ge1 p c : one_king p c = true -> (1 <= count_color p c)%nat.
Proof.
  intros K1. destruct (one_king_sq p c K1) as (k & _ & Hk & Hp). rewrite count_color_def.
  assert (In k (filter (color_at p c) squares)) as Hin by (apply filter_In; split; [apply In_squares, Hk|apply color_at_king, Hp]).
  revert Hin. generalize (filter (color_at p c) squares). intros l Hin. destruct l; [destruct Hin|cbn [length]; lia].
Qed.
Lemma theoretical_draw_spec b : MaskInv b -> valid (abs b) = true ->
  is_theoretical_draw b = Ok (cannot_mate (abs b) White && cannot_mate (abs b) Black).
Proof.
  intros I V. destruct (valid_parts2 _ V) as (KW & KB & _).
  unfold is_theoretical_draw. pose proof (count_color_pop b White I) as CW. pose proof (count_color_pop b Black I) as CB. cbn [cmask] in CW, CB.
  rewrite CW, CB.
  pose proof (minors_blank b White I) as MW. pose proof (minors_blank b Black I) as MB. cbn [cmask] in MW, MB. rewrite MW, MB.
  unfold cannot_mate.
  pose proof (count_color_ge1 _ _ KW) as G1. pose proof (count_color_ge1 _ _ KB) as G2. pose proof (minor_le _ _ KW) as L1. pose proof (minor_le _ _ KB) as L2.
  revert G1 G2 L1 L2. clear.
  generalize (count_color (abs b) White) (count_color (abs b) Black) (minor_count (abs b) White) (minor_count (abs b) Black).
  intros w k mw mk G1 G2 L1 L2. exact (draw_arith w k mw mk G1 G2 L1 L2).
Qed.

(* ---------- the terminal flag ---------- *)
Require Import LC.proofs.C04Spec.
Definition no_moves (p : pos) : bool := match gen p with [] => true | _ => false end.
Section Term.
Variable K : zkeys.
Variable b : board.
Hypothesis I : MaskInv b.
Hypothesis V : valid (abs b) = true.
Let p := abs b.
Let c := b_stm b.

Lemma has_safe_move_iff t s : has_safe_move b t s = true <-> exists d, d < 64 /\ mem d (pseudo_dests p s) = true /\ safe b t s d = true.
Proof.
  unfold has_safe_move. rewrite existsb_exists. split.
  - intros (d & Hd & Hs). apply filter_In in Hd. destruct Hd as [Hd Hm]. apply In_squares in Hd. exists d. auto.
  - intros (d & Hd & Hm & Hs). exists d. split; [|exact Hs]. apply filter_In. split; [now apply In_squares|exact Hm].
Qed.
Lemma shortcut_true_iff : existsb (fun t => existsb (has_safe_move b t) (own_squares b t)) all_types = true <-> exists m, legal p (MovePiece m) = true.
Proof.
  rewrite existsb_exists. split.
  - intros (t & _ & H). apply existsb_exists in H. destruct H as (s & Hs & H). apply (own_squares_In b I) in Hs. destruct Hs as [Hs Hc].
    apply has_safe_move_iff in H. destruct H as (d & Hd & Hm & Hsafe).
    exists (mk_pm t s d (if ptype_eqb t Pawn && (rank d =? promotion_rank c) then Some Queen else None)).
    apply (legal_piece_iff b I V). cbn [pm_from pm_to pm_type pm_promo mk_pm]. fold c. fold p.
    split; [exact Hc|]. split; [exact Hd|]. split; [exact Hm|]. split; [exact Hsafe|].
    destruct (ptype_eqb t Pawn && (rank d =? promotion_rank c)); [|reflexivity]. exists Queen. split; [reflexivity|]. cbn; tauto.
  - intros (m & H). apply (legal_piece_iff b I V) in H. destruct H as (Hc & Hd & Hm & Hsafe & _).
    exists (pm_type m). split; [destruct (pm_type m); cbn; tauto|]. apply existsb_exists. exists (pm_from m).
    split; [apply (own_squares_In b I); split; [eapply cell_lt; eauto|exact Hc]|]. apply has_safe_move_iff. exists (pm_to m). auto.
Qed.
(* any legal move at all implies a legal piece move: castling needs the king's first step to be legal *)
Lemma some_piece_move mv : legal p mv = true -> exists m, legal p (MovePiece m) = true.
Proof.
  destruct mv as [m| |]; intros H; [exists m; exact H| |]; cbn [legal] in H; eexists; apply (castle_implies_king_step p _ V H).
Qed.
Lemma shortcut_spec : negb (existsb (fun t => existsb (has_safe_move b t) (own_squares b t)) all_types) = no_moves p.
Proof.
  destruct (valid_parts _ V) as (L & _). apply bool_eq_iff. rewrite negb_true_iff. unfold no_moves. split.
  - intros H. assert (G : gen p = []).
    { apply (gen_nil_iff p L). intros mv. destruct (legal p mv) eqn:E; [|reflexivity]. apply some_piece_move in E.
      apply shortcut_true_iff in E. rewrite E in H. discriminate. }
    rewrite G. reflexivity.
  - intros H. destruct (gen p) as [|x l] eqn:G; [|discriminate]. pose proof (proj1 (gen_nil_iff p L) G) as G'.
    destruct (existsb _ all_types) eqn:E; [|reflexivity]. apply shortcut_true_iff in E. destruct E as (m & E). rewrite G' in E. discriminate.
Qed.
Theorem terminal_flag_spec : update_terminal_status K b = Ok (with_term b (no_moves p)).
Proof. rewrite (update_terminal_spec K b I V). rewrite shortcut_spec. reflexivity. Qed.

(* ---------- status classification ---------- *)
Definition enc_status (s : status) : bstatus :=
  match s with Ongoing => BOngoing | CheckMated x => BCheckMated x | TheoreticalDraw => BTheoreticalDraw
             | FiftyMovesDraw => BFiftyMoves | Stalemate => BStalemate end.
Hypothesis D : DerivedInv b.
Hypothesis T : b_term b = no_moves p.
Theorem get_status_spec : get_status b = Ok (enc_status (board_status p)).
Proof.
  unfold get_status, board_status. rewrite T. unfold no_moves.
  pose proof (checks_blank b I D) as CB. fold c in CB. fold p in CB.
  assert (Pc : (0 <? popcount (b_checks b)) = in_check p c).
  { rewrite <- (negb_involutive (in_check p c)), <- CB, <- popcount0_blank. generalize (popcount (b_checks b)). intros [|q]; reflexivity. }
  destruct (gen p) as [|x l].
  - rewrite Pc. change (stm p) with c. destruct (in_check p c); reflexivity.
  - rewrite (theoretical_draw_spec b I V). cbn [bind]. fold p. change (half p) with (b_half b).
    destruct (cannot_mate p White && cannot_mate p Black); [reflexivity|]. destruct (100 <=? b_half b); reflexivity.
Qed.
End Term.

(* ---------- the flag along every construction and every move ---------- *)
Section Hist.
Variable K : zkeys.
Definition TermInv (b : board) : Prop := b_term b = no_moves (abs b).
Lemma MaskInv_term_irrelevant b f : MaskInv (with_term b f) -> MaskInv b.
Proof. intros [W S]. constructor; [exact W|exact S]. Qed.
Lemma term_after b7 b' : update_terminal_status K b7 = Ok b' -> MaskInv b' -> valid (abs b') = true -> TermInv b'.
Proof.
  intros E I V. assert (X : exists f, b' = with_term b7 f).
  { unfold update_terminal_status in E. apply bind_ok in E. destruct E as (f & _ & E). exists (negb f). now apply Ok_inj in E. }
  destruct X as (f & ->). apply MaskInv_term_irrelevant in I. rewrite abs_with_term in V.
  rewrite (terminal_flag_spec K b7 I V) in E. apply Ok_inj in E. unfold TermInv. rewrite <- E. reflexivity.
Qed.
Lemma move_ends_with_terminal b mv b' : make_move_unchecked K b mv = Ok b' -> exists b7, update_terminal_status K b7 = Ok b'.
Proof.
  unfold make_move_unchecked. intros E. apply bind_ok in E. destruct E as (b1 & _ & E). apply bind_ok in E. destruct E as (b7 & _ & E). eauto.
Qed.
Lemma build_ends_with_terminal bd b' : try_from_builder K bd = Ok b' -> exists b7, update_terminal_status K b7 = Ok b'.
Proof.
  unfold try_from_builder. intros E.
  repeat (apply bind_ok in E; destruct E as (? & _ & E)).
  repeat match type of E with (if ?c then _ else _) = _ => destruct c; [discriminate|] end.
  repeat (apply bind_ok in E; destruct E as (? & _ & E)).
  match type of E with match ?v with None => _ | Some _ => _ end = _ => destruct v; [discriminate|] end. eauto.
Qed.
Theorem TermInv_move b mv b' : make_move K b mv = Ok b' -> MaskInv b' -> valid (abs b') = true -> TermInv b'.
Proof.
  intros E. assert (E' : make_move_unchecked K b mv = Ok b').
  { unfold make_move in E. destruct (is_legal_move K b mv) as [[]| |]; cbn [bind] in E; try discriminate. exact E. }
  destruct (move_ends_with_terminal _ _ _ E') as (b7 & E7). now apply (term_after b7).
Qed.
Theorem TermInv_build bd b' : try_from_builder K bd = Ok b' -> MaskInv b' -> valid (abs b') = true -> TermInv b'.
Proof. intros E. destruct (build_ends_with_terminal _ _ E) as (b7 & E7). now apply (term_after b7). Qed.
End Hist.
