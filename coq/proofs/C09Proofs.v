(* proofs/C09Proofs.v — validate() accepts exactly the valid positions; construction never panics on a 64-square
   description, and returns a board whose mailbox position is the described one *)
Require Import LC.model.Prims LC.model.Tables LC.model.Board LC.spec.Chess LC.spec.Geometry
  LC.proofs.Basics LC.proofs.Bits LC.proofs.Cols LC.proofs.MaskInv LC.proofs.HashInv LC.proofs.MoveInv LC.proofs.Attack
  LC.proofs.C05Proofs LC.proofs.C05Pins LC.proofs.C06Proofs LC.proofs.C02Proofs LC.proofs.Safety LC.proofs.C01a.
From Coq Require Import Lia.
Open Scope N_scope.

(* ---------- king counts ---------- *)
Lemma king_filter b c : MaskInv b ->
  bits (N.land (m_king b) (cmask b c)) = filter (fun s => opiece_eqb (piece_at (abs b) s) (Some (King, c))) squares.
Proof.
  intros I.
  assert (U : u64 (N.land (m_king b) (cmask b c))).
  { apply u64_has. intros x H. rewrite has_land in H. apply andb_prop in H. destruct H as [H _]. exact (mi_tmask_small b King x I H). }
  rewrite (bits_spec _ U). apply filter_ext'. intros x _. rewrite (piece_at_abs b x I). apply (king_mask_cell b c x I).
Qed.
Lemma one_king_count b c : MaskInv b -> (popcount (N.land (m_king b) (cmask b c)) =? 1) = one_king (abs b) c.
Proof.
  intros I.
  assert (U : u64 (N.land (m_king b) (cmask b c))).
  { apply u64_has. intros x H. rewrite has_land in H. apply andb_prop in H. destruct H as [H _]. exact (mi_tmask_small b King x I H). }
  rewrite (popcount_length _ U), (king_filter b c I). unfold one_king.
  generalize (length (filter (fun s => opiece_eqb (piece_at (abs b) s) (Some (King, c))) squares)). intros n.
  apply bool_eq_iff. rewrite N.eqb_eq, Nat.eqb_eq. lia.
Qed.

(* ---------- the opponent is not in check ---------- *)
Section Opp.
Variable K : zkeys.
Lemma set_side_abs b c : MaskInv b -> MaskInv (set_side_to_move K b c) /\ abs_pl (set_side_to_move K b c) = abs_pl b /\ b_stm (set_side_to_move K b c) = c.
Proof.
  intros I. destruct (set_side_fields K b c) as (F1 & F2 & _). split; [eapply MaskInv_ext; eauto|]. split; [|exact F2].
  unfold abs_pl. apply map_ext. intros x. unfold cell_at. now rewrite F1.
Qed.
Lemma opp_check_spec b : MaskInv b -> one_king (abs b) (opp (b_stm b)) = true ->
  exists cb, update_pins_and_checks (set_side_to_move K b (opp (b_stm b))) = Ok cb /\
    (0 <? popcount (b_checks cb)) = in_check (abs b) (opp (b_stm b)).
Proof.
  intros I K1. set (o := opp (b_stm b)) in *. destruct (set_side_abs b o I) as (I' & Pl & St).
  set (b' := set_side_to_move K b o) in *.
  assert (Hpl : placement (abs b') = placement (abs b)) by exact Pl.
  destruct (one_king_sq (abs b) o K1) as (k & Ek & _).
  rewrite <- (king_sq_pl _ _ Hpl) in Ek. rewrite <- St in Ek.
  destruct (in_check_board b' I' k Ek) as (P & C & Ep & Hb).
  unfold update_pins_and_checks. rewrite (king_square_spec b' (b_stm b') I'), Ek. cbn [bind]. rewrite Ep. cbn [bind].
  eexists. split; [reflexivity|]. cbn [b_checks with_pc].
  rewrite <- (in_check_pl _ _ Hpl), <- St. 
  assert (E0 : (0 <? popcount C) = negb (is_blank C)).
  { rewrite <- popcount0_blank. destruct (popcount C); reflexivity. }
  rewrite E0, Hb. apply negb_involutive.
Qed.
End Opp.

(* ---------- en-passant consistency ---------- *)
Definition model_ep_ok (b : board) : bool :=
  let c := b_stm b in
  match b_ep b with
  | None => true
  | Some e =>
      let '(ep_rank, pawn_sq, origin_sq) := match c with White => (5, sq_down e, sq_up e) | Black => (2, sq_up e, sq_down e) end in
      (rank e =? ep_rank) && is_empty_square b e &&
      match pawn_sq, origin_sq with
      | Ok p, Ok o => negb (is_blank (N.land (N.land (m_pawn b) (cmask b (opp c))) (bit p))) && is_empty_square b o
      | _, _ => false end
  end.
Definition ep_geo_ok (c : color) (e : square) : bool :=
  let er := match c with White => 5 | Black => 2 end in
  Bool.eqb (rank e =? er) (srank e =? er) &&
  (negb (srank e =? er) ||
   (res_is (match c with White => sq_down e | Black => sq_up e end) (smk (match c with White => 4 | Black => 3 end) (sfile e)) &&
    res_is (match c with White => sq_up e | Black => sq_down e end) (smk (match c with White => 6 | Black => 1 end) (sfile e)))).
Lemma ep_geo_sweep : forallb (fun c => forallb (ep_geo_ok c) squares) all_colors = true.
Proof. vm_compute. reflexivity. Qed.
Lemma res_is_ok r v : res_is r v = true -> r = Ok v.
Proof. destruct r; cbn; try discriminate. intros H. apply N.eqb_eq in H. now subst. Qed.
Lemma model_ep_ok_spec b : MaskInv b -> (forall e, b_ep b = Some e -> e < 64) -> model_ep_ok b = ep_ok (abs b).
Proof.
  intros I He. unfold model_ep_ok, ep_ok. cbn [ep abs stm]. destruct (b_ep b) as [e|]; [|reflexivity]. specialize (He e eq_refl).
  pose proof ep_geo_sweep as G. rewrite forallb_forall in G.
  assert (Hc : In (b_stm b) all_colors) by (destruct (b_stm b); cbn; tauto). specialize (G _ Hc).
  pose proof (forallb_squares _ G e He) as G2. unfold ep_geo_ok in G2. apply andb_prop in G2. destruct G2 as [G1 G2]. apply eqb_prop in G1.
  assert (Occ : forall x, is_empty_square b x = negb (occupied (abs b) x)).
  { intros x. rewrite (is_empty_square_inv b x I), <- (piece_at_abs b x I). unfold occupied. now destruct (piece_at (abs b) x). }
  destruct (b_stm b); cbn [opp] in *.
  - rewrite G1. destruct (srank e =? 5); [|reflexivity]. cbn [negb orb andb] in G2 |- *. apply andb_prop in G2. destruct G2 as [Ga Gb].
    apply res_is_ok in Ga, Gb. rewrite Ga, Gb, !Occ.
    rewrite is_blank_land_bit, negb_involutive, has_land. change (m_pawn b) with (tmask b Pawn).
    rewrite (has_tmask_cell b Pawn _ I), (has_cmask_cell b Black _ I), <- (piece_at_abs b _ I).
    destruct (piece_at (abs b) (smk 4 (sfile e))) as [[[] []]|]; destruct (occupied (abs b) e); destruct (occupied (abs b) (smk 6 (sfile e))); reflexivity.
  - rewrite G1. destruct (srank e =? 2); [|reflexivity]. cbn [negb orb andb] in G2 |- *. apply andb_prop in G2. destruct G2 as [Ga Gb].
    apply res_is_ok in Ga, Gb. rewrite Ga, Gb, !Occ.
    rewrite is_blank_land_bit, negb_involutive, has_land. change (m_pawn b) with (tmask b Pawn).
    rewrite (has_tmask_cell b Pawn _ I), (has_cmask_cell b White _ I), <- (piece_at_abs b _ I).
    destruct (piece_at (abs b) (smk 3 (sfile e))) as [[[] []]|]; destruct (occupied (abs b) e); destruct (occupied (abs b) (smk 1 (sfile e))); reflexivity.
Qed.

(* ---------- castling rights consistency ---------- *)
Definition model_rights_bad (b : board) (c : color) (k : square) : bool :=
  let rooks := N.land (m_rook b) (cmask b c) in
  let r := back_rank c in
  if k =? mk_sq r 4 then
    let vm := match rights_of b c with Neither => 0 | QueenSide => bit (mk_sq r 0) | KingSide => bit (mk_sq r 7)
              | BothSides => N.lor (bit (mk_sq r 0)) (bit (mk_sq r 7)) end in
    negb (popcount (N.land rooks vm) =? popcount vm)
  else negb (cr_eqb (rights_of b c) Neither).
Lemma land_bit_if m x : N.land m (bit x) = if has m x then bit x else 0.
Proof.
  apply N.bits_inj. intros y. fold (has (N.land m (bit x)) y). rewrite has_land, has_bit.
  destruct (has m x) eqn:E; [fold (has (bit x) y); rewrite has_bit|rewrite N.bits_0]; destruct (N.eqb_spec x y) as [<-|]; rewrite ?E, ?andb_false_r; reflexivity.
Qed.
Lemma king_unique p c k x : one_king p c = true -> king_sq p c = Some k -> x < 64 ->
  opiece_eqb (piece_at p x) (Some (King, c)) = (x =? k).
Proof.
  unfold one_king, king_sq. rewrite find_hd_filter. intros H1 H2 Hx. apply Nat.eqb_eq in H1.
  set (f := fun s => opiece_eqb (piece_at p s) (Some (King, c))) in *.
  destruct (filter f squares) as [|k' [|? ?]] eqn:E; try discriminate. injection H2 as ->.
  change (opiece_eqb (piece_at p x) (Some (King, c))) with (f x). destruct (f x) eqn:Fx.
  - assert (In x (filter f squares)) as Hin by (apply filter_In; split; [now apply In_squares|exact Fx]). rewrite E in Hin.
    destruct Hin as [<-|[]]. symmetry. apply N.eqb_refl.
  - destruct (N.eqb_spec x k) as [->|]; [|reflexivity].
    assert (In k (filter f squares)) as Hin by (rewrite E; now left). apply filter_In in Hin. destruct Hin as [_ Hin]. congruence.
Qed.
Lemma rooks_cell b c x : MaskInv b -> has (N.land (m_rook b) (cmask b c)) x = opiece_eqb (piece_at (abs b) x) (Some (Rook, c)).
Proof.
  intros I. rewrite has_land. change (m_rook b) with (tmask b Rook). rewrite (has_tmask_cell b Rook x I), (has_cmask_cell b c x I), (piece_at_abs b x I).
  destruct (cell_at b x) as [[t c']|]; [|reflexivity]. unfold opiece_eqb, piece_eqb. cbn [fst snd]. reflexivity.
Qed.
Lemma rights_bad_spec b c k : MaskInv b -> one_king (abs b) c = true -> king_sq (abs b) c = Some k ->
  model_rights_bad b c k = negb (right_ok (abs b) c).
Proof.
  intros I K1 Ek. unfold model_rights_bad, right_ok, right_k, right_q. rewrite rights_abs.
  assert (He : smk (home_rank c) 4 < 64) by (destruct c; cbv; reflexivity).
  rewrite (king_unique (abs b) c k _ K1 Ek He).
  assert (E4 : mk_sq (back_rank c) 4 = smk (home_rank c) 4) by (destruct c; reflexivity).
  rewrite E4, (N.eqb_sym k).
  assert (E0 : mk_sq (back_rank c) 0 = corner c false) by (destruct c; reflexivity).
  assert (E7 : mk_sq (back_rank c) 7 = corner c true) by (destruct c; reflexivity).
  rewrite E0, E7, <- !(rooks_cell b c _ I). set (rooks := N.land (m_rook b) (cmask b c)).
  destruct (smk (home_rank c) 4 =? k).
  - assert (P1 : forall x, popcount (bit x) = 1) by apply popcount_bit.
    assert (P2 : popcount (N.lor (bit (corner c false)) (bit (corner c true))) = 2) by (destruct c; reflexivity).
    destruct (rights_of b c); cbn [has_kingside has_queenside orb negb andb];
    rewrite ?N.land_lor_distr_r, ?land_bit_if, ?N.land_0_r;
    destruct (has rooks (corner c false)); destruct (has rooks (corner c true)); rewrite ?N.lor_0_r, ?N.lor_0_l, ?P1, ?P2; reflexivity.
  - destruct (rights_of b c); reflexivity.
Qed.

(* ---------- validate() in closed form ---------- *)
Section Validate.
Variable K : zkeys.
Lemma pairs_distinct i tj : In (i, tj) (flat_map (fun i => map (fun j => (i, j)) (skipn (S i) all_types)) (seq 0 5)) -> nth i all_types Pawn <> tj.
Proof. intros H. vm_compute in H. repeat (destruct H as [H|H]; [injection H as <- <-; discriminate|]). destruct H. Qed.
Definition validate_spec_result (b : board) : option err :=
  let p := abs b in
  if negb (one_king p White) then Some EKings else if negb (one_king p Black) then Some EKings else
  if in_check p (opp (stm p)) then Some EOppCheck else if negb (ep_ok p) then Some EEnPassant else
  if negb (right_ok p White) then Some ECastling else if negb (right_ok p Black) then Some ECastling else None.
Lemma validate_closed b : MaskInv b -> (forall e, b_ep b = Some e -> e < 64) -> validate K b = Ok (validate_spec_result b).
Proof.
  intros I He. unfold validate, validate_spec_result.
  assert (E1 : is_blank (N.land (m_white b) (m_black b)) = true) by (rewrite (colors_disjoint b I); reflexivity).
  rewrite E1. cbn [negb].
  assert (E2 : existsb (fun '(i, tj) => negb (is_blank (N.land (tmask b (nth i all_types Pawn)) (tmask b tj))))
                 (flat_map (fun i => map (fun j => (i, j)) (skipn (S i) all_types)) (seq 0 5)) = false).
  { destruct (existsb _ _) eqn:X; [|reflexivity]. apply existsb_exists in X. destruct X as ([i tj] & Hin & Hx).
    rewrite (types_disjoint b I _ _ (pairs_distinct i tj Hin)) in Hx. discriminate. }
  rewrite E2.
  assert (E3 : fold_left (fun acc t => N.lor acc (tmask b t)) all_types 0 = m_all b).
  { cbn [fold_left all_types tmask]. rewrite N.lor_0_l. apply (types_union b I). }
  rewrite E3, N.eqb_refl. cbn [negb].
  pose proof (one_king_count b White I) as KWc. pose proof (one_king_count b Black I) as KBc. cbn [cmask] in KWc, KBc. rewrite KWc, KBc.
  change (stm (abs b)) with (b_stm b).
  destruct (one_king (abs b) White) eqn:KW; [|reflexivity]. destruct (one_king (abs b) Black) eqn:KB; [|reflexivity]. cbn [negb].
  assert (Ko : one_king (abs b) (opp (b_stm b)) = true) by (generalize (opp (b_stm b)); intros []; assumption).
  destruct (opp_check_spec K b I Ko) as (cb & Ecb & Hcb). rewrite Ecb. cbn [bind]. rewrite Hcb.
  destruct (in_check (abs b) (opp (b_stm b))); [reflexivity|].
  change (match b_ep b with None => true | Some e => _ end) with (model_ep_ok b).
  rewrite (model_ep_ok_spec b I He). destruct (ep_ok (abs b)); [|reflexivity]. cbn [negb].
  destruct (one_king_sq (abs b) White KW) as (wk & Ewk & _). destruct (one_king_sq (abs b) Black KB) as (bk & Ebk & _).
  rewrite (king_square_spec b White I), Ewk. cbn [bind].
  change (if wk =? mk_sq (back_rank White) 4 then _ else _) with (model_rights_bad b White wk).
  rewrite (rights_bad_spec b White wk I KW Ewk). destruct (right_ok (abs b) White); [|reflexivity]. cbn [negb].
  rewrite (king_square_spec b Black I), Ebk. cbn [bind].
  change (if bk =? mk_sq (back_rank Black) 4 then _ else _) with (model_rights_bad b Black bk).
  rewrite (rights_bad_spec b Black bk I KB Ebk). destruct (right_ok (abs b) Black); reflexivity.
Qed.
Lemma validate_none_iff b : validate_spec_result b = None <-> valid (abs b) = true.
Proof.
  unfold validate_spec_result, valid. cbn [placement abs]. rewrite abs_pl_length. cbn [Nat.eqb andb].
  destruct (one_king (abs b) White), (one_king (abs b) Black), (in_check (abs b) (opp (stm (abs b)))), (ep_ok (abs b)),
    (right_ok (abs b) White), (right_ok (abs b) Black); cbn; split; congruence.
Qed.
End Validate.

(* ---------- the terminal flag: computed without panic on valid positions ---------- *)
Require Import LC.proofs.Pseudo LC.proofs.C01b.
Lemma any_res_ok {A} (f : A -> res bool) (g : A -> bool) l : (forall x, In x l -> f x = Ok (g x)) -> any_res f l = Ok (existsb g l).
Proof.
  induction l as [|a l IH]; intros H; [reflexivity|]. cbn [any_res existsb]. rewrite (H a (or_introl eq_refl)). cbn [bind].
  destruct (g a); [reflexivity|]. apply IH. intros x Hx. apply H. now right.
Qed.
Section Terminal.
Variable K : zkeys.
Variable b : board.
Hypothesis I : MaskInv b.
Hypothesis V : valid (abs b) = true.
Let p := abs b.
Let c := b_stm b.
Definition has_safe_move (t : ptype) (s : square) : bool :=
  existsb (fun d => negb (in_check (apply_pm p (mk_pm t s d None)) c)) (filter (fun d => mem d (pseudo_dests p s)) squares).
Lemma terminal_inner t s : In s (own_squares b t) ->
  (mask <- piece_moves_mask b t s ;;
   any_res (fun d => cm <- check_mask_after K b (mk_pm t s d None) ;; Ok (is_blank cm)) (bits mask)) = Ok (has_safe_move t s).
Proof.
  intros Hin. apply (own_squares_In b I) in Hin. destruct Hin as [Hs Hc]. destruct (valid_parts _ V) as (L & _ & _ & Vep).
  destruct (pseudo_mask_spec b t s I Hs Hc) as (M & EM & HM). rewrite EM. cbn [bind].
  assert (U : u64 M) by (apply u64_has; apply (pseudo_mask_small b t s M I Hs EM)).
  assert (EB : bits M = filter (fun d => mem d (pseudo_dests p s)) squares).
  { rewrite (bits_spec M U). apply filter_ext'. intros d Hd. apply In_squares in Hd. fold (has M d). now apply HM. }
  rewrite EB. unfold has_safe_move. apply any_res_ok. intros d Hd. apply filter_In in Hd. destruct Hd as [Hd Hm]. apply In_squares in Hd.
  assert (Hp : piece_at p s = Some (t, stm p)) by (unfold p; rewrite (piece_at_abs b s I); exact Hc).
  destruct (check_mask_after_spec K b (mk_pm t s d None) I Vep Hs Hd Hc Hm) as (cm & E & Hb).
  { apply (king_after (abs b) (mk_pm t s d None) V Hs Hd Hp Hm). reflexivity. }
  rewrite E. cbn [bind]. now rewrite Hb.
Qed.
Lemma update_terminal_spec : update_terminal_status K b =
  Ok (with_term b (negb (existsb (fun t => existsb (has_safe_move t) (own_squares b t)) all_types))).
Proof.
  unfold update_terminal_status. fold c.
  rewrite (any_res_ok _ (fun t => existsb (has_safe_move t) (own_squares b t))).
  - reflexivity.
  - intros t _. rewrite (own_bits b I). apply any_res_ok. intros s Hs. now apply terminal_inner.
Qed.
End Terminal.

(* ---------- construction ---------- *)
Definition pos_of (bd : builder) : pos :=
  {| placement := bd_pieces bd; stm := bd_stm bd; rights_w := bd_wr bd; rights_b := bd_br bd; ep := bd_ep bd; half := bd_half bd; full := bd_full bd |}.
Definition wf_builder (bd : builder) : Prop := length (bd_pieces bd) = 64%nat /\ forall e, bd_ep bd = Some e -> e < 64.
Lemma MaskInv_with_pc b x y : MaskInv b -> MaskInv (with_pc b x y). Proof. apply MaskInv_ext. reflexivity. Qed.
Lemma MaskInv_with_hash b h : MaskInv b -> MaskInv (with_hash b h). Proof. apply MaskInv_ext. reflexivity. Qed.
Lemma king_square_with_pc b x y c : king_square (with_pc b x y) c = king_square b c. Proof. reflexivity. Qed.
Lemma pins_with_pc b x y k : pins_and_checks (with_pc b x y) k = pins_and_checks b k. Proof. reflexivity. Qed.
Lemma abs_with_hash b h : abs (with_hash b h) = abs b. Proof. reflexivity. Qed.
Lemma abs_with_pc b x y : abs (with_pc b x y) = abs b. Proof. reflexivity. Qed.
Lemma abs_with_term b t : abs (with_term b t) = abs b. Proof. reflexivity. Qed.
Section Construct.
Variable K : zkeys.
Lemma cell_new x : cell_at new_board x = None.
Proof. unfold cell_at, col_of, new_board, cell. cbn [ka m_all]. now rewrite has_0. Qed.
Lemma fold_put_cells pcs : forall l bi, MaskInv bi -> NoDup l -> (forall x, In x l -> x < 64 /\ cell_at bi x = None) ->
  exists b0, fold_left (fun acc s => b1 <- acc ;; match nth (N.to_nat s) pcs None with Some pc => put_piece K b1 pc s | None => Ok b1 end) l (Ok bi) = Ok b0
    /\ MaskInv b0 /\ forall x, cell_at b0 x = if mem x l then nth (N.to_nat x) pcs None else cell_at bi x.
Proof.
  induction l as [|s l IH]; intros bi Ii ND Hl.
  - exists bi. split; [reflexivity|]. split; [exact Ii|]. intros x. reflexivity.
  - inversion ND as [|? ? Hns ND']; subst. destruct (Hl s (or_introl eq_refl)) as [Hs Hcs]. cbn [fold_left bind].
    destruct (nth (N.to_nat s) pcs None) as [pc|] eqn:Ep.
    + destruct (put_piece_spec K bi pc s Ii Hs) as (b2 & E2 & _). rewrite E2.
      destruct (cells_put K bi pc s b2 Ii Hs E2) as (I2 & _ & C2).
      destruct (IH b2 I2 ND') as (b0 & E0 & I0 & C0).
      { intros x Hx. destruct (Hl x (or_intror Hx)) as [Hx64 Hcx]. split; [exact Hx64|]. rewrite C2.
        destruct (N.eqb_spec s x) as [->|]; [contradiction|exact Hcx]. }
      exists b0. split; [exact E0|]. split; [exact I0|]. intros x. rewrite C0, C2. cbn [mem existsb]. unfold mem. rewrite (N.eqb_sym x s).
      destruct (N.eqb_spec s x) as [->|Hne]; cbn [orb].
      * destruct (existsb (N.eqb x) l) eqn:M; [reflexivity|now rewrite Ep].
      * reflexivity.
    + destruct (IH bi Ii ND') as (b0 & E0 & I0 & C0). { intros x Hx. apply Hl. now right. }
      exists b0. split; [exact E0|]. split; [exact I0|]. intros x. rewrite C0. cbn [mem existsb]. unfold mem. rewrite (N.eqb_sym x s).
      destruct (N.eqb_spec s x) as [->|Hne]; cbn [orb]; [|reflexivity].
      destruct (existsb (N.eqb x) l) eqn:M; [reflexivity|]. now rewrite Ep, Hcs.
Qed.
Lemma mem_squares x : x < 64 -> mem x squares = true.
Proof. intros H. apply mem_true. now apply In_squares. Qed.

Definition fields_of (bd : builder) (b0 : board) : board :=
  with_clocks (set_castling_rights K (set_castling_rights K (set_en_passant K (set_side_to_move K b0 (bd_stm bd)) (bd_ep bd)) White (bd_wr bd)) Black (bd_br bd)) (bd_half bd) (bd_full bd).
Lemma fields_of_facts bd b0 : MaskInv b0 -> MaskInv (fields_of bd b0) /\
  abs (fields_of bd b0) = {| placement := abs_pl b0; stm := bd_stm bd; rights_w := bd_wr bd; rights_b := bd_br bd; ep := bd_ep bd; half := bd_half bd; full := bd_full bd |}.
Proof.
  intros I0. split; [apply MaskInv_with_clocks, MaskInv_set_castling, MaskInv_set_castling, MaskInv_set_ep, MaskInv_set_side, I0|].
  assert (F1 : abs_pl (fields_of bd b0) = abs_pl b0).
  { unfold abs_pl. apply map_ext. intros x. unfold cell_at. f_equal. unfold fields_of, set_castling_rights, set_en_passant, set_side_to_move.
    repeat match goal with |- context [if ?cnd then _ else _] => destruct cnd end; reflexivity. }
  assert (F2 : b_stm (fields_of bd b0) = bd_stm bd).
  { unfold fields_of, set_castling_rights, set_en_passant.
    repeat match goal with |- context [if cr_eqb ?x ?y then _ else _] => destruct (cr_eqb x y) end; cbn [b_stm with_clocks with_rights with_hash with_ep];
    apply (proj1 (proj2 (set_side_fields K b0 (bd_stm bd)))). }
  assert (F3 : b_wr (fields_of bd b0) = bd_wr bd /\ b_br (fields_of bd b0) = bd_br bd /\ b_ep (fields_of bd b0) = bd_ep bd /\ b_half (fields_of bd b0) = bd_half bd /\ b_full (fields_of bd b0) = bd_full bd).
  { unfold fields_of, set_castling_rights. repeat match goal with |- context [if cr_eqb ?x ?y then _ else _] => destruct (cr_eqb x y) end; repeat split. }
  destruct F3 as (F3 & F4 & F5 & F6 & F7). unfold abs. rewrite F1, F2, F3, F4, F5, F6, F7. reflexivity.
Qed.
Theorem construction bd : wf_builder bd ->
  (valid (pos_of bd) = true -> exists b, try_from_builder K bd = Ok b /\ abs b = pos_of bd /\ Inv K b /\ DerivedInv b) /\
  (valid (pos_of bd) = false -> exists e, try_from_builder K bd = Err e).
Proof.
  intros [L Hep]. unfold try_from_builder.
  destruct (fold_put_cells (bd_pieces bd) squares new_board MaskInv_new squares_NoDup) as (b0 & E0 & I0 & C0).
  { intros x Hx. split; [now apply In_squares|apply cell_new]. }
  rewrite E0. cbn [bind].
  assert (Pl0 : abs_pl b0 = bd_pieces bd).
  { apply abs_pl_ext; [exact L|]. intros x Hx. rewrite C0, (mem_squares x Hx). reflexivity. }
  pose proof (one_king_count b0 White I0) as KWc. pose proof (one_king_count b0 Black I0) as KBc. cbn [cmask] in KWc, KBc. rewrite KWc, KBc.
  change (with_clocks (set_castling_rights K (set_castling_rights K (set_en_passant K (set_side_to_move K b0 (bd_stm bd)) (bd_ep bd)) White (bd_wr bd)) Black (bd_br bd)) (bd_half bd) (bd_full bd))
    with (fields_of bd b0).
  destruct (fields_of_facts bd b0 I0) as (I5 & A5'). set (b5 := fields_of bd b0) in *. clearbody b5.
  assert (A5 : abs b5 = pos_of bd) by (rewrite A5', Pl0; reflexivity).
  assert (Pl5 : placement (abs b0) = placement (pos_of bd)) by exact Pl0.
  assert (KW : one_king (abs b0) White = one_king (pos_of bd) White) by (unfold one_king; f_equal; f_equal; apply filter_ext'; intros x _; now rewrite (piece_at_pl _ _ Pl5)).
  assert (KB : one_king (abs b0) Black = one_king (pos_of bd) Black) by (unfold one_king; f_equal; f_equal; apply filter_ext'; intros x _; now rewrite (piece_at_pl _ _ Pl5)).
  rewrite KW, KB.
  assert (Hv : valid (pos_of bd) = true -> one_king (pos_of bd) White = true /\ one_king (pos_of bd) Black = true).
  { intros V. destruct (valid_parts2 _ V) as (A & B & _). auto. }
  destruct (one_king (pos_of bd) White) eqn:OW; cbn [negb].
  2:{ split; [intros V; destruct (Hv V); discriminate|intros _; eexists; reflexivity]. }
  destruct (one_king (pos_of bd) Black) eqn:OB; cbn [negb].
  2:{ split; [intros V; destruct (Hv V); discriminate|intros _; eexists; reflexivity]. }
  (* pins and checks: the mover has a king *)
  assert (S5 : b_stm b5 = bd_stm bd) by (change (b_stm b5) with (stm (abs b5)); rewrite A5; reflexivity).
  assert (K5 : one_king (abs b5) (b_stm b5) = true).
  { rewrite S5, A5. generalize (bd_stm bd). intros []; assumption. }
  destruct (one_king_sq (abs b5) (b_stm b5) K5) as (k & Ek & Hk & _).
  destruct (pins_and_checks_ok b5 k I5 Hk) as (P & C & Epc & _).
  unfold update_pins_and_checks. rewrite (king_square_spec b5 (b_stm b5) I5), Ek. cbn [bind]. rewrite Epc. cbn [bind].
  set (b6 := with_pc b5 P C).
  assert (I6 : MaskInv b6) by (apply MaskInv_with_pc; exact I5).
  rewrite (calc_hash_spec K b6 I6). cbn [bind]. set (b7 := with_hash b6 (feature_hash K b6)).
  assert (I7 : MaskInv b7) by (apply MaskInv_with_hash; exact I6).
  assert (A7 : abs b7 = pos_of bd) by (unfold b7, b6; rewrite abs_with_hash, abs_with_pc; exact A5).
  assert (E7 : forall e, b_ep b7 = Some e -> e < 64).
  { intros e He. apply Hep. change (b_ep b7) with (ep (abs b7)) in He. rewrite A7 in He. exact He. }
  rewrite (validate_closed K b7 I7 E7). cbn [bind].
  pose proof (validate_none_iff b7) as Vn. rewrite A7 in Vn.
  destruct (validate_spec_result b7) as [e|].
  - split; [intros V; apply Vn in V; discriminate|intros _; eauto].
  - assert (V : valid (pos_of bd) = true) by (apply Vn; reflexivity). split; [|intros X; congruence]. intros _.
    assert (V7 : valid (abs b7) = true) by (rewrite A7; exact V).
    rewrite (update_terminal_spec K b7 I7 V7). eexists. split; [reflexivity|]. split; [rewrite abs_with_term; exact A7|]. split.
    + apply Inv_with_term. split; [exact I7|]. apply HashInv_with_hash. reflexivity.
    + apply DerivedInv_with_term, DerivedInv_with_hash. exists k. unfold b6. split.
      * rewrite king_square_with_pc. cbn [b_stm with_pc]. rewrite (king_square_spec b5 (b_stm b5) I5), Ek. reflexivity.
      * rewrite pins_with_pc. cbn [b_pinned b_checks with_pc]. exact Epc.
Qed.
End Construct.
