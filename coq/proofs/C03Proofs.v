(* proofs/C03Proofs.v — the legality test answers exactly "the move is legal under the rules" *)
Require Import LC.model.Prims LC.model.Tables LC.model.Board LC.spec.Chess LC.spec.Geometry
  LC.proofs.Basics LC.proofs.Bits LC.proofs.Cols LC.proofs.MaskInv LC.proofs.HashInv LC.proofs.MoveInv LC.proofs.Attack
  LC.proofs.C05Proofs LC.proofs.C05Pins LC.proofs.C02Proofs LC.proofs.Rays LC.proofs.Pseudo LC.proofs.Safety LC.proofs.PinLemma
  LC.proofs.C01a LC.proofs.C01b LC.proofs.C09Proofs LC.proofs.C04Spec LC.proofs.C04Proofs.
From Coq Require Import Lia.
Open Scope N_scope.

Section L.
Variable K : zkeys.
Variable b : board.
Hypothesis I : MaskInv b.
Hypothesis D : DerivedInv b.
Hypothesis V : valid (abs b) = true.
Let p := abs b.
Let c := b_stm b.

(* the king-safety step of the test, for any promotion choice *)
Lemma safe_pred_gen m : pm_from m < 64 -> pm_to m < 64 -> cell_at b (pm_from m) = Some (pm_type m, c) ->
  mem (pm_to m) (pseudo_dests p (pm_from m)) = true -> promo_ok p m = true ->
  (if needs_eval b m then cm <- check_mask_after K b m ;; Ok (is_blank cm) else Ok true) = Ok (negb (in_check (apply_pm p m) c)).
Proof.
  intros Hs Hd Hc Hm Hpr. destruct (valid_parts _ V) as (L & _ & _ & Vep).
  assert (Hp : piece_at p (pm_from m) = Some (pm_type m, stm p)) by (unfold p; rewrite (piece_at_abs b _ I); exact Hc).
  assert (Hkp : pm_type m = King -> pm_promo m = None).
  { intros E. unfold promo_ok in Hpr. rewrite E in Hpr. cbn [ptype_eqb andb] in Hpr. destruct (pm_promo m); [discriminate|reflexivity]. }
  destruct (needs_eval b m) eqn:En.
  - destruct (check_mask_after_spec K b m I Vep Hs Hd Hc Hm) as (cm & E & Hb).
    { apply (king_after (abs b) m V Hs Hd Hp Hm Hkp). }
    rewrite E. cbn [bind]. now rewrite Hb.
  - unfold needs_eval in En. repeat (apply orb_false_elim in En; destruct En as [En ?]).
    apply negb_false_iff in En. rewrite (checks_blank b I D) in En. apply negb_true_iff in En.
    match goal with X : negb (is_blank (N.land (bit _) (b_pinned b))) = false |- _ => rewrite is_blank_land_bit', negb_involutive in X; rename X into Hpin end.
    rewrite (pin_mask_spec b I D _ Hs) in Hpin.
    match goal with X : is_en_passant_move _ b = false |- _ => rewrite (is_ep_eq b) in X; rename X into Hep end.
    match goal with X : ptype_eqb (pm_type m) King = false |- _ => rename X into Hnk end.
    f_equal. symmetry. apply negb_true_iff.
    apply (pin_lemma p m L Hs Hd Hep Hp).
    + intros E. rewrite E in Hnk. discriminate.
    + unfold promo_ok in Hpr. destruct (ptype_eqb (pm_type m) Pawn && _).
      * destruct (pm_promo m) as [[]|]; try discriminate; congruence.
      * destruct (pm_promo m); [discriminate|]. intros E. rewrite E in Hnk. discriminate.
    + apply (pseudo_not_own p _ _ _ Vep Hp Hm).
    + exact En.
    + exact Hpin.
Qed.
Lemma own_test t s : s < 64 -> is_blank (N.land (N.land (tmask b t) (cmask b c)) (bit s)) = negb (opiece_eqb (piece_at p s) (Some (t, c))).
Proof.
  intros Hs. rewrite is_blank_land_bit, has_land, (has_tmask_cell b t s I), (has_cmask_cell b c s I). unfold p. rewrite (piece_at_abs b s I).
  destruct (cell_at b s) as [[t' c']|]; [|reflexivity]. destruct t', t, c', c; reflexivity.
Qed.
Lemma promo_test m : pm_to m < 64 ->
  (match pm_promo m with Some King | Some Pawn => false
   | Some _ => ptype_eqb (pm_type m) Pawn && (rank (pm_to m) =? promotion_rank c)
   | None => negb (ptype_eqb (pm_type m) Pawn && (rank (pm_to m) =? promotion_rank c)) end) = promo_ok p m.
Proof.
  intros Hd. unfold promo_ok, p. rewrite <- (promo_rank_eq b _ Hd). fold c.
  destruct (ptype_eqb (pm_type m) Pawn && (rank (pm_to m) =? promotion_rank c)); destruct (pm_promo m) as [[]|]; reflexivity.
Qed.
Hypothesis T : b_term b = no_moves p.
Theorem is_legal_move_spec mv : wf_bmove mv -> is_legal_move K b mv = Ok (legal p mv).
Proof.
  intros W. destruct (valid_parts _ V) as (L & _). unfold is_legal_move. rewrite T. destruct (no_moves p) eqn:NM.
  { f_equal. symmetry. unfold no_moves in NM. destruct (gen p) eqn:G; [|discriminate]. apply (proj1 (gen_nil_iff p L) G). }
  destruct mv as [m| |].
  - destruct W as [Hs Hd]. cbv zeta. fold c. rewrite (own_test _ _ Hs). cbn [legal]. change (stm p) with c.
    destruct (opiece_eqb (piece_at p (pm_from m)) (Some (pm_type m, c))) eqn:Eo; cbn [negb andb]; [|reflexivity].
    apply opiece_eqb_true in Eo. assert (Hc : cell_at b (pm_from m) = Some (pm_type m, c)) by (rewrite <- (piece_at_abs b _ I); exact Eo).
    destruct (pseudo_mask_spec b _ _ I Hs Hc) as (M & EM & HM). rewrite EM. cbn [bind].
    rewrite is_blank_land_bit, (HM _ Hd). fold p. destruct (mem (pm_to m) (pseudo_dests p (pm_from m))) eqn:Em; cbn [negb andb]; [|reflexivity].
    rewrite (promo_test m Hd). destruct (promo_ok p m) eqn:Epr; cbn [negb andb]; [|reflexivity].
    exact (safe_pred_gen m Hs Hd Hc Em Epr).
  - destruct (castling_spec b None I D V (or_introl eq_refl)) as (r & Er & Hk & _). rewrite Er. cbn [bind legal]. now rewrite Hk.
  - destruct (castling_spec b None I D V (or_introl eq_refl)) as (r & Er & _ & Hq). rewrite Er. cbn [bind legal]. now rewrite Hq.
Qed.
End L.
