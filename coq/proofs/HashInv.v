(* proofs/HashInv.v — the Zobrist hash as XOR of feature keys; the incremental updates keep it. *)
Require Import LC.model.Prims LC.model.Tables LC.model.Board LC.proofs.Basics LC.proofs.Bits LC.proofs.Cols LC.proofs.MaskInv.
From Coq Require Import Lia.
Open Scope N_scope.

(* equalities between XOR combinations of opaque atoms, decided bit by bit *)
Ltac xor_solve :=
  apply N.bits_inj; intro; rewrite ?N.lxor_spec, ?N.bits_0;
  repeat match goal with |- context [N.testbit ?a ?i] => generalize (N.testbit a i); intro end;
  repeat match goal with v : bool |- _ => destruct v end; reflexivity.

Section Hash.
Variable K : zkeys.

Definition cell_key (x : square) (o : option piece) : N := match o with Some (t, c) => zk_piece K c t x | None => 0 end.
Definition xor_keys (f : square -> option piece) (l : list square) (h : N) : N :=
  fold_left (fun h x => N.lxor h (cell_key x (f x))) l h.
Definition side_key (c : color) : N := match c with Black => zk_black K | White => 0 end.
Definition ep_key (e : option square) : N := match e with Some s => zk_ep K (file s) | None => 0 end.
(* the XOR of the published keys of all features of a position *)
Definition feature_hash_of (f : square -> option piece) (stm : color) (wr br : cr) (e : option square) : N :=
  N.lxor (N.lxor (N.lxor (xor_keys f squares 0) (side_key stm)) (N.lxor (zk_castle K White wr) (zk_castle K Black br))) (ep_key e).
Definition feature_hash (b : board) : N := feature_hash_of (cell_at b) (b_stm b) (b_wr b) (b_br b) (b_ep b).
Definition HashInv (b : board) : Prop := b_hash b = feature_hash b.
Lemma feature_hash_unfold b : feature_hash b = feature_hash_of (cell_at b) (b_stm b) (b_wr b) (b_br b) (b_ep b).
Proof. reflexivity. Qed.

Lemma xor_keys_cons f x l h : xor_keys f (x :: l) h = xor_keys f l (N.lxor h (cell_key x (f x))).
Proof. reflexivity. Qed.
Lemma xor_keys_acc f l h : xor_keys f l h = N.lxor h (xor_keys f l 0).
Proof.
  revert h. induction l as [|x l IH]; intros h; [cbn; now rewrite N.lxor_0_r|].
  rewrite !xor_keys_cons. rewrite IH, (IH (N.lxor 0 _)), N.lxor_0_l, N.lxor_assoc. reflexivity.
Qed.
Lemma xor_keys_ext f g l h : (forall x, In x l -> f x = g x) -> xor_keys f l h = xor_keys g l h.
Proof.
  revert h. induction l as [|x l IH]; intros h H; [reflexivity|].
  rewrite !xor_keys_cons. rewrite (H x (or_introl eq_refl)). apply IH. intros y Hy. apply H. now right.
Qed.
(* changing the content of one square *)
Lemma xor_keys_change f g l s : NoDup l -> In s l -> (forall x, x <> s -> f x = g x) ->
  xor_keys g l 0 = N.lxor (xor_keys f l 0) (N.lxor (cell_key s (f s)) (cell_key s (g s))).
Proof.
  induction l as [|x l IH]; intros ND Hin H; [destruct Hin|].
  inversion ND as [|? ? Hx ND']; subst. rewrite !xor_keys_cons, !N.lxor_0_l.
  rewrite (xor_keys_acc g), (xor_keys_acc f).
  destruct Hin as [->|Hin].
  - rewrite (xor_keys_ext g f l 0) by (intros y Hy; symmetry; apply H; intros ->; contradiction).
    generalize (xor_keys f l 0) (cell_key s (f s)) (cell_key s (g s)). intros A a c. xor_solve.
  - assert (x <> s) as Hne by (intros ->; contradiction).
    rewrite (IH ND' Hin H), <- (H x Hne).
    generalize (xor_keys f l 0) (cell_key s (f s)) (cell_key s (g s)) (cell_key x (f x)). intros A a c d. xor_solve.
Qed.
Lemma squares_NoDup : NoDup squares.
Proof. apply sorted_NoDup. apply squares_sorted_gen. Qed.

Lemma feature_hash_change b b' s C : s < 64 ->
  (forall x, col_of b' x = if s =? x then C else col_of b x) -> same_meta b b' ->
  feature_hash b' = N.lxor (feature_hash b) (N.lxor (cell_key s (cell_at b s)) (cell_key s (cell C))).
Proof.
  intros Hs H (M1 & M2 & M3 & M4 & _). unfold feature_hash, feature_hash_of. rewrite M1, M2, M3, M4.
  pose proof (cell_at_cols b b' s C H) as Hc.
  rewrite (xor_keys_change (cell_at b) (cell_at b') squares s squares_NoDup (proj2 (In_squares s) Hs)).
  2:{ intros x Hx. rewrite Hc. destruct (N.eqb_spec s x); [congruence|reflexivity]. }
  rewrite (Hc s), N.eqb_refl.
  generalize (xor_keys (cell_at b) squares 0) (cell_key s (cell_at b s)) (cell_key s (cell C)) (side_key (b_stm b))
    (zk_castle K White (b_wr b)) (zk_castle K Black (b_br b)) (ep_key (b_ep b)). intros. xor_solve.
Qed.

Lemma clear_square_hash b s b' : MaskInv b -> s < 64 -> HashInv b -> clear_square K b s = Ok b' -> HashInv b'.
Proof.
  intros I Hs HI E. destruct (clear_square_spec K b s I Hs) as (b1 & E1 & C1 & M1 & H1). rewrite E in E1. injection E1 as <-.
  unfold HashInv. rewrite (feature_hash_change b b' s zero_col Hs C1 M1), H1, HI. cbn [cell zero_col ka cell_key].
  generalize (feature_hash b). intros F. destruct (cell_at b s) as [[t c]|]; cbn [cell_key]; [generalize (zk_piece K c t s); intros k|]; xor_solve.
Qed.
Lemma put_piece_hash b pc s b' : MaskInv b -> s < 64 -> HashInv b -> put_piece K b pc s = Ok b' -> HashInv b'.
Proof.
  intros I Hs HI E. destruct (put_piece_spec K b pc s I Hs) as (b1 & E1 & C1 & M1 & H1). rewrite E in E1. injection E1 as <-.
  unfold HashInv. rewrite (feature_hash_change b b' s (piece_col pc) Hs C1 M1), H1, HI, cell_piece.
  destruct pc as [t c]. cbn [cell_key fst snd].
  generalize (feature_hash b) (zk_piece K c t s). intros F k.
  destruct (cell_at b s) as [[t0 c0]|]; cbn [cell_key]; [generalize (zk_piece K c0 t0 s); intros k0|]; xor_solve.
Qed.

(* the three setters *)
Lemma feature_hash_meta b b' : (forall x, col_of b' x = col_of b x) ->
  feature_hash b' = feature_hash_of (cell_at b) (b_stm b') (b_wr b') (b_br b') (b_ep b').
Proof.
  intros H. unfold feature_hash, feature_hash_of. f_equal. f_equal. f_equal.
  apply xor_keys_ext. intros x _. unfold cell_at. now rewrite H.
Qed.
Lemma set_side_hash b c : HashInv b -> HashInv (set_side_to_move K b c).
Proof.
  unfold HashInv, set_side_to_move. intros H. destruct (color_eqb c (b_stm b)) eqn:E; [exact H|].
  rewrite (feature_hash_meta b) by reflexivity. cbn [b_hash with_stm with_hash b_stm b_wr b_br b_ep].
  rewrite H. unfold feature_hash, feature_hash_of.
  destruct c, (b_stm b); try discriminate; cbn [side_key];
  generalize (xor_keys (cell_at b) squares 0) (zk_castle K White (b_wr b)) (zk_castle K Black (b_br b)) (ep_key (b_ep b)) (zk_black K);
  intros A w k P B; xor_solve.
Qed.
Lemma set_castling_hash b c r : HashInv b -> HashInv (set_castling_rights K b c r).
Proof.
  unfold HashInv, set_castling_rights. intros H.
  rewrite (feature_hash_meta b) by (intros x; destruct (cr_eqb (rights_of b c) r); reflexivity).
  destruct (cr_eqb (rights_of b c) r) eqn:E.
  - assert (rights_of b c = r) as <- by (destruct (rights_of b c), r; try discriminate; reflexivity).
    destruct c; cbn [b_hash with_rights b_stm b_wr b_br b_ep rights_of]; rewrite H; reflexivity.
  - cbn [b_hash with_rights with_hash b_stm b_wr b_br b_ep]. rewrite H. unfold feature_hash, feature_hash_of.
    generalize (xor_keys (cell_at b) squares 0) (side_key (b_stm b)) (ep_key (b_ep b)). intros A S P.
    destruct c; cbn [rights_of].
    + generalize (zk_castle K White (b_wr b)) (zk_castle K White r) (zk_castle K Black (b_br b)). intros o n k. xor_solve.
    + generalize (zk_castle K Black (b_br b)) (zk_castle K Black r) (zk_castle K White (b_wr b)). intros o n w. xor_solve.
Qed.
Lemma set_en_passant_hash b e : HashInv b -> HashInv (set_en_passant K b e).
Proof.
  unfold HashInv, set_en_passant. intros H. rewrite (feature_hash_meta b) by reflexivity.
  cbn [b_hash with_ep with_hash b_stm b_wr b_br b_ep].
  assert (E : match b_ep b with Some s => N.lxor (b_hash b) (zk_ep K (file s)) | None => b_hash b end = N.lxor (b_hash b) (ep_key (b_ep b))).
  { destruct (b_ep b); cbn [ep_key]; [reflexivity|now rewrite N.lxor_0_r]. }
  assert (E2 : forall h, match e with Some s => N.lxor h (zk_ep K (file s)) | None => h end = N.lxor h (ep_key e)).
  { intros h. destruct e; cbn [ep_key]; [reflexivity|now rewrite N.lxor_0_r]. }
  rewrite E2, E, H. unfold feature_hash, feature_hash_of.
  generalize (xor_keys (cell_at b) squares 0) (side_key (b_stm b)) (zk_castle K White (b_wr b)) (zk_castle K Black (b_br b)) (ep_key (b_ep b)) (ep_key e).
  intros. xor_solve.
Qed.

(* recomputation from scratch *)
Lemma calc_hash_spec b : MaskInv b -> calc_hash K b = Ok (feature_hash b).
Proof.
  intros I. unfold calc_hash.
  assert (U : u64 (m_all b)). { apply u64_has. intros x. apply (mi_all_small b x I). }
  rewrite (bits_spec _ U).
  assert (F : forall l h, fold_left (fun acc s => h <- acc ;; ot <- piece_type_on b s ;; t <- unwrap_o ot ;; c <- unwrap_o (piece_color_on b s) ;;
                 Ok (N.lxor h (zk_piece K c t s))) (filter (N.testbit (m_all b)) l) (Ok h) = Ok (xor_keys (cell_at b) l h)).
  { induction l as [|x l IH]; intros h; [reflexivity|]. cbn [filter xor_keys fold_left].
    fold (has (m_all b) x). rewrite (has_all_cell b x I).
    destruct (cell_at b x) as [[t c]|] eqn:E; cbn [cell_key].
    - cbn [fold_left]. cbn [bind]. rewrite (piece_type_on_inv b x I), (piece_color_on_inv b x I), E. cbn [option_map fst snd bind unwrap_o]. apply IH.
    - rewrite N.lxor_0_r. apply IH. }
  rewrite F. cbn [bind]. f_equal. unfold feature_hash, feature_hash_of.
  rewrite (xor_keys_acc (cell_at b) squares). set (A := xor_keys (cell_at b) squares 0).
  assert (E2 : match b_ep b with Some s => N.lxor (N.lxor (N.lxor (N.lxor (match b_stm b with White => 0 | Black => zk_black K end) A) (zk_castle K White (b_wr b))) (zk_castle K Black (b_br b))) (zk_ep K (file s))
              | None => N.lxor (N.lxor (N.lxor (match b_stm b with White => 0 | Black => zk_black K end) A) (zk_castle K White (b_wr b))) (zk_castle K Black (b_br b)) end
            = N.lxor (N.lxor (N.lxor (N.lxor (side_key (b_stm b)) A) (zk_castle K White (b_wr b))) (zk_castle K Black (b_br b))) (ep_key (b_ep b))).
  { destruct (b_ep b); cbn [ep_key]; [|rewrite N.lxor_0_r]; destruct (b_stm b); reflexivity. }
  rewrite E2. generalize (side_key (b_stm b)) (zk_castle K White (b_wr b)) (zk_castle K Black (b_br b)) (ep_key (b_ep b)). subst A.
  generalize (xor_keys (cell_at b) squares 0). intros. xor_solve.
Qed.
End Hash.
