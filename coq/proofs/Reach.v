(* proofs/Reach.v — every position obtained by construction and play is a valid position whose representation,
   hash, cached check/pin masks and terminal flag are all current; every applied move is rule-legal and its result is the
   rule-defined successor. *)
Require Import LC.model.Prims LC.model.Tables LC.model.Board LC.spec.Chess
  LC.proofs.Basics LC.proofs.MaskInv LC.proofs.HashInv LC.proofs.MoveInv LC.proofs.C05Proofs LC.proofs.C02Proofs
  LC.proofs.C01b LC.proofs.C06Proofs LC.proofs.C09Proofs LC.proofs.C04Proofs LC.proofs.C03Proofs LC.proofs.ValidStep.
From Coq Require Import Lia.
Open Scope N_scope.

Section R.
Variable K : zkeys.
Record Good (b : board) : Prop := {
  g_inv : Inv K b;                       (* masks consistent, hash = XOR of feature keys *)
  g_derived : DerivedInv b;              (* cached pin and check masks are current *)
  g_valid : valid (abs b) = true;        (* the mailbox position is a valid chess position *)
  g_term : TermInv b }.                  (* terminal flag = "no legal move" *)

Theorem good_build bd b : wf_builder bd -> try_from_builder K bd = Ok b -> Good b /\ abs b = pos_of bd.
Proof.
  intros W E. destruct (construction K bd W) as [H1 H2]. destruct (valid (pos_of bd)) eqn:Vb.
  - destruct (H1 eq_refl) as (b' & E' & A & HI & HD). rewrite E in E'. apply Ok_inj in E'. subst b'.
    assert (V : valid (abs b) = true) by (rewrite A; exact Vb).
    split; [|exact A]. constructor; [exact HI|exact HD|exact V|]. apply (TermInv_build K bd b E (proj1 HI) V).
  - destruct (H2 eq_refl) as (e & E'). rewrite E in E'. discriminate.
Qed.
Theorem good_step b mv b' : Good b -> wf_bmove mv -> make_move K b mv = Ok b' ->
  legal (abs b) mv = true /\ abs b' = apply (abs b) mv /\ Good b'.
Proof.
  intros [HI HD V T] W E. pose proof (proj1 HI) as I.
  assert (EL : is_legal_move K b mv = Ok true).
  { unfold make_move in E. destruct (is_legal_move K b mv) as [[]| |]; cbn [bind] in E; try discriminate. reflexivity. }
  assert (EU : make_move_unchecked K b mv = Ok b').
  { unfold make_move in E. rewrite EL in E. exact E. }
  rewrite (is_legal_move_spec K b I HD V T mv W) in EL. apply Ok_inj in EL.
  assert (A : abs b' = apply (abs b) mv).
  { destruct mv as [m| |].
    - destruct W as [Hs Hd]. exact (piece_move_refines K b m b' I V EL Hs Hd EU).
    - exact (castle_refines K b true b' I V EL EU).
    - exact (castle_refines K b false b' I V EL EU). }
  assert (HI' : Inv K b') by (exact (Inv_make_move_unchecked K b mv b' HI W EU)).
  assert (V' : valid (abs b') = true) by (rewrite A; apply valid_step; assumption).
  split; [exact EL|]. split; [exact A|]. constructor; [exact HI'| |exact V'|].
  - exact (make_move_unchecked_derived K b mv b' EU).
  - exact (TermInv_move K b mv b' E (proj1 HI') V').
Qed.
(* along any sequence of moves: every move legal, every position the rule-defined successor *)
Fixpoint spec_play (p : pos) (ms : list bmove) : pos := match ms with [] => p | m :: r => spec_play (apply p m) r end.
Fixpoint all_legal (p : pos) (ms : list bmove) : bool := match ms with [] => true | m :: r => legal p m && all_legal (apply p m) r end.
Theorem good_play ms : forall b b', Good b -> Forall wf_bmove ms -> play K b ms = Ok b' ->
  Good b' /\ abs b' = spec_play (abs b) ms /\ all_legal (abs b) ms = true.
Proof.
  induction ms as [|m r IH]; intros b b' G W E.
  - apply Ok_inj in E. subst b'. auto.
  - inversion W as [|? ? Wm Wr]; subst. cbn [play] in E. apply bind_ok in E. destruct E as (b1 & E1 & E).
    destruct (good_step b m b1 G Wm E1) as (Lm & A1 & G1). destruct (IH b1 b' G1 Wr E) as (G' & A' & L').
    split; [exact G'|]. cbn [spec_play all_legal]. rewrite Lm, <- A1. auto.
Qed.
(* positions reached from a well-formed description *)
Definition wreachable (b : board) : Prop :=
  exists bd b0 ms, wf_builder bd /\ try_from_builder K bd = Ok b0 /\ Forall wf_bmove ms /\ play K b0 ms = Ok b.
Theorem wreachable_reachable b : wreachable b -> reachable K b.
Proof. intros (bd & b0 & ms & _ & E0 & W & E). exists bd, b0, ms. auto. Qed.
Theorem wreachable_good b : wreachable b -> Good b.
Proof.
  intros (bd & b0 & ms & Wb & E0 & W & E). destruct (good_build bd b0 Wb E0) as [G0 _]. exact (proj1 (good_play ms b0 b G0 W E)).
Qed.
Theorem wreachable_history b : wreachable b -> exists p0 ms, valid p0 = true /\ all_legal p0 ms = true /\ abs b = spec_play p0 ms.
Proof.
  intros (bd & b0 & ms & Wb & E0 & W & E). destruct (good_build bd b0 Wb E0) as [G0 A0].
  destruct (good_play ms b0 b G0 W E) as (_ & A & L). exists (abs b0), ms. split; [exact (g_valid _ G0)|]. auto.
Qed.
End R.
