(* proofs/C06Proofs.v — the mask clauses of C06 in every position obtained by construction and play *)
Require Import LC.model.Prims LC.model.Tables LC.model.Board LC.proofs.Basics LC.proofs.Bits LC.proofs.Cols
  LC.proofs.MaskInv LC.proofs.HashInv LC.proofs.MoveInv.
From Coq Require Import Lia.
Open Scope N_scope.

Lemma wf_colors_disj c : wf_col c = true -> kw c && kbl c = false.
Proof. destruct c as [[] [] [] [] [] [] [] [] []]; cbn; try discriminate; reflexivity. Qed.
Lemma wf_types_disj c t t' : wf_col c = true -> t <> t' -> ctype c t && ctype c t' = false.
Proof. destruct c as [[] [] [] [] [] [] [] [] []], t, t'; cbn; try discriminate; try reflexivity; intros _ H; now elim H. Qed.
Lemma wf_all_types c : wf_col c = true -> ka c = kp c || kn c || kb c || kr c || kq c || kk c.
Proof. destruct c as [[] [] [] [] [] [] [] [] []]; cbn; try discriminate; reflexivity. Qed.
Lemma wf_all_colors c : wf_col c = true -> ka c = kw c || kbl c.
Proof. destruct c as [[] [] [] [] [] [] [] [] []]; cbn; try discriminate; reflexivity. Qed.

Lemma colors_disjoint b : MaskInv b -> N.land (m_white b) (m_black b) = 0.
Proof. intros I. apply N.bits_inj. intros x. rewrite N.land_spec, N.bits_0. exact (wf_colors_disj _ (mi_wf b I x)). Qed.
Lemma types_disjoint b : MaskInv b -> forall t t', t <> t' -> N.land (tmask b t) (tmask b t') = 0.
Proof.
  intros I t t' H. apply N.bits_inj. intros x. rewrite N.land_spec, N.bits_0.
  pose proof (wf_types_disj _ t t' (mi_wf b I x) H) as W. destruct t, t'; exact W.
Qed.
Lemma types_union b : MaskInv b ->
  N.lor (N.lor (N.lor (N.lor (N.lor (m_pawn b) (m_knight b)) (m_bishop b)) (m_rook b)) (m_queen b)) (m_king b) = m_all b.
Proof. intros I. apply N.bits_inj. intros x. rewrite !N.lor_spec. symmetry. exact (wf_all_types _ (mi_wf b I x)). Qed.
Lemma colors_union b : MaskInv b -> N.lor (m_white b) (m_black b) = m_all b.
Proof. intros I. apply N.bits_inj. intros x. rewrite N.lor_spec. symmetry. exact (wf_all_colors _ (mi_wf b I x)). Qed.
Lemma masks_u64 b : MaskInv b -> u64 (m_all b) /\ (forall t, u64 (tmask b t)) /\ (forall c, u64 (cmask b c)).
Proof.
  intros I. split; [|split]; [|intros t|intros c]; apply u64_has; intros x.
  - apply (mi_all_small b x I). - apply (mi_tmask_small b t x I). - apply (mi_cmask_small b c x I).
Qed.

Section Reach.
Variable K : zkeys.
(* a position obtained from a successfully constructed one by any sequence of successfully applied moves *)
Definition reachable (b : board) : Prop :=
  exists bd b0 ms, try_from_builder K bd = Ok b0 /\ Forall wf_bmove ms /\ play K b0 ms = Ok b.
Lemma reachable_Inv b : reachable b -> Inv K b.
Proof. intros (bd & b0 & ms & E0 & W & E). eapply Inv_play; eauto. eapply Inv_try_from_builder; eauto. Qed.
End Reach.
