(* proofs/C04Spec.v — rule-level facts behind the terminal-flag shortcut (spec/Chess.v only):
   (1) whenever a castling move is legal, the king's single step towards that rook is legal too, so a search
       that ignores castling still decides "no legal move";
   (2) the candidate enumeration gen lists exactly the legal moves. *)
Require Import LC.model.Prims LC.model.Board LC.spec.Chess LC.proofs.Basics LC.proofs.Attack LC.proofs.C05Proofs LC.proofs.C02Proofs
  LC.proofs.Pseudo LC.proofs.PinLemma LC.proofs.C01a.
From Coq Require Import Lia.
Open Scope N_scope.

(* moving a blocker from k to d (d empty before) can only open walks that reached k before *)
Lemma take_until_shift (occ occ' : square -> bool) (k d : square) l :
  (forall u, In u l -> u <> k -> u <> d -> occ' u = occ u) -> occ k = true -> occ d = false ->
  In d (take_until occ' l) -> In d (take_until occ l) \/ In k (take_until occ l).
Proof.
  intros Same Ok Od. induction l as [|u r IH]; intros H; [destruct H|]. cbn [take_until] in *.
  destruct (N.eq_dec u d) as [->|Hud].
  - left. rewrite Od. now left.
  - destruct (N.eq_dec u k) as [->|Huk].
    + right. rewrite Ok. now left.
    + rewrite (Same u (or_introl eq_refl) Huk Hud) in H. destruct (occ u).
      * destruct H as [H|[]]. contradiction.
      * destruct H as [H|H]; [contradiction|]. assert (IH' : In d (take_until occ r) \/ In k (take_until occ r)).
        { apply IH; [|exact H]. intros x Hx. apply Same. now right. }
        destruct IH' as [X|X]; [left|right]; now right.
Qed.
Lemma filter_nil_In {A} (f : A -> bool) l x : filter f l = [] -> In x l -> f x = false.
Proof. intros E Hx. destruct (f x) eqn:F; [|reflexivity]. assert (In x (filter f l)) as H by (apply filter_In; auto). rewrite E in H. destruct H. Qed.
Lemma filter_nil_intro {A} (f : A -> bool) l : (forall x, In x l -> f x = false) -> filter f l = [].
Proof. induction l as [|a l IH]; intros H; [reflexivity|]. cbn. rewrite (H a (or_introl eq_refl)). apply IH. intros x Hx. apply H. now right. Qed.

Lemma color_at_def p c s : color_at p c s = match piece_at p s with Some (_, c') => color_eqb c c' | None => false end.
Proof. reflexivity. Qed.
Lemma attacks_from_def p a : attacks_from p a = match piece_at p a with
  | None => []
  | Some (Knight, _) => steps a knight_offs
  | Some (King, _) => steps a king_offs
  | Some (Pawn, c) => steps a [(fwd c, 1%Z); (fwd c, (-1)%Z)]
  | Some (t, _) => flat_map (reach p a) (slide_dirs t) end.
Proof. reflexivity. Qed.
Lemma attacked_false_In p c t a : attacked p c t = false -> a < 64 -> color_at p c a && mem t (attacks_from p a) = false.
Proof.
  unfold attacked, attackers. intros H Ha. destruct (filter (fun a0 => color_at p c a0 && mem t (attacks_from p a0)) squares) eqn:E; [|discriminate].
  apply (filter_nil_In _ _ a E). now apply In_squares.
Qed.
Lemma in_check_false_In p c k a : king_sq p c = Some k -> in_check p c = false -> a < 64 -> color_at p (opp c) a && mem k (attacks_from p a) = false.
Proof.
  unfold in_check, checkers. intros -> H Ha. apply attacked_false_In; [|exact Ha]. unfold attacked. destruct (attackers p (opp c) k); [reflexivity|discriminate].
Qed.
Lemma one_king_def p c : one_king p c = Nat.eqb (length (filter (fun s => opiece_eqb (piece_at p s) (Some (King, c))) squares)) 1.
Proof. reflexivity. Qed.
Section KingStep.
Variables (p : pos) (k d : square).
Let c := stm p.
Hypothesis L : length (placement p) = 64%nat.
Hypothesis Hk : k < 64.
Hypothesis Hd : d < 64.
Hypothesis K1 : one_king p c = true.
Hypothesis Hkp : piece_at p k = Some (King, c).
Hypothesis Hemp : piece_at p d = None.
Hypothesis Hadj : mem d (steps k king_offs) = true.
Hypothesis Hnc : in_check p c = false.
Hypothesis Hna : attacked p (opp c) d = false.
Let m := mk_pm King k d None.
Let p' := apply_pm p m.

Lemma ks_piece x : x < 64 -> piece_at p' x = if x =? d then Some (King, c) else if x =? k then None else piece_at p x.
Proof. intros Hx. unfold p'. rewrite (piece_at_apply p m x L Hk Hd Hx). reflexivity. Qed.
Lemma ks_pseudo : mem d (pseudo_dests p k) = true.
Proof.
  unfold pseudo_dests. rewrite Hkp. rewrite mem_filter. unfold attacks_from. rewrite Hkp. rewrite Hadj.
  unfold color_at. rewrite Hemp. reflexivity.
Qed.
Lemma ks_unique x : x < 64 -> piece_at p x = Some (King, c) -> x = k.
Proof.
  intros Hx Hp. pose proof K1 as K1'. rewrite one_king_def in K1'. apply Nat.eqb_eq in K1'.
  assert (A : forall y, y < 64 -> piece_at p y = Some (King, c) -> In y (filter (fun s => opiece_eqb (piece_at p s) (Some (King, c))) squares)).
  { intros y Hy E. apply filter_In. split; [now apply In_squares|]. rewrite E. destruct c; reflexivity. }
  pose proof (A x Hx Hp) as Ax. pose proof (A k Hk Hkp) as Ak. revert K1' Ax Ak.
  generalize (filter (fun s => opiece_eqb (piece_at p s) (Some (King, c))) squares). intros l Hl Ax Ak.
  destruct l as [|a [|b l]]; try discriminate. destruct Ax as [<-|[]], Ak as [<-|[]]. reflexivity.
Qed.
Lemma ks_king_sq : king_sq p c = Some k.
Proof. destruct (one_king_sq p c K1) as (k0 & E & H0 & P0). rewrite E. f_equal. now apply ks_unique. Qed.
Lemma ks_occ u : u < 64 -> u <> k -> u <> d -> occupied p' u = occupied p u.
Proof.
  intros Hu N1 N2. unfold occupied. rewrite (ks_piece u Hu).
  destruct (N.eqb_spec u d); [contradiction|]. destruct (N.eqb_spec u k); [contradiction|]. reflexivity.
Qed.
Lemma ks_reach a dirs : In d (flat_map (reach p' a) dirs) -> In d (flat_map (reach p a) dirs) \/ In k (flat_map (reach p a) dirs).
Proof.
  intros H. apply in_flat_map in H. destruct H as (dr & Hdr & H). unfold reach in H.
  assert (X : In d (take_until (occupied p) (line a dr)) \/ In k (take_until (occupied p) (line a dr))).
  { apply (take_until_shift (occupied p) (occupied p') k d (line a dr)); [| | |exact H].
    - intros u Hu. apply ks_occ. eapply line_lt; eauto.
    - unfold occupied. now rewrite Hkp.
    - unfold occupied. now rewrite Hemp. }
  destruct X as [X|X]; [left|right]; apply in_flat_map; exists dr; split; auto.
Qed.
Lemma ks_no_attacker a : a < 64 -> color_at p' (opp c) a && mem d (attacks_from p' a) = false.
Proof.
  intros Ha.
  pose proof (attacked_false_In p (opp c) d a Hna Ha) as A1.
  pose proof (in_check_false_In p c k a ks_king_sq Hnc Ha) as A2.
  rewrite (color_at_def p') , (attacks_from_def p'), (ks_piece a Ha).
  rewrite (color_at_def p), (attacks_from_def p) in A1, A2.
  destruct (N.eqb_spec a d) as [->|Had]. { destruct c; reflexivity. }
  destruct (N.eqb_spec a k) as [->|Hak]; [reflexivity|].
  revert A1 A2. generalize (piece_at p a). intros [[t ca]|] A1 A2; [|reflexivity].
  destruct (color_eqb (opp c) ca); [|reflexivity]. rewrite andb_true_l in *.
  destruct t; try exact A1.
  - destruct (mem d (flat_map (reach p' a) (slide_dirs Bishop))) eqn:E; [|reflexivity]. apply mem_true in E. apply ks_reach in E.
    destruct E as [E|E]; apply mem_true in E; [rewrite E in A1|rewrite E in A2]; discriminate.
  - destruct (mem d (flat_map (reach p' a) (slide_dirs Rook))) eqn:E; [|reflexivity]. apply mem_true in E. apply ks_reach in E.
    destruct E as [E|E]; apply mem_true in E; [rewrite E in A1|rewrite E in A2]; discriminate.
  - destruct (mem d (flat_map (reach p' a) (slide_dirs Queen))) eqn:E; [|reflexivity]. apply mem_true in E. apply ks_reach in E.
    destruct E as [E|E]; apply mem_true in E; [rewrite E in A1|rewrite E in A2]; discriminate.
Qed.
Lemma attackers_nil p0 c0 t : (forall a, a < 64 -> color_at p0 c0 a && mem t (attacks_from p0 a) = false) -> attackers p0 c0 t = [].
Proof. intros H. unfold attackers. apply filter_nil_intro. intros a Ha. apply H. now apply In_squares. Qed.
Lemma king_sq_piece p0 c0 x : king_sq p0 c0 = Some x -> x < 64 /\ piece_at p0 x = Some (King, c0).
Proof. unfold king_sq. intros E. apply find_some in E. destruct E as [Hx Px]. split; [now apply In_squares|now apply opiece_eqb_true]. Qed.
Lemma ks_safe : in_check p' c = false.
Proof.
  unfold in_check, checkers. destruct (king_sq p' c) as [x|] eqn:E; [|reflexivity].
  apply king_sq_piece in E. destruct E as [Hx Px].
  assert (x = d) as ->.
  { rewrite (ks_piece x Hx) in Px. destruct (N.eqb_spec x d); [assumption|]. destruct (N.eqb_spec x k) as [->|Hxk]; [discriminate|].
    exfalso. apply Hxk. now apply ks_unique. }
  rewrite (attackers_nil p' (opp c) d ks_no_attacker). reflexivity.
Qed.
Lemma ks_legal : legal p (MovePiece m) = true.
Proof.
  cbn [legal]. unfold m. cbn [pm_from pm_to pm_type mk_pm]. fold c. rewrite Hkp, ks_pseudo.
  unfold promo_ok. cbn [pm_type pm_promo mk_pm ptype_eqb andb]. fold m. fold p'. rewrite ks_safe. destruct c; reflexivity.
Qed.
End KingStep.

(* whenever castling is legal the king's step towards that rook is a legal move *)
Lemma castle_adj_sweep : forallb (fun r => mem (smk r 5) (steps (smk r 4) king_offs) && mem (smk r 3) (steps (smk r 4) king_offs)) [0;7] = true.
Proof. vm_compute. reflexivity. Qed.
Lemma castle_legal_parts p ks : castle_legal p ks = true ->
  piece_at p (smk (home_rank (stm p)) 4) = Some (King, stm p) /\ occupied p (smk (home_rank (stm p)) (if ks then 5 else 3)) = false /\
  in_check p (stm p) = false /\ attacked p (opp (stm p)) (smk (home_rank (stm p)) (if ks then 5 else 3)) = false.
Proof.
  unfold castle_legal. generalize (home_rank (stm p)). intros r. destruct ks; cbn [forallb]; rewrite !andb_true_iff, !negb_true_iff;
  intros H; decompose [and] H; clear H;
  match goal with X : opiece_eqb (piece_at p (smk r 4)) _ = true |- _ => apply opiece_eqb_true in X end; auto.
Qed.
Lemma castle_implies_king_step p ks : valid p = true -> castle_legal p ks = true ->
  legal p (MovePiece (mk_pm King (smk (home_rank (stm p)) 4) (smk (home_rank (stm p)) (if ks then 5 else 3)) None)) = true.
Proof.
  intros V H. destruct (valid_parts _ V) as (L & _). destruct (valid_parts2 _ V) as (KW & KB & _).
  apply castle_legal_parts in H. destruct H as (Hkp & Hocc & Hnc & Hatt).
  assert (Hr : home_rank (stm p) = 0 \/ home_rank (stm p) = 7) by (destruct (stm p); cbn; auto).
  assert (Hk : smk (home_rank (stm p)) 4 < 64) by (unfold smk; destruct Hr as [-> | ->]; lia).
  assert (Hd : smk (home_rank (stm p)) (if ks then 5 else 3) < 64) by (unfold smk; destruct ks, Hr as [-> | ->]; lia).
  assert (K1 : one_king p (stm p) = true) by (destruct (stm p); assumption).
  apply (ks_legal p _ _ L Hk Hd K1 Hkp).
  - revert Hocc. unfold occupied. destruct (piece_at p (smk (home_rank (stm p)) (if ks then 5 else 3))); [discriminate|reflexivity].
  - pose proof castle_adj_sweep as S. cbn [forallb] in S. apply andb_prop in S. destruct S as [S0 S7]. apply andb_prop in S7. destruct S7 as [S7 _].
    apply andb_prop in S0. apply andb_prop in S7. destruct ks, Hr as [-> | ->]; tauto.
  - exact Hnc.
  - exact Hatt.
Qed.

(* ---------- the candidate enumeration lists exactly the legal moves ---------- *)
Lemma gen_In p mv : length (placement p) = 64%nat -> (In mv (gen p) <-> legal p mv = true).
Proof.
  intros L. unfold gen. rewrite filter_In. split; [tauto|]. intros H. split; [|exact H]. apply in_or_app.
  destruct mv as [m| |]; [left|right; cbn; tauto|right; cbn; tauto].
  cbn [legal] in H. repeat (apply andb_prop in H; destruct H as [H ?]).
  apply opiece_eqb_true in H.
  assert (Hs : pm_from m < 64).
  { unfold piece_at in H. destruct (N.ltb_spec (pm_from m) 64) as [|Hge]; [assumption|]. rewrite nth_overflow in H by lia. discriminate. }
  apply in_flat_map. exists (pm_from m). split; [now apply In_squares|]. rewrite H. rewrite color_eqb_refl.
  apply in_flat_map. exists (pm_to m). split; [apply mem_true; assumption|]. apply in_map_iff.
  match goal with X : promo_ok p m = true |- _ => rename X into Hp end. unfold promo_ok in Hp. unfold promos_for.
  destruct (ptype_eqb (pm_type m) Pawn && (srank (pm_to m) =? last_rank (stm p))).
  - exists (pm_promo m). split; [destruct m; reflexivity|]. destruct (pm_promo m) as [[]|]; try discriminate; cbn; tauto.
  - exists (pm_promo m). split; [destruct m; reflexivity|]. destruct (pm_promo m); [discriminate|]. now left.
Qed.
Lemma gen_nil_iff p : length (placement p) = 64%nat -> (gen p = [] <-> forall mv, legal p mv = false).
Proof.
  intros L. split.
  - intros E mv. destruct (legal p mv) eqn:X; [|reflexivity]. apply (gen_In p mv L) in X. rewrite E in X. destruct X.
  - intros H. destruct (gen p) as [|mv l] eqn:E; [reflexivity|]. assert (In mv (gen p)) as X by (rewrite E; now left).
    apply (gen_In p mv L) in X. rewrite H in X. discriminate.
Qed.
