(* proofs/C07Proofs.v — path independence and single-feature sensitivity of the position hash *)
Require Import LC.model.Prims LC.model.Tables LC.model.Board LC.proofs.Basics LC.proofs.Bits LC.proofs.Cols
  LC.proofs.MaskInv LC.proofs.HashInv LC.proofs.MoveInv LC.proofs.C06Proofs LC.gen.ZobristKeys LC.gen.KeysOk.
From Coq Require Import Lia.
Open Scope N_scope.

Section Any.
Variable K : zkeys.
Lemma reachable_hash b : reachable K b -> b_hash b = feature_hash K b /\ calc_hash K b = Ok (b_hash b).
Proof.
  intros R. destruct (reachable_Inv K b R) as [I H]. split; [exact H|]. rewrite (calc_hash_spec K b I). f_equal. symmetry. exact H.
Qed.
(* same placement, side, rights and en-passant square => same hash, whatever the clocks and the history *)
Lemma path_independent b1 b2 : reachable K b1 -> reachable K b2 ->
  (forall x, x < 64 -> cell_at b1 x = cell_at b2 x) -> b_stm b1 = b_stm b2 -> b_wr b1 = b_wr b2 -> b_br b1 = b_br b2 -> b_ep b1 = b_ep b2 ->
  b_hash b1 = b_hash b2.
Proof.
  intros R1 R2 Hc Hs Hw Hb He. rewrite (proj1 (reachable_hash b1 R1)), (proj1 (reachable_hash b2 R2)).
  rewrite !feature_hash_unfold, Hs, Hw, Hb, He. unfold feature_hash_of. do 3 f_equal.
  apply xor_keys_ext. intros x Hx. apply Hc. now apply In_squares.
Qed.
Lemma xor_of_keys b : feature_hash K b =
  N.lxor (N.lxor (N.lxor (xor_keys K (cell_at b) squares 0) (side_key K (b_stm b)))
                 (N.lxor (zk_castle K White (b_wr b)) (zk_castle K Black (b_br b)))) (ep_key K (b_ep b)).
Proof. unfold feature_hash, feature_hash_of. reflexivity. Qed.
Lemma lxor_eq_0 a b : N.lxor a b = 0 -> a = b. Proof. apply N.lxor_eq. Qed.
(* positions differing in exactly one feature: the two hashes differ by the XOR of the two keys of that feature *)
Lemma differ_square f g s stm wr br e : s < 64 -> (forall x, x <> s -> f x = g x) ->
  N.lxor (feature_hash_of K f stm wr br e) (feature_hash_of K g stm wr br e) = N.lxor (cell_key K s (f s)) (cell_key K s (g s)).
Proof.
  intros Hs H. unfold feature_hash_of.
  rewrite (xor_keys_change K f g squares s (squares_NoDup) (proj2 (In_squares s) Hs) H).
  generalize (xor_keys K f squares 0) (cell_key K s (f s)) (cell_key K s (g s)) (side_key K stm) (zk_castle K White wr) (zk_castle K Black br) (ep_key K e).
  intros. xor_solve.
Qed.
Lemma differ_side f wr br e : N.lxor (feature_hash_of K f White wr br e) (feature_hash_of K f Black wr br e) = zk_black K.
Proof.
  unfold feature_hash_of. cbn [side_key].
  generalize (xor_keys K f squares 0) (zk_black K) (zk_castle K White wr) (zk_castle K Black br) (ep_key K e). intros. xor_solve.
Qed.
Lemma differ_rights_w f stm wr wr' br e :
  N.lxor (feature_hash_of K f stm wr br e) (feature_hash_of K f stm wr' br e) = N.lxor (zk_castle K White wr) (zk_castle K White wr').
Proof.
  unfold feature_hash_of.
  generalize (xor_keys K f squares 0) (side_key K stm) (zk_castle K White wr) (zk_castle K White wr') (zk_castle K Black br) (ep_key K e). intros. xor_solve.
Qed.
Lemma differ_rights_b f stm wr br br' e :
  N.lxor (feature_hash_of K f stm wr br e) (feature_hash_of K f stm wr br' e) = N.lxor (zk_castle K Black br) (zk_castle K Black br').
Proof.
  unfold feature_hash_of.
  generalize (xor_keys K f squares 0) (side_key K stm) (zk_castle K White wr) (zk_castle K Black br) (zk_castle K Black br') (ep_key K e). intros. xor_solve.
Qed.
Lemma differ_ep f stm wr br e e' :
  N.lxor (feature_hash_of K f stm wr br e) (feature_hash_of K f stm wr br e') = N.lxor (ep_key K e) (ep_key K e').
Proof.
  unfold feature_hash_of.
  generalize (xor_keys K f squares 0) (side_key K stm) (zk_castle K White wr) (zk_castle K Black br) (ep_key K e) (ep_key K e'). intros. xor_solve.
Qed.
End Any.

(* with the keys published by the library on this run *)
Lemma In_contents o : In o contents. Proof. destruct o as [[[] []]|]; cbn; tauto. Qed.
Lemma In_all_cr r : In r all_cr. Proof. destruct r; cbn; tauto. Qed.
Lemma In_all_colors c : In c all_colors. Proof. destruct c; cbn; tauto. Qed.
Lemma opiece_eqb_eq a b : opiece_eqb a b = true -> a = b.
Proof. destruct a as [[[] []]|], b as [[[] []]|]; cbn; try discriminate; reflexivity. Qed.
Lemma impl_cell_keys s a b : s < 64 -> a <> b -> cell_key impl_zkeys s a <> cell_key impl_zkeys s b.
Proof.
  intros Hs Hab. pose proof (forallb_squares _ cell_keys_distinct s Hs) as S. cbv beta in S.
  rewrite forallb_forall in S. specialize (S a (In_contents a)). rewrite forallb_forall in S. specialize (S b (In_contents b)).
  unfold opiece_neq in S. destruct (opiece_eqb a b) eqn:E; [apply opiece_eqb_eq in E; contradiction|].
  cbn [negb orb] in S. intros H. rewrite H, N.eqb_refl in S. discriminate.
Qed.
Lemma impl_castle_keys c a b : a <> b -> zk_castle impl_zkeys c a <> zk_castle impl_zkeys c b.
Proof.
  intros Hab. pose proof castle_keys_distinct as S. rewrite forallb_forall in S. specialize (S c (In_all_colors c)).
  rewrite forallb_forall in S. specialize (S a (In_all_cr a)). rewrite forallb_forall in S. specialize (S b (In_all_cr b)).
  destruct (cr_eqb a b) eqn:E; [destruct a, b; try discriminate; now elim Hab|].
  cbn [orb] in S. intros H. rewrite H, N.eqb_refl in S. discriminate.
Qed.
Lemma impl_ep_keys_distinct a b : a < 8 -> b < 8 -> a <> b ->
  ep_key impl_zkeys (Some a) <> ep_key impl_zkeys (Some b) /\ ep_key impl_zkeys (Some a) <> ep_key impl_zkeys None.
Proof.
  intros Ha Hb Hab. pose proof ep_keys_distinct as S. rewrite forallb_forall in S.
  assert (Ia : In (Some a) ep_files) by (right; apply in_map; now apply In_idx8').
  assert (Ib : In (Some b) ep_files) by (right; apply in_map; now apply In_idx8').
  pose proof (S (Some a) Ia) as Sa. rewrite forallb_forall in Sa. split.
  - specialize (Sa (Some b) Ib). cbn [osq_eqb] in Sa. destruct (N.eqb_spec a b); [contradiction|].
    cbn [orb] in Sa. intros H. rewrite H, N.eqb_refl in Sa. discriminate.
  - specialize (Sa None (or_introl eq_refl)). cbn [osq_eqb orb] in Sa. intros H. rewrite H, N.eqb_refl in Sa. discriminate.
Qed.
Lemma impl_black_nonzero : zk_black impl_zkeys <> 0.
Proof. pose proof side_key_nonzero as S. intros H. rewrite H in S. discriminate. Qed.

Lemma one_square f g s stm wr br e : s < 64 -> (forall x, x <> s -> f x = g x) -> f s <> g s ->
  feature_hash_of impl_zkeys f stm wr br e <> feature_hash_of impl_zkeys g stm wr br e.
Proof.
  intros Hs H Hne Heq. apply (impl_cell_keys s (f s) (g s) Hs Hne). apply N.lxor_eq.
  rewrite <- (differ_square impl_zkeys f g s stm wr br e Hs H), Heq. apply N.lxor_nilpotent.
Qed.
Lemma side_differs f wr br e : feature_hash_of impl_zkeys f White wr br e <> feature_hash_of impl_zkeys f Black wr br e.
Proof.
  intros Heq. apply impl_black_nonzero. rewrite <- (differ_side impl_zkeys f wr br e), Heq. apply N.lxor_nilpotent.
Qed.
Lemma rights_differ f stm wr wr' br br' e : (wr <> wr' /\ br = br') \/ (wr = wr' /\ br <> br') ->
  feature_hash_of impl_zkeys f stm wr br e <> feature_hash_of impl_zkeys f stm wr' br' e.
Proof.
  intros [[Hw <-]|[<- Hb]] Heq.
  - apply (impl_castle_keys White wr wr' Hw). apply N.lxor_eq. rewrite <- (differ_rights_w impl_zkeys f stm wr wr' br e), Heq. apply N.lxor_nilpotent.
  - apply (impl_castle_keys Black br br' Hb). apply N.lxor_eq. rewrite <- (differ_rights_b impl_zkeys f stm wr br br' e), Heq. apply N.lxor_nilpotent.
Qed.
Lemma ep_file_differs f stm wr br a b : a < 8 -> b < 8 -> a <> b ->
  feature_hash_of impl_zkeys f stm wr br (Some a) <> feature_hash_of impl_zkeys f stm wr br (Some b) /\
  feature_hash_of impl_zkeys f stm wr br (Some a) <> feature_hash_of impl_zkeys f stm wr br None.
Proof.
  intros Ha Hb Hab. destruct (impl_ep_keys_distinct a b Ha Hb Hab) as [H1 H2]. split; intros Heq.
  - apply H1. apply N.lxor_eq. rewrite <- (differ_ep impl_zkeys f stm wr br (Some a) (Some b)), Heq. apply N.lxor_nilpotent.
  - apply H2. apply N.lxor_eq. rewrite <- (differ_ep impl_zkeys f stm wr br (Some a) None), Heq. apply N.lxor_nilpotent.
Qed.
