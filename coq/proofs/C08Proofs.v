(* proofs/C08Proofs.v — FEN: printing and parsing are inverse; a board is determined by its mailbox position *)
Require Import LC.model.Prims LC.model.Tables LC.model.Board LC.model.Text LC.model.Fen LC.spec.Chess
  LC.proofs.Basics LC.proofs.Bits LC.proofs.Cols LC.proofs.MaskInv LC.proofs.HashInv LC.proofs.MoveInv LC.proofs.C05Proofs LC.proofs.C02Proofs
  LC.proofs.C01a LC.proofs.C01b LC.proofs.C09Proofs LC.proofs.C04Proofs LC.proofs.Reach.
From Coq Require Import Lia.
Open Scope N_scope.

(* ---------- a board whose invariants hold is determined by its mailbox position ---------- *)
Section Ext.
Variable K : zkeys.
Lemma cols_of_abs b b' : MaskInv b -> MaskInv b' -> abs b = abs b' -> forall x, col_of b x = col_of b' x.
Proof.
  intros I I' A x. pose proof (piece_at_abs b x I) as P. rewrite A, (piece_at_abs b' x I') in P. unfold cell_at in P.
  pose proof (mi_wf b I x) as W. pose proof (mi_wf b' I' x) as W'.
  destruct (cell (col_of b x)) as [pc|] eqn:E.
  - rewrite (wf_cell_inv _ pc W E). symmetry. apply (wf_cell_inv _ pc W'). now symmetry.
  - rewrite (wf_cell_none _ W E). symmetry. apply (wf_cell_none _ W'). now symmetry.
Qed.
Lemma mask_ext (f : board -> N) (g : col -> bool) b b' : (forall y x, has (f y) x = g (col_of y x)) ->
  (forall x, col_of b x = col_of b' x) -> f b = f b'.
Proof. intros H C. apply N.bits_inj. intros x. change (has (f b) x = has (f b') x). now rewrite !H, C. Qed.
Theorem board_ext b b' : Good K b -> Good K b' -> abs b = abs b' -> b = b'.
Proof.
  intros [[I HI] D V T] [[I' HI'] D' V' T'] A. pose proof (cols_of_abs b b' I I' A) as C.
  assert (F : b_stm b = b_stm b' /\ b_wr b = b_wr b' /\ b_br b = b_br b' /\ b_ep b = b_ep b' /\ b_half b = b_half b' /\ b_full b = b_full b').
  { unfold abs in A. injection A as _ A1 A2 A3 A4 A5 A6. auto 10. }
  destruct F as (F1 & F2 & F3 & F4 & F5 & F6).
  assert (M1 : m_pawn b = m_pawn b') by (apply (mask_ext m_pawn kp); [reflexivity|exact C]).
  assert (M2 : m_knight b = m_knight b') by (apply (mask_ext m_knight kn); [reflexivity|exact C]).
  assert (M3 : m_bishop b = m_bishop b') by (apply (mask_ext m_bishop kb); [reflexivity|exact C]).
  assert (M4 : m_rook b = m_rook b') by (apply (mask_ext m_rook kr); [reflexivity|exact C]).
  assert (M5 : m_queen b = m_queen b') by (apply (mask_ext m_queen kq); [reflexivity|exact C]).
  assert (M6 : m_king b = m_king b') by (apply (mask_ext m_king kk); [reflexivity|exact C]).
  assert (M7 : m_white b = m_white b') by (apply (mask_ext m_white kw); [reflexivity|exact C]).
  assert (M8 : m_black b = m_black b') by (apply (mask_ext m_black kbl); [reflexivity|exact C]).
  assert (M9 : m_all b = m_all b') by (apply (mask_ext m_all ka); [reflexivity|exact C]).
  assert (HH : b_hash b = b_hash b').
  { rewrite HI, HI', !feature_hash_unfold, F1, F2, F3, F4. unfold feature_hash_of.
    rewrite (xor_keys_ext K (cell_at b) (cell_at b') squares 0); [reflexivity|]. intros x _. unfold cell_at. now rewrite C. }
  assert (TT : b_term b = b_term b') by (unfold TermInv in T, T'; rewrite T, T', A; reflexivity).
  assert (B0 : with_pc b 0 0 = with_pc b' 0 0).
  { unfold with_pc. now rewrite M1, M2, M3, M4, M5, M6, M7, M8, M9, F1, F2, F3, F4, F5, F6, HH, TT. }
  assert (PC : b_pinned b = b_pinned b' /\ b_checks b = b_checks b').
  { destruct D as (k & Ek & Ep). destruct D' as (k' & Ek' & Ep').
    rewrite <- (king_square_with_pc b 0 0), B0, king_square_with_pc, F1, Ek' in Ek. apply Ok_inj in Ek. subst k'.
    rewrite <- (pins_with_pc b 0 0), B0, pins_with_pc, Ep' in Ep. apply Ok_inj in Ep. now injection Ep. }
  destruct PC as [P1 P2]. destruct b, b'. cbn in *. now subst.
Qed.
End Ext.

(* ---------- position -> builder ---------- *)
Require Import LC.proofs.C19Proofs.
Lemma builder_of_board_spec b : MaskInv b -> builder_of_board b = Ok (builder_of_pos (abs b)).
Proof.
  intros I. unfold builder_of_board.
  assert (F : forall l, fold_right (fun s acc => l0 <- acc ;; ot <- piece_type_on b s ;;
             match ot with Some t => c <- unwrap_o (piece_color_on b s) ;; Ok (Some (t, c) :: l0) | None => Ok (None :: l0) end) (Ok []) l
             = Ok (map (cell_at b) l)).
  { induction l as [|s l IH]; [reflexivity|]. cbn [fold_right map]. rewrite IH. cbn [bind].
    rewrite (piece_type_on_inv b s I), (piece_color_on_inv b s I). destruct (cell_at b s) as [[t c]|]; reflexivity. }
  rewrite F. reflexivity.
Qed.

(* ---------- position -> FEN text -> position ---------- *)
Require Import LC.proofs.FenText LC.proofs.ValidStep LC.proofs.Symmetry.
Section RoundTrip.
Variable K : zkeys.
Definition clocks_fit (b : board) : Prop := b_half b < two64 /\ b_full b < two64.
Lemma wf_builder_of_good b : Good K b -> clocks_fit b -> wf_fen_builder (builder_of_pos (abs b)) /\ wf_builder (builder_of_pos (abs b)).
Proof.
  intros G [C1 C2]. destruct (valid_wfpos _ (g_valid K b G)) as [L E].
  split; [split; [exact L|split; [exact E|split; [exact C1|exact C2]]]|split; [exact L|exact E]].
Qed.
Theorem rebuild_is_identity b : Good K b -> try_from_builder K (builder_of_pos (abs b)) = Ok b.
Proof.
  intros G. destruct (valid_wfpos _ (g_valid K b G)) as [L E]. assert (W : wf_builder (builder_of_pos (abs b))) by (split; [exact L|exact E]).
  destruct (construction K _ W) as [H1 _]. rewrite pos_of_builder in H1. destruct (H1 (g_valid K b G)) as (b' & E' & A & _).
  destruct (good_build K _ b' W E') as [G' _]. rewrite E'. f_equal. apply (board_ext K b' b G' G A).
Qed.
Theorem fen_board_roundtrip b : Good K b -> clocks_fit b ->
  as_fen b = Ok (print_fen (builder_of_pos (abs b))) /\ from_fen K (print_fen (builder_of_pos (abs b))) = Ok b.
Proof.
  intros G C. destruct (wf_builder_of_good b G C) as [W1 W2]. split.
  - unfold as_fen. rewrite (builder_of_board_spec b (proj1 (g_inv K b G))). reflexivity.
  - unfold from_fen. rewrite (fen_roundtrip _ W1). cbn [bind]. now apply rebuild_is_identity.
Qed.
(* the piece-list set-up path: any piece list that describes the placement gives the same board *)
Theorem setup_roundtrip b pieces : Good K b -> bd_pieces (setup_builder pieces (b_stm b) (b_wr b) (b_br b) (b_ep b) (b_half b) (b_full b)) = placement (abs b) ->
  board_setup K pieces (b_stm b) (b_wr b) (b_br b) (b_ep b) (b_half b) (b_full b) = Ok b.
Proof.
  intros G H. unfold board_setup. rewrite <- (rebuild_is_identity b G). f_equal. unfold setup_builder, builder_of_pos in *. cbn [bd_pieces] in H. now rewrite H.
Qed.
End RoundTrip.

(* the canonical piece list of a placement *)
Definition piece_list (pl : list (option piece)) : list (square * piece) :=
  flat_map (fun s => match nth (N.to_nat s) pl None with Some pc => [(s, pc)] | None => [] end) squares.
Lemma setup_fold pl l : forall acc i, List.length acc = 64%nat -> (forall s, In s l -> s < 64) -> i < 64 ->
  nth (N.to_nat i) (fold_left (fun (a : list (option piece)) '((s, pc) : square * piece) => set_nth (N.to_nat s) (Some pc) a)
     (flat_map (fun s => match nth (N.to_nat s) pl None with Some pc => [(s, pc)] | None => [] end) l) acc) None =
  if mem i l then (match nth (N.to_nat i) pl None with Some pc => Some pc | None => nth (N.to_nat i) acc None end) else nth (N.to_nat i) acc None.
Proof.
  induction l as [|s l IH]; intros acc i L Hl Hi; [reflexivity|]. cbn [flat_map]. rewrite fold_left_app.
  assert (Hs : s < 64) by (apply Hl; now left).
  assert (Hl' : forall x, In x l -> x < 64) by (intros x Hx; apply Hl; now right).
  unfold mem. cbn [existsb]. fold (mem i l).
  destruct (nth (N.to_nat s) pl None) as [pc|] eqn:Es; cbn [fold_left].
  - etransitivity; [exact (IH (set_nth (N.to_nat s) (Some pc) acc) i ltac:(rewrite set_nth_length; exact L) Hl' Hi)|]. rewrite nth_set_nth, L.
    assert (Nat.ltb (N.to_nat s) 64 = true) as -> by (apply Nat.ltb_lt; lia).
    destruct (N.eqb_spec i s) as [->|Ne].
    + rewrite Nat.eqb_refl, Es. cbn [orb]. destruct (mem s l); reflexivity.
    + assert (Nat.eqb (N.to_nat i) (N.to_nat s) = false) as -> by (apply Nat.eqb_neq; lia). reflexivity.
  - etransitivity; [exact (IH acc i L Hl' Hi)|]. destruct (N.eqb_spec i s) as [->|Ne]; [|reflexivity]. cbn [orb]. rewrite Es. destruct (mem s l); reflexivity.
Qed.
Theorem piece_list_ok pl stm wr br ep h f : List.length pl = 64%nat -> bd_pieces (setup_builder (piece_list pl) stm wr br ep h f) = pl.
Proof.
  intros L. unfold setup_builder, piece_list. cbn [bd_pieces].
  apply (nth_ext _ _ None None).
  - assert (G : forall l acc, List.length (fold_left (fun (a : list (option piece)) '((s, pc) : square * piece) => set_nth (N.to_nat s) (Some pc) a) l acc) = List.length acc).
    { induction l as [|[s pc] l IH]; intros acc; [reflexivity|]. cbn [fold_left]. rewrite IH. apply set_nth_length. }
    rewrite G, repeat_length. now rewrite L.
  - intros n Hn. assert (G : forall l acc, List.length (fold_left (fun (a : list (option piece)) '((s, pc) : square * piece) => set_nth (N.to_nat s) (Some pc) a) l acc) = List.length acc).
    { induction l as [|[s pc] l IH]; intros acc; [reflexivity|]. cbn [fold_left]. rewrite IH. apply set_nth_length. }
    rewrite G, repeat_length in Hn. rewrite <- (Nat2N.id n). assert (Hi : N.of_nat n < 64) by lia.
    rewrite (setup_fold pl squares _ (N.of_nat n) (repeat_length _ _) (fun s => proj1 (In_squares s)) Hi).
    rewrite (mem_squares _ Hi), nth_repeat. destruct (nth (N.to_nat (N.of_nat n)) pl None); reflexivity.
Qed.
