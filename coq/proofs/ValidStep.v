(* proofs/ValidStep.v — validity is preserved by every legal move (spec/Chess.v only).
   valid p -> legal p m -> valid (apply p m): the successor has 64 squares, exactly one king per side, the side that
   just moved is not in check, every remaining castling right has king and rook at home, and the en-passant square (set
   exactly after a double push) is on the right rank, empty, with the pushed pawn in front and the origin empty. *)
Require Import LC.model.Prims LC.model.Board LC.spec.Chess LC.proofs.Basics LC.proofs.Attack LC.proofs.C05Proofs LC.proofs.C02Proofs
  LC.proofs.HashInv LC.proofs.Pseudo LC.proofs.PinLemma LC.proofs.C01a LC.proofs.C04Spec.
From Coq Require Import Lia.
Open Scope N_scope.

(* ---------- exactly one king, as existence + uniqueness ---------- *)
Lemma filter_unique {A} (f : A -> bool) l k : NoDup l -> In k l -> f k = true ->
  (forall x, In x l -> f x = true -> x = k) -> filter f l = [k].
Proof.
  induction l as [|a l IH]; intros ND Hk Fk U; [destruct Hk|]. inversion ND as [|? ? Ha ND']; subst. cbn [filter].
  destruct Hk as [->|Hk].
  - rewrite Fk. f_equal. apply filter_nil_intro. intros x Hx. destruct (f x) eqn:E; [|reflexivity].
    assert (x = k) by (apply U; [now right|exact E]). subst x. contradiction.
  - destruct (f a) eqn:Fa.
    + assert (a = k) by (apply U; [now left|exact Fa]). subst a. contradiction.
    + apply IH; auto. intros x Hx. apply U. now right.
Qed.
Lemma king_pred p c x : opiece_eqb (piece_at p x) (Some (King, c)) = true <-> piece_at p x = Some (King, c).
Proof. split; [apply opiece_eqb_true|]. intros ->. destruct c; reflexivity. Qed.
Lemma one_king_intro p c k : k < 64 -> piece_at p k = Some (King, c) ->
  (forall x, x < 64 -> piece_at p x = Some (King, c) -> x = k) -> one_king p c = true.
Proof.
  intros Hk Hp U. rewrite one_king_def.
  rewrite (filter_unique _ squares k squares_NoDup (proj2 (In_squares k) Hk) (proj2 (king_pred p c k) Hp)); [reflexivity|].
  intros x Hx Fx. apply U; [now apply In_squares|now apply king_pred].
Qed.
Lemma one_king_unique p c k x : one_king p c = true -> k < 64 -> x < 64 ->
  piece_at p k = Some (King, c) -> piece_at p x = Some (King, c) -> x = k.
Proof.
  intros K1 Hk Hx Pk Px. rewrite one_king_def in K1. apply Nat.eqb_eq in K1.
  assert (A : forall y, y < 64 -> piece_at p y = Some (King, c) -> In y (filter (fun s => opiece_eqb (piece_at p s) (Some (King, c))) squares)).
  { intros y Hy E. apply filter_In. split; [now apply In_squares|now apply king_pred]. }
  pose proof (A x Hx Px) as Ax. pose proof (A k Hk Pk) as Ak. revert K1 Ax Ak.
  generalize (filter (fun s => opiece_eqb (piece_at p s) (Some (King, c))) squares). intros l Hl Ax Ak.
  destruct l as [|a [|b l]]; try discriminate. destruct Ax as [<-|[]], Ak as [<-|[]]. reflexivity.
Qed.
Lemma piece_lt p x pc : length (placement p) = 64%nat -> piece_at p x = Some pc -> x < 64.
Proof. intros L H. unfold piece_at in H. destruct (N.ltb_spec x 64) as [|Hge]; [assumption|]. rewrite nth_overflow in H by lia. discriminate. Qed.

(* a pseudo-legal destination that is occupied is attacked by the moving piece *)
Lemma pseudo_occupied_attacks p s d t c : piece_at p s = Some (t, c) -> mem d (pseudo_dests p s) = true -> occupied p d = true ->
  mem d (attacks_from p s) = true.
Proof.
  intros Hp Hm Ho. unfold pseudo_dests in Hm. rewrite Hp in Hm.
  assert (G : mem d (filter (fun x => negb (color_at p c x)) (attacks_from p s)) = true -> mem d (attacks_from p s) = true).
  { rewrite mem_filter. intros X. apply andb_prop in X. tauto. }
  destruct t; try (apply G; exact Hm).
  unfold attacks_from. rewrite Hp. unfold pawn_dests in Hm. rewrite !mem_app in Hm.
  apply orb_prop in Hm. destruct Hm as [Hm|Hm].
  - exfalso. destruct (step s (fwd c, 0%Z)); [|discriminate]. destruct (occupied p s0) eqn:O; [discriminate|].
    rewrite mem_single in Hm. apply N.eqb_eq in Hm. subst. congruence.
  - apply orb_prop in Hm. destruct Hm as [Hm|Hm].
    + exfalso. destruct (srank s =? start_rank c); [|discriminate]. destruct (step s (fwd c, 0%Z)); [|discriminate].
      destruct (step s ((2 * fwd c)%Z, 0%Z)); [|discriminate]. destruct (occupied p s0 || occupied p s1) eqn:O; [discriminate|].
      rewrite mem_single in Hm. apply N.eqb_eq in Hm. subst. apply orb_false_elim in O. destruct O. congruence.
    + rewrite mem_filter in Hm. apply andb_prop in Hm. tauto.
Qed.
(* with the side not to move not in check, no pseudo-legal move lands on the enemy king *)
Lemma no_king_capture p s d t : valid p = true -> piece_at p s = Some (t, stm p) -> mem d (pseudo_dests p s) = true ->
  piece_at p d <> Some (King, opp (stm p)).
Proof.
  intros V Hp Hm Hd. destruct (valid_parts _ V) as (L & _). destruct (valid_parts2 _ V) as (KW & KB & NC).
  pose proof (piece_lt _ _ _ L Hp) as Hs. pose proof (pseudo_dests_lt _ _ _ Hm) as Hd64.
  assert (K1 : one_king p (opp (stm p)) = true) by (destruct (stm p); [exact KB|exact KW]).
  destruct (one_king_sq p _ K1) as (k & Ek & Hk & Pk).
  assert (d = k) as -> by (apply (one_king_unique p (opp (stm p))); assumption).
  assert (A : mem k (attacks_from p s) = true). { apply (pseudo_occupied_attacks p s k t (stm p) Hp Hm). unfold occupied. now rewrite Hd. }
  pose proof (in_check_false_In p (opp (stm p)) k s Ek NC Hs) as F. rewrite A, color_at_def, Hp in F.
  destruct (stm p); discriminate.
Qed.

(* ---------- rights in the successor ---------- *)
Lemma hk_bits a b : has_kingside (cr_of_bits a b) = a. Proof. destruct a, b; reflexivity. Qed.
Lemma hq_bits a b : has_queenside (cr_of_bits a b) = b. Proof. destruct a, b; reflexivity. Qed.
Lemma right_ok_intro p c :
  (right_k p c = true \/ right_q p c = true -> piece_at p (smk (home_rank c) 4) = Some (King, c)) ->
  (right_k p c = true -> piece_at p (corner c true) = Some (Rook, c)) ->
  (right_q p c = true -> piece_at p (corner c false) = Some (Rook, c)) -> right_ok p c = true.
Proof.
  intros H1 H2 H3. unfold right_ok. destruct (right_k p c), (right_q p c); cbn [negb orb andb];
  rewrite ?H1, ?H2, ?H3 by auto; destruct c; reflexivity.
Qed.
Lemma right_ok_elim p c : right_ok p c = true ->
  (right_k p c = true \/ right_q p c = true -> piece_at p (smk (home_rank c) 4) = Some (King, c)) /\
  (right_k p c = true -> piece_at p (corner c true) = Some (Rook, c)) /\
  (right_q p c = true -> piece_at p (corner c false) = Some (Rook, c)).
Proof.
  unfold right_ok. intros H. apply andb_prop in H. destruct H as [H H3]. apply andb_prop in H. destruct H as [H1 H2].
  split; [|split].
  - intros [E|E]; rewrite E in H1; rewrite ?orb_true_r in H1; cbn [negb orb] in H1; now apply opiece_eqb_true.
  - intros E. rewrite E in H2. now apply opiece_eqb_true.
  - intros E. rewrite E in H3. now apply opiece_eqb_true.
Qed.
Lemma ptype_eq_dec (a b : ptype) : {a = b} + {a <> b}. Proof. decide equality. Defined.
Lemma home_squares_lt c : smk (home_rank c) 4 < 64 /\ corner c true < 64 /\ corner c false < 64.
Proof. destruct c; cbn; lia. Qed.

(* ---------- geometry of the double push ---------- *)
Definition ep_rank_for (c : color) : N := match c with White => 5 | Black => 2 end.   (* rank of the ep square when c captures *)
Definition dbl_ok (c : color) (s d : square) : bool :=
  negb (mem d (pawn_reach c s)) || negb (absdiff (srank s) (srank d) =? 2) ||
  ((srank s =? start_rank c) &&
   match step s (fwd c, 0%Z), step s ((2 * fwd c)%Z, 0%Z) with
   | Some t1, Some t2 =>
       (t2 =? d) && negb (t1 =? d) && negb (mem d (steps s [(fwd c, 1%Z); (fwd c, (-1)%Z)]))
       && (smk ((srank s + srank d) / 2) (sfile s) =? t1)
       && (srank t1 =? ep_rank_for (opp c))
       && (smk (match opp c with White => 4 | Black => 3 end) (sfile t1) =? d)
       && (smk (match opp c with White => 6 | Black => 1 end) (sfile t1) =? s)
       && negb (srank d =? last_rank c)
   | _, _ => false end).
Lemma dbl_sweep : forallb (fun c => forallb (fun s => forallb (fun d => dbl_ok c s d) squares) squares) all_colors = true.
Proof. vm_compute. reflexivity. Qed.
Lemma dbl_facts c s d : s < 64 -> d < 64 -> mem d (pawn_reach c s) = true -> absdiff (srank s) (srank d) = 2 ->
  srank s = start_rank c /\ exists t1, step s (fwd c, 0%Z) = Some t1 /\ step s ((2 * fwd c)%Z, 0%Z) = Some d /\ t1 <> d /\
    mem d (steps s [(fwd c, 1%Z); (fwd c, (-1)%Z)]) = false /\ smk ((srank s + srank d) / 2) (sfile s) = t1 /\
    srank t1 = ep_rank_for (opp c) /\ smk (match opp c with White => 4 | Black => 3 end) (sfile t1) = d /\
    smk (match opp c with White => 6 | Black => 1 end) (sfile t1) = s /\ srank d <> last_rank c.
Proof.
  intros Hs Hd Hm Hdiff. pose proof dbl_sweep as G. rewrite forallb_forall in G. specialize (G c ltac:(destruct c; cbn; tauto)).
  pose proof (forallb_squares2 _ G _ _ Hs Hd) as G2. unfold dbl_ok in G2. rewrite Hm, Hdiff in G2. cbn [negb orb N.eqb Pos.eqb] in G2.
  apply andb_prop in G2. destruct G2 as [G1 G2]. apply N.eqb_eq in G1. split; [exact G1|].
  destruct (step s (fwd c, 0%Z)) as [t1|]; [|discriminate]. destruct (step s ((2 * fwd c)%Z, 0%Z)) as [t2|]; [|discriminate].
  repeat (apply andb_prop in G2; destruct G2 as [G2 ?]).
  repeat match goal with X : negb _ = true |- _ => apply negb_true_iff in X end.
  repeat match goal with X : (_ =? _) = true |- _ => apply N.eqb_eq in X end.
  repeat match goal with X : (_ =? _) = false |- _ => apply N.eqb_neq in X end.
  subst t2. exists t1. repeat split; auto.
Qed.

(* ---------- a legal piece move ---------- *)
Section PieceMove.
Variables (p : pos) (m : pmove).
Let c := stm p. Let s := pm_from m. Let d := pm_to m. Let t := pm_type m.
Let placed := match pm_promo m with Some q => q | None => pm_type m end.
Hypothesis V : valid p = true.
Hypothesis Hp : piece_at p s = Some (t, c).
Hypothesis Hm : mem d (pseudo_dests p s) = true.
Hypothesis Hpr : promo_ok p m = true.
Hypothesis Hsafe : in_check (apply_pm p m) c = false.
Let p' := apply_pm p m.

Lemma pm_len : length (placement p) = 64%nat. Proof. exact (proj1 (valid_parts _ V)). Qed.
Lemma pm_s : s < 64. Proof. exact (piece_lt _ _ _ pm_len Hp). Qed.
Lemma pm_d : d < 64. Proof. exact (pseudo_dests_lt _ _ _ Hm). Qed.
Lemma pm_epok : ep_ok p = true. Proof. exact (proj2 (proj2 (proj2 (valid_parts _ V)))). Qed.
Lemma pm_notown : color_at p c d = false. Proof. exact (pseudo_not_own p s d t pm_epok Hp Hm). Qed.
Lemma pm_piece x : x < 64 -> piece_at p' x =
  if x =? d then Some (placed, c) else if x =? s then None else if is_ep_capture p m && (x =? victim_sq m) then None else piece_at p x.
Proof. intros Hx. exact (piece_at_apply p m x pm_len pm_s pm_d Hx). Qed.
Lemma pm_victim : is_ep_capture p m = true -> piece_at p (victim_sq m) = Some (Pawn, opp c).
Proof. intros E. exact (ep_victim p m pm_epok pm_s pm_d Hp Hm E). Qed.
(* a square holding an own piece other than the mover, or an enemy non-pawn that is not captured, is untouched *)
Lemma pm_keep x pc : x < 64 -> piece_at p x = Some pc -> x <> s -> x <> d -> pc <> (Pawn, opp c) -> piece_at p' x = Some pc.
Proof.
  intros Hx Px N1 N2 N3. rewrite (pm_piece x Hx). destruct (N.eqb_spec x d); [contradiction|]. destruct (N.eqb_spec x s); [contradiction|].
  destruct (is_ep_capture p m) eqn:E; [|exact Px]. cbn [andb]. destruct (N.eqb_spec x (victim_sq m)) as [->|]; [|exact Px].
  rewrite (pm_victim E) in Px. congruence.
Qed.
Lemma pm_own_not_d x tx : piece_at p x = Some (tx, c) -> x <> d.
Proof. intros Px ->. pose proof pm_notown as N. rewrite color_at_def, Px, color_eqb_refl in N. discriminate. Qed.
Lemma pm_placed_not_king : t <> King -> placed <> King.
Proof.
  intros Ht. unfold placed. unfold promo_ok in Hpr. fold t. destruct (ptype_eqb (pm_type m) Pawn && _).
  - destruct (pm_promo m) as [[]|]; try discriminate; congruence.
  - destruct (pm_promo m); [discriminate|exact Ht].
Qed.
Lemma pm_king_placed : t = King -> placed = King.
Proof. intros Ht. unfold placed. unfold promo_ok in Hpr. fold t in Hpr. rewrite Ht in Hpr. cbn [ptype_eqb andb] in Hpr. destruct (pm_promo m); [discriminate|exact Ht]. Qed.

(* from a piece in the successor back to the original *)
Lemma pm_back x pc : x < 64 -> piece_at p' x = Some pc -> x <> d -> piece_at p x = Some pc /\ x <> s.
Proof.
  intros Hx Px N. rewrite (pm_piece x Hx) in Px. destruct (N.eqb_spec x d); [contradiction|]. destruct (N.eqb_spec x s); [discriminate|].
  destruct (is_ep_capture p m && (x =? victim_sq m)); [discriminate|]. auto.
Qed.

Lemma pm_one_king_own : one_king p' c = true.
Proof.
  destruct (valid_parts2 _ V) as (KW & KB & _). assert (K1 : one_king p c = true) by (unfold c; destruct (stm p); [exact KW|exact KB]).
  destruct (one_king_sq p c K1) as (k & _ & Hk & Pk).
  destruct (ptype_eq_dec t King) as [Ht|Ht].
  - (* the king moves: it stands on d afterwards *)
    assert (k = s) as -> by (symmetry; apply (one_king_unique p c k s K1 Hk pm_s Pk); rewrite Hp, Ht; reflexivity).
    apply (one_king_intro p' c d pm_d).
    + rewrite (pm_piece d pm_d), N.eqb_refl, (pm_king_placed Ht). reflexivity.
    + intros x Hx Px. destruct (N.eq_dec x d) as [|N]; [assumption|]. exfalso.
      destruct (pm_back x _ Hx Px N) as [Px' Ns]. apply Ns. apply (one_king_unique p c s x K1 pm_s Hx Pk Px').
  - assert (Nks : k <> s) by (intros ->; rewrite Hp in Pk; congruence).
    apply (one_king_intro p' c k Hk).
    + apply (pm_keep k _ Hk Pk Nks (pm_own_not_d k King Pk)). intros [= ?].
    + intros x Hx Px. destruct (N.eq_dec x d) as [->|N].
      * exfalso. rewrite (pm_piece d pm_d), N.eqb_refl in Px. injection Px as Px. now apply (pm_placed_not_king Ht).
      * destruct (pm_back x _ Hx Px N) as [Px' _]. apply (one_king_unique p c k x K1 Hk Hx Pk Px').
Qed.
Lemma pm_one_king_opp : one_king p' (opp c) = true.
Proof.
  destruct (valid_parts2 _ V) as (KW & KB & _). assert (K1 : one_king p (opp c) = true) by (unfold c; destruct (stm p); [exact KB|exact KW]).
  destruct (one_king_sq p (opp c) K1) as (k & _ & Hk & Pk).
  assert (Nks : k <> s) by (intros ->; rewrite Hp in Pk; injection Pk as _ E; destruct c; discriminate).
  assert (Nkd : k <> d) by (intros ->; exact (no_king_capture p s d t V Hp Hm Pk)).
  apply (one_king_intro p' (opp c) k Hk).
  - apply (pm_keep k _ Hk Pk Nks Nkd). intros [= ?].
  - intros x Hx Px. destruct (N.eq_dec x d) as [->|N].
    + exfalso. rewrite (pm_piece d pm_d), N.eqb_refl in Px. injection Px as _ E. destruct c; discriminate.
    + destruct (pm_back x _ Hx Px N) as [Px' _]. apply (one_king_unique p (opp c) k x K1 Hk Hx Pk Px').
Qed.

Lemma pm_right_k X : right_k p' X = if color_eqb X c then right_k p X && negb (ptype_eqb t King || (ptype_eqb t Rook && (s =? corner c true)))
  else right_k p X && negb ((d =? corner (opp c) true) && opiece_eqb (piece_at p d) (Some (Rook, opp c))).
Proof. unfold p', right_k, rights, apply_pm. destruct X; cbn [rights_w rights_b]; rewrite hk_bits; reflexivity. Qed.
Lemma pm_right_q X : right_q p' X = if color_eqb X c then right_q p X && negb (ptype_eqb t King || (ptype_eqb t Rook && (s =? corner c false)))
  else right_q p X && negb ((d =? corner (opp c) false) && opiece_eqb (piece_at p d) (Some (Rook, opp c))).
Proof. unfold p', right_q, rights, apply_pm. destruct X; cbn [rights_w rights_b]; rewrite hq_bits; reflexivity. Qed.

Lemma pm_right_ok_own : right_ok p' c = true.
Proof.
  assert (R : right_ok p c = true) by (destruct (valid_parts _ V) as (_ & RW & RB & _); unfold c; destruct (stm p); [exact RW|exact RB]).
  destruct (right_ok_elim p c R) as (E1 & E2 & E3). destruct (home_squares_lt c) as (L1 & L2 & L3).
  assert (NK : forall side : bool, (if side then right_k p' c else right_q p' c) = true ->
     (if side then right_k p c else right_q p c) = true /\ t <> King /\ (t = Rook -> s <> corner c side)).
  { intros side H. destruct side; [rewrite pm_right_k in H|rewrite pm_right_q in H]; rewrite color_eqb_refl in H;
    apply andb_prop in H; destruct H as [H1 H2]; apply negb_true_iff in H2; apply orb_false_elim in H2; destruct H2 as [H2 H3];
    (split; [exact H1|]); (split; [intros X; rewrite X in H2; discriminate|]); intros X; rewrite X in H3; cbn [ptype_eqb andb] in H3;
    now apply N.eqb_neq in H3. }
  apply right_ok_intro.
  - intros H. assert (X : (right_k p c = true \/ right_q p c = true) /\ t <> King).
    { destruct H as [H|H]; [destruct (NK true H) as (A & B & _)|destruct (NK false H) as (A & B & _)]; auto. }
    destruct X as [X Ht]. pose proof (E1 X) as Pk. apply (pm_keep _ _ L1 Pk).
    + intros E. rewrite E, Hp in Pk. congruence.
    + apply (pm_own_not_d _ King Pk).
    + intros [= ?].
  - intros H. destruct (NK true H) as (A & _ & B). pose proof (E2 A) as Pr. apply (pm_keep _ _ L2 Pr).
    + intros E. apply B; [|now symmetry]. rewrite E, Hp in Pr. congruence.
    + apply (pm_own_not_d _ Rook Pr).
    + intros [= ?].
  - intros H. destruct (NK false H) as (A & _ & B). pose proof (E3 A) as Pr. apply (pm_keep _ _ L3 Pr).
    + intros E. apply B; [|now symmetry]. rewrite E, Hp in Pr. congruence.
    + apply (pm_own_not_d _ Rook Pr).
    + intros [= ?].
Qed.
Lemma pm_right_ok_opp : right_ok p' (opp c) = true.
Proof.
  assert (R : right_ok p (opp c) = true) by (destruct (valid_parts _ V) as (_ & RW & RB & _); unfold c; destruct (stm p); [exact RB|exact RW]).
  destruct (right_ok_elim p (opp c) R) as (E1 & E2 & E3). destruct (home_squares_lt (opp c)) as (L1 & L2 & L3).
  assert (NK : forall side : bool, (if side then right_k p' (opp c) else right_q p' (opp c)) = true ->
     (if side then right_k p (opp c) else right_q p (opp c)) = true /\ (piece_at p d = Some (Rook, opp c) -> d <> corner (opp c) side)).
  { intros side H. destruct side; [rewrite pm_right_k in H|rewrite pm_right_q in H]; rewrite color_eqb_opp in H;
    apply andb_prop in H; destruct H as [H1 H2]; apply negb_true_iff in H2; (split; [exact H1|]); intros X; rewrite X in H2;
    apply andb_false_elim in H2; (destruct H2 as [H2|H2]; [now apply N.eqb_neq in H2|destruct c; discriminate]). }
  assert (Ns : forall x tx, piece_at p x = Some (tx, opp c) -> x <> s).
  { intros x tx Px E. rewrite E, Hp in Px. injection Px as _ Ec. destruct c; discriminate. }
  apply right_ok_intro.
  - intros H. assert (X : right_k p (opp c) = true \/ right_q p (opp c) = true).
    { destruct H as [H|H]; [destruct (NK true H) as (A & _)|destruct (NK false H) as (A & _)]; auto. }
    pose proof (E1 X) as Pk. apply (pm_keep _ _ L1 Pk).
    + apply (Ns _ King Pk).
    + intros E. rewrite E in Pk. exact (no_king_capture p s d t V Hp Hm Pk).
    + intros [= ?].
  - intros H. destruct (NK true H) as (A & B). pose proof (E2 A) as Pr. apply (pm_keep _ _ L2 Pr).
    + apply (Ns _ Rook Pr).
    + intros E. rewrite E in Pr. apply (B Pr). now symmetry.
    + intros [= ?].
  - intros H. destruct (NK false H) as (A & B). pose proof (E3 A) as Pr. apply (pm_keep _ _ L3 Pr).
    + apply (Ns _ Rook Pr).
    + intros E. rewrite E in Pr. apply (B Pr). now symmetry.
    + intros [= ?].
Qed.

Lemma pm_ep_ok : ep_ok p' = true.
Proof.
  unfold ep_ok. change (ep p') with (if ptype_eqb t Pawn && (absdiff (srank s) (srank d) =? 2)
     then Some (smk ((srank s + srank d) / 2) (sfile s)) else None).
  destruct (ptype_eqb t Pawn && (absdiff (srank s) (srank d) =? 2)) eqn:E; [|reflexivity].
  apply andb_prop in E. destruct E as [Et Ed]. apply N.eqb_eq in Ed.
  assert (t = Pawn) as Ht by (destruct t; try discriminate; reflexivity).
  assert (Hpd : mem d (pawn_dests p c s) = true). { pose proof Hm as X. unfold pseudo_dests in X. rewrite Hp, Ht in X. exact X. }
  destruct (dbl_facts c s d pm_s pm_d (pawn_dests_reach p c s d Hpd) Ed) as (Hsr & t1 & S1 & S2 & N1 & NC & Emid & Er & Efront & Eorig & Nlast).
  (* the move is the double push: both squares ahead are empty *)
  assert (O : occupied p t1 = false /\ occupied p d = false).
  { unfold pawn_dests in Hpd. rewrite S1, S2, Hsr, N.eqb_refl, !mem_app, mem_filter, NC in Hpd. cbn [andb orb] in Hpd. rewrite orb_false_r in Hpd.
    destruct (occupied p t1) eqn:O1.
    - cbn [orb] in Hpd. rewrite mem_nil in Hpd. discriminate.
    - rewrite mem_single in Hpd. assert ((d =? t1) = false) as X by (apply N.eqb_neq; congruence). rewrite X in Hpd. cbn [orb] in Hpd.
      destruct (occupied p d); [cbn in Hpd; discriminate|auto]. }
  destruct O as [O1 O2]. pose proof (step_lt _ _ _ S1) as Ht1.
  assert (Hplaced : placed = Pawn).
  { unfold placed. unfold promo_ok in Hpr. fold t d c in Hpr. rewrite Ht in Hpr. cbn [ptype_eqb andb] in Hpr.
    assert ((srank d =? last_rank c) = false) as X by now apply N.eqb_neq. rewrite X in Hpr. fold t. rewrite Ht. destruct (pm_promo m); [discriminate|reflexivity]. }
  change (stm p') with (opp c). rewrite Emid. fold (ep_rank_for (opp c)). rewrite Er, N.eqb_refl, Efront, Eorig. cbn [andb].
  assert (P1 : occupied p' t1 = false).
  { unfold occupied. rewrite (pm_piece t1 Ht1). destruct (N.eqb_spec t1 d) as [E|_]; [contradiction|]. destruct (t1 =? s); [reflexivity|].
    destruct (is_ep_capture p m && (t1 =? victim_sq m)); [reflexivity|]. revert O1. unfold occupied. destruct (piece_at p t1); [discriminate|reflexivity]. }
  rewrite P1. cbn [negb andb]. rewrite (pm_piece d pm_d), N.eqb_refl, Hplaced.
  assert (P3 : occupied p' s = false).
  { unfold occupied. rewrite (pm_piece s pm_s). destruct (N.eqb_spec s d) as [E|_]; [|rewrite N.eqb_refl; reflexivity].
    exfalso. rewrite <- E in O2. unfold occupied in O2. rewrite Hp in O2. discriminate. }
  rewrite P3. destruct c; reflexivity.
Qed.
Theorem valid_piece_move : valid p' = true.
Proof.
  unfold valid. rewrite pm_ep_ok, andb_true_r.
  assert (Len : Nat.eqb (length (placement p')) 64 = true).
  { apply Nat.eqb_eq. unfold p', apply_pm. cbn [placement]. rewrite !put_length. destruct (is_ep_capture p m); rewrite ?put_length; exact pm_len. }
  rewrite Len. change (stm p') with (opp c). assert (OO : opp (opp c) = c) by (destruct c; reflexivity). pose proof Hsafe as HS. fold p' in HS. rewrite OO, HS. cbn [negb andb].
  pose proof pm_one_king_own as O1. pose proof pm_one_king_opp as O2. pose proof pm_right_ok_own as R1. pose proof pm_right_ok_opp as R2.
  fold p' in O1, O2, R1, R2. destruct c; cbn [opp] in *; rewrite O1, O2, R1, R2; reflexivity.
Qed.
End PieceMove.

(* ---------- castling ---------- *)
(* two blockers e, rf leave and two squares kt, rt get occupied: a walk reaching kt afterwards reached kt or e before,
   or passes rf on its way to kt *)
Lemma take_until_castle (occ occ' : square -> bool) (e rf kt rt : square) l :
  (forall u, In u l -> u <> e -> u <> rf -> u <> kt -> u <> rt -> occ' u = occ u) ->
  occ e = true -> occ kt = false -> occ' rt = true -> occ' rf = false -> kt <> rt -> kt <> rf ->
  In kt (take_until occ' l) ->
  In kt (take_until occ l) \/ In e (take_until occ l) \/ exists pre, prefix_before kt l = Some pre /\ In rf pre.
Proof.
  intros Same Oe Okt Ort Orf N1 N2. induction l as [|u r IH]; intros H; [destruct H|]. cbn [take_until] in *.
  destruct (N.eq_dec u kt) as [->|Hkt]. { left. rewrite Okt. now left. }
  destruct (N.eq_dec u e) as [->|He]. { right. left. rewrite Oe. now left. }
  destruct (N.eq_dec u rt) as [->|Hrt]. { exfalso. rewrite Ort in H. destruct H as [H|[]]. congruence. }
  destruct (N.eq_dec u rf) as [->|Hrf].
  { right. right. rewrite Orf in H. destruct H as [H|H]; [congruence|]. apply take_until_In in H. destruct H as (pre & E & _).
    exists (rf :: pre). cbn [prefix_before]. destruct (N.eqb_spec rf kt); [congruence|]. rewrite E. split; [reflexivity|now left]. }
  rewrite (Same u (or_introl eq_refl) He Hrf Hkt Hrt) in H. destruct (occ u).
  - destruct H as [H|[]]. contradiction.
  - destruct H as [H|H]; [contradiction|].
    assert (IH' : In kt (take_until occ r) \/ In e (take_until occ r) \/ exists pre, prefix_before kt r = Some pre /\ In rf pre).
    { apply IH; [|exact H]. intros x Hx. apply Same. now right. }
    destruct IH' as [X|[X|(pre & E & X)]]; [left; now right|right; left; now right|].
    right. right. exists (u :: pre). cbn [prefix_before]. destruct (N.eqb_spec u kt); [contradiction|]. rewrite E. split; [reflexivity|now right].
Qed.
Definition through (rf kt : square) (l : list square) : bool := match prefix_before kt l with Some pre => mem rf pre | None => false end.
Definition all_dirs : list (Z * Z) := rook_dirs ++ bishop_dirs.
Lemma castle_geo_sweep : forallb (fun r => forallb (fun a => forallb (fun dr =>
    negb (through (smk r 7) (smk r 6) (line a dr)) && negb (through (smk r 0) (smk r 2) (line a dr))) all_dirs) squares) [0; 7] = true.
Proof. vm_compute. reflexivity. Qed.
Lemma slide_dirs_all t dr : In dr (slide_dirs t) -> In dr all_dirs.
Proof. destruct t; cbn; tauto. Qed.
Lemma castle_no_through c (ks : bool) a dr pre : a < 64 -> In dr all_dirs ->
  prefix_before (smk (home_rank c) (if ks then 6 else 2)) (line a dr) = Some pre -> In (smk (home_rank c) (if ks then 7 else 0)) pre -> False.
Proof.
  intros Ha Hdr E Hin. pose proof castle_geo_sweep as G. rewrite forallb_forall in G.
  specialize (G (home_rank c) ltac:(destruct c; cbn; tauto)). pose proof (forallb_squares _ G a Ha) as G2. rewrite forallb_forall in G2.
  specialize (G2 dr Hdr). apply andb_prop in G2. destruct G2 as [G1 G2]. apply negb_true_iff in G1. apply negb_true_iff in G2.
  apply mem_true in Hin. unfold through in G1, G2. destruct ks; [rewrite E in G1|rewrite E in G2]; congruence.
Qed.
Lemma castle_legal_full p (ks : bool) : castle_legal p ks = true ->
  let c := stm p in let r := home_rank c in
  piece_at p (smk r 4) = Some (King, c) /\ piece_at p (smk r (if ks then 7 else 0)) = Some (Rook, c) /\
  occupied p (smk r (if ks then 6 else 2)) = false /\ occupied p (smk r (if ks then 5 else 3)) = false /\
  in_check p c = false /\ attacked p (opp c) (smk r (if ks then 6 else 2)) = false /\ attacked p (opp c) (smk r (if ks then 5 else 3)) = false.
Proof.
  unfold castle_legal, corner. generalize (home_rank (stm p)). intros r. destruct ks; cbn [forallb]; rewrite !andb_true_iff, !negb_true_iff;
  intros H; decompose [and] H; clear H;
  repeat match goal with X : opiece_eqb _ _ = true |- _ => apply opiece_eqb_true in X end; cbv zeta; auto 10.
Qed.

Lemma castle_squares c (ks : bool) :
  let r := home_rank c in let e := smk r 4 in let rf := smk r (if ks then 7 else 0) in
  let kt := smk r (if ks then 6 else 2) in let rt := smk r (if ks then 5 else 3) in
  (e < 64 /\ rf < 64 /\ kt < 64 /\ rt < 64) /\ (e <> rf /\ e <> kt /\ e <> rt /\ rf <> kt /\ rf <> rt /\ kt <> rt) /\
  (forall x, x = smk (home_rank (opp c)) 4 \/ x = corner (opp c) true \/ x = corner (opp c) false -> x <> e /\ x <> rf /\ x <> kt /\ x <> rt).
Proof.
  destruct c, ks; cbn; (split; [lia|]); (split; [repeat split; discriminate|]); intros x [->|[->| ->]]; repeat split; discriminate.
Qed.
Section Castle.
Variables (p : pos) (ks : bool).
Let c := stm p. Let r := home_rank c.
Let e := smk r 4. Let rf := smk r (if ks then 7 else 0). Let kt := smk r (if ks then 6 else 2). Let rt := smk r (if ks then 5 else 3).
Hypothesis V : valid p = true.
Hypothesis CL : castle_legal p ks = true.
Let p' := apply_castle p ks.

Lemma ca_len : length (placement p) = 64%nat. Proof. exact (proj1 (valid_parts _ V)). Qed.
Lemma ca_placement : placement p' = put (put (put (put (placement p) e None) rf None) kt (Some (King, c))) rt (Some (Rook, c)).
Proof. unfold p', apply_castle. destruct ks; reflexivity. Qed.
Lemma ca_piece x : x < 64 -> piece_at p' x =
  if x =? rt then Some (Rook, c) else if x =? kt then Some (King, c) else if x =? rf then None else if x =? e then None else piece_at p x.
Proof.
  intros Hx. destruct (castle_squares c ks) as ((L1 & L2 & L3 & L4) & _). unfold piece_at. rewrite ca_placement.
  rewrite nth_put by (rewrite ?put_length; auto using ca_len). destruct (x =? rt); [reflexivity|].
  rewrite nth_put by (rewrite ?put_length; auto using ca_len). destruct (x =? kt); [reflexivity|].
  rewrite nth_put by (rewrite ?put_length; auto using ca_len). destruct (x =? rf); [reflexivity|].
  rewrite nth_put by (auto using ca_len). reflexivity.
Qed.
Lemma ca_keep x : x < 64 -> x <> e -> x <> rf -> x <> kt -> x <> rt -> piece_at p' x = piece_at p x.
Proof.
  intros Hx N1 N2 N3 N4. rewrite (ca_piece x Hx). destruct (N.eqb_spec x rt); [contradiction|]. destruct (N.eqb_spec x kt); [contradiction|].
  destruct (N.eqb_spec x rf); [contradiction|]. destruct (N.eqb_spec x e); [contradiction|]. reflexivity.
Qed.
(* what stands on the four squares before *)
Lemma ca_before : piece_at p e = Some (King, c) /\ piece_at p rf = Some (Rook, c) /\ piece_at p kt = None /\ piece_at p rt = None /\
  in_check p c = false /\ attacked p (opp c) kt = false /\ attacked p (opp c) rt = false.
Proof.
  destruct (castle_legal_full p ks CL) as (A1 & A2 & A3 & A4 & A5 & A6 & A7). fold c r e rf kt rt in A1, A2, A3, A4, A5, A6, A7.
  repeat split; try assumption.
  - revert A3. unfold occupied. destruct (piece_at p kt); [discriminate|reflexivity].
  - revert A4. unfold occupied. destruct (piece_at p rt); [discriminate|reflexivity].
Qed.
(* a square holding an enemy piece is none of the four *)
Lemma ca_enemy x tx : piece_at p x = Some (tx, opp c) -> x <> e /\ x <> rf /\ x <> kt /\ x <> rt.
Proof.
  destruct ca_before as (B1 & B2 & B3 & B4 & _). intros Px.
  repeat split; intros ->; rewrite Px in *; try discriminate; [injection B1 as _ E|injection B2 as _ E]; destruct c; discriminate.
Qed.
Lemma ca_back x pc : x < 64 -> piece_at p' x = Some pc -> x <> kt -> x <> rt -> piece_at p x = Some pc /\ x <> e.
Proof.
  intros Hx Px N1 N2. rewrite (ca_piece x Hx) in Px. destruct (N.eqb_spec x rt); [contradiction|]. destruct (N.eqb_spec x kt); [contradiction|].
  destruct (x =? rf); [discriminate|]. destruct (N.eqb_spec x e); [discriminate|]. auto.
Qed.
Lemma ca_one_king_own : one_king p' c = true.
Proof.
  destruct (castle_squares c ks) as ((L1 & L2 & L3 & L4) & (D1 & D2 & D3 & D4 & D5 & D6) & _). fold r e rf kt rt in L1, L2, L3, L4, D1, D2, D3, D4, D5, D6.
  destruct ca_before as (B1 & _). destruct (valid_parts2 _ V) as (KW & KB & _).
  assert (K1 : one_king p c = true) by (unfold c; destruct (stm p); [exact KW|exact KB]).
  apply (one_king_intro p' c kt L3).
  - rewrite (ca_piece kt L3). destruct (N.eqb_spec kt rt); [contradiction|]. rewrite N.eqb_refl. reflexivity.
  - intros x Hx Px. destruct (N.eq_dec x kt) as [|N1]; [assumption|]. exfalso. destruct (N.eq_dec x rt) as [->|N2].
    + rewrite (ca_piece rt L4), N.eqb_refl in Px. discriminate.
    + destruct (ca_back x _ Hx Px N1 N2) as [Px' Ne]. apply Ne. apply (one_king_unique p c e x K1 L1 Hx B1 Px').
Qed.
Lemma ca_one_king_opp : one_king p' (opp c) = true.
Proof.
  destruct (castle_squares c ks) as ((L1 & L2 & L3 & L4) & _). fold r e rf kt rt in L1, L2, L3, L4.
  destruct (valid_parts2 _ V) as (KW & KB & _).
  assert (K1 : one_king p (opp c) = true) by (unfold c; destruct (stm p); [exact KB|exact KW]).
  destruct (one_king_sq p (opp c) K1) as (k & _ & Hk & Pk). destruct (ca_enemy k King Pk) as (N1 & N2 & N3 & N4).
  apply (one_king_intro p' (opp c) k Hk).
  - rewrite (ca_keep k Hk N1 N2 N3 N4). exact Pk.
  - intros x Hx Px. destruct (N.eq_dec x kt) as [->|M1]. { rewrite (ca_piece kt L3) in Px. destruct (kt =? rt); [discriminate|]. rewrite N.eqb_refl in Px. injection Px as E. destruct c; discriminate. }
    destruct (N.eq_dec x rt) as [->|M2]. { rewrite (ca_piece rt L4), N.eqb_refl in Px. discriminate. }
    destruct (ca_back x _ Hx Px M1 M2) as [Px' _]. apply (one_king_unique p (opp c) k x K1 Hk Hx Pk Px').
Qed.
Lemma ca_rights X : rights p' X = if color_eqb X c then Neither else rights p X.
Proof. unfold p', apply_castle. destruct ks; destruct X; cbn [rights rights_w rights_b]; fold c; destruct c; reflexivity. Qed.
Lemma ca_right_ok_own : right_ok p' c = true.
Proof. apply right_ok_intro; unfold right_k, right_q; rewrite ca_rights, color_eqb_refl; cbn; intros; try discriminate. destruct H; discriminate. Qed.
Lemma ca_right_ok_opp : right_ok p' (opp c) = true.
Proof.
  assert (R : right_ok p (opp c) = true) by (destruct (valid_parts _ V) as (_ & RW & RB & _); unfold c; destruct (stm p); [exact RB|exact RW]).
  destruct (right_ok_elim p (opp c) R) as (E1 & E2 & E3). destruct (home_squares_lt (opp c)) as (L1 & L2 & L3).
  destruct (castle_squares c ks) as (_ & _ & Far). fold r e rf kt rt in Far.
  assert (RK : right_k p' (opp c) = right_k p (opp c)) by (unfold right_k; rewrite ca_rights, color_eqb_opp; reflexivity).
  assert (RQ : right_q p' (opp c) = right_q p (opp c)) by (unfold right_q; rewrite ca_rights, color_eqb_opp; reflexivity).
  apply right_ok_intro; rewrite ?RK, ?RQ; intros H.
  - destruct (Far _ (or_introl eq_refl)) as (N1 & N2 & N3 & N4). rewrite (ca_keep _ L1 N1 N2 N3 N4). auto.
  - destruct (Far _ (or_intror (or_introl eq_refl))) as (N1 & N2 & N3 & N4). rewrite (ca_keep _ L2 N1 N2 N3 N4). auto.
  - destruct (Far _ (or_intror (or_intror eq_refl))) as (N1 & N2 & N3 & N4). rewrite (ca_keep _ L3 N1 N2 N3 N4). auto.
Qed.

Lemma ca_occ u : u < 64 -> u <> e -> u <> rf -> u <> kt -> u <> rt -> occupied p' u = occupied p u.
Proof. intros Hu N1 N2 N3 N4. unfold occupied. now rewrite (ca_keep u Hu N1 N2 N3 N4). Qed.
Lemma ca_reach a dr : a < 64 -> In dr all_dirs -> In kt (reach p' a dr) -> In kt (reach p a dr) \/ In e (reach p a dr).
Proof.
  intros Ha Hdr H. destruct (castle_squares c ks) as ((L1 & L2 & L3 & L4) & (D1 & D2 & D3 & D4 & D5 & D6) & _).
  fold r e rf kt rt in L1, L2, L3, L4, D1, D2, D3, D4, D5, D6. destruct ca_before as (B1 & B2 & B3 & B4 & _).
  unfold reach in *.
  destruct (take_until_castle (occupied p) (occupied p') e rf kt rt (line a dr)) as [X|[X|(pre & E & X)]]; auto.
  - intros u Hu. apply ca_occ. eapply line_lt; eauto.
  - unfold occupied. now rewrite B1.
  - unfold occupied. now rewrite B3.
  - unfold occupied. rewrite (ca_piece rt L4), N.eqb_refl. reflexivity.
  - unfold occupied. rewrite (ca_piece rf L2). destruct (N.eqb_spec rf rt); [congruence|]. destruct (N.eqb_spec rf kt); [congruence|]. now rewrite N.eqb_refl.
  - exfalso. exact (castle_no_through c ks a dr pre Ha Hdr E X).
Qed.
Lemma ca_no_attacker a : a < 64 -> color_at p' (opp c) a && mem kt (attacks_from p' a) = false.
Proof.
  intros Ha. destruct (castle_squares c ks) as ((L1 & L2 & L3 & L4) & _). fold r e rf kt rt in L1, L2, L3, L4.
  destruct ca_before as (B1 & B2 & B3 & B4 & NC & NA1 & NA2). destruct (valid_parts2 _ V) as (KW & KB & _).
  assert (K1 : one_king p c = true) by (unfold c; destruct (stm p); [exact KW|exact KB]).
  assert (Ek : king_sq p c = Some e).
  { destruct (one_king_sq p c K1) as (k0 & E0 & H0 & P0). rewrite E0. f_equal. symmetry. apply (one_king_unique p c k0 e K1 H0 L1 P0 B1). }
  pose proof (attacked_false_In p (opp c) kt a NA1 Ha) as A1.
  pose proof (in_check_false_In p c e a Ek NC Ha) as A2.
  rewrite (color_at_def p'), (attacks_from_def p'). rewrite (color_at_def p), (attacks_from_def p) in A1, A2.
  destruct (piece_at p' a) as [[t ca]|] eqn:Pa; [|reflexivity].
  destruct (color_eqb (opp c) ca) eqn:Ec; [|reflexivity]. apply color_eqb_true in Ec. subst ca.
  assert (Pa' : piece_at p a = Some (t, opp c)).
  { rewrite (ca_piece a Ha) in Pa. destruct (a =? rt); [injection Pa as _ X; destruct c; discriminate|].
    destruct (a =? kt); [injection Pa as _ X; destruct c; discriminate|]. destruct (a =? rf); [discriminate|]. destruct (a =? e); [discriminate|]. exact Pa. }
  rewrite Pa', color_eqb_refl in A1, A2. rewrite andb_true_l in *.
  assert (S : forall tt, (forall dr, In dr (slide_dirs tt) -> In dr all_dirs) -> mem kt (flat_map (reach p a) (slide_dirs tt)) = false ->
     mem e (flat_map (reach p a) (slide_dirs tt)) = false -> mem kt (flat_map (reach p' a) (slide_dirs tt)) = false).
  { intros tt Hall F1 F2. destruct (mem kt (flat_map (reach p' a) (slide_dirs tt))) eqn:E; [|reflexivity]. apply mem_true in E.
    apply in_flat_map in E. destruct E as (dr & Hdr & E). destruct (ca_reach a dr Ha (Hall dr Hdr) E) as [X|X].
    - assert (mem kt (flat_map (reach p a) (slide_dirs tt)) = true) as Y by (apply mem_true, in_flat_map; eauto). congruence.
    - assert (mem e (flat_map (reach p a) (slide_dirs tt)) = true) as Y by (apply mem_true, in_flat_map; eauto). congruence. }
  destruct t; try exact A1; (apply S; [intros dr; apply slide_dirs_all|exact A1|exact A2]).
Qed.
Lemma ca_safe : in_check p' c = false.
Proof.
  destruct (castle_squares c ks) as ((L1 & L2 & L3 & L4) & _). fold r e rf kt rt in L1, L2, L3, L4.
  pose proof ca_one_king_own as K1. destruct (one_king_sq p' c K1) as (k & Ek & Hk & Pk).
  assert (k = kt) as ->.
  { apply (one_king_unique p' c kt k K1 L3 Hk); [|exact Pk]. rewrite (ca_piece kt L3). destruct (N.eqb_spec kt rt) as [E|_]; [|now rewrite N.eqb_refl].
    exfalso. destruct (castle_squares c ks) as (_ & (_ & _ & _ & _ & _ & D6) & _). now apply D6. }
  unfold in_check, checkers. rewrite Ek. rewrite (attackers_nil p' (opp c) kt ca_no_attacker). reflexivity.
Qed.
Theorem valid_castle : valid p' = true.
Proof.
  unfold valid.
  assert (Len : Nat.eqb (length (placement p')) 64 = true) by (apply Nat.eqb_eq; rewrite ca_placement, !put_length; exact ca_len).
  assert (Eep : ep_ok p' = true) by (unfold ep_ok, p', apply_castle; destruct ks; reflexivity).
  assert (Estm : stm p' = opp c) by (unfold p', apply_castle; destruct ks; reflexivity).
  assert (OO : opp (opp c) = c) by (destruct c; reflexivity).
  rewrite Len, Eep, Estm, OO, ca_safe. cbn [negb andb].
  pose proof ca_one_king_own as O1. pose proof ca_one_king_opp as O2. pose proof ca_right_ok_own as R1. pose proof ca_right_ok_opp as R2.
  fold p' in O1, O2, R1, R2. destruct c; cbn [opp] in *; rewrite O1, O2, R1, R2; reflexivity.
Qed.
End Castle.

(* ---------- every legal move ---------- *)
Theorem valid_step p mv : valid p = true -> legal p mv = true -> valid (apply p mv) = true.
Proof.
  intros V L. destruct mv as [m| |]; cbn [legal apply] in *.
  - repeat (apply andb_prop in L; destruct L as [L ?]). apply opiece_eqb_true in L.
    match goal with X : negb _ = true |- _ => apply negb_true_iff in X end.
    apply valid_piece_move; assumption.
  - apply valid_castle; assumption.
  - apply valid_castle; assumption.
Qed.
