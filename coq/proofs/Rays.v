(* proofs/Rays.v — ray truncation by the nearest blocker bit equals "walk the line up to and including the first
   occupied square", for every square, direction and ALL occupancies: a complete sweep over the subsets of each
   ray (11,156 cases) lifted by the observation that both sides depend on the occupancy only through the ray. *)
Require Import LC.model.Prims LC.model.Tables LC.model.Board LC.spec.Chess LC.spec.Geometry
  LC.proofs.Basics LC.proofs.Bits LC.proofs.Cols LC.proofs.MaskInv LC.proofs.Attack LC.proofs.TablesGeo LC.proofs.C05Proofs.
From Coq Require Import Lia.
Open Scope N_scope.

Definition trunc_pure (s : square) (i : nat) (occ : N) : option N :=
  let r := ray s i in
  let blk := N.land r occ in
  let nearest := match i with 0%nat | 2%nat | 4%nat | 5%nat => last_bit_square blk | _ => first_bit_square blk end in
  match nearest with
  | None => Some r
  | Some t => match between s t with Some m => Some (N.lxor m (bit t)) | None => None end end.
Lemma truncate_ray_pure b s i : truncate_ray b s i = match trunc_pure s i (m_all b) with Some x => Ok x | None => Panic end.
Proof.
  unfold truncate_ray, trunc_pure. destruct (match i with 0%nat | 2%nat | 4%nat | 5%nat => last_bit_square (N.land (ray s i) (m_all b)) | _ => first_bit_square (N.land (ray s i) (m_all b)) end); [|reflexivity].
  destruct (between s s0); reflexivity.
Qed.
Fixpoint take_until_occ (occ : N) (l : list square) : list square :=
  match l with [] => [] | u :: r => if N.testbit occ u then [u] else u :: take_until_occ occ r end.
Definition spec_dir (s : square) (i : nat) (occ : N) : N := of_list (take_until_occ occ (line s (dir i))).
Definition osome_is (o : option N) (v : N) := match o with Some x => x =? v | None => false end.
Fixpoint subsets (l : list square) : list N :=
  match l with [] => [0] | u :: r => let ss := subsets r in ss ++ map (fun m => N.lor m (bit u)) ss end.
Lemma trunc_sweep : forallb (fun s => forallb (fun i => forallb (fun o => osome_is (trunc_pure s i o) (spec_dir s i o))
                       (subsets (line s (dir i)))) (seq 0 8)) squares = true.
Proof. vm_compute. reflexivity. Qed.

Lemma take_until_occ_ext o1 o2 l : (forall u, In u l -> N.testbit o1 u = N.testbit o2 u) -> take_until_occ o1 l = take_until_occ o2 l.
Proof.
  induction l as [|x xs IH]; intros H; cbn [take_until_occ]; [reflexivity|].
  rewrite (H x (or_introl eq_refl)). destruct (N.testbit o2 x); [reflexivity|].
  f_equal. apply IH. intros u Hu. apply H. now right.
Qed.
Definition restrict (o : N) (l : list square) : N := of_list (filter (N.testbit o) l).
Lemma subsets_complete o l : In (restrict o l) (subsets l).
Proof.
  unfold restrict. induction l as [|x xs IH]; cbn [filter subsets].
  - left; reflexivity.
  - apply in_or_app. destruct (N.testbit o x).
    + right. apply in_map_iff. exists (of_list (filter (N.testbit o) xs)). split; [|exact IH].
      apply N.bits_inj; intro u. fold (has (N.lor (of_list (filter (N.testbit o) xs)) (bit x)) u) (has (of_list (x :: filter (N.testbit o) xs)) u).
      rewrite has_lor, !has_of_list, has_bit. cbn [mem existsb]. unfold mem. rewrite (N.eqb_sym x u). apply orb_comm.
    + left. exact IH.
Qed.
Lemma restrict_spec o l u : N.testbit (restrict o l) u = N.testbit o u && mem u l.
Proof.
  unfold restrict. fold (has (of_list (filter (N.testbit o) l)) u). rewrite has_of_list.
  induction l as [|x xs IH]; cbn [filter mem existsb]; [now rewrite andb_false_r|].
  unfold mem in *. destruct (N.testbit o x) eqn:E; cbn [existsb]; rewrite IH;
  destruct (N.eqb_spec u x); subst; cbn; rewrite ?E; reflexivity.
Qed.
Lemma ray_of_list s i : s < 64 -> (i < 8)%nat -> ray s i = of_list (line s (dir i)).
Proof.
  intros Hs Hi. unfold ray, rays. rewrite rays_geo. rewrite (nth_map_squares (fun s => map (geo_ray s) (seq 0 8))) by exact Hs.
  rewrite nth_indep with (d' := geo_ray s 0%nat) by (rewrite map_length, seq_length; lia).
  rewrite map_nth, seq_nth by lia. reflexivity.
Qed.
Lemma land_ray_restrict s i o : s < 64 -> (i < 8)%nat -> N.land (ray s i) o = restrict o (line s (dir i)).
Proof.
  intros Hs Hi. apply N.bits_inj; intro u. rewrite N.land_spec, restrict_spec, (ray_of_list s i Hs Hi).
  fold (has (of_list (line s (dir i))) u). rewrite has_of_list. apply andb_comm.
Qed.
Lemma restrict_idem o l : restrict (restrict o l) l = restrict o l.
Proof. apply N.bits_inj; intro u. rewrite !restrict_spec. now rewrite <- andb_assoc, andb_diag. Qed.
Lemma trunc_pure_restrict s i o : s < 64 -> (i < 8)%nat -> trunc_pure s i o = trunc_pure s i (restrict o (line s (dir i))).
Proof. intros Hs Hi. unfold trunc_pure. rewrite !(land_ray_restrict s i _ Hs Hi), restrict_idem. reflexivity. Qed.
Lemma spec_dir_restrict s i o : spec_dir s i o = spec_dir s i (restrict o (line s (dir i))).
Proof.
  unfold spec_dir. f_equal. apply take_until_occ_ext. intros u Hu. rewrite restrict_spec.
  rewrite (proj2 (mem_true u _) Hu). now rewrite andb_true_r.
Qed.
Theorem trunc_pure_correct s i o : s < 64 -> (i < 8)%nat -> trunc_pure s i o = Some (spec_dir s i o).
Proof.
  intros Hs Hi. rewrite (trunc_pure_restrict s i o Hs Hi), (spec_dir_restrict s i o).
  pose proof trunc_sweep as H. rewrite forallb_forall in H. specialize (H s (proj2 (In_squares s) Hs)).
  rewrite forallb_forall in H. specialize (H i ltac:(apply in_seq; lia)). rewrite forallb_forall in H.
  specialize (H _ (subsets_complete o (line s (dir i)))). unfold osome_is in H.
  destruct (trunc_pure s i (restrict o (line s (dir i)))); [|discriminate]. apply N.eqb_eq in H. now subst.
Qed.
(* in terms of the board and the mailbox walk *)
Lemma take_until_occ_reach b s d : MaskInv b -> take_until_occ (m_all b) (line s d) = reach (abs b) s d.
Proof.
  intros I. unfold reach. induction (line s d) as [|u r IH]; [reflexivity|]. cbn [take_until_occ take_until].
  rewrite (occupied_abs b u I). unfold has. destruct (N.testbit (m_all b) u); [reflexivity|]. now rewrite IH.
Qed.
Theorem truncate_ray_spec b s i : MaskInv b -> s < 64 -> (i < 8)%nat ->
  truncate_ray b s i = Ok (of_list (reach (abs b) s (dir i))).
Proof.
  intros I Hs Hi. rewrite truncate_ray_pure, (trunc_pure_correct s i _ Hs Hi). unfold spec_dir. now rewrite (take_until_occ_reach b s _ I).
Qed.
