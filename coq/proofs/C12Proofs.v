(* proofs/C12Proofs.v — game_step refines the protocol; the result tag follows the status *)
Require Import LC.model.Prims LC.model.Tables LC.model.Board LC.model.Text LC.model.San LC.model.Game LC.spec.Protocol LC.proofs.Basics.
From Coq Require Import Lia.
Open Scope N_scope.

Section P.
Variable K : zkeys.
Definition TagInv (g : game) : Prop := g_tag g = tag_of_status (g_status g).

Lemma gstatus_eqb_eq a b : gstatus_eqb a b = true <-> a = b.
Proof. destruct a as [|[]|[]|[]| | | | |], b as [|[]|[]|[]| | | | |]; cbn; split; congruence. Qed.
Lemma set_game_status_status g s : g_status (set_game_status g s) = s.
Proof. unfold set_game_status. destruct (gstatus_eqb s (g_status g)) eqn:E; [apply gstatus_eqb_eq in E; now subst|reflexivity]. Qed.
Lemma set_game_status_tag g s : TagInv g -> TagInv (set_game_status g s).
Proof. unfold set_game_status, TagInv. intros H. destruct (gstatus_eqb s (g_status g)); [exact H|reflexivity]. Qed.
Lemma set_game_status_rest g s : g_pos (set_game_status g s) = g_pos g /\ g_positions (set_game_status g s) = g_positions g /\
  g_moves (set_game_status g s) = g_moves g /\ g_meta (set_game_status g s) = g_meta g /\ g_counter (set_game_status g s) = g_counter g.
Proof. unfold set_game_status. destruct (gstatus_eqb s (g_status g)); repeat split. Qed.

(* update_game_status computes exactly the rule-given status *)
Lemma update_game_status_spec g a g' : update_game_status g a = Ok g' ->
  exists after, (match a with None | Some (MakeMove _) => exists bs, get_status (g_pos g) = Ok bs /\ after = move_result bs (position_counter g (g_pos g)) | _ => True end) /\
    g_status g' = (match a with None => after | Some x => status_after x after end) /\
    (TagInv g -> TagInv g') /\ g_pos g' = g_pos g /\ g_positions g' = g_positions g /\ g_moves g' = g_moves g /\ g_meta g' = g_meta g /\ g_counter g' = g_counter g.
Proof.
  unfold update_game_status. intros E. apply bind_ok in E. destruct E as (s & Es & [= <-]).
  destruct (set_game_status_rest g s) as (R1 & R2 & R3 & R4 & R5).
  assert (M : forall bs, get_status (g_pos g) = Ok bs -> (st <- Ok bs ;; Ok (match st with
            | BOngoing => if 3 <=? position_counter g (g_pos g) then GRepetition else GOngoing
            | BCheckMated c => GCheckMated c | BTheoreticalDraw => GTheoreticalDraw | BFiftyMoves => GFiftyMoves | BStalemate => GStalemate end))
            = Ok (move_result bs (position_counter g (g_pos g)))).
  { intros bs _. cbn [bind]. destruct bs; reflexivity. }
  destruct a as [[m|c| | |c]|].
  - apply bind_ok in Es. destruct Es as (bs & Eb & Es). exists (move_result bs (position_counter g (g_pos g))).
    split; [exists bs; auto|]. rewrite set_game_status_status.
    assert (s = move_result bs (position_counter g (g_pos g))) as -> by (destruct bs; injection Es as <-; reflexivity).
    repeat split; auto using set_game_status_tag.
  - injection Es as <-. exists GOngoing. rewrite set_game_status_status. repeat split; auto using set_game_status_tag.
  - injection Es as <-. exists GOngoing. rewrite set_game_status_status. repeat split; auto using set_game_status_tag.
  - injection Es as <-. exists GOngoing. rewrite set_game_status_status. repeat split; auto using set_game_status_tag.
  - injection Es as <-. exists GOngoing. rewrite set_game_status_status. repeat split; auto using set_game_status_tag.
  - apply bind_ok in Es. destruct Es as (bs & Eb & Es). exists (move_result bs (position_counter g (g_pos g))).
    split; [exists bs; auto|]. rewrite set_game_status_status.
    assert (s = move_result bs (position_counter g (g_pos g))) as -> by (destruct bs; injection Es as <-; reflexivity).
    repeat split; auto using set_game_status_tag.
Qed.

Lemma get_status_no_err b e : get_status b <> Err e.
Proof.
  unfold get_status. destruct (b_term b); [discriminate|]. unfold is_theoretical_draw.
  destruct (_ || _); cbn [bind]; [destruct (100 <=? _); discriminate|].
  destruct (popcount (m_white b)) as [|[[]|[]|]]; cbn [bind]; try discriminate;
  destruct (popcount (m_black b)) as [|[[]|[]|]]; cbn [bind]; try discriminate;
  repeat match goal with |- context [if ?c then _ else _] => destruct c end; discriminate.
Qed.
(* the accepted set and the error kinds *)
Definition move_legal (g : game) (a : action) : bool :=
  match a with MakeMove m => match make_move K (g_pos g) m with Ok _ => true | _ => false end | _ => false end.
Lemma game_step_verdict g a : game_step K g a <> Panic ->
  match verdict_of (g_status g) a (move_legal g a) with
  | Accepted => exists g', game_step K g a = Ok g'
  | RejectedIllegalAction => game_step K g a = Err EIllegalAction
  | RejectedFinished => game_step K g a = Err EFinished end.
Proof.
  unfold game_step, verdict_of, move_legal. intros NP.
  destruct (g_status g) as [|c0|c0|c0| | | | |]; cbn [is_finished]; try reflexivity.
  - destruct a as [m|c| | |c]; try reflexivity.
    + destruct (make_move K (g_pos g) m) as [b'| |] eqn:Em; cbn [bind] in *; try reflexivity; [|congruence].
      destruct (history_push K (position_counter_increment (with_pos g b')) m b') as [g1| |] eqn:Eh; cbn [bind] in *; try congruence.
      * destruct (update_game_status g1 (Some (MakeMove m))) as [g2| |] eqn:Eu; try congruence; [eauto|].
        exfalso. unfold update_game_status in Eu. destruct (get_status (g_pos g1)) eqn:G; cbn in Eu; try discriminate.
        eapply get_status_no_err; eauto.
      * exfalso. unfold history_push, unwrap_o, unwrap in Eh. destruct (last _ _); cbn [bind] in Eh; [|discriminate].
        destruct (move_props _ _ _); cbn [bind] in Eh; discriminate.
    + cbn [bind]. eexists. reflexivity.
    + cbn [bind]. eexists. reflexivity.
  - destruct a as [m|c| | |c]; try reflexivity; cbn [bind]; eexists; reflexivity.
Qed.

(* after an accepted action the status is the one the rules give, the tag follows, counters only change by moves *)
Lemma game_step_status g a g' : game_step K g a = Ok g' ->
  verdict_of (g_status g) a (move_legal g a) = Accepted /\
  (TagInv g -> TagInv g') /\
  match a with
  | MakeMove m => exists bs, get_status (g_pos g') = Ok bs /\ make_move K (g_pos g) m = Ok (g_pos g') /\
                  g_status g' = move_result bs (position_counter g' (g_pos g'))
  | _ => g_status g' = status_after a GOngoing /\ g_pos g' = g_pos g /\ g_positions g' = g_positions g /\ g_moves g' = g_moves g
         /\ g_counter g' = g_counter g end.
Proof.
  intros E. pose proof (game_step_verdict g a) as V. rewrite E in V. specialize (V ltac:(discriminate)).
  split. { destruct (verdict_of _ _ _); [reflexivity|discriminate|discriminate]. }
  unfold game_step in E. apply bind_ok in E. destruct E as (g1 & E1 & E2).
  apply update_game_status_spec in E2. destruct E2 as (after & Ha & Hs & Ht & P1 & P2 & P3 & P4 & P5).
  destruct (g_status g) as [|c0|c0|c0| | | | |] eqn:Es; try discriminate.
  - destruct a as [m|c| | |c]; try discriminate.
    + destruct (make_move K (g_pos g) m) as [b'| |] eqn:Em; try discriminate.
      unfold history_push in E1. apply bind_ok in E1. destruct E1 as (lp & _ & E1). apply bind_ok in E1. destruct E1 as (mp & _ & [= <-]).
      cbn [g_pos g_status g_tag g_counter position_counter_increment with_pos] in *.
      split. { intros T. apply Ht. exact T. }
      destruct Ha as (bs & Eb & ->). exists bs. rewrite P1. cbn [g_pos]. split; [exact Eb|]. split; [reflexivity|].
      rewrite Hs. cbn [status_after]. unfold position_counter. rewrite P5. reflexivity.
    + injection E1 as <-. split; [exact Ht|]. rewrite Hs. repeat split; assumption.
    + injection E1 as <-. split; [exact Ht|]. rewrite Hs. repeat split; assumption.
  - destruct a as [m|c| | |c]; try discriminate; injection E1 as <-; (split; [exact Ht|]); rewrite Hs; repeat split; assumption.
Qed.

(* construction *)
Lemma game_from_board_spec b g : game_from_board b = Ok g ->
  TagInv g /\ g_pos g = b /\ g_positions g = [b] /\ g_moves g = [] /\ exists bs, get_status b = Ok bs /\ g_status g = move_result bs 0.
Proof.
  unfold game_from_board. intros E. apply bind_ok in E. destruct E as (g0 & E0 & [= <-]).
  apply update_game_status_spec in E0. destruct E0 as (after & (bs & Eb & ->) & Hs & Ht & P1 & P2 & P3 & P4 & P5).
  cbn [g_pos g_status g_tag g_positions g_moves position_counter_increment] in *.
  split; [apply Ht; reflexivity|]. repeat split; try assumption. exists bs. split; [exact Eb|]. rewrite Hs. reflexivity.
Qed.

(* all finite action sequences *)
Fixpoint run (g : game) (l : list action) : game :=   (* rejected actions leave the game as it is *)
  match l with [] => g | a :: r => match game_step K g a with Ok g' => run g' r | _ => run g r end end.
Lemma run_tag l : forall g, TagInv g -> TagInv (run g l).
Proof.
  induction l as [|a r IH]; intros g T; [exact T|]. cbn [run].
  destruct (game_step K g a) as [g'| |] eqn:E; try now apply IH. apply IH. exact (proj1 (proj2 (game_step_status g a g' E)) T).
Qed.
End P.
