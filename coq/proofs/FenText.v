(* proofs/FenText.v — the FEN text of a builder parses back to the builder (string level) *)
Require Import LC.model.Prims LC.model.Tables LC.model.Board LC.model.Text LC.model.Fen LC.proofs.Basics.
From Coq Require Import Lia ZArith.
Open Scope N_scope.


(* ---------- decimal numbers ---------- *)
Definition digit (c : N) : Prop := 48 <= c <= 57.
Fixpoint dval (a : N) (l : bytes) : N := match l with [] => a | c :: r => dval (a * 10 + (c - 48)) r end.
Lemma dval_ge a l : a <= dval a l.
Proof. revert a. induction l as [|c r IH]; intros a; cbn [dval]; [lia|]. specialize (IH (a * 10 + (c - 48))). lia. Qed.
Lemma mod10_digit n : digit (48 + n mod 10).
Proof. unfold digit. pose proof (N.mod_lt n 10 ltac:(lia)) as X. revert X. generalize (n mod 10). intros m X. lia. Qed.
Lemma dec_fuel_spec fuel : forall n acc, n < 2 ^ N.of_nat fuel ->
  exists ds, dec_fuel (S fuel) n acc = ds ++ acc /\ ds <> [] /\ Forall digit ds /\ forall a, dval a ds = a * 10 ^ N.of_nat (length ds) + n.
Proof.
  induction fuel as [|f IH]; intros n acc Hn.
  - assert (n = 0) by (cbn in Hn; lia). subst. exists [48]. cbn. split; [reflexivity|]. split; [discriminate|]. split; [constructor; [unfold digit; lia|constructor]|]. intros a. cbn. lia.
  - cbn [dec_fuel]. destruct (N.eqb_spec (n / 10) 0) as [E|E].
    + assert (n < 10) by (destruct (N.ltb_spec n 10) as [|X]; [assumption|]; exfalso; assert (1 <= n / 10) by (apply N.div_le_lower_bound; lia); lia).
      exists [48 + n mod 10]. rewrite (N.mod_small n 10) by assumption. split; [reflexivity|]. split; [discriminate|].
      split; [constructor; [unfold digit; lia|constructor]|]. intros a. cbn [dval length]. change (N.of_nat 1) with 1. rewrite N.pow_1_r. lia.
    + assert (Hq : n / 10 < 2 ^ N.of_nat f).
      { rewrite Nat2N.inj_succ, N.pow_succ_r' in Hn. apply N.div_lt_upper_bound; lia. }
      destruct (IH (n / 10) ((48 + n mod 10) :: acc) Hq) as (ds & E1 & Nn & Fd & Hv).
      exists (ds ++ [48 + n mod 10]). split; [rewrite <- app_assoc; exact E1|]. split; [destruct ds; discriminate|].
      split; [apply Forall_app; split; [exact Fd|constructor; [apply mod10_digit|constructor]]|].
      intros a. assert (G : forall l x b, dval b (l ++ [x]) = dval b l * 10 + (x - 48)).
      { induction l as [|y l IHl]; intros x b; [reflexivity|]. cbn [app dval]. apply IHl. }
      rewrite G, Hv, app_length, Nat.add_1_r, Nat2N.inj_succ, N.pow_succ_r'.
      pose proof (N.div_mod n 10 ltac:(lia)) as X. revert X. generalize (n / 10) (n mod 10) (10 ^ N.of_nat (length ds)). intros q m P X. lia.
Qed.
Lemma size_nat_bound n : n < 2 ^ N.of_nat (N.size_nat n).
Proof.
  destruct n as [|p]; [cbn; lia|]. cbn [N.size_nat]. induction p as [p IH|p IH|]; cbn [Pos.size_nat].
  - rewrite Nat2N.inj_succ, N.pow_succ_r'. change (N.pos p~1) with (2 * N.pos p + 1). lia.
  - rewrite Nat2N.inj_succ, N.pow_succ_r'. change (N.pos p~0) with (2 * N.pos p). lia.
  - cbn. lia.
Qed.
Lemma print_dec_spec n : exists ds, print_dec n = ds /\ ds <> [] /\ Forall digit ds /\ dval 0 ds = n.
Proof.
  unfold print_dec. destruct (dec_fuel_spec (N.size_nat n) n [] (size_nat_bound n)) as (ds & E & Nn & Fd & Hv).
  exists ds. rewrite E, app_nil_r. split; [reflexivity|]. split; [exact Nn|]. split; [exact Fd|]. rewrite Hv. lia.
Qed.
Lemma parse_digits ds : forall a, Forall digit ds -> dval a ds < two64 ->
  fold_left (fun acc c => a0 <- acc ;; if (48 <=? c) && (c <=? 57) then let v := a0 * 10 + (c - 48) in if v <? two64 then Ok v else Err EFen else Err EFen) ds (Ok a)
  = Ok (dval a ds).
Proof.
  induction ds as [|c r IH]; intros a F H; [reflexivity|]. inversion F as [|? ? Hc Fr]; subst. cbn [fold_left dval bind] in *.
  unfold digit in Hc. assert ((48 <=? c) && (c <=? 57) = true) as -> by (apply andb_true_intro; split; apply N.leb_le; lia).
  cbv zeta. pose proof (dval_ge (a * 10 + (c - 48)) r). assert ((a * 10 + (c - 48) <? two64) = true) as -> by (apply N.ltb_lt; lia).
  apply IH; assumption.
Qed.
Lemma parse_usize_digits ds : ds <> [] -> Forall digit ds -> dval 0 ds < two64 -> parse_usize ds = Ok (dval 0 ds).
Proof.
  intros Nn Fd H. destruct ds as [|c r]; [contradiction|]. inversion Fd as [|? ? Hc _]; subst. unfold digit in Hc.
  assert (E : c = 48 \/ c = 49 \/ c = 50 \/ c = 51 \/ c = 52 \/ c = 53 \/ c = 54 \/ c = 55 \/ c = 56 \/ c = 57) by lia.
  unfold parse_usize. destruct E as [->|[->|[->|[->|[->|[->|[->|[->|[->| ->]]]]]]]]]; cbv beta iota zeta; exact (parse_digits _ 0 Fd H).
Qed.
Theorem parse_print_dec n : n < two64 -> parse_usize (print_dec n) = Ok n.
Proof.
  intros H. destruct (print_dec_spec n) as (ds & -> & Nn & Fd & Hv). rewrite (parse_usize_digits ds Nn Fd); [now rewrite Hv|]. now rewrite Hv.
Qed.
Lemma print_dec_chars n : Forall digit (print_dec n).
Proof. destruct (print_dec_spec n) as (ds & -> & _ & F & _). exact F. Qed.

(* ---------- splitting on a separator ---------- *)
Lemma split_on_none c s : forall cur, ~ In c s -> split_on c s cur = [rev cur ++ s].
Proof.
  induction s as [|x r IH]; intros cur H; cbn [split_on]; [now rewrite app_nil_r|].
  destruct (N.eqb_spec x c) as [->|N]; [exfalso; apply H; now left|].
  rewrite IH by (intros X; apply H; now right). cbn [rev]. now rewrite <- app_assoc.
Qed.
Lemma split_on_app c a r : forall cur, ~ In c a -> split_on c (a ++ c :: r) cur = (rev cur ++ a) :: split_on c r [].
Proof.
  induction a as [|x a IH]; intros cur H; cbn [app split_on].
  - rewrite N.eqb_refl, app_nil_r. reflexivity.
  - destruct (N.eqb_spec x c) as [->|N]; [exfalso; apply H; now left|].
    rewrite IH by (intros X; apply H; now right). cbn [rev]. now rewrite <- app_assoc.
Qed.
Lemma split6 c f1 f2 f3 f4 f5 f6 : ~ In c f1 -> ~ In c f2 -> ~ In c f3 -> ~ In c f4 -> ~ In c f5 -> ~ In c f6 ->
  split_on c (f1 ++ [c] ++ f2 ++ [c] ++ f3 ++ [c] ++ f4 ++ [c] ++ f5 ++ [c] ++ f6) [] = [f1; f2; f3; f4; f5; f6].
Proof.
  intros H1 H2 H3 H4 H5 H6. cbn [app].
  rewrite (split_on_app c f1 _ [] H1), (split_on_app c f2 _ [] H2), (split_on_app c f3 _ [] H3), (split_on_app c f4 _ [] H4),
    (split_on_app c f5 _ [] H5), (split_on_none c f6 [] H6). reflexivity.
Qed.

(* ---------- the placement field ---------- *)
Definition pstep (acc : res (N * N * list (option piece))) (c : N) := a <- acc ;; fen_step a c.
Definition prun (s : bytes) (st : res (N * N * list (option piece))) := fold_left pstep s st.
Lemma prun_app s t st : prun (s ++ t) st = prun t (prun s st). Proof. apply fold_left_app. Qed.
(* run-length text of a row of cells with e pending empty squares *)
Fixpoint rle (cells : list (option piece)) (e : N) : bytes :=
  match cells with
  | [] => if e =? 0 then [] else print_dec e
  | Some pc :: r => (if e =? 0 then [] else print_dec e) ++ piece_char pc ++ rle r 0
  | None :: r => rle r (e + 1) end.
Fixpoint set_cells (r k : N) (cells : list (option piece)) (acc : list (option piece)) : list (option piece) :=
  match cells with
  | [] => acc
  | c :: rest => set_cells r (k + 1) rest (match c with Some pc => set_nth (N.to_nat (mk_sq r k)) (Some pc) acc | None => acc end) end.
Lemma piece_char_parse pc : exists c, piece_char pc = [c] /\ c <> 47 /\ ((49 <=? c) && (c <=? 56)) = false /\ is_fen_letter c = true /\ fen_piece_of c = Some pc /\ c <> 32.
Proof. destruct pc as [[] []]; eexists; (split; [reflexivity|]); repeat split; discriminate. Qed.
Lemma print_dec_small e : 1 <= e -> e <= 8 -> print_dec e = [48 + e].
Proof.
  intros H1 H2. assert (E : e = 1 \/ e = 2 \/ e = 3 \/ e = 4 \/ e = 5 \/ e = 6 \/ e = 7 \/ e = 8) by lia.
  destruct E as [->|[->|[->|[->|[->|[->|[->| ->]]]]]]]; reflexivity.
Qed.
Lemma digit_step r f acc e : 1 <= e -> e <= 8 -> fen_step (r, f, acc) (48 + e) = Ok (r, (if f + e <? 8 then f + e else f), acc).
Proof.
  intros H1 H2. unfold fen_step. assert ((48 + e =? 47) = false) as -> by (apply N.eqb_neq; lia).
  assert (((49 <=? 48 + e) && (48 + e <=? 56)) = true) as -> by (apply andb_true_intro; split; apply N.leb_le; lia).
  replace (48 + e - 48) with e by lia. unfold idx8_of. destruct (f + e <? 8); reflexivity.
Qed.
Lemma prun_cons c s st : prun (c :: s) st = prun s (pstep st c). Proof. reflexivity. Qed.
Lemma pstep_ok a c : pstep (Ok a) c = fen_step a c. Proof. reflexivity. Qed.
Lemma letter_step r k acc ch pc : ch <> 47 -> ((49 <=? ch) && (ch <=? 56)) = false -> is_fen_letter ch = true -> fen_piece_of ch = Some pc ->
  fen_step (r, k, acc) ch = Ok (r, (match idx_up k with Ok f' => f' | _ => k end), set_nth (N.to_nat (mk_sq r k)) (Some pc) acc).
Proof. intros C1 C2 C3 C4. unfold fen_step. assert ((ch =? 47) = false) as -> by now apply N.eqb_neq. now rewrite C2, C3, C4. Qed.
(* the parser on the text of the remaining cells of rank r: k cells done, e of them pending empties *)
Lemma rle_parse r : forall cells k e f acc, N.of_nat (length cells) + k = 8 -> e <= k -> f = N.min (k - e) 7 ->
  exists f', prun (rle cells e) (Ok (r, f, acc)) = Ok (r, f', set_cells r k cells acc).
Proof.
  induction cells as [|c rest IH]; intros k e f acc Hl He Hf; cbn [rle set_cells length] in *.
  - destruct (N.eqb_spec e 0) as [->|Ne]; [eexists; reflexivity|].
    rewrite (print_dec_small e) by lia. unfold prun. cbn [fold_left pstep bind]. rewrite (digit_step r f acc e) by lia. eexists. reflexivity.
  - destruct c as [pc|].
    + destruct (piece_char_parse pc) as (ch & Ech & C1 & C2 & C3 & C4 & _). rewrite Ech.
      assert (Hk : k <= 7) by lia.
      match goal with |- context [prun (?A ++ _) _] => set (X := A) end.
      assert (FL : prun X (Ok (r, f, acc)) = Ok (r, k, acc)).
      { subst X. destruct (N.eqb_spec e 0) as [->|Ne].
        - cbn. f_equal. f_equal. f_equal. lia.
        - rewrite (print_dec_small e) by lia. unfold prun. cbn [fold_left pstep bind]. rewrite (digit_step r f acc e) by lia.
          assert (Efk : f + e = k) by lia. rewrite Efk. assert ((k <? 8) = true) as -> by (apply N.ltb_lt; lia). reflexivity. }
      rewrite prun_app, FL. cbn [app]. rewrite prun_cons, pstep_ok, (letter_step r k acc ch pc C1 C2 C3 C4).
      apply IH; [lia|lia|]. unfold idx_up, idx8_of. destruct (N.ltb_spec (k + 1) 8); lia.
    + apply IH; lia.
Qed.

(* ---------- the printer is the run-length text, rank by rank ---------- *)
Require Import LC.proofs.MoveInv LC.proofs.C02Proofs.
Definition row_cells (pcs : list (option piece)) (r : N) : list (option piece) := map (fun f => nth (N.to_nat (mk_sq r f)) pcs None) idx8.
Lemma row_fold pcs r fs : forall out e,
  (let '(o, e') := fold_left (fun '(out, empty) f =>
      match nth (N.to_nat (mk_sq r f)) pcs None with
      | Some pc => ((out ++ (if empty =? 0 then [] else print_dec empty)) ++ piece_char pc, 0)
      | None => (out, empty + 1) end) fs (out, e) in
   if e' =? 0 then (o, 0) else (o ++ print_dec e', 0))
  = (out ++ rle (map (fun f => nth (N.to_nat (mk_sq r f)) pcs None) fs) e, 0).
Proof.
  induction fs as [|f fs IH]; intros out e; cbn [fold_left map rle].
  - destruct (e =? 0); [now rewrite app_nil_r|reflexivity].
  - destruct (nth (N.to_nat (mk_sq r f)) pcs None) as [pc|].
    + rewrite IH. now rewrite <- !app_assoc.
    + apply IH.
Qed.
Lemma print_rank_row_spec pcs r out : print_rank_row pcs r (out, 0) = (out ++ rle (row_cells pcs r) 0, 0).
Proof. unfold print_rank_row. exact (row_fold pcs r idx8 out 0). Qed.
Lemma print_placement_spec pcs : print_placement pcs =
  rle (row_cells pcs 7) 0 ++ [47] ++ rle (row_cells pcs 6) 0 ++ [47] ++ rle (row_cells pcs 5) 0 ++ [47] ++ rle (row_cells pcs 4) 0 ++ [47] ++
  rle (row_cells pcs 3) 0 ++ [47] ++ rle (row_cells pcs 2) 0 ++ [47] ++ rle (row_cells pcs 1) 0 ++ [47] ++ rle (row_cells pcs 0) 0.
Proof.
  unfold print_placement. cbn [fold_left N.eqb Pos.eqb fst snd]. rewrite !print_rank_row_spec. cbn [fst snd app].
  rewrite <- !app_assoc. reflexivity.
Qed.
Lemma set_cells_length r cells : forall k acc, length (set_cells r k cells acc) = length acc.
Proof. induction cells as [|c rest IH]; intros k acc; cbn [set_cells]; [reflexivity|]. rewrite IH. destruct c; [apply set_nth_length|reflexivity]. Qed.
Lemma slash_step r f acc : 1 <= r -> r <= 8 -> fen_step (r, f, acc) 47 = Ok (r - 1, 0, acc).
Proof.
  intros H1 H2. unfold fen_step. cbn [N.eqb Pos.eqb]. unfold idx_down, idx8_of.
  assert ((r =? 0) = false) as -> by (apply N.eqb_neq; lia). assert ((r - 1 <? 8) = true) as -> by (apply N.ltb_lt; lia). reflexivity.
Qed.
Lemma row_parse pcs r acc : exists f', prun (rle (row_cells pcs r) 0) (Ok (r, 0, acc)) = Ok (r, f', set_cells r 0 (row_cells pcs r) acc).
Proof. apply rle_parse; [reflexivity|lia|reflexivity]. Qed.
Definition all_rows (pcs acc : list (option piece)) : list (option piece) :=
  set_cells 0 0 (row_cells pcs 0) (set_cells 1 0 (row_cells pcs 1) (set_cells 2 0 (row_cells pcs 2) (set_cells 3 0 (row_cells pcs 3)
  (set_cells 4 0 (row_cells pcs 4) (set_cells 5 0 (row_cells pcs 5) (set_cells 6 0 (row_cells pcs 6) (set_cells 7 0 (row_cells pcs 7) acc))))))).
Lemma placement_parse pcs : parse_placement (print_placement pcs) = Ok (all_rows pcs (repeat None 64)).
Proof.
  unfold parse_placement. fold pstep. fold (prun (print_placement pcs) (Ok (7, 0, repeat None 64))). rewrite print_placement_spec.
  repeat (rewrite prun_app; match goal with |- context [prun (rle (row_cells pcs ?r) 0) (Ok (?r, 0, ?acc))] =>
     let f := fresh "f" in let E := fresh "E" in destruct (row_parse pcs r acc) as (f & E); rewrite E; clear E end;
     cbn [app]; rewrite prun_cons, pstep_ok, slash_step by lia; cbn [N.sub Pos.sub Pos.pred_double Pos.sub_mask Pos.double_mask Pos.succ_double_mask Pos.double_pred_mask]).
  match goal with |- context [prun (rle (row_cells pcs ?r) 0) (Ok (?r, 0, ?acc))] =>
     let f := fresh "f" in let E := fresh "E" in destruct (row_parse pcs r acc) as (f & E); rewrite E; clear E end.
  reflexivity.
Qed.

(* ---------- reading the squares back ---------- *)
Lemma nth_set_cells r : r < 8 -> forall cells k acc i, k + N.of_nat (length cells) <= 8 -> length acc = 64%nat -> i < 64 ->
  nth (N.to_nat i) (set_cells r k cells acc) None =
  if (8 * r + k <=? i) && (i <? 8 * r + k + N.of_nat (length cells))
  then match nth (N.to_nat (i - (8 * r + k))) cells None with Some pc => Some pc | None => nth (N.to_nat i) acc None end
  else nth (N.to_nat i) acc None.
Proof.
  intros Hr. induction cells as [|c rest IH]; intros k acc i Hk L Hi; cbn [set_cells length] in *.
  - assert (((8 * r + k <=? i) && (i <? 8 * r + k + N.of_nat 0)) = false) as ->; [|reflexivity].
    destruct (N.leb_spec (8 * r + k) i); [|reflexivity]. cbn [andb]. apply N.ltb_ge. lia.
  - rewrite Nat2N.inj_succ in *.
    assert (L' : length (match c with Some pc => set_nth (N.to_nat (mk_sq r k)) (Some pc) acc | None => acc end) = 64%nat) by (destruct c; [now rewrite set_nth_length|exact L]).
    rewrite (IH (k + 1) _ i ltac:(lia) L' Hi). rewrite (mk_sq_val r k Hr ltac:(lia)).
    assert (A : nth (N.to_nat i) (match c with Some pc => set_nth (N.to_nat (8 * r + k)) (Some pc) acc | None => acc end) None =
                if i =? 8 * r + k then (match c with Some pc => Some pc | None => nth (N.to_nat i) acc None end) else nth (N.to_nat i) acc None).
    { destruct c as [pc|].
      - rewrite nth_set_nth, L. assert (Nat.ltb (N.to_nat (8 * r + k)) 64 = true) as -> by (apply Nat.ltb_lt; lia).
        destruct (N.eqb_spec i (8 * r + k)) as [->|Ne]; [now rewrite Nat.eqb_refl|].
        assert (Nat.eqb (N.to_nat i) (N.to_nat (8 * r + k)) = false) as -> by (apply Nat.eqb_neq; lia). reflexivity.
      - destruct (i =? 8 * r + k); reflexivity. }
    rewrite A. clear A.
    destruct (N.eqb_spec i (8 * r + k)) as [->|Ne].
    + assert (((8 * r + (k + 1) <=? 8 * r + k) && (8 * r + k <? 8 * r + (k + 1) + N.of_nat (length rest))) = false) as -> by (apply andb_false_intro1; apply N.leb_gt; lia).
      assert (((8 * r + k <=? 8 * r + k) && (8 * r + k <? 8 * r + k + N.succ (N.of_nat (length rest)))) = true) as ->
        by (apply andb_true_intro; split; [apply N.leb_le|apply N.ltb_lt]; lia).
      replace (8 * r + k - (8 * r + k)) with 0 by lia. cbn [N.to_nat nth]. reflexivity.
    + destruct (N.leb_spec (8 * r + (k + 1)) i) as [H1|H1]; cbn [andb].
      * assert ((8 * r + k <=? i) = true) as -> by (apply N.leb_le; lia). cbn [andb].
        replace (8 * r + k + N.succ (N.of_nat (length rest))) with (8 * r + (k + 1) + N.of_nat (length rest)) by lia.
        destruct (i <? 8 * r + (k + 1) + N.of_nat (length rest)); [|reflexivity].
        replace (N.to_nat (i - (8 * r + k))) with (S (N.to_nat (i - (8 * r + (k + 1))))) by lia. cbn [nth]. reflexivity.
      * assert ((8 * r + k <=? i) = false) as -> by (apply N.leb_gt; lia). reflexivity.
Qed.
Lemma nth_row_cells pcs r j : j < 8 -> nth (N.to_nat j) (row_cells pcs r) None = nth (N.to_nat (mk_sq r j)) pcs None.
Proof.
  intros H. assert (E : j = 0 \/ j = 1 \/ j = 2 \/ j = 3 \/ j = 4 \/ j = 5 \/ j = 6 \/ j = 7) by lia.
  destruct E as [->|[->|[->|[->|[->|[->|[->| ->]]]]]]]; reflexivity.
Qed.
Lemma layer pcs r acc i : r < 8 -> i < 64 -> length acc = 64%nat ->
  nth (N.to_nat i) (set_cells r 0 (row_cells pcs r) acc) None =
  if i / 8 =? r then (match nth (N.to_nat i) pcs None with Some pc => Some pc | None => nth (N.to_nat i) acc None end) else nth (N.to_nat i) acc None.
Proof.
  intros Hr Hi L. rewrite (nth_set_cells r Hr (row_cells pcs r) 0 acc i); [|unfold row_cells; rewrite map_length; cbn; lia|exact L|exact Hi].
  unfold row_cells at 1. rewrite map_length. change (N.of_nat (length idx8)) with 8. rewrite N.add_0_r.
  destruct (N.eqb_spec (i / 8) r) as [E|E].
  - assert (B : 8 * r <= i < 8 * r + 8). { subst r. pose proof (N.div_mod i 8 ltac:(lia)) as X. pose proof (N.mod_lt i 8 ltac:(lia)) as Y. revert X Y. generalize (i / 8) (i mod 8). intros q m X Y. lia. }
    assert (((8 * r <=? i) && (i <? 8 * r + 8)) = true) as -> by (apply andb_true_intro; split; [apply N.leb_le|apply N.ltb_lt]; lia).
    rewrite (nth_row_cells pcs r (i - 8 * r)) by lia. rewrite (mk_sq_val r (i - 8 * r) Hr ltac:(lia)). replace (8 * r + (i - 8 * r)) with i by lia. reflexivity.
  - assert (((8 * r <=? i) && (i <? 8 * r + 8)) = false) as ->; [|reflexivity].
    destruct (N.leb_spec (8 * r) i) as [H1|H1]; [|reflexivity]. cbn [andb]. apply N.ltb_ge.
    destruct (N.lt_ge_cases i (8 * r + 8)) as [H2|H2]; [|exact H2]. exfalso. apply E.
    symmetry. apply (N.div_unique i 8 r (i - 8 * r)); lia.
Qed.
Theorem all_rows_id pcs : length pcs = 64%nat -> all_rows pcs (repeat None 64) = pcs.
Proof.
  intros L. unfold all_rows.
  apply (nth_ext _ _ None None); [rewrite !set_cells_length, repeat_length; now rewrite L|].
  intros n Hn. rewrite !set_cells_length, repeat_length in Hn. rewrite <- (Nat2N.id n). set (i := N.of_nat n). assert (Hi : i < 64) by lia.
  rewrite !layer; try lia; rewrite ?set_cells_length; try apply repeat_length.
  assert (Base : nth (N.to_nat i) (repeat None 64) None = (None : option piece)) by (apply nth_repeat).
  rewrite Base. assert (Hq : i / 8 < 8) by (apply N.div_lt_upper_bound; lia).
  revert Hq. generalize (i / 8). intros q Hq.
  assert (E : q = 0 \/ q = 1 \/ q = 2 \/ q = 3 \/ q = 4 \/ q = 5 \/ q = 6 \/ q = 7) by lia.
  destruct E as [->|[->|[->|[->|[->|[->|[->| ->]]]]]]]; cbn [N.eqb Pos.eqb]; destruct (nth (N.to_nat i) pcs None); reflexivity.
Qed.
Theorem placement_roundtrip pcs : length pcs = 64%nat -> parse_placement (print_placement pcs) = Ok pcs.
Proof. intros L. now rewrite placement_parse, (all_rows_id pcs L). Qed.

(* ---------- the other fields ---------- *)
From Coq Require Import String.
Open Scope N_scope.
Lemma digit_not_space l : Forall digit l -> ~ In 32 l.
Proof. intros F H. rewrite Forall_forall in F. specialize (F 32 H). unfold digit in F. lia. Qed.
Lemma rle_no_space cells : forall e, ~ In 32 (rle cells e).
Proof.
  induction cells as [|c rest IH]; intros e; cbn [rle].
  - destruct (e =? 0); [intros []|apply digit_not_space, print_dec_chars].
  - destruct c as [pc|]; [|apply IH]. rewrite !in_app_iff. intros [H|[H|H]].
    + destruct (e =? 0); [destruct H|exact (digit_not_space _ (print_dec_chars e) H)].
    + destruct (piece_char_parse pc) as (ch & E & _ & _ & _ & _ & N32). rewrite E in H. destruct H as [H|[]]. congruence.
    + exact (IH 0 H).
Qed.
Lemma placement_no_space pcs : ~ In 32 (print_placement pcs).
Proof.
  rewrite print_placement_spec. rewrite !in_app_iff. cbn [In].
  pose proof (fun r => rle_no_space (row_cells pcs r) 0) as R. intros H.
  repeat match goal with X : _ \/ _ |- _ => destruct X as [X|X] end; try (now apply R in H); try discriminate; try contradiction.
Qed.
Lemma castles_roundtrip w b : cr_of_field (print_castles w b) 75 81 = w /\ cr_of_field (print_castles w b) 107 113 = b /\ ~ In 32 (print_castles w b).
Proof. destruct w, b; (split; [reflexivity|]); (split; [reflexivity|]); cbn; intuition discriminate. Qed.
Definition sq_rt_ok (s : square) : bool :=
  (match parse_sq (print_sq s) with Ok x => x =? s | _ => false end) && negb (existsb (N.eqb 32) (print_sq s)).
Lemma sq_rt_sweep : forallb sq_rt_ok squares = true. Proof. vm_compute. reflexivity. Qed.
Lemma sq_roundtrip s : s < 64 -> parse_sq (print_sq s) = Ok s /\ ~ In 32 (print_sq s).
Proof.
  intros H. pose proof (forallb_squares _ sq_rt_sweep s H) as X. unfold sq_rt_ok in X. apply andb_prop in X. destruct X as [X1 X2]. split.
  - destruct (parse_sq (print_sq s)); try discriminate. apply N.eqb_eq in X1. now subst.
  - intros Hin. apply negb_true_iff in X2. assert (existsb (N.eqb 32) (print_sq s) = true) as Y; [|congruence].
    apply existsb_exists. exists 32. split; [exact Hin|reflexivity].
Qed.
Definition wf_fen_builder (bd : builder) : Prop :=
  List.length (bd_pieces bd) = 64%nat /\ (forall e, bd_ep bd = Some e -> e < 64) /\ bd_half bd < two64 /\ bd_full bd < two64.
Theorem fen_roundtrip bd : wf_fen_builder bd -> parse_fen (print_fen bd) = Ok bd.
Proof.
  intros (L & He & Hh & Hf). unfold parse_fen, print_fen.
  destruct (castles_roundtrip (bd_wr bd) (bd_br bd)) as (C1 & C2 & C3).
  assert (S : ~ In 32 (match bd_stm bd with White => B "w" | Black => B "b" end)) by (destruct (bd_stm bd); cbn; intuition discriminate).
  assert (E : ~ In 32 (match bd_ep bd with Some s => print_sq s | None => B "-" end) /\
              (match parse_sq (match bd_ep bd with Some s => print_sq s | None => B "-" end) with Ok s => Some s | _ => None end) = bd_ep bd).
  { destruct (bd_ep bd) as [e|] eqn:Ee.
    - destruct (sq_roundtrip e (He e eq_refl)) as [P N]. split; [exact N|]. now rewrite P.
    - split; [cbn; intuition discriminate|reflexivity]. }
  destruct E as [E1 E2].
  rewrite (split6 32 _ _ _ _ _ _ (placement_no_space _) S C3 E1 (digit_not_space _ (print_dec_chars _)) (digit_not_space _ (print_dec_chars _))).
  rewrite (parse_print_dec _ Hh), (parse_print_dec _ Hf), (placement_roundtrip _ L). cbn [bind].
  rewrite C1, C2. clear E1 E2 S C1 C2 C3. destruct bd as [pcs stm wr br ep h f]. cbn [bd_stm bd_ep bd_wr bd_br bd_half bd_full bd_pieces] in *.
  destruct ep as [e|].
  - rewrite (proj1 (sq_roundtrip e (He e eq_refl))). destruct stm; reflexivity.
  - destruct stm; reflexivity.
Qed.
(* canonical strings: the texts of well-formed builders; parsing and re-printing leaves them unchanged *)
Corollary fen_canonical_fixed bd : wf_fen_builder bd -> exists bd', parse_fen (print_fen bd) = Ok bd' /\ print_fen bd' = print_fen bd.
Proof. intros W. exists bd. split; [now apply fen_roundtrip|reflexivity]. Qed.
