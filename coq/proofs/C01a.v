(* proofs/C01a.v — ingredients of the legal-move theorem: attacks on arbitrary squares, castling availability,
   the king survives a pseudo-legal move, king safety does not depend on the promotion piece *)
Require Import LC.model.Prims LC.model.Tables LC.model.Board LC.spec.Chess LC.spec.Geometry
  LC.proofs.Basics LC.proofs.Bits LC.proofs.Cols LC.proofs.MaskInv LC.proofs.HashInv LC.proofs.MoveInv LC.proofs.Attack
  LC.proofs.C05Proofs LC.proofs.C05Pins LC.proofs.C02Proofs LC.proofs.Rays LC.proofs.Pseudo LC.proofs.Safety LC.proofs.PinLemma.
From Coq Require Import Lia.
Open Scope N_scope.

(* ---------- monadic list combinators on total functions ---------- *)
Lemma filter_res_ok {A} (f : A -> res bool) (g : A -> bool) l : (forall x, In x l -> f x = Ok (g x)) -> filter_res f l = Ok (filter g l).
Proof.
  induction l as [|a l IH]; intros H; [reflexivity|]. cbn [filter_res filter]. rewrite (H a (or_introl eq_refl)). cbn [bind].
  rewrite IH by (intros x Hx; apply H; now right). cbn [bind]. now destruct (g a).
Qed.
Lemma flat_map_res_ok {A B} (f : A -> res (list B)) (g : A -> list B) l : (forall x, In x l -> f x = Ok (g x)) -> flat_map_res f l = Ok (flat_map g l).
Proof.
  induction l as [|a l IH]; intros H; [reflexivity|]. cbn [flat_map_res flat_map]. rewrite (H a (or_introl eq_refl)). cbn [bind].
  rewrite IH by (intros x Hx; apply H; now right). reflexivity.
Qed.

(* ---------- whether a square is attacked ---------- *)
Lemma attack_board b sq : MaskInv b -> sq < 64 ->
  exists P C, pins_and_checks b sq = Ok (P, C) /\ is_blank C = negb (attacked (abs b) (opp (b_stm b)) sq).
Proof.
  intros I Hk. destruct (pins_and_checks_ok b sq I Hk) as (P & C & E & HC & _). exists P, C. split; [exact E|].
  unfold attacked.
  destruct (attackers (abs b) (opp (b_stm b)) sq) as [|a l] eqn:Ea; cbn [negb].
  - apply is_blank_spec. intros x. destruct (has C x) eqn:Hx; [|reflexivity]. exfalso.
    assert (x < 64).
    { destruct (N.lt_ge_cases x 64) as [|Hge]; [assumption|]. exfalso. rewrite HC in Hx.
      pose proof (mi_zero b x I Hge) as Z. unfold slider_att in Hx. rewrite !has_land in Hx.
      assert (has (cmask b (opp (b_stm b))) x = false) as Hc by (destruct (opp (b_stm b)); [exact (f_equal kw Z)|exact (f_equal kbl Z)]).
      rewrite Hc in Hx. cbn in Hx. discriminate. }
    rewrite (checks_spec b sq P C I Hk E x H) in Hx.
    assert (In x (attackers (abs b) (opp (b_stm b)) sq)) as Hin by (apply attackers_In; split; [now apply In_squares|exact Hx]).
    rewrite Ea in Hin. destruct Hin.
  - destruct (is_blank C) eqn:B; [|reflexivity]. exfalso.
    assert (In a (attackers (abs b) (opp (b_stm b)) sq)) as Hin by (rewrite Ea; now left).
    apply attackers_In in Hin. destruct Hin as [Ha Hp]. apply In_squares in Ha.
    rewrite <- (checks_spec b sq P C I Hk E a Ha) in Hp. rewrite (proj1 (is_blank_spec C) B a) in Hp. discriminate.
Qed.
Lemma is_under_attack_spec b sq : MaskInv b -> sq < 64 -> is_under_attack b sq = Ok (attacked (abs b) (opp (b_stm b)) sq).
Proof.
  intros I H. destruct (attack_board b sq I H) as (P & C & E & HB). unfold is_under_attack. rewrite E. cbn [bind]. f_equal.
  rewrite HB. apply negb_involutive.
Qed.
(* the stored check mask is blank iff the mover is not in check *)
Lemma checks_blank b : MaskInv b -> DerivedInv b -> is_blank (b_checks b) = negb (in_check (abs b) (b_stm b)).
Proof.
  intros I (k & Ek & Ep). rewrite (king_square_spec b (b_stm b) I) in Ek.
  destruct (king_sq (abs b) (b_stm b)) as [k'|] eqn:Eq; [|discriminate]. injection Ek as ->.
  destruct (attack_board b k I (king_sq_lt _ _ _ Eq)) as (P & C & E & HB). rewrite Ep in E. injection E as <- <-.
  rewrite HB. unfold in_check, checkers, attacked. rewrite Eq. reflexivity.
Qed.
