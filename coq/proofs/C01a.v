(* proofs/C01a.v — ingredients of the legal-move theorem: attacks on arbitrary squares, castling availability,
   the king survives a pseudo-legal move, king safety does not depend on the promotion piece *)
Require Import LC.model.Prims LC.model.Tables LC.model.Board LC.spec.Chess LC.spec.Geometry
  LC.proofs.Basics LC.proofs.Bits LC.proofs.Cols LC.proofs.MaskInv LC.proofs.HashInv LC.proofs.MoveInv LC.proofs.Attack
  LC.proofs.C05Proofs LC.proofs.C05Pins LC.proofs.C02Proofs LC.proofs.Rays LC.proofs.Pseudo LC.proofs.Safety LC.proofs.PinLemma.
From Coq Require Import Lia.
Open Scope N_scope.

(* ---------- monadic list combinators on total functions ---------- *)
Lemma filter_res_ok {A} (f : A -> res bool) (g : A -> bool) l : (forall x, In x l -> f x = Ok (g x)) -> filter_res f l = Ok (filter g l).
Proof.
  induction l as [|a l IH]; intros H; [reflexivity|]. cbn [filter_res filter]. rewrite (H a (or_introl eq_refl)). cbn [bind].
  rewrite IH by (intros x Hx; apply H; now right). cbn [bind]. now destruct (g a).
Qed.
Lemma flat_map_res_ok {A B} (f : A -> res (list B)) (g : A -> list B) l : (forall x, In x l -> f x = Ok (g x)) -> flat_map_res f l = Ok (flat_map g l).
Proof.
  induction l as [|a l IH]; intros H; [reflexivity|]. cbn [flat_map_res flat_map]. rewrite (H a (or_introl eq_refl)). cbn [bind].
  rewrite IH by (intros x Hx; apply H; now right). reflexivity.
Qed.

(* ---------- whether a square is attacked ---------- *)
Lemma attack_board b sq : MaskInv b -> sq < 64 ->
  exists P C, pins_and_checks b sq = Ok (P, C) /\ is_blank C = negb (attacked (abs b) (opp (b_stm b)) sq).
Proof.
  intros I Hk. destruct (pins_and_checks_ok b sq I Hk) as (P & C & E & HC & _). exists P, C. split; [exact E|].
  unfold attacked.
  destruct (attackers (abs b) (opp (b_stm b)) sq) as [|a l] eqn:Ea; cbn [negb].
  - apply is_blank_spec. intros x. destruct (has C x) eqn:Hx; [|reflexivity]. exfalso.
    assert (x < 64).
    { destruct (N.lt_ge_cases x 64) as [|Hge]; [assumption|]. exfalso. rewrite HC in Hx.
      pose proof (mi_zero b x I Hge) as Z. unfold slider_att in Hx. rewrite !has_land in Hx.
      assert (has (cmask b (opp (b_stm b))) x = false) as Hc by (destruct (opp (b_stm b)); [exact (f_equal kw Z)|exact (f_equal kbl Z)]).
      rewrite Hc in Hx. cbn in Hx. discriminate. }
    rewrite (checks_spec b sq P C I Hk E x H) in Hx.
    assert (In x (attackers (abs b) (opp (b_stm b)) sq)) as Hin by (apply attackers_In; split; [now apply In_squares|exact Hx]).
    rewrite Ea in Hin. destruct Hin.
  - destruct (is_blank C) eqn:B; [|reflexivity]. exfalso.
    assert (In a (attackers (abs b) (opp (b_stm b)) sq)) as Hin by (rewrite Ea; now left).
    apply attackers_In in Hin. destruct Hin as [Ha Hp]. apply In_squares in Ha.
    rewrite <- (checks_spec b sq P C I Hk E a Ha) in Hp. rewrite (proj1 (is_blank_spec C) B a) in Hp. discriminate.
Qed.
Lemma is_under_attack_spec b sq : MaskInv b -> sq < 64 -> is_under_attack b sq = Ok (attacked (abs b) (opp (b_stm b)) sq).
Proof.
  intros I H. destruct (attack_board b sq I H) as (P & C & E & HB). unfold is_under_attack. rewrite E. cbn [bind]. f_equal.
  rewrite HB. apply negb_involutive.
Qed.
(* the stored check mask is blank iff the mover is not in check *)
Lemma checks_blank b : MaskInv b -> DerivedInv b -> is_blank (b_checks b) = negb (in_check (abs b) (b_stm b)).
Proof.
  intros I (k & Ek & Ep). rewrite (king_square_spec b (b_stm b) I) in Ek.
  destruct (king_sq (abs b) (b_stm b)) as [k'|] eqn:Eq; [|discriminate]. injection Ek as ->.
  destruct (attack_board b k I (king_sq_lt _ _ _ Eq)) as (P & C & E & HB). rewrite Ep in E. injection E as <- <-.
  rewrite HB. unfold in_check, checkers, attacked. rewrite Eq. reflexivity.
Qed.

(* ---------- pseudo-legal destinations: on the board, never an own piece ---------- *)
Lemma steps_lt s offs x : In x (steps s offs) -> x < 64.
Proof.
  unfold steps. intros H. apply in_flat_map in H. destruct H as (o & _ & H). destruct (step s o) as [t|] eqn:E; [|destruct H].
  destruct H as [<-|[]]. eapply step_lt; eauto.
Qed.
Lemma attacks_from_lt p a x : In x (attacks_from p a) -> x < 64.
Proof.
  unfold attacks_from. destruct (piece_at p a) as [[t c]|]; [|intros []].
  destruct t; try (apply steps_lt); intros H; apply in_flat_map in H; destruct H as (d & _ & H); apply reach_sub_line in H; eapply line_lt; eauto.
Qed.
Lemma pseudo_dests_lt p s d : mem d (pseudo_dests p s) = true -> d < 64.
Proof.
  intros H. apply mem_true in H. unfold pseudo_dests in H. destruct (piece_at p s) as [[t c]|]; [|destruct H].
  assert (G : In d (filter (fun t0 => negb (color_at p c t0)) (attacks_from p s)) -> d < 64) by (intros X; apply filter_In in X; destruct X as [X _]; eapply attacks_from_lt; eauto).
  destruct t; try (apply G; exact H).
  unfold pawn_dests in H. apply in_app_or in H. destruct H as [H|H].
  - destruct (step s (fwd c, 0%Z)) eqn:E; [|destruct H]. destruct (occupied p s0); [destruct H|]. destruct H as [<-|[]]. eapply step_lt; eauto.
  - apply in_app_or in H. destruct H as [H|H].
    + destruct (srank s =? start_rank c); [|destruct H]. destruct (step s (fwd c, 0%Z)); [|destruct H].
      destruct (step s ((2 * fwd c)%Z, 0%Z)) eqn:E; [|destruct H]. destruct (_ || _); [destruct H|]. destruct H as [<-|[]]. eapply step_lt; eauto.
    + apply filter_In in H. destruct H as [H _]. eapply steps_lt; eauto.
Qed.
Lemma pseudo_not_own p s d t : ep_ok p = true -> piece_at p s = Some (t, stm p) -> mem d (pseudo_dests p s) = true -> color_at p (stm p) d = false.
Proof.
  intros Vep Hs H. apply mem_true in H. unfold pseudo_dests in H. rewrite Hs in H.
  assert (G : In d (filter (fun t0 => negb (color_at p (stm p) t0)) (attacks_from p s)) -> color_at p (stm p) d = false).
  { intros X. apply filter_In in X. destruct X as [_ X]. now apply negb_true_iff in X. }
  destruct t; try (apply G; exact H).
  assert (E : forall x, occupied p x = false -> color_at p (stm p) x = false) by (intros x; unfold occupied, color_at; destruct (piece_at p x) as [[]|]; [discriminate|reflexivity]).
  unfold pawn_dests in H. apply in_app_or in H. destruct H as [H|H].
  - destruct (step s (fwd (stm p), 0%Z)); [|destruct H]. destruct (occupied p s0) eqn:O; [destruct H|]. destruct H as [<-|[]]. now apply E.
  - apply in_app_or in H. destruct H as [H|H].
    + destruct (srank s =? start_rank (stm p)); [|destruct H]. destruct (step s (fwd (stm p), 0%Z)); [|destruct H].
      destruct (step s ((2 * fwd (stm p))%Z, 0%Z)); [|destruct H]. destruct (occupied p s0 || occupied p s1) eqn:O; [destruct H|].
      destruct H as [<-|[]]. apply orb_false_elim in O. now apply E.
    + apply filter_In in H. destruct H as [_ H]. apply orb_prop in H. destruct H as [H|H].
      * unfold color_at in *. destruct (piece_at p d) as [[t0 c0]|]; [|reflexivity]. destruct (stm p), c0; cbn in *; congruence.
      * unfold ep_ok in Vep. destruct (ep p) as [e|]; [|discriminate]. cbn [osq_eqb] in H. apply N.eqb_eq in H. subst e.
        repeat (apply andb_prop in Vep; destruct Vep as [Vep ?]).
        match goal with X : negb (occupied p d) = true |- _ => apply negb_true_iff in X; now apply E end.
Qed.

(* ---------- the successor placement, square by square ---------- *)
Definition victim_sq (m : pmove) : square := smk (srank (pm_from m)) (sfile (pm_to m)).
Lemma victim_lt m : pm_from m < 64 -> pm_to m < 64 -> victim_sq m < 64.
Proof.
  intros Hs Hd. unfold victim_sq, smk, srank, sfile.
  assert (pm_from m / 8 < 8) by (apply N.div_lt_upper_bound; lia). assert (pm_to m mod 8 < 8) by (apply N.mod_lt; lia). lia.
Qed.
Lemma piece_at_apply p m x : length (placement p) = 64%nat -> pm_from m < 64 -> pm_to m < 64 -> x < 64 ->
  piece_at (apply_pm p m) x =
    if x =? pm_to m then Some (match pm_promo m with Some q => q | None => pm_type m end, stm p)
    else if x =? pm_from m then None
    else if is_ep_capture p m && (x =? victim_sq m) then None else piece_at p x.
Proof.
  intros L Hs Hd Hx. unfold piece_at, apply_pm. cbn [placement].
  rewrite (nth_put _ (pm_to m) _ x) by (rewrite ?put_length; destruct (is_ep_capture p m); rewrite ?put_length; auto).
  destruct (x =? pm_to m); [reflexivity|].
  rewrite (nth_put _ (pm_from m) _ x) by (destruct (is_ep_capture p m); rewrite ?put_length; auto).
  destruct (x =? pm_from m); [reflexivity|].
  destruct (is_ep_capture p m); [|reflexivity]. cbn [andb].
  fold (victim_sq m). rewrite (nth_put _ (victim_sq m) _ x) by (auto using victim_lt). reflexivity.
Qed.
(* for an en-passant capture the removed square holds the enemy pawn that just moved *)
Definition pawn_geo2_ok (c : color) (s d : square) : bool :=
  negb (mem d (pawn_reach c s)) || negb (srank d =? ep_rank c)
  || (smk (srank s) (sfile d) =? smk (match c with White => 4 | Black => 3 end) (sfile d)).
Lemma pawn_geo2_sweep : forallb (fun c => forallb (fun s => forallb (fun d => pawn_geo2_ok c s d) squares) squares) all_colors = true.
Proof. vm_compute. reflexivity. Qed.
Lemma ep_victim p m : ep_ok p = true -> pm_from m < 64 -> pm_to m < 64 -> piece_at p (pm_from m) = Some (pm_type m, stm p) ->
  mem (pm_to m) (pseudo_dests p (pm_from m)) = true -> is_ep_capture p m = true ->
  piece_at p (victim_sq m) = Some (Pawn, opp (stm p)).
Proof.
  intros Vep Hs Hd Hp Hm He. unfold is_ep_capture in He. apply andb_prop in He. destruct He as [Ht Ee].
  unfold ep_ok in Vep. destruct (ep p) as [e|]; [|discriminate]. cbn [osq_eqb] in Ee. apply N.eqb_eq in Ee. subst e.
  repeat (apply andb_prop in Vep; destruct Vep as [Vep ?]).
  assert (Hmem : mem (pm_to m) (pawn_reach (stm p) (pm_from m)) = true).
  { apply pawn_dests_reach with (p := p). unfold pseudo_dests in Hm. rewrite Hp in Hm. destruct (pm_type m); try discriminate. exact Hm. }
  pose proof pawn_geo2_sweep as G. rewrite forallb_forall in G. specialize (G (stm p) ltac:(destruct (stm p); cbn; tauto)).
  pose proof (forallb_squares2 _ G _ _ Hs Hd) as G2. unfold pawn_geo2_ok in G2. rewrite Hmem in G2. cbn [negb orb] in G2.
  assert (Hr : srank (pm_to m) =? ep_rank (stm p) = true) by (destruct (stm p); exact Vep).
  rewrite Hr in G2. cbn [negb orb] in G2. apply N.eqb_eq in G2. unfold victim_sq. rewrite G2.
  match goal with X : opiece_eqb (piece_at p _) (Some (Pawn, opp (stm p))) = true |- _ => apply opiece_eqb_true in X; exact X end.
Qed.

(* ---------- the mover's king survives every pseudo-legal move ---------- *)
Lemma valid_parts2 p : valid p = true -> one_king p White = true /\ one_king p Black = true /\ in_check p (opp (stm p)) = false.
Proof.
  unfold valid. intros H. repeat (apply andb_prop in H; destruct H as [H ?]).
  match goal with X : negb (in_check p (opp (stm p))) = true |- _ => apply negb_true_iff in X end. auto.
Qed.
Lemma one_king_sq p c : one_king p c = true -> exists k, king_sq p c = Some k /\ k < 64 /\ piece_at p k = Some (King, c).
Proof.
  unfold one_king, king_sq. rewrite find_hd_filter. intros H. apply Nat.eqb_eq in H.
  destruct (filter (fun s => opiece_eqb (piece_at p s) (Some (King, c))) squares) as [|k l] eqn:E; [discriminate|].
  exists k. split; [reflexivity|]. assert (In k (filter (fun s => opiece_eqb (piece_at p s) (Some (King, c))) squares)) as Hin by (rewrite E; now left).
  apply filter_In in Hin. destruct Hin as [H1 H2]. split; [now apply In_squares|now apply opiece_eqb_true].
Qed.
Lemma king_sq_some p c x : x < 64 -> piece_at p x = Some (King, c) -> king_sq p c <> None.
Proof.
  intros Hx Hp H. unfold king_sq in H. pose proof (find_none _ _ H x (proj2 (In_squares x) Hx)) as F. cbv beta in F.
  rewrite Hp in F. destruct c; discriminate.
Qed.
Lemma king_after p m : valid p = true -> pm_from m < 64 -> pm_to m < 64 ->
  piece_at p (pm_from m) = Some (pm_type m, stm p) -> mem (pm_to m) (pseudo_dests p (pm_from m)) = true ->
  (pm_type m = King -> pm_promo m = None) -> king_sq (apply_pm p m) (stm p) <> None.
Proof.
  intros V Hs Hd Hp Hm Hk. destruct (valid_parts _ V) as (L & _ & _ & Vep). destruct (valid_parts2 _ V) as (KW & KB & _).
  assert (K1 : one_king p (stm p) = true) by (destruct (stm p); assumption).
  destruct (one_king_sq p (stm p) K1) as (k & _ & Hk64 & Hkp).
  destruct (N.eq_dec k (pm_from m)) as [->|Hne].
  - assert (pm_type m = King) as Ht by congruence. apply (king_sq_some _ _ (pm_to m) Hd).
    rewrite (piece_at_apply p m _ L Hs Hd Hd), N.eqb_refl, (Hk Ht), Ht. reflexivity.
  - apply (king_sq_some _ _ k Hk64). rewrite (piece_at_apply p m k L Hs Hd Hk64).
    pose proof (pseudo_not_own p _ _ _ Vep Hp Hm) as Hno.
    destruct (N.eqb_spec k (pm_to m)) as [->|Hd'].
    { unfold color_at in Hno. rewrite Hkp in Hno. destruct (stm p); discriminate. }
    destruct (N.eqb_spec k (pm_from m)); [contradiction|].
    destruct (is_ep_capture p m) eqn:Ee; [|exact Hkp]. cbn [andb].
    destruct (N.eqb_spec k (victim_sq m)) as [->|]; [|exact Hkp].
    rewrite (ep_victim p m Vep Hs Hd Hp Hm Ee) in Hkp. discriminate.
Qed.

(* ---------- king safety does not depend on what the moved piece becomes ---------- *)
Section SameButOne.
Variables (p1 p2 : pos) (c : color) (d : square).
Hypothesis Hlen1 : length (placement p1) = 64%nat.
Hypothesis Hsame : forall x, x <> d -> piece_at p1 x = piece_at p2 x.
Hypothesis H1 : exists t, piece_at p1 d = Some (t, c) /\ t <> King.
Hypothesis H2 : exists t, piece_at p2 d = Some (t, c) /\ t <> King.
Lemma sbo_occupied x : occupied p1 x = occupied p2 x.
Proof.
  unfold occupied. destruct (N.eq_dec x d) as [->|Hne]; [|now rewrite Hsame].
  destruct H1 as (t1 & -> & _), H2 as (t2 & -> & _). reflexivity.
Qed.
Lemma sbo_king : king_sq p1 c = king_sq p2 c.
Proof.
  unfold king_sq. apply find_ext. intros x _. destruct (N.eq_dec x d) as [->|Hne]; [|now rewrite Hsame].
  destruct H1 as (t1 & -> & N1), H2 as (t2 & -> & N2). destruct t1, t2, c; try reflexivity; contradiction.
Qed.
Lemma sbo_attackers k : attackers p1 (opp c) k = attackers p2 (opp c) k.
Proof.
  unfold attackers. apply filter_ext'. intros a _. destruct (N.eq_dec a d) as [->|Hne].
  - unfold color_at. destruct H1 as (t1 & -> & _), H2 as (t2 & -> & _). now destruct c.
  - unfold color_at, attacks_from. rewrite (Hsame a Hne). destruct (piece_at p2 a) as [[t c0]|]; [|reflexivity].
    f_equal. f_equal. destruct t; try reflexivity; apply flat_map_ext; intros dr; unfold reach; apply take_until_ext; apply sbo_occupied.
Qed.
Lemma sbo_in_check : in_check p1 c = in_check p2 c.
Proof. unfold in_check, checkers. rewrite sbo_king. destruct (king_sq p2 c); [|reflexivity]. now rewrite sbo_attackers. Qed.
End SameButOne.
Lemma promo_independent p s d q : length (placement p) = 64%nat -> s < 64 -> d < 64 -> q <> King ->
  in_check (apply_pm p {| pm_type := Pawn; pm_from := s; pm_to := d; pm_promo := Some q |}) (stm p)
  = in_check (apply_pm p {| pm_type := Pawn; pm_from := s; pm_to := d; pm_promo := None |}) (stm p).
Proof.
  intros L Hs Hd Hq. apply (sbo_in_check _ _ (stm p) d).
  - intros x Hx. destruct (N.lt_ge_cases x 64) as [Hx64|Hx64].
    + rewrite !(piece_at_apply p _ x L) by (cbn; assumption). cbn [pm_to pm_from pm_promo pm_type].
      destruct (N.eqb_spec x d); [contradiction|]. reflexivity.
    + unfold piece_at. rewrite !nth_overflow; [reflexivity| |]; unfold apply_pm; cbn [placement];
      rewrite !put_length; destruct (is_ep_capture p _); rewrite ?put_length; lia.
  - exists q. split; [|exact Hq]. rewrite (piece_at_apply p _ d L) by (cbn; assumption). cbn. now rewrite N.eqb_refl.
  - exists Pawn. split; [|discriminate]. rewrite (piece_at_apply p _ d L) by (cbn; assumption). cbn. now rewrite N.eqb_refl.
Qed.

(* ---------- castling availability ---------- *)
Lemma blank2 all f g : f <> g -> is_blank (N.land (N.lxor (bit f) (bit g)) all) = negb (has all f) && negb (has all g).
Proof.
  intros Hne. apply bool_eq_iff. rewrite is_blank_spec, andb_true_iff, !negb_true_iff. split.
  - intros H. split.
    + pose proof (H f) as X. rewrite has_land, has_lxor, !has_bit, N.eqb_refl in X. destruct (N.eqb_spec g f); [congruence|]. exact X.
    + pose proof (H g) as X. rewrite has_land, has_lxor, !has_bit, N.eqb_refl in X. destruct (N.eqb_spec f g); [congruence|]. exact X.
  - intros [Hf Hg] x. rewrite has_land, has_lxor, !has_bit.
    destruct (f =? x) eqn:E1; destruct (g =? x) eqn:E2; cbn [xorb andb]; try reflexivity.
    + apply N.eqb_eq in E1. subst x. exact Hf.
    + apply N.eqb_eq in E2. subst x. exact Hg.
Qed.
Lemma blank3 all f g h : f <> g -> f <> h -> g <> h ->
  is_blank (N.land (N.lxor (N.lxor (bit f) (bit g)) (bit h)) all) = negb (has all f) && negb (has all g) && negb (has all h).
Proof.
  intros H1 H2 H3. apply bool_eq_iff. rewrite is_blank_spec, !andb_true_iff, !negb_true_iff. split.
  - intros H. repeat split.
    + pose proof (H f) as X. rewrite has_land, !has_lxor, !has_bit, N.eqb_refl in X. destruct (N.eqb_spec g f); [congruence|]. destruct (N.eqb_spec h f); [congruence|]. exact X.
    + pose proof (H g) as X. rewrite has_land, !has_lxor, !has_bit, N.eqb_refl in X. destruct (N.eqb_spec f g); [congruence|]. destruct (N.eqb_spec h g); [congruence|]. exact X.
    + pose proof (H h) as X. rewrite has_land, !has_lxor, !has_bit, N.eqb_refl in X. destruct (N.eqb_spec f h); [congruence|]. destruct (N.eqb_spec g h); [congruence|]. exact X.
  - intros [[Hf Hg] Hh] x. rewrite has_land, !has_lxor, !has_bit.
    destruct (f =? x) eqn:E1; destruct (g =? x) eqn:E2; destruct (h =? x) eqn:E3; cbn [xorb andb]; try reflexivity;
    repeat match goal with X : (_ =? _) = true |- _ => apply N.eqb_eq in X end; subst; try assumption; try congruence.
Qed.
Lemma castle_squares c : mk_sq (back_rank c) 5 = smk (home_rank c) 5 /\ mk_sq (back_rank c) 6 = smk (home_rank c) 6 /\
  mk_sq (back_rank c) 3 = smk (home_rank c) 3 /\ mk_sq (back_rank c) 2 = smk (home_rank c) 2 /\ mk_sq (back_rank c) 1 = smk (home_rank c) 1 /\
  smk (home_rank c) 5 < 64 /\ smk (home_rank c) 6 < 64 /\ smk (home_rank c) 3 < 64 /\ smk (home_rank c) 2 < 64 /\ smk (home_rank c) 1 < 64 /\
  smk (home_rank c) 5 <> smk (home_rank c) 6 /\ smk (home_rank c) 3 <> smk (home_rank c) 2 /\ smk (home_rank c) 3 <> smk (home_rank c) 1 /\ smk (home_rank c) 2 <> smk (home_rank c) 1.
Proof. destruct c; cbv; repeat split; try reflexivity; discriminate. Qed.

Lemma castling_spec b cm : MaskInv b -> DerivedInv b -> valid (abs b) = true -> cm = None \/ cm = Some (b_checks b) ->
  exists r, castling_available b cm = Ok r /\ has_kingside r = castle_legal (abs b) true /\ has_queenside r = castle_legal (abs b) false.
Proof.
  intros I D V Hcm. destruct (valid_parts _ V) as (_ & VrW & VrB & _).
  assert (Hchk : match cm with Some m => m | None => b_checks b end = b_checks b) by (destruct Hcm as [->| ->]; reflexivity).
  unfold castling_available. rewrite Hchk, (checks_blank b I D), negb_involutive.
  set (c := b_stm b). destruct (castle_squares c) as (E5 & E6 & E3 & E2 & E1 & L5 & L6 & L3 & L2 & L1 & N56 & N32 & N31 & N21).
  assert (Vr : right_ok (abs b) c = true) by (unfold c; destruct (b_stm b); assumption).
  unfold castle_legal. change (stm (abs b)) with c.
  destruct (in_check (abs b) c) eqn:Ec.
  { exists Neither. split; [reflexivity|]. rewrite !andb_false_r. cbn. split; reflexivity. }
  rewrite E5, E6, E3, E2, E1.
  rewrite !(is_under_attack_spec b _ I) by assumption. fold c. cbn [bind].
  rewrite (blank2 _ _ _ N56), (blank3 _ _ _ _ N32 N31 N21), <- !(occupied_abs b _ I).
  assert (Rk : has_kingside (rights_of b c) = right_k (abs b) c) by (unfold right_k; now rewrite rights_abs).
  assert (Rq : has_queenside (rights_of b c) = right_q (abs b) c) by (unfold right_q; now rewrite rights_abs).
  rewrite Rk, Rq.
  assert (Pk : right_k (abs b) c = true -> opiece_eqb (piece_at (abs b) (smk (home_rank c) 4)) (Some (King, c)) = true /\ opiece_eqb (piece_at (abs b) (corner c true)) (Some (Rook, c)) = true).
  { intros Hr. split; [|apply (right_ok_rook _ _ true Vr Hr)]. unfold right_ok in Vr. apply andb_prop in Vr. destruct Vr as [Vr _]. apply andb_prop in Vr. destruct Vr as [Vr _].
    rewrite Hr in Vr. exact Vr. }
  assert (Pq : right_q (abs b) c = true -> opiece_eqb (piece_at (abs b) (smk (home_rank c) 4)) (Some (King, c)) = true /\ opiece_eqb (piece_at (abs b) (corner c false)) (Some (Rook, c)) = true).
  { intros Hr. split; [|apply (right_ok_rook _ _ false Vr Hr)]. unfold right_ok in Vr. apply andb_prop in Vr. destruct Vr as [Vr _]. apply andb_prop in Vr. destruct Vr as [Vr _].
    rewrite Hr, orb_true_r in Vr. exact Vr. }
  destruct (right_k (abs b) c) eqn:Hrk; destruct (right_q (abs b) c) eqn:Hrq; cbn [bind andb]; (eexists; split; [reflexivity|]);
  cbn [forallb negb]; rewrite ?andb_true_r;
  try (destruct (Pk eq_refl) as [A1 A2]; rewrite ?A1, ?A2); try (destruct (Pq eq_refl) as [A3 A4]; rewrite ?A3, ?A4); cbn [andb];
  repeat match goal with |- context [attacked ?p ?cc ?x] => destruct (attacked p cc x) end;
  repeat match goal with |- context [occupied ?p ?x] => destruct (occupied p x) end; split; reflexivity.
Qed.
