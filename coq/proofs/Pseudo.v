(* proofs/Pseudo.v — the pseudo-legal destination mask of every piece equals the pseudo-legal destinations of the
   mailbox rules (knight / king steps, pawn pushes and captures incl. en passant, slider walks), for every board
   with consistent masks *)
Require Import LC.model.Prims LC.model.Tables LC.model.Board LC.spec.Chess LC.spec.Geometry
  LC.proofs.Basics LC.proofs.Bits LC.proofs.Cols LC.proofs.MaskInv LC.proofs.Attack LC.proofs.TablesGeo LC.proofs.C05Proofs LC.proofs.Rays.
From Coq Require Import Lia.
Open Scope N_scope.

Lemma mem_filter (f : square -> bool) l x : mem x (filter f l) = mem x l && f x.
Proof.
  apply bool_eq_iff. rewrite andb_true_iff, !mem_true, filter_In. tauto.
Qed.
Lemma mem_single x y : mem x [y] = (x =? y). Proof. unfold mem. cbn. apply orb_false_r. Qed.
Lemma mem_nil x : mem x [] = false. Proof. reflexivity. Qed.

(* tables, forward direction *)
Lemma knight_table s : s < 64 -> look KNIGHT_T s = of_list (steps s knight_offs).
Proof. intros H. rewrite knight_geo. now rewrite look_map_squares. Qed.
Lemma king_table s : s < 64 -> look KING_T s = of_list (steps s king_offs).
Proof. intros H. rewrite king_geo. now rewrite look_map_squares. Qed.
Lemma pawn_push_table c s : s < 64 -> pawn_push c s = geo_pawn_push c s.
Proof. intros H. unfold pawn_push. destruct c; [rewrite pawn_push_w_geo|rewrite pawn_push_b_geo]; now rewrite look_map_squares. Qed.
Lemma pawn_double_table c s : s < 64 -> pawn_double c s = geo_pawn_double c s.
Proof. intros H. unfold pawn_double. destruct c; [rewrite pawn_dbl_w_geo|rewrite pawn_dbl_b_geo]; now rewrite look_map_squares. Qed.
Lemma pawn_cap_table c s : s < 64 -> pawn_cap c s = geo_pawn_cap c s.
Proof. intros H. unfold pawn_cap. destruct c; [rewrite pawn_cap_w_geo|rewrite pawn_cap_b_geo]; now rewrite look_map_squares. Qed.

(* squares reached by steps and walks are on the board *)
Lemma step_lt s d t : step s d = Some t -> t < 64.
Proof.
  unfold step. destruct (_ && _) eqn:E; [|discriminate]. intros [= <-].
  repeat (apply andb_prop in E; destruct E as [E ?]).
  repeat match goal with X : (_ <=? _)%Z = true |- _ => apply Z.leb_le in X | X : (_ <? _)%Z = true |- _ => apply Z.ltb_lt in X end. lia.
Qed.
Lemma has_bnot_own m d : d < 64 -> has (bnot m) d = negb (has m d).
Proof. intros H. rewrite has_bnot. apply N.ltb_lt in H. rewrite H. now destruct (has m d). Qed.

(* xor of sets of which at most one contains the point is their union *)
Lemma xor_exists_single (f : nat -> bool) l i0 : forall v, NoDup l -> (forall i, In i l -> i <> i0 -> f i = false) ->
  fold_left xorb (map f l) v = xorb v (existsb f l).
Proof.
  induction l as [|a l IH]; intros v ND H; [cbn; now rewrite xorb_false_r|].
  inversion ND as [|? ? Hna ND']; subst. cbn [map fold_left existsb].
  rewrite IH; [|exact ND'|intros i Hi; apply H; now right].
  destruct (f a) eqn:Fa; [|now rewrite xorb_false_r].
  assert (a = i0) as -> by (destruct (Nat.eq_dec a i0); [assumption|rewrite (H a (or_introl eq_refl) n) in Fa; discriminate]).
  assert (E : existsb f l = false).
  { destruct (existsb f l) eqn:E; [|reflexivity]. apply existsb_exists in E. destruct E as (x & Hx & Fx).
    rewrite (H x (or_intror Hx)) in Fx; [discriminate|]. intros ->. contradiction. }
  rewrite E. cbn. now rewrite xorb_false_r.
Qed.
Lemma lines_disjoint_sweep : forallb (fun s => forallb (fun d => forallb (fun i => forallb (fun j =>
    (Nat.eqb i j) || negb (mem d (line s (dir i)) && mem d (line s (dir j)))) (seq 0 8)) (seq 0 8)) squares) squares = true.
Proof. vm_compute. reflexivity. Qed.
Lemma one_dir s d : s < 64 -> d < 64 -> exists i0, forall i, (i < 8)%nat -> i <> i0 -> mem d (line s (dir i)) = false.
Proof.
  intros Hs Hd. pose proof (forallb_squares2 _ lines_disjoint_sweep s d Hs Hd) as S. cbv beta in S. rewrite forallb_forall in S.
  destruct (find (fun i => mem d (line s (dir i))) (seq 0 8)) as [i0|] eqn:F.
  - apply find_some in F. destruct F as [Hin F]. exists i0. intros i Hi Hne.
    specialize (S i ltac:(apply in_seq; lia)). rewrite forallb_forall in S. specialize (S i0 Hin).
    apply orb_prop in S. destruct S as [S|S]; [apply Nat.eqb_eq in S; contradiction|].
    rewrite F, andb_true_r in S. now apply negb_true_iff in S.
  - exists 0%nat. intros i Hi _. exact (find_none _ _ F i ltac:(apply in_seq; lia)).
Qed.
Lemma reach_sub_line p s dr x : In x (reach p s dr) -> In x (line s dr).
Proof.
  unfold reach. induction (line s dr) as [|u r IH]; [intros []|]. cbn [take_until]. destruct (occupied p u).
  - intros [<-|[]]. now left.
  - intros [<-|H]; [now left|right; now apply IH].
Qed.
Lemma line_lt s dr x : In x (line s dr) -> x < 64.
Proof.
  unfold line. generalize 7%nat. intros n. revert s. induction n as [|n IH]; intros s; [intros []|].
  cbn [line_fuel]. destruct (step s dr) as [t|] eqn:E; [|intros []]. intros [<-|H]; [eapply step_lt; eauto|eapply IH; eauto].
Qed.

Section P.
Variable K : zkeys.
(* sliders *)
Lemma truncate_rays_spec b idx s : MaskInv b -> s < 64 -> (forall i, In i idx -> (i < 8)%nat) -> NoDup idx ->
  exists M, truncate_rays b idx s = Ok M /\
    forall d, d < 64 -> has M d = mem d (flat_map (reach (abs b) s) (map dir idx)) && negb (has (cmask b (b_stm b)) d).
Proof.
  intros I Hs Hi ND. unfold truncate_rays.
  assert (F : forall l acc, (forall i, In i l -> (i < 8)%nat) ->
     fold_left (fun acc i => a <- acc ;; x <- truncate_ray b s i ;; Ok (N.lxor a x)) l (Ok acc)
     = Ok (fold_left (fun a i => N.lxor a (of_list (reach (abs b) s (dir i)))) l acc)).
  { induction l as [|i l IH]; intros acc Hl; [reflexivity|]. cbn [fold_left bind].
    rewrite (truncate_ray_spec b s i I Hs (Hl i (or_introl eq_refl))). cbn [bind]. apply IH. intros j Hj. apply Hl. now right. }
  rewrite (F idx 0 Hi). cbn [bind]. eexists. split; [reflexivity|]. intros d Hd.
  rewrite has_land, (has_bnot_own _ d Hd). f_equal.
  assert (G : forall l acc, has (fold_left (fun a i => N.lxor a (of_list (reach (abs b) s (dir i)))) l acc) d
                = fold_left xorb (map (fun i => mem d (reach (abs b) s (dir i))) l) (has acc d)).
  { induction l as [|i l IH]; intros acc; [reflexivity|]. cbn [fold_left map]. rewrite IH, has_lxor, has_of_list. reflexivity. }
  rewrite G, has_0.
  destruct (one_dir s d Hs Hd) as (i0 & H0).
  rewrite (xor_exists_single (fun i => mem d (reach (abs b) s (dir i))) idx i0 false ND).
  2:{ intros i Hin Hne. destruct (mem d (reach (abs b) s (dir i))) eqn:M; [|reflexivity].
      apply mem_true in M. apply reach_sub_line in M. apply mem_true in M. rewrite (H0 i (Hi i Hin) Hne) in M. discriminate. }
  rewrite xorb_false_l. apply bool_eq_iff. rewrite mem_true, in_flat_map, existsb_exists. split.
  - intros (i & Hin & Hm). exists (dir i). split; [now apply in_map|now apply mem_true].
  - intros (dd & Hin & Hm). apply in_map_iff in Hin. destruct Hin as (i & <- & Hin). exists i. split; [exact Hin|now apply mem_true].
Qed.

Lemma idx_dirs : map dir [4;5;6;7]%nat = bishop_dirs /\ map dir [0;1;2;3]%nat = rook_dirs /\ map dir [0;1;2;3;4;5;6;7]%nat = rook_dirs ++ bishop_dirs.
Proof. repeat split. Qed.
Lemma nodup_idx : NoDup [4;5;6;7]%nat /\ NoDup [0;1;2;3]%nat /\ NoDup [0;1;2;3;4;5;6;7]%nat.
Proof. repeat split; repeat constructor; cbn; intuition discriminate. Qed.

Theorem pseudo_mask_spec b t s : MaskInv b -> s < 64 -> cell_at b s = Some (t, b_stm b) ->
  exists M, piece_moves_mask b t s = Ok M /\ forall d, d < 64 -> has M d = mem d (pseudo_dests (abs b) s).
Proof.
  intros I Hs Hc. set (c := b_stm b) in *. unfold pseudo_dests. rewrite (piece_at_abs b s I), Hc.
  destruct idx_dirs as (Db & Dr & Dq). destruct nodup_idx as (Nb & Nr & Nq).
  destruct t; unfold piece_moves_mask; fold c.
  - (* pawn *)
    eexists. split; [reflexivity|]. intros d Hd. unfold pawn_dests.
    rewrite (pawn_push_table c s Hs), (pawn_double_table c s Hs), (pawn_cap_table c s Hs).
    unfold geo_pawn_push, geo_pawn_double, geo_pawn_cap.
    rewrite !has_lor, !mem_app, !has_land, has_lor, (has_bnot_own _ d Hd), has_of_list, mem_filter.
    rewrite <- (occupied_abs b d I), <- (color_at_abs b (opp c) d I).
    assert (Eep : has (match b_ep b with Some e => bit e | None => 0 end) d = osq_eqb (ep (abs b)) (Some d)).
    { cbn [ep abs]. destruct (b_ep b) as [e|]; [apply has_bit|apply has_0]. }
    rewrite Eep, <- orb_assoc. f_equal; [|f_equal].
    + (* single push *)
      destruct (step s (fwd c, 0%Z)) as [t1|] eqn:S1; [|now rewrite has_0].
      rewrite has_bit. destruct (N.eqb_spec t1 d) as [->|Hne]; cbn [andb].
      * destruct (occupied (abs b) d); cbn [negb]; [reflexivity|]. rewrite mem_single. symmetry. apply N.eqb_refl.
      * destruct (occupied (abs b) t1); [reflexivity|]. rewrite mem_single. symmetry. apply N.eqb_neq. congruence.
    + (* double push *)
      destruct (step s (fwd c, 0%Z)) as [t1|] eqn:S1.
      2:{ change (is_blank (N.land 0 (bnot (m_all b)))) with true. cbv iota. rewrite has_0. now destruct (srank s =? start_rank c). }
      rewrite (N.land_comm (bit t1)), is_blank_land_bit, (has_bnot_own _ t1 (step_lt _ _ _ S1)), negb_involutive, <- (occupied_abs b t1 I).
      destruct (srank s =? start_rank c).
      2:{ destruct (occupied (abs b) t1); rewrite ?has_land, has_0; reflexivity. }
      destruct (step s ((2 * fwd c)%Z, 0%Z)) as [t2|] eqn:S2.
      2:{ destruct (occupied (abs b) t1); rewrite ?has_land, has_0; reflexivity. }
      destruct (occupied (abs b) t1) eqn:O1; [now rewrite has_0|]. cbn [orb].
      rewrite has_land, has_bit, (has_bnot_own _ d Hd), <- (occupied_abs b d I).
      destruct (N.eqb_spec t2 d) as [->|Hne]; cbn [andb].
      * destruct (occupied (abs b) d); cbn [negb]; [reflexivity|]. rewrite mem_single. symmetry. apply N.eqb_refl.
      * destruct (occupied (abs b) t2); [reflexivity|]. rewrite mem_single. symmetry. apply N.eqb_neq. congruence.
  - (* knight *)
    eexists. split; [reflexivity|]. intros d Hd.
    rewrite has_land, (has_bnot_own _ d Hd), (knight_table s Hs), has_of_list, mem_filter, (color_at_abs b c d I).
    unfold attacks_from. rewrite (piece_at_abs b s I), Hc. reflexivity.
  - (* bishop *)
    destruct (truncate_rays_spec b [4;5;6;7]%nat s I Hs) as (M & E & HM); [cbn; intros i Hi; intuition lia|exact Nb|].
    exists M. split; [exact E|]. intros d Hd. rewrite (HM d Hd), Db, mem_filter, (color_at_abs b c d I).
    unfold attacks_from. rewrite (piece_at_abs b s I), Hc. reflexivity.
  - (* rook *)
    destruct (truncate_rays_spec b [0;1;2;3]%nat s I Hs) as (M & E & HM); [cbn; intros i Hi; intuition lia|exact Nr|].
    exists M. split; [exact E|]. intros d Hd. rewrite (HM d Hd), Dr, mem_filter, (color_at_abs b c d I).
    unfold attacks_from. rewrite (piece_at_abs b s I), Hc. reflexivity.
  - (* queen *)
    destruct (truncate_rays_spec b [0;1;2;3;4;5;6;7]%nat s I Hs) as (M & E & HM); [cbn; intros i Hi; intuition lia|exact Nq|].
    exists M. split; [exact E|]. intros d Hd. rewrite (HM d Hd), Dq, mem_filter, (color_at_abs b c d I).
    unfold attacks_from. rewrite (piece_at_abs b s I), Hc. reflexivity.
  - (* king *)
    eexists. split; [reflexivity|]. intros d Hd.
    rewrite has_land, (has_bnot_own _ d Hd), (king_table s Hs), has_of_list, mem_filter, (color_at_abs b c d I).
    unfold attacks_from. rewrite (piece_at_abs b s I), Hc. reflexivity.
Qed.

(* the masks hold only squares of the board *)
Lemma land_bnot_small b m X x : MaskInv b -> (forall y, has m y = true -> y < 64) -> has (N.land X (bnot m)) x = true -> x < 64.
Proof.
  intros I Hm H. rewrite has_land, has_bnot in H. apply andb_prop in H. destruct H as [_ H].
  destruct (N.ltb_spec x 64) as [|Hge]; [assumption|]. rewrite xorb_false_r in H. now apply Hm.
Qed.
Lemma pseudo_mask_small b t s M : MaskInv b -> s < 64 -> piece_moves_mask b t s = Ok M -> forall x, has M x = true -> x < 64.
Proof.
  intros I Hs E x Hx.
  assert (Hown : forall y, has (cmask b (b_stm b)) y = true -> y < 64) by (intros y; apply (mi_cmask_small b _ y I)).
  assert (Hall : forall y, has (m_all b) y = true -> y < 64) by (intros y; apply (mi_all_small b y I)).
  assert (Hsl : forall idx M0, truncate_rays b idx s = Ok M0 -> has M0 x = true -> x < 64).
  { intros idx M0 E0 H0. unfold truncate_rays in E0. apply bind_ok in E0. destruct E0 as (lg & _ & [= <-]). exact (land_bnot_small b _ lg x I Hown H0). }
  unfold piece_moves_mask in E. destruct t; try (eapply Hsl; eauto; fail).
  - injection E as <-. rewrite !has_lor in Hx. apply orb_prop in Hx. destruct Hx as [Hx|Hx]; [apply orb_prop in Hx; destruct Hx as [Hx|Hx]|].
    + exact (land_bnot_small b _ _ x I Hall Hx).
    + destruct (is_blank _); [rewrite has_0 in Hx; discriminate|]. exact (land_bnot_small b _ _ x I Hall Hx).
    + rewrite has_land in Hx. apply andb_prop in Hx. destruct Hx as [Hx _]. rewrite (pawn_cap_table _ s Hs) in Hx.
      unfold geo_pawn_cap in Hx. rewrite has_of_list in Hx. apply mem_true in Hx. unfold steps in Hx. apply in_flat_map in Hx.
      destruct Hx as (o & _ & Hx). destruct (step s o) eqn:Es; [|destruct Hx]. destruct Hx as [<-|[]]. eapply step_lt; eauto.
  - injection E as <-. exact (land_bnot_small b _ _ x I Hown Hx).
  - injection E as <-. exact (land_bnot_small b _ _ x I Hown Hx).
Qed.
End P.
