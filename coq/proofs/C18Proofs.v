(* proofs/C18Proofs.v — consistency of the primitive types (finite domains, complete) *)
Require Import LC.model.Prims LC.model.Text LC.spec.Chess LC.proofs.Basics LC.proofs.Bits.
From Coq Require Import Lia.
Open Scope N_scope.

(* ---- indices ---- *)
Lemma sq_new_spec n : sq_new n = if n <? 64 then Ok n else Err EIndex. Proof. reflexivity. Qed.
Lemma idx8_spec n : idx8_of n = if n <? 8 then Ok n else Err EIndex. Proof. reflexivity. Qed.
Lemma color_index_rt c : color_of_index (color_index c) = Ok c. Proof. now destruct c. Qed.
Lemma color_index_range n : 2 <= n -> color_of_index n = Err EIndex.
Proof. intros H. destruct n as [|[[]|[]|]]; try lia; reflexivity. Qed.
Lemma ptype_index_rt t : ptype_of_index (ptype_index t) = Ok t. Proof. now destruct t. Qed.
Lemma ptype_index_range n : 6 <= n -> ptype_of_index n = Err EIndex.
Proof. intros H. destruct n as [|[[[]|[]|]|[[]|[]|]|]]; try lia; reflexivity. Qed.
Lemma cr_index_rt r : cr_of_index (cr_index r) = Ok r. Proof. now destruct r. Qed.
Lemma cr_index_range n : 4 <= n -> cr_of_index n = Err EIndex.
Proof. intros H. destruct n as [|[[[]|[]|]|[[]|[]|]|]]; try lia; reflexivity. Qed.
Lemma cr_index_inv n r : cr_of_index n = Ok r -> cr_index r = n.
Proof. destruct n as [|[[]|[]|]]; cbn; intros [= <-]; reflexivity. Qed.

(* ---- castling rights: + is union, - is difference over the two sides ---- *)
Lemma cr_add_spec a b : has_kingside (cr_add a b) = has_kingside a || has_kingside b
                     /\ has_queenside (cr_add a b) = has_queenside a || has_queenside b.
Proof. destruct a, b; split; reflexivity. Qed.
Lemma cr_sub_spec a b : has_kingside (cr_sub a b) = has_kingside a && negb (has_kingside b)
                     /\ has_queenside (cr_sub a b) = has_queenside a && negb (has_queenside b).
Proof. destruct a, b; split; reflexivity. Qed.
Lemma cr_bits_inj a b : has_kingside a = has_kingside b -> has_queenside a = has_queenside b -> a = b.
Proof. destruct a, b; cbn; congruence. Qed.

(* ---- squares: text, coordinates, neighbours, colour ---- *)
Definition res_sq_eqb (r : res square) (o : option square) : bool :=
  match r, o with Ok a, Some b => a =? b | Err _, None => true | _, _ => false end.
Definition sq_sweep (s : square) : bool :=
  match parse_sq (print_sq s) with Ok s' => s' =? s | _ => false end
  && (rank s =? srank s) && (file s =? sfile s) && (mk_sq (rank s) (file s) =? s) && (mk_sq (rank s) (file s) =? smk (srank s) (sfile s))
  && res_sq_eqb (sq_up s) (step s (1, 0)%Z) && res_sq_eqb (sq_down s) (step s (-1, 0)%Z)
  && res_sq_eqb (sq_right s) (step s (0, 1)%Z) && res_sq_eqb (sq_left s) (step s (0, -1)%Z)
  && Bool.eqb (is_light s) (N.odd (srank s + sfile s)).
Lemma sq_sweep_ok : forallb sq_sweep squares = true. Proof. vm_compute. reflexivity. Qed.
Lemma res_sq_eqb_eq r o : res_sq_eqb r o = true -> match o with Some t => r = Ok t | None => exists e, r = Err e end.
Proof. destruct r, o; cbn; try discriminate; intros H; [apply N.eqb_eq in H; now subst | eauto]. Qed.
Lemma square_facts s : s < 64 ->
  parse_sq (print_sq s) = Ok s /\ rank s = s / 8 /\ file s = s mod 8 /\ mk_sq (rank s) (file s) = s /\
  (match step s (1, 0)%Z with Some t => sq_up s = Ok t | None => exists e, sq_up s = Err e end) /\
  (match step s (-1, 0)%Z with Some t => sq_down s = Ok t | None => exists e, sq_down s = Err e end) /\
  (match step s (0, 1)%Z with Some t => sq_right s = Ok t | None => exists e, sq_right s = Err e end) /\
  (match step s (0, -1)%Z with Some t => sq_left s = Ok t | None => exists e, sq_left s = Err e end) /\
  is_light s = N.odd (s / 8 + s mod 8).
Proof.
  intros H. pose proof (forallb_squares _ sq_sweep_ok s H) as S. unfold sq_sweep in S.
  repeat (apply andb_prop in S; destruct S as [S ?]).
  repeat match goal with X : (_ =? _) = true |- _ => apply N.eqb_eq in X end.
  repeat match goal with X : res_sq_eqb _ _ = true |- _ => apply res_sq_eqb_eq in X end.
  match goal with X : Bool.eqb _ _ = true |- _ => apply eqb_prop in X end.
  destruct (parse_sq (print_sq s)) as [s'| |]; try discriminate. apply N.eqb_eq in S. subst s'.
  unfold srank, sfile in *. repeat split; try assumption.
Qed.

(* ---- text of files, ranks, piece letters; foreign texts are errors ---- *)
Lemma file_text_rt f : f < 8 -> parse_file (print_file f) = Ok f.
Proof. intros H. unfold parse_file, print_file. assert (E : (97 <=? 97 + f) && (97 + f <=? 104) = true) by (apply andb_true_intro; split; apply N.leb_le; lia). rewrite E. f_equal. lia. Qed.
Lemma rank_text_rt r : r < 8 -> parse_rank (print_rank r) = Ok r.
Proof. intros H. unfold parse_rank, print_rank. assert (E : (49 <=? 49 + r) && (49 + r <=? 56) = true) by (apply andb_true_intro; split; apply N.leb_le; lia). rewrite E. f_equal. lia. Qed.
Lemma file_parse_inv s f : parse_file s = Ok f -> f < 8 /\ s = print_file f.
Proof.
  destruct s as [|c [|? ?]]; cbn; try discriminate. destruct ((97 <=? c) && (c <=? 104)) eqn:E; [|discriminate].
  intros [= <-]. apply andb_prop in E. destruct E as [E1 E2]. apply N.leb_le in E1, E2. split; [lia|]. unfold print_file. f_equal. lia.
Qed.
Lemma rank_parse_inv s r : parse_rank s = Ok r -> r < 8 /\ s = print_rank r.
Proof.
  destruct s as [|c [|? ?]]; cbn; try discriminate. destruct ((49 <=? c) && (c <=? 56)) eqn:E; [|discriminate].
  intros [= <-]. apply andb_prop in E. destruct E as [E1 E2]. apply N.leb_le in E1, E2. split; [lia|]. unfold print_rank. f_equal. lia.
Qed.
Lemma ptype_text_rt t : parse_pt (letter t) = Ok t. Proof. now destruct t. Qed.

(* ---- rank and file masks ---- *)
Lemma file_masks : forallb (fun f => bb_from_file f =? of_list (filter (fun s => sfile s =? f) squares)) idx8 = true.
Proof. vm_compute. reflexivity. Qed.
Lemma rank_masks : forallb (fun r => bb_from_rank r =? of_list (filter (fun s => srank s =? r) squares)) idx8 = true.
Proof. vm_compute. reflexivity. Qed.
Lemma In_idx8 n : n < 8 -> In n idx8.
Proof. intros H. unfold idx8. assert (n = 0 \/ n = 1 \/ n = 2 \/ n = 3 \/ n = 4 \/ n = 5 \/ n = 6 \/ n = 7) as X by lia. cbn. intuition. Qed.
Lemma from_file_spec f : f < 8 -> bb_from_file f = of_list (filter (fun s => sfile s =? f) squares).
Proof. intros H. pose proof file_masks as M. rewrite forallb_forall in M. apply N.eqb_eq, M, In_idx8, H. Qed.
Lemma from_rank_spec r : r < 8 -> bb_from_rank r = of_list (filter (fun s => srank s =? r) squares).
Proof. intros H. pose proof rank_masks as M. rewrite forallb_forall in M. apply N.eqb_eq, M, In_idx8, H. Qed.
