(* proofs/SymInst.v — the two symmetries of C19: colour flip (ranks mirrored, colours swapped) and file mirror *)
Require Import LC.model.Prims LC.model.Board LC.spec.Chess LC.spec.Sym LC.proofs.Basics LC.proofs.C05Proofs LC.proofs.MoveInv LC.proofs.PinLemma LC.proofs.ValidStep LC.proofs.Symmetry.
From Coq Require Import Lia.
Open Scope N_scope.

Definition flip_dr (d : Z * Z) : Z * Z := ((- fst d)%Z, snd d).
Definition mirror_dr (d : Z * Z) : Z * Z := (fst d, (- snd d)%Z).

Definition osq_eq (a b : option square) : bool := match a, b with Some x, Some y => x =? y | None, None => true | _, _ => false end.
Lemma osq_eq_true a b : osq_eq a b = true -> a = b.
Proof. destruct a, b; cbn; try discriminate; [intros H; apply N.eqb_eq in H; now subst|reflexivity]. Qed.
Definition zz_eqb (a b : Z * Z) : bool := (fst a =? fst b)%Z && (snd a =? snd b)%Z.
Lemma In_all_offs_dec d : In d all_offs -> existsb (zz_eqb d) all_offs = true.
Proof. intros H. apply existsb_exists. exists d. split; [exact H|]. unfold zz_eqb. now rewrite !Z.eqb_refl. Qed.

(* generic lifting of a sweep over all offsets *)
Lemma offs_sweep (P : Z * Z -> bool) : forallb P all_offs = true -> forall d, In d all_offs -> P d = true.
Proof. intros H d Hd. rewrite forallb_forall in H. now apply H. Qed.

Section Inst.
Variables (sq : square -> square) (dr : Z * Z -> Z * Z) (col : color -> color).
Definition sweep1 : bool :=
  forallb (fun s => (sq s <? 64) && (sq (sq s) =? s)
     && forallb (fun d => osq_eq (step (sq s) (dr d)) (option_map sq (step s d))) all_offs
     && forallb (fun c => (Bool.eqb (srank (sq s) =? start_rank (col c)) (srank s =? start_rank c))
                        && (Bool.eqb (srank (sq s) =? last_rank (col c)) (srank s =? last_rank c))
                        && (Bool.eqb (srank (sq s) =? ep_rank_for (col c)) (srank s =? ep_rank_for c))
                        && (negb (srank s =? ep_rank_for c) ||
                            ((smk (match col c with White => 4 | Black => 3 end) (sfile (sq s)) =? sq (smk (match c with White => 4 | Black => 3 end) (sfile s)))
                          && (smk (match col c with White => 6 | Black => 1 end) (sfile (sq s)) =? sq (smk (match c with White => 6 | Black => 1 end) (sfile s)))
                          && (smk (match c with White => 4 | Black => 3 end) (sfile s) <? 64) && (smk (match c with White => 6 | Black => 1 end) (sfile s) <? 64)))) all_colors) squares.
Definition sweep2 : bool :=
  forallb (fun s => forallb (fun d =>
       (sq (smk (srank s) (sfile d)) =? smk (srank (sq s)) (sfile (sq d)))
    && (absdiff (srank (sq s)) (srank (sq d)) =? absdiff (srank s) (srank d))
    && (negb (absdiff (srank s) (srank d) =? 2) || (sq (smk ((srank s + srank d) / 2) (sfile s)) =? smk ((srank (sq s) + srank (sq d)) / 2) (sfile (sq s))))) squares) squares.
Definition sweep3 : bool :=
  forallb (fun d => existsb (zz_eqb (dr d)) rook_dirs) rook_dirs && forallb (fun d => existsb (zz_eqb (dr d)) bishop_dirs) bishop_dirs
  && forallb (fun d => existsb (zz_eqb (dr d)) knight_offs) knight_offs
  && forallb (fun c => zz_eqb (dr (fwd c, 0%Z)) (fwd (col c), 0%Z) && zz_eqb (dr ((2 * fwd c)%Z, 0%Z)) ((2 * fwd (col c))%Z, 0%Z)
        && forallb (fun d => existsb (zz_eqb (dr d)) [(fwd (col c), 1%Z); (fwd (col c), (-1)%Z)]) [(fwd c, 1%Z); (fwd c, (-1)%Z)]
        && color_eqb (col (col c)) c && color_eqb (col (opp c)) (opp (col c))) all_colors.
End Inst.
Lemma zz_eqb_true a b : zz_eqb a b = true -> a = b.
Proof. destruct a, b. unfold zz_eqb. cbn. intros H. apply andb_prop in H. destruct H as [H1 H2]. apply Z.eqb_eq in H1. apply Z.eqb_eq in H2. now subst. Qed.
Lemma closed_of_sweep (dr : Z * Z -> Z * Z) L L' : forallb (fun d => existsb (zz_eqb (dr d)) L') L = true -> forall d, In d L -> In (dr d) L'.
Proof.
  intros H d Hd. rewrite forallb_forall in H. specialize (H d Hd). apply existsb_exists in H. destruct H as (x & Hx & E).
  apply zz_eqb_true in E. now rewrite E.
Qed.
Lemma bool_eqb_true (a b : bool) : Bool.eqb a b = true -> a = b. Proof. destruct a, b; cbn; congruence. Qed.

(* from the three sweeps to the summary theorem *)
Theorem sym_of_sweeps sq dr col : sweep1 sq dr col = true -> sweep2 sq = true -> sweep3 dr col = true ->
  forall p, valid p = true -> HomeSym sq col p ->
  valid (symT sq col p) = true /\
  (forall mv, wf_bmove mv -> legal (symT sq col p) (Tmv sq mv) = legal p mv) /\
  (forall mv, wf_bmove mv -> legal p mv = true -> sim (apply (symT sq col p) (Tmv sq mv)) (symT sq col (apply p mv))) /\
  (forall a, a < 64 -> is_checker (symT sq col p) (sq a) = is_checker p a) /\
  (forall u, u < 64 -> is_pinned (symT sq col p) (col (stm p)) (sq u) = is_pinned p (stm p) u) /\
  in_check (symT sq col p) (col (stm p)) = in_check p (stm p) /\
  board_status (symT sq col p) = Tstatus col (board_status p) /\
  symT sq col (symT sq col p) = p.
Proof.
  intros S1 S2 S3. unfold sweep2 in S2.
  assert (A1 : forall s, s < 64 -> (sq s <? 64) && (sq (sq s) =? s)
     && forallb (fun d => osq_eq (step (sq s) (dr d)) (option_map sq (step s d))) all_offs
     && forallb (fun c => (Bool.eqb (srank (sq s) =? start_rank (col c)) (srank s =? start_rank c))
                        && (Bool.eqb (srank (sq s) =? last_rank (col c)) (srank s =? last_rank c))
                        && (Bool.eqb (srank (sq s) =? ep_rank_for (col c)) (srank s =? ep_rank_for c))
                        && (negb (srank s =? ep_rank_for c) ||
                            ((smk (match col c with White => 4 | Black => 3 end) (sfile (sq s)) =? sq (smk (match c with White => 4 | Black => 3 end) (sfile s)))
                          && (smk (match col c with White => 6 | Black => 1 end) (sfile (sq s)) =? sq (smk (match c with White => 6 | Black => 1 end) (sfile s)))
                          && (smk (match c with White => 4 | Black => 3 end) (sfile s) <? 64) && (smk (match c with White => 6 | Black => 1 end) (sfile s) <? 64)))) all_colors = true).
  { intros s Hs. exact (forallb_squares _ S1 s Hs). }
  assert (B : forall s c, s < 64 -> _) by (intros s c Hs; pose proof (A1 s Hs) as X; apply andb_prop in X; destruct X as [_ X];
     rewrite forallb_forall in X; exact (X c ltac:(destruct c; cbn; tauto))).
  unfold sweep3 in S3. apply andb_prop in S3. destruct S3 as [S3 SC]. apply andb_prop in S3. destruct S3 as [S3 SK]. apply andb_prop in S3. destruct S3 as [SR SB].
  assert (C : forall c, _) by (intros c; rewrite forallb_forall in SC; exact (SC c ltac:(destruct c; cbn; tauto))).
  apply (sym_all sq dr col).
  - intros s Hs. pose proof (A1 s Hs) as X. repeat (apply andb_prop in X; destruct X as [X ?]). now apply N.ltb_lt.
  - intros s Hs. pose proof (A1 s Hs) as X. repeat (apply andb_prop in X; destruct X as [X ?]). now apply N.eqb_eq.
  - intros c. pose proof (C c) as X. apply andb_prop in X. destruct X as [X X5]. apply andb_prop in X. destruct X as [X X4]. apply andb_prop in X. destruct X as [X X3]. apply andb_prop in X. destruct X as [X1 X2]. now apply color_eqb_true.
  - intros c. pose proof (C c) as X. apply andb_prop in X. destruct X as [X X5]. apply andb_prop in X. destruct X as [X X4]. apply andb_prop in X. destruct X as [X X3]. apply andb_prop in X. destruct X as [X1 X2]. now apply color_eqb_true.
  - intros s d Hs Hd. pose proof (A1 s Hs) as X. repeat (apply andb_prop in X; destruct X as [X ?]).
    match goal with Y : forallb _ all_offs = true |- _ => rewrite forallb_forall in Y; apply osq_eq_true; exact (Y d Hd) end.
  - exact (closed_of_sweep dr _ _ SR).
  - exact (closed_of_sweep dr _ _ SB).
  - exact (closed_of_sweep dr _ _ SK).
  - intros c. pose proof (C c) as X. apply andb_prop in X. destruct X as [X X5]. apply andb_prop in X. destruct X as [X X4]. apply andb_prop in X. destruct X as [X X3]. apply andb_prop in X. destruct X as [X1 X2]. exact (closed_of_sweep dr _ _ X3).
  - intros c. pose proof (C c) as X. apply andb_prop in X. destruct X as [X X5]. apply andb_prop in X. destruct X as [X X4]. apply andb_prop in X. destruct X as [X X3]. apply andb_prop in X. destruct X as [X1 X2]. split; now apply zz_eqb_true.
  - intros c s Hs. pose proof (B s c Hs) as X. repeat (apply andb_prop in X; destruct X as [X ?]). now apply bool_eqb_true.
  - intros c s Hs. pose proof (B s c Hs) as X. repeat (apply andb_prop in X; destruct X as [X ?]). now apply bool_eqb_true.
  - intros s d Hs Hd. pose proof (forallb_squares2 _ S2 s d Hs Hd) as X. repeat (apply andb_prop in X; destruct X as [X ?]). now apply N.eqb_eq.
  - intros s d Hs Hd. pose proof (forallb_squares2 _ S2 s d Hs Hd) as X. repeat (apply andb_prop in X; destruct X as [X ?]). now apply N.eqb_eq.
  - intros s d Hs Hd E. pose proof (forallb_squares2 _ S2 s d Hs Hd) as X. repeat (apply andb_prop in X; destruct X as [X ?]).
    match goal with Y : negb _ || _ = true |- _ => rewrite E in Y; cbn in Y; now apply N.eqb_eq in Y end.
  - intros c e He. pose proof (B e c He) as X. repeat (apply andb_prop in X; destruct X as [X ?]). now apply bool_eqb_true.
  - intros c e He E. pose proof (B e c He) as X. repeat (apply andb_prop in X; destruct X as [X ?]).
    match goal with Y : negb _ || _ = true |- _ => rewrite E, N.eqb_refl in Y; cbn [negb orb] in Y;
      repeat (apply andb_prop in Y; destruct Y as [Y ?]) end.
    repeat match goal with Y : (_ =? _) = true |- _ => apply N.eqb_eq in Y end.
    repeat match goal with Y : (_ <? _) = true |- _ => apply N.ltb_lt in Y end. auto.
Qed.

Lemma flip_sweeps : sweep1 flip_sq flip_dr opp = true /\ sweep2 flip_sq = true /\ sweep3 flip_dr opp = true.
Proof. repeat split; vm_compute; reflexivity. Qed.
Lemma mirror_sweeps : sweep1 mirror_sq mirror_dr idc = true /\ sweep2 mirror_sq = true /\ sweep3 mirror_dr idc = true.
Proof. repeat split; vm_compute; reflexivity. Qed.

Lemma flip_home p : HomeSym flip_sq opp p.
Proof. intros x _ f Hf. assert (In f idx8) as Hin by (unfold idx8; cbn; lia). destruct x; cbn in Hin; repeat destruct Hin as [<-|Hin]; try reflexivity; destruct Hin. Qed.
Definition no_rights (p : pos) : Prop := rights_w p = Neither /\ rights_b p = Neither.
Lemma mirror_home p : no_rights p -> HomeSym mirror_sq idc p.
Proof. intros [R1 R2] x H. exfalso. unfold right_k, right_q, rights in H. destruct x; rewrite ?R1, ?R2 in H; discriminate. Qed.
