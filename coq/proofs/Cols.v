(* proofs/Cols.v — the per-square view of the nine occupancy masks.  A board is read column by
   column: the column of square x is the 9 bits (six type masks, two colour masks, combined) at x.
   Facts about a single column are proved by complete case analysis (512 columns); updates of the
   masks at one square change exactly one column. *)
Require Import LC.model.Prims LC.model.Tables LC.model.Board LC.proofs.Basics LC.proofs.Bits.
From Coq Require Import Lia.
Open Scope N_scope.

Record col := { kp : bool; kn : bool; kb : bool; kr : bool; kq : bool; kk : bool; kw : bool; kbl : bool; ka : bool }.
Definition col_of (b : board) (x : square) : col :=
  {| kp := has (m_pawn b) x; kn := has (m_knight b) x; kb := has (m_bishop b) x; kr := has (m_rook b) x;
     kq := has (m_queen b) x; kk := has (m_king b) x; kw := has (m_white b) x; kbl := has (m_black b) x; ka := has (m_all b) x |}.
Definition ctype (c : col) (t : ptype) : bool :=
  match t with Pawn => kp c | Knight => kn c | Bishop => kb c | Rook => kr c | Queen => kq c | King => kk c end.
Definition ccolor (c : col) (cl : color) : bool := match cl with White => kw c | Black => kbl c end.
Definition zero_col : col := {| kp := false; kn := false; kb := false; kr := false; kq := false; kk := false; kw := false; kbl := false; ka := false |}.
Definition piece_col (pc : piece) : col :=
  {| kp := ptype_eqb (fst pc) Pawn; kn := ptype_eqb (fst pc) Knight; kb := ptype_eqb (fst pc) Bishop; kr := ptype_eqb (fst pc) Rook;
     kq := ptype_eqb (fst pc) Queen; kk := ptype_eqb (fst pc) King; kw := color_eqb (snd pc) White; kbl := color_eqb (snd pc) Black; ka := true |}.
(* what stands on the square, read off a column *)
Definition cell (c : col) : option piece :=
  if ka c then
    Some (if kp c then Pawn else if kn c then Knight else if kb c then Bishop else if kr c then Rook else if kq c then Queen else King,
          if kw c then White else Black)
  else None.
Definition wf_col (c : col) : bool :=
  match cell c with
  | Some pc => if kp c then negb (kn c || kb c || kr c || kq c || kk c) && true else true
  | None => true end
  && (let n := b2n (kp c) + b2n (kn c) + b2n (kb c) + b2n (kr c) + b2n (kq c) + b2n (kk c) in
      if ka c then (n =? 1) && xorb (kw c) (kbl c) else (n =? 0) && negb (kw c) && negb (kbl c)).

Lemma cell_zero : cell zero_col = None. Proof. reflexivity. Qed.
Lemma cell_piece pc : cell (piece_col pc) = Some pc. Proof. destruct pc as [[] []]; reflexivity. Qed.
Lemma wf_zero : wf_col zero_col = true. Proof. reflexivity. Qed.
Lemma wf_piece pc : wf_col (piece_col pc) = true. Proof. destruct pc as [[] []]; reflexivity. Qed.
Lemma wf_cell_inv c pc : wf_col c = true -> cell c = Some pc -> c = piece_col pc.
Proof. destruct c as [[] [] [] [] [] [] [] [] []]; cbn; try discriminate; intros _ [= <-]; reflexivity. Qed.
Lemma wf_cell_none c : wf_col c = true -> cell c = None -> c = zero_col.
Proof. destruct c as [[] [] [] [] [] [] [] [] []]; cbn; try discriminate; reflexivity. Qed.
Lemma wf_ctype c t : wf_col c = true -> ctype c t = match cell c with Some (t', _) => ptype_eqb t' t | None => false end.
Proof. destruct c as [[] [] [] [] [] [] [] [] []], t; cbn; try discriminate; reflexivity. Qed.
Lemma wf_ccolor c cl : wf_col c = true -> ccolor c cl = match cell c with Some (_, c') => color_eqb c' cl | None => false end.
Proof. destruct c as [[] [] [] [] [] [] [] [] []], cl; cbn; try discriminate; reflexivity. Qed.
Lemma wf_ka c : wf_col c = true -> ka c = match cell c with Some _ => true | None => false end.
Proof. destruct c as [[] [] [] [] [] [] [] [] []]; cbn; try discriminate; reflexivity. Qed.

(* ---------- bit-level lemmas ---------- *)
Lemma has_bit s x : has (bit s) x = (s =? x).
Proof. unfold has, bit. rewrite N.shiftl_1_l. apply N.pow2_bits_eqb. Qed.
Lemma is_blank_land_bit m s : is_blank (N.land m (bit s)) = negb (has m s).
Proof.
  unfold is_blank, has. destruct (N.testbit m s) eqn:E; cbn [negb].
  - apply N.eqb_neq. intros H. assert (N.testbit (N.land m (bit s)) s = false) as H' by (rewrite H; apply N.bits_0).
    rewrite N.land_spec, E in H'. fold (has (bit s) s) in H'. rewrite has_bit, N.eqb_refl in H'. discriminate.
  - apply N.eqb_eq. apply N.bits_inj. intros x. rewrite N.land_spec, N.bits_0. fold (has (bit s) x). rewrite has_bit.
    destruct (N.eqb_spec s x) as [<-|]; [now rewrite E|apply andb_false_r].
Qed.
Lemma is_blank_land_bit' s m : is_blank (N.land (bit s) m) = negb (has m s).
Proof. rewrite N.land_comm. apply is_blank_land_bit. Qed.
Lemma ones64_spec x : N.testbit ones64 x = (x <? 64).
Proof.
  change ones64 with (N.ones 64). destruct (N.ltb_spec x 64).
  - rewrite N.ones_spec_low; [reflexivity|lia].
  - rewrite N.ones_spec_high; [reflexivity|lia].
Qed.
Lemma has_bnot m x : has (bnot m) x = xorb (has m x) (x <? 64).
Proof. unfold has, bnot. now rewrite N.lxor_spec, ones64_spec. Qed.
Lemma has_land a b x : has (N.land a b) x = has a x && has b x. Proof. apply N.land_spec. Qed.
Lemma has_lor a b x : has (N.lor a b) x = has a x || has b x. Proof. apply N.lor_spec. Qed.
Lemma has_lxor a b x : has (N.lxor a b) x = xorb (has a x) (has b x). Proof. apply N.lxor_spec. Qed.
Lemma has_0 x : has 0 x = false. Proof. apply N.bits_0. Qed.
(* clearing / toggling one square of a 64-bit mask *)
Lemma has_clear m s x : s < 64 -> (has m x = true -> x < 64) -> has (N.land (bnot (bit s)) m) x = has m x && negb (s =? x).
Proof.
  intros Hs Hm. rewrite has_land, has_bnot, has_bit. destruct (has m x) eqn:E; [|now rewrite andb_false_r].
  specialize (Hm eq_refl). apply N.ltb_lt in Hm. rewrite Hm. destruct (s =? x); reflexivity.
Qed.
Lemma has_toggle m s x : has (N.lxor (bit s) m) x = xorb (s =? x) (has m x).
Proof. now rewrite has_lxor, has_bit. Qed.
Lemma u64_has m : u64 m <-> (forall x, has m x = true -> x < 64).
Proof.
  split; [intros H x; apply u64_testbit; exact H|].
  intros H. unfold u64. destruct (N.eq_dec m 0) as [->|Hz]; [reflexivity|].
  apply N.log2_lt_pow2; [lia|]. apply H. apply N.bit_log2. exact Hz.
Qed.
