(* proofs/Total.v — applying a rule-legal move to a valid position never fails: no Panic, no error *)
Require Import LC.model.Prims LC.model.Tables LC.model.Board LC.spec.Chess
  LC.proofs.Basics LC.proofs.MaskInv LC.proofs.HashInv LC.proofs.MoveInv LC.proofs.C05Proofs LC.proofs.C02Proofs
  LC.proofs.C01a LC.proofs.C01b LC.proofs.C09Proofs LC.proofs.C04Proofs LC.proofs.C03Proofs LC.proofs.ValidStep LC.proofs.Reach.
From Coq Require Import Lia.
Open Scope N_scope.

Section T.
Variable K : zkeys.
(* the common tail of every move application, given that its result is the rule-defined successor *)
Lemma finish_total b b1 mv cap : MaskInv b1 -> valid (abs b) = true -> legal (abs b) mv = true ->
  (forall b', finish_facts b1 mv cap b' -> abs b' = apply (abs b) mv) ->
  exists b', (b7 <- update_pins_and_checks (update_en_passant K (set_side_to_move K (update_castling_rights K
                (update_moves_since_capture (update_move_number b1) mv cap) mv) (opp (b_stm b1))) mv) ;;
              update_terminal_status K b7) = Ok b'.
Proof.
  intros I1 V L Asm.
  set (b6 := update_en_passant K (set_side_to_move K (update_castling_rights K (update_moves_since_capture (update_move_number b1) mv cap) mv) (opp (b_stm b1))) mv).
  pose proof (finish_facts_any K b1 mv cap 0 0 false) as FF. fold b6 in FF.
  pose proof (Asm _ FF) as A. rewrite abs_with_term, abs_with_pc in A.
  assert (I6 : MaskInv b6).
  { destruct FF as (C & _). apply (MaskInv_ext b1); [|exact I1]. intros x. rewrite <- (C x). reflexivity. }
  assert (V6 : valid (abs b6) = true) by (rewrite A; apply valid_step; assumption).
  destruct (valid_parts2 _ V6) as (KW & KB & _).
  assert (K1 : one_king (abs b6) (b_stm b6) = true) by (destruct (b_stm b6); [exact KW|exact KB]).
  destruct (one_king_sq _ _ K1) as (k & Ek & Hk & _).
  unfold update_pins_and_checks. rewrite (king_square_spec b6 (b_stm b6) I6), Ek. cbn [bind].
  destruct (pins_and_checks_ok b6 k I6 Hk) as (P & C & E & _). rewrite E. cbn [bind].
  rewrite (update_terminal_spec K (with_pc b6 P C)); [eexists; reflexivity| |].
  - now apply MaskInv_with_pc.
  - rewrite abs_with_pc. exact V6.
Qed.
Theorem make_move_unchecked_total b mv : MaskInv b -> valid (abs b) = true -> legal (abs b) mv = true -> wf_bmove mv ->
  exists b', make_move_unchecked K b mv = Ok b'.
Proof.
  intros I V L W. destruct mv as [m| |].
  - destruct W as [Hs Hd]. destruct (pieces_spec K b m I V L Hs Hd) as (b1 & E1 & I1 & F1).
    unfold make_move_unchecked. rewrite E1. cbn [bind].
    apply (finish_total b b1 (MovePiece m) _ I1 V L). intros b' FF. exact (piece_assemble b m b1 b' I V L Hs Hd F1 FF).
  - destruct (castle_pieces K b true I V L) as (b1 & I1 & Emk & CF). rewrite Emk.
    apply (finish_total b b1 CastleK false I1 V L). intros b' FF. exact (castle_assemble b true b1 b' I V L CF FF).
  - destruct (castle_pieces K b false I V L) as (b1 & I1 & Emk & CF). rewrite Emk.
    apply (finish_total b b1 CastleQ false I1 V L). intros b' FF. exact (castle_assemble b false b1 b' I V L CF FF).
Qed.
(* the checked form on a position whose cached masks and flag are current: success exactly for rule-legal moves,
   the illegal-move error otherwise, never a panic *)
Theorem make_move_total b mv : Good K b -> wf_bmove mv ->
  (legal (abs b) mv = true -> exists b', make_move K b mv = Ok b') /\
  (legal (abs b) mv = false -> make_move K b mv = Err EIllegalMove).
Proof.
  intros [HI HD V T] W. pose proof (proj1 HI) as I. unfold make_move. rewrite (is_legal_move_spec K b I HD V T mv W). cbn [bind].
  split; intros L; rewrite L; [|reflexivity]. exact (make_move_unchecked_total b mv I V L W).
Qed.
End T.
