(* proofs/C13Proofs.v — the recorded history is a chain of positions linked by the recorded moves;
   ply indexing; layout of the rendered move list *)
Require Import LC.model.Prims LC.model.Tables LC.model.Board LC.model.Text LC.model.San LC.model.Game LC.spec.Protocol LC.spec.TextSpec
  LC.proofs.Basics LC.proofs.C12Proofs LC.proofs.C11Proofs.
From Coq Require Import Lia ZifyN ZifyBool String.
Ltac Zify.zify_post_hook ::= Z.div_mod_to_equations.
Open Scope N_scope.

Section H.
Variable K : zkeys.
(* positions p0 :: p1 :: ... ; moves m0 :: ... ; recorded properties: p(i+1) = make_move p(i) m(i), props(i) = move_props m(i) p(i) *)
Fixpoint Chain (ps : list board) (ms : list bmove) (mps : list mprops) : Prop :=
  match ps, ms, mps with
  | [_], [], [] => True
  | p :: ((q :: _) as r), m :: ms', mp :: mps' => make_move K p m = Ok q /\ move_props K m p = Ok mp /\ Chain r ms' mps'
  | _, _, _ => False end.
Definition HistInv (g : game) : Prop :=
  Chain (g_positions g) (g_moves g) (g_meta g) /\ last (g_positions g) (g_pos g) = g_pos g.

Lemma Chain_lengths ps : forall ms mps, Chain ps ms mps -> List.length ps = S (List.length ms) /\ List.length mps = List.length ms.
Proof.
  induction ps as [|p ps IH]; intros ms mps C; [destruct C|].
  destruct ps as [|q r]; destruct ms as [|m ms], mps as [|mp mps]; cbn in C; try contradiction; [split; reflexivity|].
  destruct C as (_ & _ & C). destruct (IH ms mps C) as [L1 L2]. cbn [List.length] in *. split; congruence.
Qed.
Lemma Chain_snoc ps : forall ms mps p q m mp, Chain ps ms mps -> last ps p = p -> ps <> [] ->
  make_move K p m = Ok q -> move_props K m p = Ok mp -> Chain (ps ++ [q]) (ms ++ [m]) (mps ++ [mp]).
Proof.
  induction ps as [|a ps IH]; intros ms mps p q m mp C L NE Em Ep; [contradiction|].
  destruct ps as [|b r].
  - destruct ms, mps; cbn in C; try contradiction. cbn in L. subst a. cbn. auto.
  - destruct ms as [|m0 ms], mps as [|mp0 mps]; cbn in C; try contradiction. destruct C as (C1 & C2 & C3).
    cbn [app]. cbn [Chain]. split; [exact C1|]. split; [exact C2|].
    apply (IH ms mps p q m mp C3); [exact L|discriminate|exact Em|exact Ep].
Qed.

Lemma HistInv_init b g : game_from_board b = Ok g -> HistInv g.
Proof.
  intros E. destruct (game_from_board_spec b g E) as (_ & P1 & P2 & P3 & _).
  unfold game_from_board in E. apply bind_ok in E. destruct E as (g0 & E0 & [= <-]).
  apply update_game_status_spec in E0. destruct E0 as (after & _ & _ & _ & Q1 & Q2 & Q3 & Q4 & Q5).
  unfold HistInv. cbn [g_positions g_moves g_meta g_pos position_counter_increment] in *. rewrite Q2, Q3, Q4, Q1. cbn. auto.
Qed.
Lemma HistInv_step g a g' : HistInv g -> g_positions g <> [] -> game_step K g a = Ok g' -> HistInv g' /\ g_positions g' <> [].
Proof.
  intros [C L] NE E. pose proof (game_step_status K g a g' E) as (_ & _ & S).
  destruct a as [m|c| | |c].
  2-5: unfold game_step in E; apply bind_ok in E; destruct E as (g1 & E1 & E2);
       apply update_game_status_spec in E2; destruct E2 as (after & _ & _ & _ & P1 & P2 & P3 & P4 & P5);
       (destruct (g_status g); try discriminate; injection E1 as <-);
       unfold HistInv; rewrite P1, P2, P3, P4; auto.
  unfold game_step in E. apply bind_ok in E. destruct E as (g1 & E1 & E2).
  apply update_game_status_spec in E2. destruct E2 as (after & _ & _ & _ & P1 & P2 & P3 & P4 & P5).
  destruct (g_status g); try discriminate. destruct (make_move K (g_pos g) m) as [b'| |] eqn:Em; try discriminate.
  unfold history_push in E1. apply bind_ok in E1. destruct E1 as (lp & El & E1). apply bind_ok in E1. destruct E1 as (mp & Ep & [= <-]).
  cbn [g_pos g_positions g_moves g_meta position_counter_increment with_pos] in *.
  assert (lp = g_pos g).
  { assert (X : last (map Some (g_positions g)) None = Some (last (g_positions g) (g_pos g))).
    { clear -NE. induction (g_positions g) as [|a l IH]; [contradiction|]. destruct l as [|b r]; [reflexivity|].
      cbn [map last] in *. apply IH. discriminate. }
    rewrite X, L in El. now injection El as <-. }
  subst lp. unfold unwrap in Ep. destruct (move_props K m (g_pos g)) as [mp'| |] eqn:Emp; try discriminate. injection Ep as <-.
  unfold HistInv. rewrite P1, P2, P3, P4. cbn [g_pos]. split; [split|].
  - eapply Chain_snoc; eauto.
  - apply last_app_one.
  - destruct (g_positions g); discriminate.
Qed.
Lemma HistInv_run l : forall g, HistInv g -> g_positions g <> [] -> HistInv (run K g l) /\ g_positions (run K g l) <> [].
Proof.
  induction l as [|a r IH]; intros g H NE; [split; assumption|]. cbn [run].
  destruct (game_step K g a) as [g'| |] eqn:E; try now apply IH.
  destruct (HistInv_step g a g' H NE E). now apply IH.
Qed.
(* indexing by ply *)
Lemma position_on_move g i : get_position_on_move g i =
  match nth_error (g_positions g) (N.to_nat i) with Some b => Ok b | None => Err EWrongMoveNumber end.
Proof. reflexivity. Qed.
Lemma position_on_move_range g i : (N.to_nat i < List.length (g_positions g))%nat <-> exists b, get_position_on_move g i = Ok b.
Proof.
  unfold get_position_on_move. destruct (nth_error (g_positions g) (N.to_nat i)) eqn:E.
  - split; [eauto|]. intros _. apply nth_error_Some. congruence.
  - split; [|intros [b H]; discriminate]. intros H. apply nth_error_Some in H. contradiction.
Qed.
End H.

(* ---------- layout of the rendered move list ---------- *)
Definition step_tok (white_starting : bool) (st : bytes * N) (s : bytes) : bytes * N :=
  let '(out, i) := st in
  let numbered := xorb (negb (i mod 2 =? 0)) white_starting in
  let tok := if numbered then print_dec ((i + 2 + (if white_starting then 0 else 1)) / 2) ++ B "." ++ s ++ B " " else s ++ B " " in
  (out ++ tok, i + 1).
Lemma history_fold_eq ws rest st : fold_left (fun '(out, i) s =>
             let numbered := xorb (negb (i mod 2 =? 0)) ws in
             let tok := if numbered then print_dec ((i + 2 + (if ws then 0 else 1)) / 2) ++ B "." ++ s ++ B " "
                        else s ++ B " " in
             (out ++ tok, i + 1)) rest st = fold_left (step_tok ws) rest st.
Proof. revert st. induction rest as [|s r IH]; intros [out i]; [reflexivity|]. cbn [fold_left]. rewrite IH. reflexivity. Qed.
(* white start: ply i (>= 1) is White's iff i is even, and its number is i/2 + 1 *)
Lemma layout_white rest : forall out i, 1 <= i ->
  fst (fold_left (step_tok true) rest (out, i)) = out ++ movelist_from (i mod 2 =? 0) (i / 2 + 1) rest.
Proof.
  induction rest as [|s r IH]; intros out i Hi; [cbn; now rewrite app_nil_r|].
  cbn [fold_left step_tok movelist_from]. rewrite IH by lia. rewrite <- app_assoc.
  destruct (N.eqb_spec (i mod 2) 0) as [E|E]; cbn [negb xorb].
  - assert ((i + 1) mod 2 =? 0 = false) as -> by (apply N.eqb_neq; lia).
    assert ((i + 1) / 2 + 1 = i / 2 + 1) as -> by lia. assert ((i + 2 + 0) / 2 = i / 2 + 1) as -> by lia.
    rewrite <- !app_assoc. reflexivity.
  - assert ((i + 1) mod 2 =? 0 = true) as -> by (apply N.eqb_eq; lia).
    assert ((i + 1) / 2 + 1 = i / 2 + 1 + 1) as -> by lia. rewrite <- !app_assoc. reflexivity.
Qed.
(* black start: ply i (>= 1) is White's iff i is odd, and its number is (i+1)/2 + 1 *)
Lemma layout_black rest : forall out i, 1 <= i ->
  fst (fold_left (step_tok false) rest (out, i)) = out ++ movelist_from (negb (i mod 2 =? 0)) ((i + 1) / 2 + 1) rest.
Proof.
  induction rest as [|s r IH]; intros out i Hi; [cbn; now rewrite app_nil_r|].
  cbn [fold_left step_tok movelist_from]. rewrite IH by lia. rewrite <- app_assoc.
  destruct (N.eqb_spec (i mod 2) 0) as [E|E]; cbn [negb xorb].
  - assert ((i + 1) mod 2 =? 0 = false) as -> by (apply N.eqb_neq; lia). cbn [negb].
    assert ((i + 1 + 1) / 2 + 1 = (i + 1) / 2 + 1 + 1) as -> by lia. rewrite <- !app_assoc. reflexivity.
  - assert ((i + 1) mod 2 =? 0 = true) as -> by (apply N.eqb_eq; lia). cbn [negb].
    assert ((i + 1 + 1) / 2 + 1 = (i + 1) / 2 + 1) as -> by lia. assert ((i + 2 + 1) / 2 = (i + 1) / 2 + 1) as -> by lia.
    rewrite <- !app_assoc. reflexivity.
Qed.
Lemma history_layout ws sans : history_string_of ws sans = movelist ws sans.
Proof.
  unfold history_string_of, movelist. destruct sans as [|first rest]; [now destruct ws|].
  rewrite history_fold_eq. destruct ws.
  - rewrite layout_white by lia. cbn [movelist_from]. change (1 mod 2 =? 0) with false. change (1 / 2 + 1) with 1.
    change (print_dec 1) with (B "1"). rewrite <- !app_assoc. reflexivity.
  - rewrite layout_black by lia. change (negb (1 mod 2 =? 0)) with true. change ((1 + 1) / 2 + 1) with 2.
    rewrite <- !app_assoc. reflexivity.
Qed.

Section Hd.
Variable K : zkeys.
Lemma hd_step g a g' : g_positions g <> [] -> game_step K g a = Ok g' -> hd_error (g_positions g') = hd_error (g_positions g).
Proof.
  intros NE E. unfold game_step in E. apply bind_ok in E. destruct E as (g1 & E1 & E2).
  apply update_game_status_spec in E2. destruct E2 as (after & _ & _ & _ & P1 & P2 & _). rewrite P2.
  destruct (g_status g); try discriminate; destruct a as [m|c1| | |c1]; try discriminate; try (injection E1 as <-; reflexivity).
  destruct (make_move K (g_pos g) m) as [b'| |]; try discriminate.
  unfold history_push in E1. apply bind_ok in E1. destruct E1 as (lp & _ & E1). apply bind_ok in E1. destruct E1 as (mp & _ & [= <-]).
  cbn [g_positions position_counter_increment with_pos]. destruct (g_positions g); [contradiction|reflexivity].
Qed.
Lemma hd_run l : forall g, HistInv K g -> g_positions g <> [] -> hd_error (g_positions (run K g l)) = hd_error (g_positions g).
Proof.
  induction l as [|a r IH]; intros g H NE; [reflexivity|]. cbn [run].
  destruct (game_step K g a) as [g'| |] eqn:E; try now apply IH.
  destruct (HistInv_step K g a g' H NE E) as [H' NE']. rewrite (IH g' H' NE'). eapply hd_step; eauto.
Qed.
End Hd.
