(* proofs/C14Proofs.v — the library's notation properties are the rule-level ones (spec/SanSpec.v) *)
Require Import LC.model.Prims LC.model.Tables LC.model.Board LC.model.Text LC.model.San LC.spec.Chess LC.spec.SanSpec LC.spec.Geometry
  LC.proofs.Basics LC.proofs.Bits LC.proofs.Cols LC.proofs.MaskInv LC.proofs.HashInv LC.proofs.MoveInv LC.proofs.Attack LC.proofs.TablesGeo
  LC.proofs.C05Proofs LC.proofs.C05Pins LC.proofs.C02Proofs LC.proofs.Pseudo LC.proofs.PinLemma LC.proofs.C01a LC.proofs.C01b LC.proofs.C09Proofs
  LC.proofs.C04Spec LC.proofs.C04Proofs LC.proofs.C03Proofs LC.proofs.ValidStep LC.proofs.Reach LC.proofs.Total LC.proofs.C14Spec.
From Coq Require Import Lia.
Open Scope N_scope.

(* ---------- table facts (complete sweeps) ---------- *)
Definition tab_ok (a d : square) : bool :=
  Bool.eqb (has (look KNIGHT_T a) d) (has (look KNIGHT_T d) a) && Bool.eqb (has (look ROOK_T a) d) (has (look ROOK_T d) a)
  && Bool.eqb (has (look BISHOP_T a) d) (has (look BISHOP_T d) a)
  && Bool.eqb (has (look QUEEN_T a) d) (has (look ROOK_T a) d || has (look BISHOP_T a) d)
  && obb_eqb (between a d) (between d a).
Lemma obb_eq x y : obb_eqb x y = true -> x = y.
Proof. destruct x, y; cbn; try discriminate; auto. intros H. apply N.eqb_eq in H. now subst. Qed.
Lemma tab_sweep : forallb (fun a => forallb (fun d => tab_ok a d) squares) squares = true. Proof. vm_compute. reflexivity. Qed.
Lemma tab_facts a d : a < 64 -> d < 64 ->
  has (look KNIGHT_T a) d = has (look KNIGHT_T d) a /\ has (look ROOK_T a) d = has (look ROOK_T d) a /\ has (look BISHOP_T a) d = has (look BISHOP_T d) a /\
  has (look QUEEN_T a) d = has (look ROOK_T a) d || has (look BISHOP_T a) d /\ between a d = between d a.
Proof.
  intros Ha Hd. pose proof (forallb_squares2 _ tab_sweep a d Ha Hd) as X. unfold tab_ok in X. repeat (apply andb_prop in X; destruct X as [X ?]).
  repeat match goal with Y : Bool.eqb _ _ = true |- _ => apply eqb_prop in Y end.
  match goal with Y : obb_eqb _ _ = true |- _ => apply obb_eq in Y end. auto.
Qed.

(* ---------- the candidate pre-filter keeps every piece that can pseudo-legally reach the destination ---------- *)
Definition amb_table (t : ptype) : list bb := match t with Knight => KNIGHT_T | Bishop => BISHOP_T | Rook => ROOK_T | _ => QUEEN_T end.
Definition between_filter (b : board) (t : ptype) (dst x : square) : bool :=
  match t with Knight => true | _ => is_blank (match between x dst with Some m => N.land m (m_all b) | None => 0 end) end.
Lemma bf_btw b t d s : s < 64 -> d < 64 -> t <> Knight -> between_filter b t d s = (popcount (btw_of b d s) =? 0).
Proof.
  intros Hs Hd Nt. destruct (tab_facts s d Hs Hd) as (_ & _ & _ & _ & Eb). rewrite popcount0_blank. unfold between_filter, btw_of. rewrite Eb.
  destruct t; try contradiction; destruct (between d s); try reflexivity; now rewrite N.land_comm.
Qed.
Lemma prefilter_complete b t s d : MaskInv b -> s < 64 -> d < 64 -> In t [Knight; Bishop; Rook; Queen] ->
  piece_at (abs b) s = Some (t, b_stm b) -> mem d (pseudo_dests (abs b) s) = true ->
  has (look (amb_table t) d) s && between_filter b t d s = true.
Proof.
  intros I Hs Hd Ht Hp Hm. unfold pseudo_dests in Hm. rewrite Hp in Hm.
  destruct (tab_facts s d Hs Hd) as (TK & TR & TB & _ & _). destruct (tab_facts d s Hd Hs) as (_ & _ & _ & TQ & _).
  assert (A : mem d (attacks_from (abs b) s) = true).
  { destruct t; cbn in Ht; try (exfalso; intuition discriminate); rewrite mem_filter in Hm; apply andb_prop in Hm; tauto. }
  unfold attacks_from in A. rewrite Hp in A.
  pose proof (slider_reach b rook_dirs ROOK_T d s I (line_ok_rook d s Hd Hs)) as SR.
  pose proof (slider_reach b bishop_dirs BISHOP_T d s I (line_ok_bishop d s Hd Hs)) as SB.
  destruct t; cbn in Ht; try (exfalso; intuition discriminate); cbn [amb_table slide_dirs] in *.
  - (* knight *) rewrite <- TK, (knight_table s Hs), has_of_list, A. reflexivity.
  - rewrite (bf_btw b Bishop d s Hs Hd ltac:(discriminate)), SB. exact A.
  - rewrite (bf_btw b Rook d s Hs Hd ltac:(discriminate)), SR. exact A.
  - rewrite (bf_btw b Queen d s Hs Hd ltac:(discriminate)), TQ.
    assert (A' : mem d (flat_map (reach (abs b) s) rook_dirs) || mem d (flat_map (reach (abs b) s) bishop_dirs) = true).
    { rewrite flat_map_app in A. unfold mem in *. now rewrite existsb_app in A. }
    rewrite <- SR, <- SB in A'. destruct (has (look ROOK_T d) s), (has (look BISHOP_T d) s), (popcount (btw_of b d s) =? 0); cbn in *; congruence.
Qed.

Lemma filter_filter {A} (f g : A -> bool) l : filter g (filter f l) = filter (fun x => f x && g x) l.
Proof. induction l as [|a l IH]; [reflexivity|]. cbn. destruct (f a); cbn; [destruct (g a); now rewrite IH|exact IH]. Qed.
Lemma forallb_ext_in {A} (f g : A -> bool) l : (forall x, In x l -> f x = g x) -> forallb f l = forallb g l.
Proof. induction l as [|a l IH]; intros H; [reflexivity|]. cbn. rewrite (H a (or_introl eq_refl)), IH; [reflexivity|]. intros x Hx. apply H. now right. Qed.

Section Amb.
Variable K : zkeys.
Variable b : board.
Hypothesis G : Good K b.
Let p := abs b.
Let c := b_stm b.
Lemma own_has t s : s < 64 -> has (N.land (tmask b t) (cmask b c)) s = opiece_eqb (piece_at p s) (Some (t, c)).
Proof.
  intros Hs. pose proof (proj1 (g_inv K b G)) as I. rewrite has_land, (has_tmask_cell b t s I), (has_cmask_cell b c s I). unfold p. rewrite (piece_at_abs b s I).
  destruct (cell_at b s) as [[t' c']|]; [|reflexivity]. destruct t', t, c', c; reflexivity.
Qed.
(* the function in a form that names its parts *)
Definition cands_of (t : ptype) (src dst : square) : res (list square) :=
  filter_res (fun s => is_legal_move K b (MovePiece (mk_pm t s dst None)))
    (filter (fun s => between_filter b t dst s && negb (s =? src)) (bits (N.land (look (amb_table t) dst) (N.land (tmask b t) (cmask b c))))).
Definition classify (src : square) (cands : list square) : amb :=
  match cands with
  | [] => AmbNeither
  | _ => if forallb (fun s => negb (file s =? file src)) cands then ExtraFile
         else if forallb (fun s => negb (rank s =? rank src)) cands then ExtraRank else ExtraSquare end.
Lemma gmat_unfold m : get_move_ambiguity_type K b m =
  (ok <- is_legal_move K b (MovePiece m) ;;
   if negb ok then Err EIllegalMove else
   match pm_type m with
   | Pawn => Ok (if negb (file (pm_from m) =? file (pm_to m)) then ExtraFile else AmbNeither)
   | King => Ok AmbNeither
   | t => cs <- cands_of t (pm_from m) (pm_to m) ;; Ok (classify (pm_from m) cs) end).
Proof.
  unfold get_move_ambiguity_type, cands_of, classify, amb_table, between_filter. fold c.
  destruct (is_legal_move K b (MovePiece m)) as [[]| |]; cbn [bind negb]; try reflexivity.
  destruct (pm_type m); try reflexivity;
  match goal with |- (x <- ?A ;; ?F) = (y <- ?A' ;; ?F') => destruct A as [[|? ?]| |]; cbn [bind classify]; try reflexivity end;
  repeat match goal with |- context [if ?cnd then _ else _] => destruct cnd end; reflexivity.
Qed.
Definition rivals_of (t : ptype) (src dst : square) : list square :=
  filter (fun s => negb (s =? src) && opiece_eqb (piece_at p s) (Some (t, c)) && legal p (MovePiece (mk_pm t s dst None))) squares.
Lemma rivals_of_lt t src dst s : In s (rivals_of t src dst) -> s < 64.
Proof. unfold rivals_of. rewrite filter_In. intros [H _]. now apply In_squares. Qed.
Lemma cands_spec t src dst : dst < 64 -> In t [Knight; Bishop; Rook; Queen] -> cands_of t src dst = Ok (rivals_of t src dst).
Proof.
  intros Hd Ht. destruct G as [[I HI] D V T]. unfold cands_of.
  set (M := N.land (look (amb_table t) dst) (N.land (tmask b t) (cmask b c))).
  assert (U : u64 M). { apply u64_has. intros x Hx. unfold M in Hx. rewrite !has_land in Hx. apply andb_prop in Hx. destruct Hx as [_ Hx]. apply andb_prop in Hx. destruct Hx as [Hx _]. exact (mi_tmask_small b t x I Hx). }
  rewrite (bits_spec M U).
  rewrite (filter_res_ok _ (fun s => legal p (MovePiece (mk_pm t s dst None)))).
  2:{ intros s Hin. apply filter_In in Hin. destruct Hin as [Hin _]. apply filter_In in Hin. destruct Hin as [Hin _]. apply In_squares in Hin.
      exact (is_legal_move_spec K b I D V T (MovePiece (mk_pm t s dst None)) (conj Hin Hd)). }
  f_equal. rewrite !filter_filter. unfold rivals_of. apply filter_ext'. intros s Hin. apply In_squares in Hin.
  fold (has M s). unfold M. rewrite has_land, (own_has t s Hin).
  destruct (opiece_eqb (piece_at p s) (Some (t, c))) eqn:Eo; [|now rewrite !andb_false_r].
  destruct (legal p (MovePiece (mk_pm t s dst None))) eqn:El; [|now rewrite !andb_false_r].
  apply opiece_eqb_true in Eo. cbn [legal] in El. repeat (apply andb_prop in El; destruct El as [El ?]). cbn [pm_from pm_to mk_pm] in *.
  match goal with X : mem dst (pseudo_dests p s) = true |- _ => pose proof (prefilter_complete b t s dst I Hin Hd Ht Eo X) as PC end.
  apply andb_prop in PC. destruct PC as [PC1 PC2]. rewrite PC1, PC2. cbn [andb]. now rewrite !andb_true_r.
Qed.
Lemma classify_spec src cands : src < 64 -> (forall s, In s cands -> s < 64) ->
  classify src cands = match cands with [] => AmbNeither | r =>
     if forallb (fun s => negb (sfile s =? sfile src)) r then ExtraFile else if forallb (fun s => negb (srank s =? srank src)) r then ExtraRank else ExtraSquare end.
Proof.
  intros Hs Hc. unfold classify. destruct cands as [|x l] eqn:E; [reflexivity|]. rewrite <- E in *.
  rewrite (forallb_ext_in (fun s => negb (file s =? file src)) (fun s => negb (sfile s =? sfile src)) cands).
  2:{ intros s Hin. now rewrite (file_val s (Hc s Hin)), (file_val src Hs). }
  rewrite (forallb_ext_in (fun s => negb (rank s =? rank src)) (fun s => negb (srank s =? srank src)) cands).
  2:{ intros s Hin. now rewrite (rank_val s (Hc s Hin)), (rank_val src Hs). }
  reflexivity.
Qed.
Theorem ambiguity_spec m : pm_from m < 64 -> pm_to m < 64 -> legal p (MovePiece m) = true -> get_move_ambiguity_type K b m = Ok (spec_amb p m).
Proof.
  intros Hs Hd L. rewrite gmat_unfold. destruct G as [[I HI] D V T].
  rewrite (is_legal_move_spec K b I D V T (MovePiece m) (conj Hs Hd)). fold p. rewrite L. cbn [bind negb]. unfold spec_amb.
  assert (RV : forall t, pm_type m = t -> rivals p m = rivals_of t (pm_from m) (pm_to m)).
  { intros t <-. unfold rivals, rivals_of. change (stm p) with c. reflexivity. }
  pose proof (fun t => rivals_of_lt t (pm_from m) (pm_to m)) as RL.
  destruct (pm_type m) eqn:Et.
  - rewrite (file_val _ Hs), (file_val _ Hd). reflexivity.
  - rewrite (cands_spec Knight _ _ Hd ltac:(cbn; tauto)). cbn [bind]. rewrite (classify_spec _ _ Hs (RL Knight)), (RV Knight eq_refl). generalize (rivals_of Knight (pm_from m) (pm_to m)). intros [|x l]; reflexivity.
  - rewrite (cands_spec Bishop _ _ Hd ltac:(cbn; tauto)). cbn [bind]. rewrite (classify_spec _ _ Hs (RL Bishop)), (RV Bishop eq_refl). generalize (rivals_of Bishop (pm_from m) (pm_to m)). intros [|x l]; reflexivity.
  - rewrite (cands_spec Rook _ _ Hd ltac:(cbn; tauto)). cbn [bind]. rewrite (classify_spec _ _ Hs (RL Rook)), (RV Rook eq_refl). generalize (rivals_of Rook (pm_from m) (pm_to m)). intros [|x l]; reflexivity.
  - rewrite (cands_spec Queen _ _ Hd ltac:(cbn; tauto)). cbn [bind]. rewrite (classify_spec _ _ Hs (RL Queen)), (RV Queen eq_refl). generalize (rivals_of Queen (pm_from m) (pm_to m)). intros [|x l]; reflexivity.
  - reflexivity.
Qed.
End Amb.

(* ---------- the notation properties of a move ---------- *)
Section Props.
Variable K : zkeys.
Variable b : board.
Hypothesis G : Good K b.
Let p := abs b.
Lemma check_flag b0 : MaskInv b0 -> DerivedInv b0 -> (0 <? popcount (b_checks b0)) = in_check (abs b0) (b_stm b0).
Proof.
  intros I D. rewrite <- (negb_involutive (in_check (abs b0) (b_stm b0))), <- (checks_blank b0 I D), <- popcount0_blank.
  generalize (popcount (b_checks b0)). intros [|q]; reflexivity.
Qed.
Lemma capture_flag m : is_capture_on_board m b = is_capture p m.
Proof.
  pose proof (proj1 (g_inv K b G)) as I. unfold is_capture_on_board, is_capture. rewrite is_blank_land_bit', negb_involutive.
  change (stm p) with (b_stm b). unfold p. rewrite (color_at_abs b (opp (b_stm b)) (pm_to m) I), (is_ep_eq b m). reflexivity.
Qed.
Theorem move_props_spec mv : wf_bmove mv ->
  (legal p mv = true -> move_props K mv b = Ok (spec_props p mv)) /\ (legal p mv = false -> move_props K mv b = Err EIllegalMove).
Proof.
  intros W. destruct (make_move_total K b mv G W) as [T1 T2]. fold p in T1, T2. split; intros L.
  - destruct (T1 L) as (after & E). destruct (good_step K b mv after G W E) as (_ & A & [[I' HI'] D' V' T']).
    unfold move_props. rewrite E. cbn [bind].
    assert (Ea : (match mv with MovePiece m => match pm_type m with King => Ok AmbNeither | _ => get_move_ambiguity_type K b m end | _ => Ok AmbNeither end)
                 = Ok (match mv with MovePiece m => spec_amb p m | _ => AmbNeither end)).
    { destruct mv as [m| |]; try reflexivity. destruct W as [Hs Hd].
      pose proof (ambiguity_spec K b G m Hs Hd L) as X. fold p in X. destruct (pm_type m) eqn:Et; try exact X.
      unfold spec_amb. now rewrite Et. }
    rewrite Ea. cbn [bind]. unfold spec_props. fold p in A. rewrite <- A.
    rewrite (check_flag after I' D'). unfold TermInv, no_moves in T'. rewrite T'. change (stm (abs after)) with (b_stm after).
    destruct mv as [m| |]; try reflexivity. now rewrite capture_flag.
  - unfold move_props. rewrite (T2 L). reflexivity.
Qed.
End Props.
