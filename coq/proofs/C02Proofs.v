(* proofs/C02Proofs.v — applying a rule-legal move with the library's (unchecked) application gives exactly the
   successor position the rules define *)
Require Import LC.model.Prims LC.model.Tables LC.model.Board LC.spec.Chess
  LC.proofs.Basics LC.proofs.Bits LC.proofs.Cols LC.proofs.MaskInv LC.proofs.HashInv LC.proofs.MoveInv LC.proofs.Attack LC.proofs.C05Proofs.
From Coq Require Import Lia.
Open Scope N_scope.

(* ---------- lists of 64 cells ---------- *)
Lemma nth_set_nth {A} (l : list A) : forall n k x d, nth n (set_nth k x l) d = if Nat.eqb n k then (if Nat.ltb k (length l) then x else d) else nth n l d.
Proof.
  induction l as [|y r IH]; intros n k x d.
  - destruct n, k; cbn; try reflexivity; destruct (Nat.eqb n k); reflexivity.
  - destruct k as [|k]; destruct n as [|n]; cbn [set_nth nth length Nat.eqb]; try reflexivity.
    rewrite IH. destruct (Nat.eqb n k); [|reflexivity].
    change (Nat.ltb (S k) (S (length r))) with (Nat.ltb k (length r)). reflexivity.
Qed.
Lemma set_nth_length {A} (l : list A) : forall k x, length (set_nth k x l) = length l.
Proof. induction l as [|y r IH]; intros [|k] x; cbn; auto. Qed.
Lemma put_length pl s v : length (put pl s v) = length pl.
Proof. apply set_nth_length. Qed.
Lemma nth_put pl s v x : length pl = 64%nat -> s < 64 ->
  nth (N.to_nat x) (put pl s v) None = if x =? s then v else nth (N.to_nat x) pl None.
Proof.
  intros L Hs. unfold put. rewrite nth_set_nth, L.
  assert (Nat.ltb (N.to_nat s) 64 = true) as -> by (apply Nat.ltb_lt; lia).
  destruct (N.eqb_spec x s) as [->|Hne]; [now rewrite Nat.eqb_refl|].
  assert (Nat.eqb (N.to_nat x) (N.to_nat s) = false) as -> by (apply Nat.eqb_neq; lia). reflexivity.
Qed.
Lemma abs_pl_ext b pl : length pl = 64%nat -> (forall x, x < 64 -> cell_at b x = nth (N.to_nat x) pl None) -> abs_pl b = pl.
Proof.
  intros L H. apply (nth_ext _ _ None None); [now rewrite abs_pl_length, L|].
  intros n Hn. rewrite abs_pl_length in Hn. rewrite <- (Nat2N.id n). unfold abs_pl.
  rewrite nth_map_squares by lia. apply H. lia.
Qed.

(* ---------- cells after the board primitives ---------- *)
Section Cells.
Variable K : zkeys.
Lemma cells_clear b v b' : MaskInv b -> v < 64 -> clear_square K b v = Ok b' ->
  MaskInv b' /\ same_meta b b' /\ forall x, cell_at b' x = if v =? x then None else cell_at b x.
Proof.
  intros I Hv E. destruct (clear_square_spec K b v I Hv) as (b1 & E1 & C1 & M1 & _). rewrite E in E1. injection E1 as <-.
  split; [eapply MaskInv_of_cols; eauto; apply wf_zero|]. split; [exact M1|].
  intros x. rewrite (cell_at_cols b b' v zero_col C1 x). reflexivity.
Qed.
Lemma cells_put b pc v b' : MaskInv b -> v < 64 -> put_piece K b pc v = Ok b' ->
  MaskInv b' /\ same_meta b b' /\ forall x, cell_at b' x = if v =? x then Some pc else cell_at b x.
Proof.
  intros I Hv E. destruct (put_piece_spec K b pc v I Hv) as (b1 & E1 & C1 & M1 & _). rewrite E in E1. injection E1 as <-.
  split; [eapply MaskInv_of_cols; eauto; apply wf_piece|]. split; [exact M1|].
  intros x. rewrite (cell_at_cols b b' v (piece_col pc) C1 x), cell_piece. reflexivity.
Qed.
Lemma cells_move_piece b m t0 c0 : MaskInv b -> pm_from m < 64 -> pm_to m < 64 -> cell_at b (pm_from m) = Some (t0, c0) ->
  exists b', move_piece K b m = Ok b' /\ MaskInv b' /\ same_meta b b' /\
    forall x, cell_at b' x = if pm_to m =? x then Some (match pm_promo m with Some q => q | None => pm_type m end, c0)
                             else if pm_from m =? x then None else cell_at b x.
Proof.
  intros I Hs Hd Hc. unfold move_piece. rewrite (piece_color_on_inv b _ I), Hc. cbn [option_map snd unwrap_o bind].
  destruct (clear_square_spec K b (pm_from m) I Hs) as (b1 & E1 & _). rewrite E1. cbn [bind].
  destruct (cells_clear b (pm_from m) b1 I Hs E1) as (I1 & M1 & C1).
  destruct (put_piece_spec K b1 (match pm_promo m with Some q => q | None => pm_type m end, c0) (pm_to m) I1 Hd) as (b2 & E2 & _).
  exists b2. split; [exact E2|]. destruct (cells_put b1 _ (pm_to m) b2 I1 Hd E2) as (I2 & M2 & C2).
  split; [exact I2|]. split; [eapply same_meta_trans; eauto|]. intros x. rewrite C2, C1. reflexivity.
Qed.
End Cells.

(* ---------- pawn geometry (finite sweep) ---------- *)
Definition pawn_reach (c : color) (s : square) : list square :=
  (match step s (fwd c, 0%Z) with Some t => [t] | None => [] end)
  ++ (if srank s =? start_rank c then match step s ((2 * fwd c)%Z, 0%Z) with Some t => [t] | None => [] end else [])
  ++ steps s [(fwd c, 1%Z); (fwd c, (-1)%Z)].
Definition ep_rank (c : color) : N := match c with White => 5 | Black => 2 end.
Definition model_victim (c : color) (d : square) : res square := unwrap (match c with White => sq_down d | Black => sq_up d end).
Definition res_is (r : res square) (v : square) := match r with Ok x => x =? v | _ => false end.
Definition pawn_geo_ok (c : color) (s d : square) : bool :=
  negb (mem d (pawn_reach c s)) ||
  ((negb (srank d =? ep_rank c) || (res_is (model_victim c d) (smk (srank s) (sfile d)) && negb (smk (srank s) (sfile d) =? d)))
   && (negb (absdiff (srank s) (srank d) =? 2) || ((sfile d =? sfile s) && (d <? 64)))
   && (d <? 64)).
Lemma pawn_geo_sweep : forallb (fun c => forallb (fun s => forallb (fun d => pawn_geo_ok c s d) squares) squares) all_colors = true.
Proof. vm_compute. reflexivity. Qed.
Lemma pawn_dests_reach p c s d : mem d (pawn_dests p c s) = true -> mem d (pawn_reach c s) = true.
Proof.
  unfold pawn_dests, pawn_reach. rewrite !mem_app. intros H. apply orb_prop in H. destruct H as [H|H].
  - destruct (step s (fwd c, 0%Z)); [|discriminate]. destruct (occupied p s0); [discriminate|]. now rewrite H.
  - apply orb_prop in H. destruct H as [H|H].
    + destruct (srank s =? start_rank c); [|discriminate]. destruct (step s (fwd c, 0%Z)); [|discriminate].
      destruct (step s ((2 * fwd c)%Z, 0%Z)); [|discriminate]. destruct (_ || _); [discriminate|]. rewrite H. apply orb_true_r.
    + apply mem_true in H. apply filter_In in H. destruct H as [H _]. apply mem_true in H. rewrite H. now rewrite !orb_true_r.
Qed.
Lemma srank_val s : srank s = s / 8. Proof. reflexivity. Qed.

(* ---------- fields after the update functions ---------- *)
Section Fields.
Variable K : zkeys.
Lemma set_castling_fields b c r : let b' := set_castling_rights K b c r in
  (forall x, col_of b' x = col_of b x) /\ b_stm b' = b_stm b /\ b_ep b' = b_ep b /\ b_half b' = b_half b /\ b_full b' = b_full b /\
  rights_of b' c = r /\ rights_of b' (opp c) = rights_of b (opp c).
Proof. unfold set_castling_rights. destruct (cr_eqb (rights_of b c) r); destruct c; repeat split. Qed.
Lemma set_side_fields b c : let b' := set_side_to_move K b c in
  (forall x, col_of b' x = col_of b x) /\ b_stm b' = c /\ b_ep b' = b_ep b /\ b_half b' = b_half b /\ b_full b' = b_full b /\ b_wr b' = b_wr b /\ b_br b' = b_br b.
Proof.
  unfold set_side_to_move. destruct (color_eqb c (b_stm b)) eqn:E; repeat split.
  destruct c, (b_stm b); try discriminate; reflexivity.
Qed.
Lemma set_ep_fields b e : let b' := set_en_passant K b e in
  (forall x, col_of b' x = col_of b x) /\ b_stm b' = b_stm b /\ b_ep b' = e /\ b_half b' = b_half b /\ b_full b' = b_full b /\ b_wr b' = b_wr b /\ b_br b' = b_br b.
Proof. repeat split. Qed.

Definition rights_after (p : pos) (mv : bmove) (x : color) : cr :=
  match x with White => rights_w (apply p mv) | Black => rights_b (apply p mv) end.
(* update_castling_rights against the rule, for a position whose held rights have their rooks at home *)
Lemma cr_of_bits_id r : cr_of_bits (has_kingside r) (has_queenside r) = r. Proof. now destruct r. Qed.
End Fields.

Lemma corners_eq c : mk_sq (back_rank c) 7 = corner c true /\ mk_sq (back_rank c) 0 = corner c false /\ corner c true <> corner c false
  /\ mk_sq (back_rank c) 4 = smk (home_rank c) 4.
Proof. destruct c; repeat split; discriminate. Qed.
Lemma own_rights_rule (r : cr) (t : ptype) (s kc qc : square) : kc <> qc ->
  cr_sub r (match t with
            | Rook => if s =? kc then KingSide else if s =? qc then QueenSide else Neither
            | King => BothSides | _ => Neither end)
  = cr_of_bits (has_kingside r && negb (ptype_eqb t King || (ptype_eqb t Rook && (s =? kc))))
               (has_queenside r && negb (ptype_eqb t King || (ptype_eqb t Rook && (s =? qc)))).
Proof.
  intros Hne. destruct (s =? kc) eqn:E1, (s =? qc) eqn:E2.
  - apply N.eqb_eq in E1, E2. congruence.
  - destruct r, t; reflexivity.
  - destruct r, t; reflexivity.
  - destruct r, t; reflexivity.
Qed.
Lemma opp_rights_rule (r : cr) (d kc qc : square) (rk rq : bool) : kc <> qc ->
  (has_kingside r = true -> d = kc -> rk = true) -> (has_queenside r = true -> d = qc -> rq = true) ->
  cr_sub r (if d =? kc then KingSide else if d =? qc then QueenSide else Neither)
  = cr_of_bits (has_kingside r && negb ((d =? kc) && rk)) (has_queenside r && negb ((d =? qc) && rq)).
Proof.
  intros Hne Hk Hq. destruct (d =? kc) eqn:E1, (d =? qc) eqn:E2.
  - apply N.eqb_eq in E1, E2. congruence.
  - apply N.eqb_eq in E1. destruct r; cbn in *; try rewrite (Hk eq_refl E1); reflexivity.
  - apply N.eqb_eq in E2. destruct r; cbn in *; try rewrite (Hq eq_refl E2); reflexivity.
  - destruct r; reflexivity.
Qed.

(* ---------- what make_move_unchecked does after the pieces have been moved ---------- *)
Section Finish.
Variable K : zkeys.
Definition opp_loss (c : color) (mv : bmove) : cr :=
  match mv with
  | MovePiece m => if pm_to m =? mk_sq (back_rank (opp c)) 7 then KingSide else if pm_to m =? mk_sq (back_rank (opp c)) 0 then QueenSide else Neither
  | _ => Neither end.
Definition own_loss (c : color) (mv : bmove) : cr :=
  match mv with
  | MovePiece m => match pm_type m with
                   | Rook => if pm_from m =? mk_sq (back_rank c) 7 then KingSide else if pm_from m =? mk_sq (back_rank c) 0 then QueenSide else Neither
                   | King => BothSides | _ => Neither end
  | _ => BothSides end.
Definition ep_after (mv : bmove) : option square :=
  match mv with
  | MovePiece m =>
      let sr := rank (pm_from m) in let dr := rank (pm_to m) in
      let diff := if sr <=? dr then dr - sr else sr - dr in
      if ptype_eqb (pm_type m) Pawn && (diff =? 2) then Some (mk_sq ((sr + dr) / 2) (file (pm_to m))) else None
  | _ => None end.
Lemma cr_sub_neither r z : (if negb (cr_eqb r Neither) then cr_sub r z else r) = cr_sub r z.
Proof. destruct r, z; reflexivity. Qed.
Lemma update_castling_fields b mv : let b' := update_castling_rights K b mv in
  (forall x, col_of b' x = col_of b x) /\ b_stm b' = b_stm b /\ b_ep b' = b_ep b /\ b_half b' = b_half b /\ b_full b' = b_full b /\
  rights_of b' (b_stm b) = cr_sub (rights_of b (b_stm b)) (own_loss (b_stm b) mv) /\
  rights_of b' (opp (b_stm b)) = cr_sub (rights_of b (opp (b_stm b))) (opp_loss (b_stm b) mv).
Proof.
  unfold update_castling_rights. set (c := b_stm b). set (o := opp c).
  set (b1 := match mv with MovePiece m => if negb (cr_eqb (rights_of b o) Neither) then _ else b | _ => b end).
  assert (H1 : (forall x, col_of b1 x = col_of b x) /\ b_stm b1 = c /\ b_ep b1 = b_ep b /\ b_half b1 = b_half b /\ b_full b1 = b_full b /\
               rights_of b1 c = rights_of b c /\ rights_of b1 o = cr_sub (rights_of b o) (opp_loss c mv)).
  { subst b1. destruct mv as [m| |]; cbn [opp_loss].
    - destruct (negb (cr_eqb (rights_of b o) Neither)) eqn:En.
      + pose proof (set_castling_fields K b o (cr_sub (rights_of b o) (if pm_to m =? mk_sq (back_rank o) 7 then KingSide else if pm_to m =? mk_sq (back_rank o) 0 then QueenSide else Neither))) as F.
        cbv zeta in F. destruct F as (F1 & F2 & F3 & F4 & F5 & F6 & F7). repeat split; try assumption.
        replace c with (opp o) by (subst o c; now destruct (b_stm b)). exact F7.
      + repeat split. assert (rights_of b o = Neither) as -> by (destruct (rights_of b o); try discriminate; reflexivity). now destruct (if _ =? _ then _ else _).
    - repeat split. now destruct (rights_of b o).
    - repeat split. now destruct (rights_of b o). }
  destruct H1 as (A1 & A2 & A3 & A4 & A5 & A6 & A7).
  assert (Ey : match mv with MovePiece m => match pm_type m with
           | Rook => if pm_from m =? mk_sq (back_rank c) 7 then KingSide else if pm_from m =? mk_sq (back_rank c) 0 then QueenSide else Neither
           | King => BothSides | _ => Neither end | _ => BothSides end = own_loss c mv) by reflexivity.
  rewrite Ey. destruct (negb (cr_eqb (rights_of b1 c) Neither)) eqn:En.
  - pose proof (set_castling_fields K b1 c (cr_sub (rights_of b1 c) (own_loss c mv))) as F. cbv zeta in F.
    destruct F as (F1 & F2 & F3 & F4 & F5 & F6 & F7).
    split; [intros x; rewrite F1; apply A1|]. split; [congruence|]. split; [congruence|]. split; [congruence|]. split; [congruence|].
    split; [rewrite F6, A6; reflexivity|]. unfold o in *. rewrite F7. exact A7.
  - repeat split; try assumption. rewrite A6 in En |- *. 
    assert (rights_of b c = Neither) as -> by (destruct (rights_of b c); try discriminate; reflexivity). now destruct (own_loss c mv).
Qed.
End Finish.

Section Finish2.
Variable K : zkeys.
Lemma clocks_fields b mv cap : let b3 := update_moves_since_capture (update_move_number b) mv cap in
  (forall x, col_of b3 x = col_of b x) /\ b_stm b3 = b_stm b /\ b_ep b3 = b_ep b /\ b_wr b3 = b_wr b /\ b_br b3 = b_br b /\
  b_half b3 = (match mv with MovePiece m => if ptype_eqb (pm_type m) Pawn || cap then 0 else b_half b + 1 | _ => b_half b + 1 end) /\
  b_full b3 = (match b_stm b with Black => b_full b + 1 | White => b_full b end).
Proof.
  cbv zeta. unfold update_moves_since_capture, update_move_number.
  destruct mv as [m| |]; [destruct (ptype_eqb (pm_type m) Pawn || cap)| |]; destruct (b_stm b) eqn:Es; cbn; rewrite ?Es; repeat split.
Qed.
Definition finish_facts (b1 : board) (mv : bmove) (cap : bool) (b' : board) : Prop :=
  (forall x, col_of b' x = col_of b1 x) /\ b_stm b' = opp (b_stm b1) /\ b_ep b' = ep_after mv /\
  b_half b' = (match mv with MovePiece m => if ptype_eqb (pm_type m) Pawn || cap then 0 else b_half b1 + 1 | _ => b_half b1 + 1 end) /\
  b_full b' = (match b_stm b1 with Black => b_full b1 + 1 | White => b_full b1 end) /\
  rights_of b' (b_stm b1) = cr_sub (rights_of b1 (b_stm b1)) (own_loss (b_stm b1) mv) /\
  rights_of b' (opp (b_stm b1)) = cr_sub (rights_of b1 (opp (b_stm b1))) (opp_loss (b_stm b1) mv).
Lemma finish_facts_any b1 mv cap pp cc f :
  finish_facts b1 mv cap (with_term (with_pc (update_en_passant K (set_side_to_move K (update_castling_rights K (update_moves_since_capture (update_move_number b1) mv cap) mv) (opp (b_stm b1))) mv) pp cc) f).
Proof.
  unfold finish_facts.
  set (b3 := update_moves_since_capture (update_move_number b1) mv cap) in *.
  destruct (clocks_fields b1 mv cap) as (C1 & C2 & C3 & C4 & C5 & C6 & C7). fold b3 in C1, C2, C3, C4, C5, C6, C7.
  destruct (update_castling_fields K b3 mv) as (U1 & U2 & U3 & U4 & U5 & U6 & U7).
  set (b4 := update_castling_rights K b3 mv) in *.
  destruct (set_side_fields K b4 (opp (b_stm b1))) as (S1 & S2 & S3 & S4 & S5 & S6 & S7).
  set (b5 := set_side_to_move K b4 (opp (b_stm b1))) in *.
  assert (E6 : (forall x, col_of (update_en_passant K b5 mv) x = col_of b5 x) /\ b_stm (update_en_passant K b5 mv) = b_stm b5 /\
               b_ep (update_en_passant K b5 mv) = ep_after mv /\ b_half (update_en_passant K b5 mv) = b_half b5 /\
               b_full (update_en_passant K b5 mv) = b_full b5 /\ b_wr (update_en_passant K b5 mv) = b_wr b5 /\ b_br (update_en_passant K b5 mv) = b_br b5).
  { unfold update_en_passant, ep_after. destruct mv as [m| |]; try (repeat split; fail). destruct (_ && _); repeat split. }
  destruct E6 as (P1 & P2 & P3 & P4 & P5 & P6 & P7).
  set (b6 := update_en_passant K b5 mv) in *.
  cbn [col_of with_term with_pc b_stm b_ep b_half b_full rights_of b_wr b_br m_pawn m_knight m_bishop m_rook m_queen m_king m_white m_black m_all].
  change (col_of (with_term (with_pc b6 pp cc) f)) with (col_of b6).
  split; [intros x; rewrite P1, S1, U1, C1; reflexivity|].
  split; [rewrite P2, S2; reflexivity|]. split; [exact P3|]. split; [rewrite P4, S4, U4, C6; reflexivity|]. split; [rewrite P5, S5, U5, C7; reflexivity|].
  rewrite C2 in U6, U7.
  assert (R : forall x, rights_of (with_term (with_pc b6 pp cc) f) x = rights_of b4 x).
  { intros x. destruct x; cbn [rights_of with_term with_pc b_wr b_br]; [rewrite P6, S6|rewrite P7, S7]; reflexivity. }
  assert (R3 : forall x, rights_of b3 x = rights_of b1 x) by (intros x; destruct x; cbn [rights_of]; [exact C4|exact C5]).
  rewrite !R, U6, U7, !R3. split; reflexivity.
Qed.
Lemma finish_spec_gen b1 mv cap b7 f :
  update_pins_and_checks (update_en_passant K (set_side_to_move K (update_castling_rights K (update_moves_since_capture (update_move_number b1) mv cap) mv) (opp (b_stm b1))) mv) = Ok b7 -> finish_facts b1 mv cap (with_term b7 f).
Proof.
  intros E7.
  unfold update_pins_and_checks in E7. apply bind_ok in E7. destruct E7 as (k & _ & E7). apply bind_ok in E7. destruct E7 as ([pp cc] & _ & [= <-]).
  apply finish_facts_any.
Qed.
Lemma finish_spec b1 mv cap b' :
  (b7 <- update_pins_and_checks (update_en_passant K (set_side_to_move K (update_castling_rights K (update_moves_since_capture (update_move_number b1) mv cap) mv) (opp (b_stm b1))) mv) ;;
   update_terminal_status K b7) = Ok b' -> finish_facts b1 mv cap b'.
Proof.
  intros E. apply bind_ok in E. destruct E as (b7 & E7 & E).
  unfold update_terminal_status in E. apply bind_ok in E. destruct E as (f & _ & [= <-]). now apply finish_spec_gen.
Qed.
End Finish2.

Section Main.
Variable K : zkeys.
Lemma valid_parts p : valid p = true ->
  length (placement p) = 64%nat /\ right_ok p White = true /\ right_ok p Black = true /\ ep_ok p = true.
Proof.
  unfold valid. intros H. repeat (apply andb_prop in H; destruct H as [H ?]). apply Nat.eqb_eq in H. auto.
Qed.
Lemma opiece_eqb_true a b : opiece_eqb a b = true -> a = b.
Proof. destruct a as [[[] []]|], b as [[[] []]|]; cbn; try discriminate; reflexivity. Qed.
Lemma cell_cols b b' : (forall x, col_of b' x = col_of b x) -> forall x, cell_at b' x = cell_at b x.
Proof. intros H x. unfold cell_at. now rewrite H. Qed.
Lemma rights_abs b c : rights (abs b) c = rights_of b c. Proof. now destruct c. Qed.
Lemma right_ok_rook p c (side : bool) : right_ok p c = true -> (if side then right_k p c else right_q p c) = true ->
  opiece_eqb (piece_at p (corner c side)) (Some (Rook, c)) = true.
Proof.
  unfold right_ok. intros H Hr. apply andb_prop in H. destruct H as [H H3]. apply andb_prop in H. destruct H as [_ H2].
  destruct side; [rewrite Hr in H2; exact H2|rewrite Hr in H3; exact H3].
Qed.

Lemma pieces_spec b m : MaskInv b -> valid (abs b) = true -> legal (abs b) (MovePiece m) = true ->
  pm_from m < 64 -> pm_to m < 64 ->
  let c := b_stm b in
  exists b1, (x <- move_piece K b m ;; clear_square_if_en_passant K x m) = Ok b1 /\ MaskInv b1 /\
  (b_stm b1 = c /\ rights_of b1 c = rights_of b c /\ rights_of b1 (opp c) = rights_of b (opp c) /\ b_half b1 = b_half b /\ b_full b1 = b_full b /\
     forall y, y < 64 -> cell_at b1 y = nth (N.to_nat y) (placement (apply_pm (abs b) m)) None).
Proof.
  intros I V L Hs Hd. destruct (valid_parts _ V) as (Vlen & VrW & VrB & Vep).
  cbn [legal] in L. apply andb_prop in L. destruct L as [L _]. apply andb_prop in L. destruct L as [L _]. apply andb_prop in L. destruct L as [L1 L2].
  apply opiece_eqb_true in L1. rewrite (piece_at_abs b _ I) in L1. change (stm (abs b)) with (b_stm b) in L1.
  set (s := pm_from m) in *. set (d := pm_to m) in *. set (t := pm_type m) in *. set (c := b_stm b) in *.
  cbv zeta. fold c.
  destruct (cells_move_piece K b m t c I Hs Hd L1) as (x & Ex & Ix & Mx & Cx). fold s d t in Cx.
  assert (Hep : is_en_passant_move m x = is_ep_capture (abs b) m).
  { unfold is_en_passant_move, is_ep_capture. destruct Mx as (_ & _ & _ & Mep & _). rewrite Mep. cbn [ep abs]. fold t d.
    destruct (b_ep b); [|now rewrite andb_false_r]. cbn [osq_eqb]. now rewrite (N.eqb_sym d s0). }
  assert (G : exists b1, clear_square_if_en_passant K x m = Ok b1 /\ MaskInv b1 /\ (b_stm b1 = c /\ rights_of b1 c = rights_of b c /\ rights_of b1 (opp c) = rights_of b (opp c) /\ b_half b1 = b_half b /\ b_full b1 = b_full b /\
     forall y, y < 64 -> cell_at b1 y = nth (N.to_nat y) (placement (apply_pm (abs b) m)) None)).
  { unfold clear_square_if_en_passant. rewrite Hep. unfold apply_pm. cbn [placement]. fold s d t c.
    change (stm (abs b)) with c. change (placement (abs b)) with (abs_pl b).
    destruct (is_ep_capture (abs b) m) eqn:Eep.
    - (* en passant: the victim square *)
      unfold is_ep_capture in Eep. apply andb_prop in Eep. destruct Eep as [Et Ee]. fold t in Et. cbn [ep abs] in Ee.
      assert (Hmem : mem d (pawn_reach c s) = true).
      { apply pawn_dests_reach with (p := abs b). unfold pseudo_dests in L2. rewrite (piece_at_abs b s I), L1 in L2.
        destruct t; try discriminate. exact L2. }
      assert (Hrank : srank d =? ep_rank c = true).
      { unfold ep_ok in Vep. cbn [ep abs stm] in Vep. destruct (b_ep b) as [e|]; [|discriminate]. cbn [osq_eqb] in Ee. apply N.eqb_eq in Ee. subst e.
        repeat (apply andb_prop in Vep; destruct Vep as [Vep ?]). fold c in Vep. destruct c; exact Vep. }
      pose proof pawn_geo_sweep as G. rewrite forallb_forall in G. specialize (G c ltac:(destruct c; cbn; tauto)).
      pose proof (forallb_squares2 _ G s d Hs Hd) as G2. unfold pawn_geo_ok in G2. rewrite Hmem, Hrank in G2. cbn [negb orb] in G2.
      apply andb_prop in G2. destruct G2 as [G2 _]. apply andb_prop in G2. destruct G2 as [G2 _]. apply andb_prop in G2. destruct G2 as [Gv Gne].
      unfold res_is, model_victim in Gv. destruct Mx as (Mstm & Mwr & Mbr & Mep & _ & _ & _ & Mh & Mf). rewrite Mstm. fold c d.
      destruct (unwrap (match c with White => sq_down d | Black => sq_up d end)) as [v| |] eqn:Ev; try discriminate Gv.
      apply N.eqb_eq in Gv. subst v. cbn [bind]. set (v := smk (srank s) (sfile d)) in *.
      assert (Hv : v < 64).
      { unfold v, smk, srank, sfile. assert (s / 8 < 8) by (apply N.div_lt_upper_bound; lia). assert (d mod 8 < 8) by (apply N.mod_lt; lia). lia. }
      destruct (clear_square_spec K x v Ix Hv) as (b1 & E1 & _). exists b1. split; [exact E1|].
      destruct (cells_clear K x v b1 Ix Hv E1) as (I1 & M1 & C1). split; [exact I1|]. destruct M1 as (N1 & N2 & N3 & _ & _ & _ & _ & N8 & N9).
      assert (Rall : forall z, rights_of b1 z = rights_of b z) by (intros []; cbn [rights_of]; [rewrite N2; exact Mwr|rewrite N3; exact Mbr]).
      split; [rewrite N1; exact Mstm|]. split; [apply Rall|]. split; [apply Rall|].
      split; [rewrite N8; exact Mh|]. split; [rewrite N9; exact Mf|].
      intros y Hy. rewrite C1, Cx.
      rewrite (nth_put _ d _ y) by (rewrite ?put_length, ?abs_pl_length; auto).
      rewrite (nth_put _ s _ y) by (rewrite ?put_length, ?abs_pl_length; auto).
      rewrite (nth_put _ v _ y) by (rewrite ?abs_pl_length; auto).
      unfold abs_pl. rewrite nth_map_squares by exact Hy.
      apply negb_true_iff in Gne. rewrite (N.eqb_sym v y), (N.eqb_sym d y), (N.eqb_sym s y).
      destruct (N.eqb_spec y v) as [->|]; [rewrite Gne; destruct (v =? s); reflexivity|reflexivity].
    - exists x. split; [reflexivity|]. split; [exact Ix|]. destruct Mx as (Mstm & Mwr & Mbr & Mep & _ & _ & _ & Mh & Mf).
      assert (Rall : forall z, rights_of x z = rights_of b z) by (intros []; cbn [rights_of]; assumption).
      split; [exact Mstm|]. split; [apply Rall|]. split; [apply Rall|].
      split; [exact Mh|]. split; [exact Mf|].
      intros y Hy. rewrite Cx.
      rewrite (nth_put _ d _ y) by (rewrite ?put_length, ?abs_pl_length; auto).
      rewrite (nth_put _ s _ y) by (rewrite ?abs_pl_length; auto).
      unfold abs_pl. rewrite nth_map_squares by exact Hy. rewrite (N.eqb_sym d y), (N.eqb_sym s y). reflexivity. }
  destruct G as (b1 & E1 & I1 & G). exists b1. split; [rewrite Ex; cbn [bind]; exact E1|]. split; [exact I1|exact G].
Qed.
Lemma res_ok_inj {A} (x y : A) : @Ok A x = Ok y -> x = y. Proof. now intros [= ->]. Qed.
Lemma piece_assemble b m b1 b' : MaskInv b -> valid (abs b) = true -> legal (abs b) (MovePiece m) = true ->
  pm_from m < 64 -> pm_to m < 64 ->
  (b_stm b1 = b_stm b /\ rights_of b1 (b_stm b) = rights_of b (b_stm b) /\ rights_of b1 (opp (b_stm b)) = rights_of b (opp (b_stm b)) /\ b_half b1 = b_half b /\ b_full b1 = b_full b /\
     forall y, y < 64 -> cell_at b1 y = nth (N.to_nat y) (placement (apply_pm (abs b) m)) None) ->
  finish_facts b1 (MovePiece m) (is_capture_on_board m b) b' -> abs b' = apply (abs b) (MovePiece m).
Proof.
  intros I V L Hs Hd Hstm1 FF. destruct (valid_parts _ V) as (Vlen & VrW & VrB & Vep).
  cbn [legal] in L. apply andb_prop in L. destruct L as [L _]. apply andb_prop in L. destruct L as [L _]. apply andb_prop in L. destruct L as [L1 L2].
  apply opiece_eqb_true in L1. rewrite (piece_at_abs b _ I) in L1. change (stm (abs b)) with (b_stm b) in L1.
  set (s := pm_from m) in *. set (d := pm_to m) in *. set (t := pm_type m) in *. set (c := b_stm b) in *.
  destruct Hstm1 as (S1 & Rc1 & Ro1 & Hh1 & Hf1 & Cells1).
  unfold finish_facts in FF. rewrite S1 in FF. destruct FF as (F1 & F2 & F3 & F4 & F5 & F6 & F7).
  (* assemble the record *)
  assert (Hcap : is_capture_on_board m b = is_capture (abs b) m).
  { unfold is_capture_on_board, is_capture. rewrite is_blank_land_bit', negb_involutive. change (stm (abs b)) with c. fold c d.
    rewrite (color_at_abs b (opp c) d I). f_equal. unfold is_en_passant_move, is_ep_capture. cbn [ep abs]. fold t d.
    destruct (b_ep b); [|now rewrite andb_false_r]. cbn [osq_eqb]. now rewrite (N.eqb_sym d s0). }
  destruct (corners_eq c) as (Kc & Qc & Nc & _). destruct (corners_eq (opp c)) as (Ko & Qo & No & _).
  assert (Hown : rights_of b' c = cr_of_bits
            (right_k (abs b) c && negb (ptype_eqb t King || (ptype_eqb t Rook && (s =? corner c true))))
            (right_q (abs b) c && negb (ptype_eqb t King || (ptype_eqb t Rook && (s =? corner c false))))).
  { rewrite F6, Rc1. unfold own_loss. fold t s. rewrite Kc, Qc. unfold right_k, right_q. rewrite rights_abs.
    apply own_rights_rule. exact Nc. }
  assert (Hopp : rights_of b' (opp c) = cr_of_bits
            (right_k (abs b) (opp c) && negb ((d =? corner (opp c) true) && opiece_eqb (piece_at (abs b) d) (Some (Rook, opp c))))
            (right_q (abs b) (opp c) && negb ((d =? corner (opp c) false) && opiece_eqb (piece_at (abs b) d) (Some (Rook, opp c))))).
  { rewrite F7, Ro1. unfold opp_loss. fold d. rewrite Ko, Qo. unfold right_k, right_q. rewrite rights_abs.
    apply opp_rights_rule; [exact No| |].
    - intros Hr ->. apply (right_ok_rook (abs b) (opp c) true); [destruct c; assumption|]. unfold right_k. now rewrite rights_abs.
    - intros Hr ->. apply (right_ok_rook (abs b) (opp c) false); [destruct c; assumption|]. unfold right_q. now rewrite rights_abs. }
  assert (Rw : forall x, rights_of b' x = match x with White => b_wr b' | Black => b_br b' end) by (intros []; reflexivity).
  unfold abs. cbn [apply]. unfold apply_pm. cbn [stm placement rights_w rights_b ep half full]. fold s d t c.
  change (stm (abs b)) with c. change (half (abs b)) with (b_half b). change (full (abs b)) with (b_full b).
  f_equal.
  - apply abs_pl_ext; [rewrite !put_length; destruct (is_ep_capture _ _); rewrite ?put_length; apply abs_pl_length|].
    intros y Hy. rewrite (cell_cols b1 b' F1 y). rewrite (Cells1 y Hy). unfold apply_pm. cbn [placement]. reflexivity.
  - exact F2.
  - (* white rights *) rewrite <- (Rw White). destruct c; cbn [color_eqb]; [apply Hown|apply Hopp].
  - (* black rights *) rewrite <- (Rw Black). destruct c; cbn [color_eqb]; [apply Hopp|apply Hown].
  - (* en passant square *)
    rewrite F3. unfold ep_after. fold s d t. rewrite (rank_val s Hs), (rank_val d Hd), <- !srank_val. unfold absdiff.
    destruct (ptype_eqb t Pawn) eqn:Et; [|reflexivity]. cbn [andb].
    destruct ((if srank s <=? srank d then srank d - srank s else srank s - srank d) =? 2) eqn:Ed; [|reflexivity].
    assert (Hmem : mem d (pawn_reach c s) = true).
    { apply pawn_dests_reach with (p := abs b). unfold pseudo_dests in L2. rewrite (piece_at_abs b s I), L1 in L2.
      destruct t; try discriminate. exact L2. }
    pose proof pawn_geo_sweep as G. rewrite forallb_forall in G. specialize (G c ltac:(destruct c; cbn; tauto)).
    pose proof (forallb_squares2 _ G s d Hs Hd) as G2. unfold pawn_geo_ok in G2. rewrite Hmem in G2. cbn [negb orb] in G2.
    apply andb_prop in G2. destruct G2 as [G2 _]. apply andb_prop in G2. destruct G2 as [_ G2]. unfold absdiff in G2. rewrite Ed in G2. cbn [negb orb] in G2.
    apply andb_prop in G2. destruct G2 as [G2 _]. apply N.eqb_eq in G2.
    f_equal. rewrite (file_val d Hd). fold (sfile d). rewrite G2. unfold smk.
    assert (srank s < 8 /\ srank d < 8) as [Hs8 Hd8] by (unfold srank; split; apply N.div_lt_upper_bound; lia).
    rewrite mk_sq_val; [reflexivity| |unfold sfile; apply N.mod_lt; lia].
    apply N.div_lt_upper_bound; lia.
  - (* half-move clock *) rewrite F4, Hh1, Hcap. reflexivity.
  - (* move number *) rewrite F5, Hf1. reflexivity.
Qed.
Theorem piece_move_refines b m b' : MaskInv b -> valid (abs b) = true -> legal (abs b) (MovePiece m) = true ->
  pm_from m < 64 -> pm_to m < 64 -> make_move_unchecked K b (MovePiece m) = Ok b' -> abs b' = apply (abs b) (MovePiece m).
Proof.
  intros I V L Hs Hd E.
  unfold make_move_unchecked in E. apply bind_ok in E. destruct E as (b1 & E1 & E).
  destruct (pieces_spec b m I V L Hs Hd) as (b1' & E1' & _ & Hstm1). rewrite E1' in E1. apply res_ok_inj in E1. subst b1'.
  apply finish_spec in E. exact (piece_assemble b m b1 b' I V L Hs Hd Hstm1 E).
Qed.
End Main.

Section Castle.
Variable K : zkeys.
Definition castle_facts (b : board) (side : bool) (b1 : board) : Prop :=
  let c := b_stm b in let r := back_rank c in
  let e := mk_sq r 4 in let kt := mk_sq r (if side then 6 else 2) in let rf := mk_sq r (if side then 7 else 0) in let rt := mk_sq r (if side then 5 else 3) in
  b_stm b1 = c /\ (forall z, rights_of b1 z = rights_of b z) /\ b_half b1 = b_half b /\ b_full b1 = b_full b /\
  forall y, cell_at b1 y = if rt =? y then Some (Rook, c) else if rf =? y then None else if kt =? y then Some (King, c) else if e =? y then None else cell_at b y.
Lemma castle_pieces b (side : bool) : MaskInv b -> valid (abs b) = true -> legal (abs b) (if side then CastleK else CastleQ) = true ->
  exists b1, MaskInv b1 /\
     make_move_unchecked K b (if side then CastleK else CastleQ) =
       (b7 <- update_pins_and_checks (update_en_passant K (set_side_to_move K (update_castling_rights K (update_moves_since_capture (update_move_number b1) (if side then CastleK else CastleQ) false) (if side then CastleK else CastleQ)) (opp (b_stm b1))) (if side then CastleK else CastleQ)) ;; update_terminal_status K b7) /\
     castle_facts b side b1.
Proof.
  intros I V L. destruct (valid_parts _ V) as (Vlen & _).
  assert (L' : castle_legal (abs b) side = true) by (destruct side; exact L). clear L.
  unfold castle_legal in L'. repeat (apply andb_prop in L'; destruct L' as [L' ?]).
  change (stm (abs b)) with (b_stm b) in *. set (c := b_stm b) in *.
  match goal with H : opiece_eqb (piece_at (abs b) (smk (home_rank c) 4)) _ = true |- _ => apply opiece_eqb_true in H; rewrite (piece_at_abs b _ I) in H; rename H into Hking end.
  match goal with H : opiece_eqb (piece_at (abs b) (corner c side)) _ = true |- _ => apply opiece_eqb_true in H; rewrite (piece_at_abs b _ I) in H; rename H into Hrook end.
  set (r := back_rank c).
  set (e := mk_sq r 4). set (kt := mk_sq r (if side then 6 else 2)). set (rf := mk_sq r (if side then 7 else 0)). set (rt := mk_sq r (if side then 5 else 3)).
  assert (Sq : e = smk (home_rank c) 4 /\ rf = corner c side /\ kt = smk (home_rank c) (if side then 6 else 2) /\ rt = smk (home_rank c) (if side then 5 else 3)
               /\ e < 64 /\ kt < 64 /\ rf < 64 /\ rt < 64 /\ e <> kt /\ e <> rf /\ e <> rt /\ kt <> rf /\ kt <> rt /\ rf <> rt).
  { subst e kt rf rt r. destruct c, side; cbv; repeat split; try reflexivity; discriminate. }
  destruct Sq as (Ee & Erf & Ekt & Ert & He & Hkt & Hrf & Hrt & D1 & D2 & D3 & D4 & D5 & D6).
  rewrite <- Ee in Hking. rewrite <- Erf in Hrook.
  unfold castle_facts. cbv zeta. fold c. fold r. fold e kt rf rt.
  { destruct (cells_move_piece K b (mk_pm King e kt None) King c I He Hkt Hking) as (x & Ex & Ix & Mx & Cx). cbn [pm_from pm_to pm_promo pm_type mk_pm] in Cx.
    assert (Hrx : cell_at x rf = Some (Rook, c)).
    { rewrite Cx. destruct (N.eqb_spec kt rf); [congruence|]. destruct (N.eqb_spec e rf); [congruence|]. exact Hrook. }
    destruct (cells_move_piece K x (mk_pm Rook rf rt None) Rook c Ix Hrf Hrt Hrx) as (y & Ey & Iy & My & Cy). cbn [pm_from pm_to pm_promo pm_type mk_pm] in Cy.
    exists y. split; [exact Iy|].
    destruct Mx as (A1 & A2 & A3 & _ & _ & _ & _ & A8 & A9). destruct My as (B1 & B2 & B3 & _ & _ & _ & _ & B8 & B9).
    split.
    { unfold make_move_unchecked. fold c r. destruct side; cbn [bind]; fold e kt rf rt; rewrite Ex; cbn [bind]; rewrite Ey; cbn [bind]; reflexivity. }
    split; [rewrite B1; exact A1|]. split; [intros []; cbn [rights_of]; [rewrite B2; exact A2|rewrite B3; exact A3]|].
    split; [rewrite B8; exact A8|]. split; [rewrite B9; exact A9|].
    intros z. rewrite Cy, Cx. reflexivity. }
Qed.
Lemma castle_assemble b (side : bool) b1 b' : MaskInv b -> valid (abs b) = true -> legal (abs b) (if side then CastleK else CastleQ) = true ->
  castle_facts b side b1 -> finish_facts b1 (if side then CastleK else CastleQ) false b' -> abs b' = apply (abs b) (if side then CastleK else CastleQ).
Proof.
  intros I V L CF FF. destruct (valid_parts _ V) as (Vlen & _).
  assert (L' : castle_legal (abs b) side = true) by (destruct side; exact L). clear L.
  unfold castle_legal in L'. repeat (apply andb_prop in L'; destruct L' as [L' ?]).
  change (stm (abs b)) with (b_stm b) in *. set (c := b_stm b) in *.
  match goal with H : opiece_eqb (piece_at (abs b) (smk (home_rank c) 4)) _ = true |- _ => apply opiece_eqb_true in H; rewrite (piece_at_abs b _ I) in H; rename H into Hking end.
  match goal with H : opiece_eqb (piece_at (abs b) (corner c side)) _ = true |- _ => apply opiece_eqb_true in H; rewrite (piece_at_abs b _ I) in H; rename H into Hrook end.
  set (r := back_rank c).
  set (e := mk_sq r 4). set (kt := mk_sq r (if side then 6 else 2)). set (rf := mk_sq r (if side then 7 else 0)). set (rt := mk_sq r (if side then 5 else 3)).
  assert (Sq : e = smk (home_rank c) 4 /\ rf = corner c side /\ kt = smk (home_rank c) (if side then 6 else 2) /\ rt = smk (home_rank c) (if side then 5 else 3)
               /\ e < 64 /\ kt < 64 /\ rf < 64 /\ rt < 64 /\ e <> kt /\ e <> rf /\ e <> rt /\ kt <> rf /\ kt <> rt /\ rf <> rt).
  { subst e kt rf rt r. destruct c, side; cbv; repeat split; try reflexivity; discriminate. }
  destruct Sq as (Ee & Erf & Ekt & Ert & He & Hkt & Hrf & Hrt & D1 & D2 & D3 & D4 & D5 & D6).
  rewrite <- Ee in Hking. rewrite <- Erf in Hrook.
  unfold castle_facts in CF. cbv zeta in CF. fold c in CF. fold r in CF. fold e kt rf rt in CF.
  destruct CF as (S1 & R1 & Hh1 & Hf1 & Cells1).
  unfold finish_facts in FF. rewrite S1 in FF. destruct FF as (F1 & F2 & F3 & F4 & F5 & F6 & F7).
  assert (Rw : forall x, rights_of b' x = match x with White => b_wr b' | Black => b_br b' end) by (intros []; reflexivity).
  assert (HR : forall X, rights_of b' X = if color_eqb X c then Neither else rights_of b X).
  { intros X. destruct (color_eqb X c) eqn:EX.
    - assert (X = c) as -> by (unfold c in *; destruct X, (b_stm b); try discriminate; reflexivity).
      rewrite F6, R1. destruct side; cbn [own_loss]; now destruct (rights_of b c).
    - assert (X = opp c) as -> by (unfold c in *; destruct X, (b_stm b); try discriminate; reflexivity).
      rewrite F7, R1. destruct side; cbn [opp_loss]; now destruct (rights_of b (opp c)). }
  assert (Hap : apply (abs b) (if side then CastleK else CastleQ) = apply_castle (abs b) side) by (destruct side; reflexivity).
  rewrite Hap. unfold abs, apply_castle. cbn [stm placement rights_w rights_b ep half full]. fold c.
  change (stm (abs b)) with c. change (half (abs b)) with (b_half b). change (full (abs b)) with (b_full b).
  assert (Hpair : (if side then (6, 7) else (2, 0)) = ((if side then 6 else 2), (if side then 7 else 0))) by (destruct side; reflexivity).
  rewrite Hpair. cbv iota beta.
  f_equal.
  - apply abs_pl_ext; [rewrite !put_length; apply abs_pl_length|].
    intros y Hy. rewrite (cell_cols b1 b' F1 y), Cells1. rewrite <- Ee, <- Ekt, <- Ert.
    assert (Hrf' : smk (home_rank c) (if side then 7 else 0) = rf) by (rewrite Erf; unfold corner; now destruct side).
    rewrite Hrf'.
    rewrite (nth_put _ rt _ y) by (rewrite ?put_length, ?abs_pl_length; auto).
    rewrite (nth_put _ kt _ y) by (rewrite ?put_length, ?abs_pl_length; auto).
    rewrite (nth_put _ rf _ y) by (rewrite ?put_length, ?abs_pl_length; auto).
    rewrite (nth_put _ e _ y) by (rewrite ?abs_pl_length; auto).
    unfold abs_pl. rewrite nth_map_squares by exact Hy.
    rewrite (N.eqb_sym rt y), (N.eqb_sym rf y), (N.eqb_sym kt y), (N.eqb_sym e y).
    destruct (N.eqb_spec y rt) as [->|]; [reflexivity|].
    destruct (N.eqb_spec y kt) as [->|]; [destruct (N.eqb_spec kt rf); [congruence|reflexivity]|].
    reflexivity.
  - exact F2.
  - rewrite <- (Rw White), HR. reflexivity.
  - rewrite <- (Rw Black), HR. reflexivity.
  - rewrite F3. now destruct side.
  - rewrite F4, Hh1. now destruct side.
  - rewrite F5, Hf1. reflexivity.
Qed.
Theorem castle_refines b (side : bool) b' : MaskInv b -> valid (abs b) = true ->
  legal (abs b) (if side then CastleK else CastleQ) = true ->
  make_move_unchecked K b (if side then CastleK else CastleQ) = Ok b' -> abs b' = apply (abs b) (if side then CastleK else CastleQ).
Proof.
  intros I V L E. destruct (castle_pieces b side I V L) as (b1 & _ & Emk & CF). rewrite Emk in E. apply finish_spec in E.
  exact (castle_assemble b side b1 b' I V L CF E).
Qed.
End Castle.
