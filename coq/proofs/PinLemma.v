(* proofs/PinLemma.v — the rule-level fact behind the move generator's shortcut: while not in check, a move of a
   piece that is neither the king, nor pinned, nor an en-passant capture cannot expose the mover's king.
   Purely about the mailbox rules of spec/Chess.v. *)
Require Import LC.model.Prims LC.spec.Chess LC.proofs.Basics LC.proofs.Attack LC.proofs.C05Proofs LC.proofs.C02Proofs.
From Coq Require Import Lia.
Open Scope N_scope.

Lemma take_until_mem f k l : mem k (take_until f l) = true ->
  exists pre, prefix_before k l = Some pre /\ forallb (fun v => negb (f v)) pre = true.
Proof. intros H. apply mem_true in H. now apply take_until_In. Qed.
Lemma prefix_take_until_mem f k l pre : prefix_before k l = Some pre -> forallb (fun v => negb (f v)) pre = true ->
  mem k (take_until f l) = true.
Proof. intros H1 H2. apply mem_true. eapply prefix_take_until; eauto. Qed.
Lemma find_ext {A} (f g : A -> bool) l : (forall x, In x l -> f x = g x) -> find f l = find g l.
Proof. induction l as [|a l IH]; intros H; cbn; [reflexivity|]. rewrite (H a (or_introl eq_refl)). destruct (g a); [reflexivity|]. apply IH. intros x Hx. apply H. now right. Qed.
Lemma color_eqb_true x y : color_eqb x y = true -> x = y.
Proof. destruct x, y; cbn; congruence. Qed.

(* ---------- placement after a non-en-passant piece move ---------- *)
Section Move.
Variables (p : pos) (m : pmove).
Let c := stm p. Let s := pm_from m. Let d := pm_to m.
Let placed := match pm_promo m with Some q => q | None => pm_type m end.
Hypothesis Hlen : length (placement p) = 64%nat.
Hypothesis Hs : s < 64. Hypothesis Hd : d < 64.
Hypothesis Hnoep : is_ep_capture p m = false.
Let p' := apply_pm p m.

Lemma piece_at_after x : piece_at p' x =
  if N.eqb x d then Some (placed, c) else if N.eqb x s then None else piece_at p x.
Proof.
  unfold p', apply_pm, piece_at. cbn [placement]. fold s d c placed. rewrite Hnoep. unfold put.
  rewrite !nth_set_nth, set_nth_length, Hlen.
  assert (Nat.ltb (N.to_nat d) 64 = true) as -> by (apply Nat.ltb_lt; lia).
  assert (Nat.ltb (N.to_nat s) 64 = true) as -> by (apply Nat.ltb_lt; lia).
  destruct (N.eqb_spec x d) as [->|Hxd]; [now rewrite Nat.eqb_refl|].
  assert (Nat.eqb (N.to_nat x) (N.to_nat d) = false) as -> by (apply Nat.eqb_neq; lia).
  destruct (N.eqb_spec x s) as [->|Hxs]; [now rewrite Nat.eqb_refl|].
  assert (Nat.eqb (N.to_nat x) (N.to_nat s) = false) as -> by (apply Nat.eqb_neq; lia). reflexivity.
Qed.

Hypothesis Hsrc : piece_at p s = Some (pm_type m, c).
Hypothesis Hnk : pm_type m <> King.
Hypothesis Hpk : placed <> King.
Hypothesis Hdst : color_at p c d = false.   (* destination not own: follows from pseudo_dests *)
Hypothesis Hnocheck : in_check p c = false.
Hypothesis Hnopin : is_pinned p c s = false.

Lemma king_same : king_sq p' c = king_sq p c.
Proof.
  unfold king_sq. apply find_ext. intros x _. rewrite piece_at_after.
  destruct (N.eqb_spec x d) as [->|Hxd].
  - unfold color_at in Hdst. cbn. destruct (piece_at p d) as [[t c0]|]; cbn.
    + destruct placed, t; cbn; try reflexivity; try (exfalso; now apply Hpk);
        destruct c, c0; cbn in *; try reflexivity; discriminate.
    + destruct placed; cbn; try reflexivity. exfalso; now apply Hpk.
  - destruct (N.eqb_spec x s) as [->|Hxs]; [|reflexivity].
    rewrite Hsrc. cbn. destruct (pm_type m); cbn; try reflexivity. exfalso; now apply Hnk.
Qed.

Lemma occupied_after v : occupied p' v = if N.eqb v d then true else if N.eqb v s then false else occupied p v.
Proof. unfold occupied. rewrite piece_at_after. destruct (N.eqb v d); [reflexivity|]. now destruct (N.eqb v s). Qed.

Lemma color_eqb_opp_false x : color_eqb (opp x) x = false.
Proof. now destruct x. Qed.

Lemma no_attacker_before k : king_sq p c = Some k ->
  forall a0, In a0 squares -> color_at p (opp c) a0 && mem k (attacks_from p a0) = false.
Proof.
  intros Hk a0 H0. unfold in_check, checkers in Hnocheck. rewrite Hk in Hnocheck.
  destruct (attackers p (opp c) k) as [|b l] eqn:E; [|discriminate].
  destruct (color_at p (opp c) a0 && mem k (attacks_from p a0)) eqn:E2; [|reflexivity].
  assert (In a0 (attackers p (opp c) k)) as Hc.
  { apply attackers_In. split; [exact H0|exact E2]. }
  rewrite E in Hc. destruct Hc.
Qed.

Lemma slide_case k a t dirs : king_sq p c = Some k -> In a squares ->
  piece_at p a = Some (t, opp c) ->
  mem k (flat_map (reach p' a) dirs) = true -> mem k (flat_map (reach p a) dirs) = false ->
  (forall dir, In dir dirs -> In dir (slide_dirs t)) -> False.
Proof.
  intros Hk Hasq Hpa H1 H0 Hsub. apply mem_true in H1. apply in_flat_map in H1 as [dir [Hdir Hr]]. apply mem_true in Hr.
  unfold reach in Hr. apply take_until_mem in Hr as [pre [Hpre Hfree]].
  destruct (mem s pre) eqn:Hsp.
  - unfold is_pinned in Hnopin. rewrite Hk in Hnopin. unfold color_at at 1 in Hnopin. rewrite Hsrc, color_eqb_refl in Hnopin. cbn [andb] in Hnopin.
    assert (existsb (fun a0 => match piece_at p a0 with Some (t0, c') => color_eqb (opp c) c' && existsb (pin_line p k s a0) (slide_dirs t0) | None => false end) squares = true) as Hex; [|congruence].
    apply existsb_exists. exists a. split; [exact Hasq|]. rewrite Hpa, color_eqb_refl. cbn [andb].
    apply existsb_exists. exists dir. split; [now apply Hsub|]. unfold pin_line. rewrite Hpre, Hsp. cbn [andb].
    apply forallb_forall. intros v Hv. rewrite forallb_forall in Hfree. specialize (Hfree v Hv).
    rewrite occupied_after in Hfree. destruct (N.eqb v d); [discriminate|].
    destruct (N.eqb v s); [reflexivity|exact Hfree].
  - assert (mem k (flat_map (reach p a) dirs) = true) as Hc; [|congruence].
    apply mem_true. apply in_flat_map. exists dir. split; [exact Hdir|]. apply mem_true. unfold reach.
    apply (prefix_take_until_mem _ _ _ pre Hpre). apply forallb_forall. intros v Hv. rewrite forallb_forall in Hfree. specialize (Hfree v Hv).
    rewrite occupied_after in Hfree. destruct (N.eqb v d); [discriminate|].
    destruct (N.eqb_spec v s) as [E|E]; [|exact Hfree]. apply mem_true in Hv. rewrite E in Hv. congruence.
Qed.

Theorem pin_lemma : in_check p' c = false.
Proof.
  unfold in_check, checkers. rewrite king_same.
  destruct (king_sq p c) as [k|] eqn:Hk; [|reflexivity].
  destruct (attackers p' (opp c) k) as [|a rest] eqn:Ha; [reflexivity|exfalso].
  assert (In a (attackers p' (opp c) k)) as Hin by (rewrite Ha; now left).
  apply attackers_In in Hin as [Hasq Hpred]. apply andb_prop in Hpred as [Hcol Hatt].
  unfold color_at in Hcol. rewrite piece_at_after in Hcol.
  destruct (N.eqb_spec a d) as [Ead|Had]. { rewrite color_eqb_opp_false in Hcol. discriminate. }
  destruct (N.eqb_spec a s) as [Eas|Has]; [discriminate|].
  destruct (piece_at p a) as [[t ca]|] eqn:Hpa; [|discriminate].
  apply color_eqb_true in Hcol. subst ca.
  pose proof (no_attacker_before k Hk a Hasq) as Hno. unfold color_at in Hno. rewrite Hpa, color_eqb_refl in Hno. cbn [andb] in Hno.
  unfold attacks_from in Hatt, Hno. rewrite piece_at_after in Hatt.
  rewrite (proj2 (N.eqb_neq a d) Had), (proj2 (N.eqb_neq a s) Has), Hpa in Hatt. rewrite Hpa in Hno.
  destruct t; cbn [slide_dirs] in *.
  - rewrite Hatt in Hno; discriminate.
  - rewrite Hatt in Hno; discriminate.
  - exact (slide_case k a Bishop bishop_dirs Hk Hasq Hpa Hatt Hno (fun _ H => H)).
  - exact (slide_case k a Rook rook_dirs Hk Hasq Hpa Hatt Hno (fun _ H => H)).
  - exact (slide_case k a Queen (rook_dirs ++ bishop_dirs) Hk Hasq Hpa Hatt Hno (fun _ H => H)).
  - rewrite Hatt in Hno; discriminate.
Qed.
End Move.
