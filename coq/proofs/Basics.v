(* proofs/Basics.v — small shared lemmas: the 64 squares, table lookup, the outcome monad. *)
Require Import LC.model.Prims LC.model.Tables.
From Coq Require Import Lia.
Open Scope N_scope.

Lemma In_squares s : In s squares <-> s < 64.
Proof.
  unfold squares. rewrite in_map_iff. split.
  - intros [n [<- H]]. apply in_seq in H. lia.
  - intros H. exists (N.to_nat s). split; [apply N2Nat.id|]. apply in_seq. lia.
Qed.
Lemma squares_length : length squares = 64%nat. Proof. reflexivity. Qed.
Lemma nth_map_squares {A} (f : square -> A) d s : s < 64 -> nth (N.to_nat s) (map f squares) d = f s.
Proof.
  intros H. unfold squares. rewrite map_map.
  rewrite nth_indep with (d' := f (N.of_nat 0)) by (rewrite map_length, seq_length; lia).
  rewrite (map_nth (fun x => f (N.of_nat x))). rewrite seq_nth by lia. cbn [plus]. now rewrite N2Nat.id.
Qed.
Lemma look_map_squares (f : square -> bb) s : s < 64 -> look (map f squares) s = f s.
Proof. intros H. unfold look. now apply nth_map_squares. Qed.
Lemma forallb_squares (P : square -> bool) : forallb P squares = true -> forall s, s < 64 -> P s = true.
Proof. intros H s Hs. rewrite forallb_forall in H. apply H. now apply In_squares. Qed.
Lemma forallb_squares2 (P : square -> square -> bool) :
  forallb (fun a => forallb (P a) squares) squares = true -> forall a b, a < 64 -> b < 64 -> P a b = true.
Proof. intros H a b Ha Hb. apply (forallb_squares _ (forallb_squares _ H a Ha) b Hb). Qed.

Lemma bind_ok {A B} (r : res A) (f : A -> res B) y : bind r f = Ok y <-> exists x, r = Ok x /\ f x = Ok y.
Proof. destruct r; cbn; split; try (intros [x [H _]]; discriminate); try discriminate.
  - intros H. now exists a. - intros [x [[= ->] H]]. exact H. Qed.
Lemma bind_not_panic {A B} (r : res A) (f : A -> res B) :
  r <> Panic -> (forall x, r = Ok x -> f x <> Panic) -> bind r f <> Panic.
Proof. destruct r; cbn; intros H1 H2; [now apply H2|discriminate|congruence]. Qed.
