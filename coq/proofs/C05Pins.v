(* proofs/C05Pins.v — the pin mask is exactly the set of own pieces standing alone between their king and an enemy
   slider moving along that line *)
Require Import LC.model.Prims LC.model.Tables LC.model.Board LC.spec.Chess LC.spec.Geometry
  LC.proofs.Basics LC.proofs.Bits LC.proofs.Cols LC.proofs.MaskInv LC.proofs.Attack LC.proofs.C05Proofs.
From Coq Require Import Lia.
Open Scope N_scope.

Lemma bit_succ i : bit (N.succ i) = 2 * bit i.
Proof. unfold bit. rewrite !N.shiftl_1_l, N.pow_succ_r'. reflexivity. Qed.
Lemma popcount_double m : m <> 0 -> popcount (2 * m) = popcount m.
Proof. destruct m; [contradiction|reflexivity]. Qed.
Lemma popcount_bit i : popcount (bit i) = 1.
Proof.
  induction i using N.peano_ind; [reflexivity|]. rewrite bit_succ, popcount_double; [exact IHi|]. unfold bit. rewrite N.shiftl_1_l. apply N.pow_nonzero. lia.
Qed.
Lemma popc_pos_one p : popc_pos p = 1 -> exists i, Npos p = bit i.
Proof.
  induction p as [q IH|q IH|]; cbn [popc_pos]; intros H.
  - pose proof (popc_pos_ge1 q). lia.
  - destruct (IH H) as [i Hi]. exists (N.succ i). rewrite bit_succ, <- Hi. reflexivity.
  - exists 0. reflexivity.
Qed.
Lemma popcount_one m : popcount m = 1 -> exists i, m = bit i.
Proof. destruct m as [|p]; [discriminate|]. apply popc_pos_one. Qed.

Lemma existsb_bits m (f : square -> bool) : u64 m -> existsb f (bits m) = existsb (fun a => has m a && f a) squares.
Proof.
  intros U. rewrite (bits_spec m U). induction squares as [|a l IH]; [reflexivity|]. cbn [filter existsb].
  fold (has m a). destruct (has m a); cbn [existsb andb]; now rewrite IH.
Qed.
Lemma existsb_ext' {A} (f g : A -> bool) l : (forall x, In x l -> f x = g x) -> existsb f l = existsb g l.
Proof. induction l as [|a l IH]; intros H; [reflexivity|]. cbn. rewrite (H a (or_introl eq_refl)), IH; [reflexivity|]. intros x Hx. apply H. now right. Qed.

(* one attacker: exactly one occupied square u between sq and a *)
Lemma pin_line_iff b dirs T sq a u : MaskInv b -> line_ok dirs T sq a = true -> has (m_all b) u = true ->
  has (look T sq) a && (popcount (btw_of b sq a) =? 1) && has (btw_of b sq a) u = existsb (pin_line (abs b) sq u a) dirs.
Proof.
  intros I L Hu. unfold line_ok in L. apply andb_prop in L. destruct L as [L1 L2]. apply eqb_prop in L1. rewrite forallb_forall in L2.
  apply bool_eq_iff. rewrite existsb_exists, !andb_true_iff. split.
  - intros [[HT Hp] Hb]. rewrite HT in L1. symmetry in L1. apply existsb_exists in L1. destruct L1 as (d & Hd & Hdef).
    exists d. split; [exact Hd|]. specialize (L2 d Hd). unfold pin_line.
    destruct (prefix_before sq (line a d)) as [pre|] eqn:Ep; [|discriminate].
    unfold obb_is in L2. unfold btw_of in Hp, Hb. destruct (between sq a) as [m|]; [|discriminate]. apply N.eqb_eq in L2. subst m.
    apply N.eqb_eq in Hp. destruct (popcount_one _ Hp) as [i Hi].
    assert (Hiu : i = u). { rewrite Hi, has_bit in Hb. now apply N.eqb_eq in Hb. } subst i.
    apply andb_true_intro. split.
    + assert (X : has (N.land (m_all b) (of_list pre)) u = true) by (rewrite Hi, has_bit; apply N.eqb_refl).
      rewrite has_land, has_of_list in X. apply andb_prop in X. tauto.
    + apply forallb_forall. intros v Hv. destruct (N.eqb_spec v u) as [|Hne]; [reflexivity|]. cbn [orb].
      rewrite (occupied_abs b v I). assert (X : has (N.land (m_all b) (of_list pre)) v = false) by (rewrite Hi, has_bit; apply N.eqb_neq; congruence).
      rewrite has_land, has_of_list, (proj2 (mem_true v pre) Hv), andb_true_r in X. now rewrite X.
  - intros (d & Hd & Hpl). specialize (L2 d Hd). unfold pin_line in Hpl.
    destruct (prefix_before sq (line a d)) as [pre|] eqn:Ep; [|discriminate]. apply andb_prop in Hpl. destruct Hpl as [Hm Hf].
    unfold obb_is in L2. unfold btw_of. destruct (between sq a) as [m|]; [|discriminate]. apply N.eqb_eq in L2. subst m.
    assert (B : N.land (m_all b) (of_list pre) = bit u).
    { apply N.bits_inj. intros v. fold (has (N.land (m_all b) (of_list pre)) v) (has (bit u) v). rewrite has_land, has_of_list, has_bit.
      destruct (N.eqb_spec u v) as [<-|Hne]; [now rewrite Hu, Hm|].
      destruct (mem v pre) eqn:Mv; [|apply andb_false_r]. rewrite andb_true_r.
      rewrite forallb_forall in Hf. specialize (Hf v (proj1 (mem_true v pre) Mv)).
      destruct (N.eqb_spec v u); [congruence|]. cbn [orb] in Hf. rewrite (occupied_abs b v I) in Hf. now apply negb_true_iff in Hf. }
    rewrite B, popcount_bit, has_bit, !N.eqb_refl. repeat split.
    rewrite L1. apply existsb_exists. exists d. split; [exact Hd|]. now rewrite Ep.
Qed.
Lemma existsb_app' {A} (f : A -> bool) l1 l2 : existsb f (l1 ++ l2) = existsb f l1 || existsb f l2.
Proof. apply existsb_app. Qed.

Theorem pins_spec b k P C : MaskInv b -> k < 64 -> pins_and_checks b k = Ok (P, C) ->
  forall u, u < 64 -> has P u = color_at (abs b) (b_stm b) u && existsb (fun a =>
       match piece_at (abs b) a with
       | Some (t, c') => color_eqb (opp (b_stm b)) c' && existsb (pin_line (abs b) k u a) (slide_dirs t)
       | None => false end) squares.
Proof.
  intros I Hk E u Hu. destruct (pins_and_checks_ok b k I Hk) as (P' & C' & E' & _ & HP). rewrite E in E'. injection E' as <- <-.
  rewrite HP, (color_at_abs b _ u I), andb_comm. destruct (has (cmask b (b_stm b)) u) eqn:Hown; [|reflexivity]. cbn [andb].
  assert (Hocc : has (m_all b) u = true).
  { rewrite (has_all_cell b u I). rewrite (has_cmask_cell b _ u I) in Hown. destruct (cell_at b u); [reflexivity|discriminate]. }
  rewrite (existsb_bits _ _ (slider_att_small b k I)). apply existsb_ext'. intros a Ha. apply In_squares in Ha.
  rewrite (piece_at_abs b a I). unfold slider_att. rewrite !has_land, !has_lor, !has_land, !has_lor.
  change (m_bishop b) with (tmask b Bishop). change (m_queen b) with (tmask b Queen). change (m_rook b) with (tmask b Rook).
  rewrite !(has_tmask_cell b _ a I), (has_cmask_cell b _ a I).
  destruct (cell_at b a) as [[t c']|] eqn:Ec; [|reflexivity].
  destruct (color_eqb c' (opp (b_stm b))) eqn:Eo.
  2:{ assert (color_eqb (opp (b_stm b)) c' = false) as -> by (destruct (b_stm b), c'; cbn in *; congruence). reflexivity. }
  assert (c' = opp (b_stm b)) as -> by (destruct (b_stm b), c'; cbn in *; congruence). rewrite color_eqb_refl. cbn [andb].
  pose proof (pin_line_iff b rook_dirs ROOK_T k a u I (line_ok_rook k a Hk Ha) Hocc) as R.
  pose proof (pin_line_iff b bishop_dirs BISHOP_T k a u I (line_ok_bishop k a Hk Ha) Hocc) as B.
  destruct t; cbn [ptype_eqb andb orb slide_dirs existsb]; rewrite ?andb_false_r, ?orb_false_r, ?andb_true_r, ?orb_false_l; try reflexivity.
  - rewrite <- B. now rewrite andb_assoc.
  - rewrite <- R. now rewrite andb_assoc.
  - rewrite existsb_app', <- R, <- B.
    destruct (has (look BISHOP_T k) a), (has (look ROOK_T k) a), (popcount (btw_of b k a) =? 1), (has (btw_of b k a) u); reflexivity.
Qed.
(* for the stored masks *)
Theorem pin_mask_spec b : MaskInv b -> DerivedInv b -> forall u, u < 64 -> has (b_pinned b) u = is_pinned (abs b) (b_stm b) u.
Proof.
  intros I (k & Ek & Ep) u Hu. rewrite (king_square_spec b (b_stm b) I) in Ek.
  destruct (king_sq (abs b) (b_stm b)) as [k'|] eqn:Eq; [|discriminate]. injection Ek as ->.
  rewrite (pins_spec b k _ _ I (king_sq_lt _ _ _ Eq) Ep u Hu). unfold is_pinned. rewrite Eq. reflexivity.
Qed.
