(* proofs/Symmetry.v — the rules of spec/Chess.v are invariant under a board symmetry.
   A symmetry is a square map sq (an involution of the 64 squares), a direction map dr and a colour map col that
   commute with single steps; instantiated below with the colour flip (ranks mirrored, colours swapped) and the file
   mirror (files mirrored, colours kept; only without castling rights).  Everything here is about the mailbox rules. *)
Require Import LC.model.Prims LC.model.Board LC.spec.Chess LC.spec.Sym LC.proofs.Basics LC.proofs.Attack LC.proofs.C05Proofs LC.proofs.C02Proofs
  LC.proofs.HashInv LC.proofs.MoveInv LC.proofs.Pseudo LC.proofs.Safety LC.proofs.PinLemma LC.proofs.C01a LC.proofs.C04Spec LC.proofs.ValidStep.
From Coq Require Import Lia Permutation.
Open Scope N_scope.

Definition all_offs : list (Z * Z) := king_offs ++ knight_offs ++ [(2, 0); (-2, 0)]%Z.

Lemma placement_ext (l1 l2 : list (option piece)) : length l1 = 64%nat -> length l2 = 64%nat ->
  (forall s, s < 64 -> nth (N.to_nat s) l1 None = nth (N.to_nat s) l2 None) -> l1 = l2.
Proof.
  intros L1 L2 H. apply (nth_ext _ _ None None); [congruence|]. intros n Hn. rewrite <- (Nat2N.id n). apply H. lia.
Qed.

Section Sym.
Variable sq : square -> square.
Variable dr : Z * Z -> Z * Z.
Variable col : color -> color.
Hypothesis sq_lt : forall s, s < 64 -> sq s < 64.
Hypothesis sq_inv : forall s, s < 64 -> sq (sq s) = s.
Hypothesis dr_inv : forall d, dr (dr d) = d.
Hypothesis col_inv : forall c, col (col c) = c.
Hypothesis col_opp : forall c, col (opp c) = opp (col c).
Hypothesis step_sym : forall s d, s < 64 -> In d all_offs -> step (sq s) (dr d) = option_map sq (step s d).
Hypothesis dr_all : forall d, In d all_offs -> In (dr d) all_offs.
Hypothesis dr_rook : forall d, In d rook_dirs -> In (dr d) rook_dirs.
Hypothesis dr_bishop : forall d, In d bishop_dirs -> In (dr d) bishop_dirs.
Hypothesis dr_knight : forall d, In d knight_offs -> In (dr d) knight_offs.
Hypothesis dr_pawn_cap : forall c d, In d [(fwd c, 1%Z); (fwd c, (-1)%Z)] -> In (dr d) [(fwd (col c), 1%Z); (fwd (col c), (-1)%Z)].
Hypothesis dr_push : forall c, dr (fwd c, 0%Z) = (fwd (col c), 0%Z) /\ dr ((2 * fwd c)%Z, 0%Z) = ((2 * fwd (col c))%Z, 0%Z).
Hypothesis rank_start : forall c s, s < 64 -> (srank (sq s) =? start_rank (col c)) = (srank s =? start_rank c).
Hypothesis rank_last : forall c s, s < 64 -> (srank (sq s) =? last_rank (col c)) = (srank s =? last_rank c).

Lemma sq_inj a b : a < 64 -> b < 64 -> sq a = sq b -> a = b.
Proof. intros Ha Hb E. rewrite <- (sq_inv a Ha), <- (sq_inv b Hb), E. reflexivity. Qed.
Lemma sq_eqb a b : a < 64 -> b < 64 -> (sq a =? sq b) = (a =? b).
Proof. intros Ha Hb. destruct (N.eqb_spec a b) as [->|N]; [apply N.eqb_refl|]. apply N.eqb_neq. intros E. apply N. now apply sq_inj. Qed.

(* ---------- the transformed position ---------- *)
Local Notation T := (symT sq col).
Lemma T_len p : length (placement (T p)) = 64%nat. Proof. cbn [symT placement]. now rewrite map_length. Qed.
Lemma T_piece p s : s < 64 -> piece_at (T p) s = recolor col (piece_at p (sq s)).
Proof. intros H. unfold piece_at at 1. cbn [symT placement]. now rewrite nth_map_squares. Qed.
Lemma T_piece' p s : s < 64 -> piece_at (T p) (sq s) = recolor col (piece_at p s).
Proof. intros H. rewrite (T_piece p (sq s) (sq_lt s H)), (sq_inv s H). reflexivity. Qed.
Lemma T_occ p s : s < 64 -> occupied (T p) (sq s) = occupied p s.
Proof. intros H. unfold occupied. rewrite (T_piece' p s H). destruct (piece_at p s) as [[]|]; reflexivity. Qed.
Lemma col_eqb a b : color_eqb (col a) (col b) = color_eqb a b.
Proof.
  destruct (color_eqb a b) eqn:E.
  - apply color_eqb_true in E. subst. apply color_eqb_refl.
  - destruct (color_eqb (col a) (col b)) eqn:E2; [|reflexivity]. apply color_eqb_true in E2.
    assert (a = b) by (rewrite <- (col_inv a), <- (col_inv b), E2; reflexivity). subst. rewrite color_eqb_refl in E. discriminate.
Qed.
Lemma T_color p c s : s < 64 -> color_at (T p) (col c) (sq s) = color_at p c s.
Proof. intros H. rewrite !color_at_def, (T_piece' p s H). destruct (piece_at p s) as [[t c']|]; cbn [recolor]; [apply col_eqb|reflexivity]. Qed.
Lemma T_rights p c : rights (T p) (col c) = rights p c.
Proof. unfold rights at 1. cbn [symT rights_w rights_b]. destruct (col c) eqn:E; rewrite <- E, col_inv; reflexivity. Qed.

(* ---------- walks ---------- *)
Lemma In_mem_sq x l : x < 64 -> (forall y, In y l -> y < 64) -> (In (sq x) (map sq l) <-> In x l).
Proof.
  intros Hx Hl. rewrite in_map_iff. split.
  - intros (y & E & Hy). apply sq_inj in E; [now subst|now apply Hl|exact Hx].
  - intros H. exists x. auto.
Qed.
Lemma line_fuel_sym n : forall s d, s < 64 -> In d all_offs -> line_fuel n (sq s) (dr d) = map sq (line_fuel n s d).
Proof.
  induction n as [|n IH]; intros s d Hs Hd; [reflexivity|]. cbn [line_fuel]. rewrite (step_sym s d Hs Hd).
  destruct (step s d) as [t|] eqn:E; [|reflexivity]. cbn [option_map map]. f_equal. apply IH; [eapply step_lt; eauto|exact Hd].
Qed.
Lemma line_sym s d : s < 64 -> In d all_offs -> line (sq s) (dr d) = map sq (line s d).
Proof. apply line_fuel_sym. Qed.
Lemma take_until_sym p l : (forall y, In y l -> y < 64) -> take_until (occupied (T p)) (map sq l) = map sq (take_until (occupied p) l).
Proof.
  induction l as [|u r IH]; intros H; [reflexivity|]. cbn [map take_until]. rewrite (T_occ p u (H u (or_introl eq_refl))).
  destruct (occupied p u); [reflexivity|]. cbn [map]. f_equal. apply IH. intros y Hy. apply H. now right.
Qed.
Lemma reach_sym p s d : s < 64 -> In d all_offs -> reach (T p) (sq s) (dr d) = map sq (reach p s d).
Proof.
  intros Hs Hd. unfold reach. rewrite (line_sym s d Hs Hd). apply take_until_sym. intros y Hy. eapply line_lt; eauto.
Qed.
Lemma rook_in_all d : In d rook_dirs -> In d all_offs. Proof. unfold all_offs, king_offs. rewrite !in_app_iff. tauto. Qed.
Lemma bishop_in_all d : In d bishop_dirs -> In d all_offs. Proof. unfold all_offs, king_offs. rewrite !in_app_iff. tauto. Qed.
Lemma knight_in_all d : In d knight_offs -> In d all_offs. Proof. unfold all_offs. rewrite !in_app_iff. tauto. Qed.
Lemma king_in_all d : In d king_offs -> In d all_offs. Proof. unfold all_offs. rewrite !in_app_iff. tauto. Qed.

(* membership in a step list / a slide depends only on the direction set *)
Lemma steps_In s offs x : In x (steps s offs) <-> exists o, In o offs /\ step s o = Some x.
Proof.
  unfold steps. rewrite in_flat_map. split; intros (o & Ho & H); exists o; (split; [exact Ho|]).
  - destruct (step s o); [destruct H as [->|[]]; reflexivity|destruct H].
  - rewrite H. now left.
Qed.
Lemma steps_sym s x offs offs' : s < 64 -> x < 64 -> (forall o, In o offs -> In o all_offs) ->
  (forall o, In o offs -> In (dr o) offs') -> In x (steps s offs) -> In (sq x) (steps (sq s) offs').
Proof.
  intros Hs Hx Hall Hcl H. apply steps_In in H. destruct H as (o & Ho & E). apply steps_In. exists (dr o). split; [now apply Hcl|].
  rewrite (step_sym s o Hs (Hall o Ho)), E. reflexivity.
Qed.
Lemma slide_sym p a t dirs : a < 64 -> t < 64 -> (forall d, In d dirs -> In d all_offs) -> (forall d, In d dirs -> In (dr d) dirs) ->
  In t (flat_map (reach p a) dirs) -> In (sq t) (flat_map (reach (T p) (sq a)) dirs).
Proof.
  intros Ha Ht Hall Hcl H. apply in_flat_map in H. destruct H as (d & Hd & H). apply in_flat_map. exists (dr d). split; [now apply Hcl|].
  rewrite (reach_sym p a d Ha (Hall d Hd)). now apply in_map.
Qed.
Lemma slide_dirs_closed t d : In d (slide_dirs t) -> In (dr d) (slide_dirs t) /\ In d all_offs.
Proof.
  destruct t; cbn [slide_dirs].
  - intros [].
  - intros [].
  - intros H. split; [now apply dr_bishop|now apply bishop_in_all].
  - intros H. split; [now apply dr_rook|now apply rook_in_all].
  - rewrite !in_app_iff. intros [H|H].
    + split; [left; now apply dr_rook|now apply rook_in_all].
    + split; [right; now apply dr_bishop|now apply bishop_in_all].
  - intros [].
Qed.
Lemma king_offs_closed d : In d king_offs -> In (dr d) king_offs.
Proof. unfold king_offs. rewrite !in_app_iff. intros [H|H]; [left; now apply dr_rook|right; now apply dr_bishop]. Qed.

(* ---------- attacks (one direction; the converse follows by involution) ---------- *)
Lemma attacks_sym_fwd p a t : a < 64 -> t < 64 -> In t (attacks_from p a) -> In (sq t) (attacks_from (T p) (sq a)).
Proof.
  intros Ha Ht. rewrite !attacks_from_def, (T_piece' p a Ha). destruct (piece_at p a) as [[ty c]|]; cbn [recolor]; [|intros []].
  destruct ty.
  - apply (steps_sym a t _ _ Ha Ht).
    + intros o Ho. apply king_in_all. unfold king_offs, rook_dirs, bishop_dirs. destruct c; cbn in Ho |- *; intuition (subst; auto 10).
    + intros o. apply dr_pawn_cap.
  - apply (steps_sym a t _ _ Ha Ht); [apply knight_in_all|apply dr_knight].
  - apply (slide_sym p a t _ Ha Ht); intros d Hd; apply (slide_dirs_closed Bishop d Hd).
  - apply (slide_sym p a t _ Ha Ht); intros d Hd; apply (slide_dirs_closed Rook d Hd).
  - apply (slide_sym p a t _ Ha Ht); intros d Hd; apply (slide_dirs_closed Queen d Hd).
  - apply (steps_sym a t _ _ Ha Ht); [apply king_in_all|apply king_offs_closed].
Qed.

(* ---------- involution on well-formed positions ---------- *)
Definition wfpos (p : pos) : Prop := length (placement p) = 64%nat /\ forall e, ep p = Some e -> e < 64.
Lemma recolor_inv x : recolor col (recolor col x) = x.
Proof. destruct x as [[t c]|]; cbn; [now rewrite col_inv|reflexivity]. Qed.
Lemma T_wf p : wfpos p -> wfpos (T p).
Proof. intros [L E]. split; [apply T_len|]. cbn [symT ep]. intros e He. destruct (ep p) as [e0|]; [|discriminate]. injection He as <-. apply sq_lt. now apply E. Qed.
Lemma TT p : wfpos p -> T (T p) = p.
Proof.
  intros [L E]. destruct p as [pl st rw rb e h f]. unfold symT at 1. cbn [stm half full]. f_equal.
  - cbn [placement] in L. apply placement_ext; [now rewrite map_length|exact L|]. intros s Hs. rewrite nth_map_squares by exact Hs.
    rewrite (T_piece _ (sq s) (sq_lt s Hs)), (sq_inv s Hs), recolor_inv. reflexivity.
  - apply col_inv.
  - rewrite T_rights. reflexivity.
  - rewrite T_rights. reflexivity.
  - cbn [symT ep]. cbn [ep] in E. destruct e as [e0|]; [|reflexivity]. cbn. now rewrite (sq_inv e0 (E e0 eq_refl)).
Qed.

(* ---------- attacks, kings, check ---------- *)
Lemma attackers_fwd p c t a : t < 64 -> In a (attackers p c t) -> In (sq a) (attackers (T p) (col c) (sq t)).
Proof.
  intros Ht H. apply attackers_In in H. destruct H as [Ha H]. apply In_squares in Ha. apply andb_prop in H. destruct H as [H1 H2].
  apply attackers_In. split; [apply In_squares; now apply sq_lt|]. rewrite (T_color p c a Ha), H1. cbn [andb].
  apply mem_true. apply attacks_sym_fwd; auto. now apply mem_true.
Qed.
Lemma attacked_fwd p c t : t < 64 -> attacked p c t = true -> attacked (T p) (col c) (sq t) = true.
Proof.
  intros Ht. unfold attacked. destruct (attackers p c t) as [|a l] eqn:E; [discriminate|]. intros _.
  assert (In (sq a) (attackers (T p) (col c) (sq t))) as H by (apply attackers_fwd; [exact Ht|rewrite E; now left]).
  destruct (attackers (T p) (col c) (sq t)); [destruct H|reflexivity].
Qed.
Lemma king_fwd p c k : k < 64 -> piece_at p k = Some (King, c) -> piece_at (T p) (sq k) = Some (King, col c).
Proof. intros Hk H. rewrite (T_piece' p k Hk), H. reflexivity. Qed.
Lemma piece_back p x t c : x < 64 -> piece_at (T p) x = Some (t, col c) -> piece_at p (sq x) = Some (t, c).
Proof.
  intros Hx H. rewrite (T_piece p x Hx) in H. destruct (piece_at p (sq x)) as [[t' c']|]; [|discriminate]. cbn in H. injection H as -> E.
  f_equal. f_equal. rewrite <- (col_inv c'), E. apply col_inv.
Qed.
Lemma one_king_fwd p c : one_king p c = true -> one_king (T p) (col c) = true.
Proof.
  intros K1. destruct (one_king_sq p c K1) as (k & _ & Hk & Pk). apply (one_king_intro (T p) (col c) (sq k) (sq_lt k Hk) (king_fwd p c k Hk Pk)).
  intros x Hx Px. apply piece_back in Px; [|exact Hx]. pose proof (one_king_unique p c k (sq x) K1 Hk (sq_lt x Hx) Pk Px) as E.
  rewrite <- (sq_inv x Hx), E. reflexivity.
Qed.
Lemma king_sq_fwd p c k : one_king p c = true -> king_sq p c = Some k -> king_sq (T p) (col c) = Some (sq k).
Proof.
  intros K1 Ek. destruct (king_sq_piece p c k Ek) as [Hk Pk].
  destruct (one_king_sq (T p) (col c) (one_king_fwd p c K1)) as (k' & Ek' & Hk' & Pk'). rewrite Ek'. f_equal.
  apply piece_back in Pk'; [|exact Hk']. pose proof (one_king_unique p c k (sq k') K1 Hk (sq_lt k' Hk') Pk Pk') as E.
  rewrite <- (sq_inv k' Hk'), E. reflexivity.
Qed.
Lemma in_check_fwd p c : one_king p c = true -> in_check p c = true -> in_check (T p) (col c) = true.
Proof.
  intros K1. destruct (one_king_sq p c K1) as (k & Ek & Hk & _). unfold in_check, checkers. rewrite Ek, (king_sq_fwd p c k K1 Ek).
  destruct (attackers p (opp c) k) as [|a l] eqn:E; [discriminate|]. intros _.
  assert (In (sq a) (attackers (T p) (col (opp c)) (sq k))) as H by (apply attackers_fwd; [exact Hk|rewrite E; now left]).
  rewrite col_opp in H. destruct (attackers (T p) (opp (col c)) (sq k)); [destruct H|reflexivity].
Qed.
Lemma in_check_sym p c : wfpos p -> one_king p c = true -> in_check (T p) (col c) = in_check p c.
Proof.
  intros W K1. apply bool_eq_iff. split; [|now apply in_check_fwd].
  intros H. apply (in_check_fwd (T p) (col c) (one_king_fwd p c K1)) in H. now rewrite (TT p W), col_inv in H.
Qed.
Lemma attacked_sym p c t : wfpos p -> t < 64 -> attacked (T p) (col c) (sq t) = attacked p c t.
Proof.
  intros W Ht. apply bool_eq_iff. split; [|now apply attacked_fwd].
  intros H. apply (attacked_fwd (T p) (col c) (sq t) (sq_lt t Ht)) in H. now rewrite (TT p W), col_inv, (sq_inv t Ht) in H.
Qed.

(* ---------- pseudo-legal destinations ---------- *)
Lemma osq_sym (e : option square) d : (forall x, e = Some x -> x < 64) -> d < 64 -> osq_eqb (option_map sq e) (Some (sq d)) = osq_eqb e (Some d).
Proof. intros He Hd. destruct e as [x|]; [|reflexivity]. cbn. apply sq_eqb; [now apply He|exact Hd]. Qed.
Lemma fwd_in_all c : In (fwd c, 0%Z) all_offs /\ In ((2 * fwd c)%Z, 0%Z) all_offs /\ (forall o, In o [(fwd c, 1%Z); (fwd c, (-1)%Z)] -> In o all_offs).
Proof. destruct c; cbn; intuition (subst; auto 20). Qed.
Lemma pawn_fwd p c s d : wfpos p -> s < 64 -> d < 64 -> In d (pawn_dests p c s) -> In (sq d) (pawn_dests (T p) (col c) (sq s)).
Proof.
  intros [L He] Hs Hd H. destruct (fwd_in_all c) as (A1 & A2 & A3). destruct (dr_push c) as [P1 P2].
  unfold pawn_dests in *. rewrite <- P1, <- P2, (step_sym s _ Hs A1), (step_sym s _ Hs A2), (rank_start c s Hs).
  apply in_app_or in H. apply in_or_app. destruct H as [H|H].
  - left. destruct (step s (fwd c, 0%Z)) as [t1|] eqn:E1; [|destruct H]. cbn [option_map]. pose proof (step_lt _ _ _ E1) as Ht1.
    rewrite (T_occ p t1 Ht1). destruct (occupied p t1); [destruct H|]. destruct H as [<-|[]]. now left.
  - right. apply in_app_or in H. apply in_or_app. destruct H as [H|H].
    + left. destruct (srank s =? start_rank c); [|destruct H]. destruct (step s (fwd c, 0%Z)) as [t1|] eqn:E1; [|destruct H].
      destruct (step s ((2 * fwd c)%Z, 0%Z)) as [t2|] eqn:E2; [|destruct H]. cbn [option_map].
      rewrite (T_occ p t1 (step_lt _ _ _ E1)), (T_occ p t2 (step_lt _ _ _ E2)). destruct (occupied p t1 || occupied p t2); [destruct H|].
      destruct H as [<-|[]]. now left.
    + right. apply filter_In in H. destruct H as [H1 H2]. apply filter_In. split.
      * apply (steps_sym s d _ _ Hs Hd A3 (dr_pawn_cap c) H1).
      * cbn [symT ep]. rewrite <- col_opp, (T_color p (opp c) d Hd), (osq_sym (ep p) d He Hd). exact H2.
Qed.
Lemma pseudo_fwd p s d : wfpos p -> s < 64 -> d < 64 -> In d (pseudo_dests p s) -> In (sq d) (pseudo_dests (T p) (sq s)).
Proof.
  intros W Hs Hd. unfold pseudo_dests. rewrite (T_piece' p s Hs). destruct (piece_at p s) as [[t c]|] eqn:Pa; cbn [recolor]; [|intros []].
  assert (G : In d (filter (fun x => negb (color_at p c x)) (attacks_from p s)) ->
              In (sq d) (filter (fun x => negb (color_at (T p) (col c) x)) (attacks_from (T p) (sq s)))).
  { intros H. apply filter_In in H. destruct H as [H1 H2]. apply filter_In. split; [now apply attacks_sym_fwd|]. now rewrite (T_color p c d Hd). }
  destruct t; try exact G. now apply pawn_fwd.
Qed.
Lemma pseudo_sym p s d : wfpos p -> s < 64 -> d < 64 -> mem (sq d) (pseudo_dests (T p) (sq s)) = mem d (pseudo_dests p s).
Proof.
  intros W Hs Hd. apply bool_eq_iff. rewrite !mem_true. split; [|now apply pseudo_fwd].
  intros H. apply (pseudo_fwd (T p) (sq s) (sq d) (T_wf p W) (sq_lt s Hs) (sq_lt d Hd)) in H.
  now rewrite (TT p W), (sq_inv s Hs), (sq_inv d Hd) in H.
Qed.

(* ---------- the successor of a piece move ---------- *)
Definition Tm (m : pmove) : pmove := {| pm_type := pm_type m; pm_from := sq (pm_from m); pm_to := sq (pm_to m); pm_promo := pm_promo m |}.
Definition Tmv (mv : bmove) : bmove := match mv with MovePiece m => MovePiece (Tm m) | x => x end.
(* equal in every field except the move number (which counts Black's moves and so is not colour-symmetric) *)
Definition sim (p q : pos) : Prop :=
  placement p = placement q /\ stm p = stm q /\ rights_w p = rights_w q /\ rights_b p = rights_b q /\ ep p = ep q /\ half p = half q.
Hypothesis victim_sym : forall s d, s < 64 -> d < 64 -> sq (smk (srank s) (sfile d)) = smk (srank (sq s)) (sfile (sq d)).
Hypothesis absdiff_sym : forall s d, s < 64 -> d < 64 -> absdiff (srank (sq s)) (srank (sq d)) = absdiff (srank s) (srank d).
Hypothesis mid_sym : forall s d, s < 64 -> d < 64 -> absdiff (srank s) (srank d) = 2 ->
  sq (smk ((srank s + srank d) / 2) (sfile s)) = smk ((srank (sq s) + srank (sq d)) / 2) (sfile (sq s)).
Lemma opiece_eqb_refl (x : option piece) : opiece_eqb x x = true.
Proof. destruct x as [[[] []]|]; reflexivity. Qed.
Lemma opiece_recolor x t c : opiece_eqb (recolor col x) (Some (t, col c)) = opiece_eqb x (Some (t, c)).
Proof.
  apply bool_eq_iff. split; intros E; apply opiece_eqb_true in E.
  - destruct x as [[t' c']|]; [|discriminate]. cbn [recolor] in E. injection E as -> E.
    assert (c' = c) by (rewrite <- (col_inv c'), E; apply col_inv). subst. apply opiece_eqb_refl.
  - subst x. cbn [recolor]. apply opiece_eqb_refl.
Qed.
Lemma is_ep_sym p m : wfpos p -> pm_to m < 64 -> is_ep_capture (T p) (Tm m) = is_ep_capture p m.
Proof. intros [_ He] Hd. unfold is_ep_capture. cbn [symT ep Tm pm_type pm_to]. now rewrite (osq_sym (ep p) _ He Hd). Qed.
Section ApplyPM.
Variables (p : pos) (m : pmove).
Hypothesis W : wfpos p.
Hypothesis Hs : pm_from m < 64.
Hypothesis Hd : pm_to m < 64.
(* a held castling right pins down how the symmetry acts on that corner *)
Hypothesis HR : forall x (side : bool), (if side then right_k p x else right_q p x) = true ->
  forall s, s < 64 -> (sq s =? corner (col x) side) = (s =? corner x side).
Lemma apply_pm_placement x : x < 64 -> piece_at (apply_pm (T p) (Tm m)) x = piece_at (T (apply_pm p m)) x.
Proof.
  intros Hx. destruct W as [L He].
  rewrite (piece_at_apply (T p) (Tm m) x (T_len p) (sq_lt _ Hs) (sq_lt _ Hd) Hx).
  rewrite (T_piece (apply_pm p m) x Hx), (piece_at_apply p m (sq x) L Hs Hd (sq_lt x Hx)).
  cbn [Tm pm_to pm_from pm_promo pm_type symT stm]. rewrite (is_ep_sym p m W Hd).
  assert (E1 : forall y, y < 64 -> (sq x =? y) = (x =? sq y)).
  { intros y Hy. rewrite <- (sq_inv y Hy) at 1. apply sq_eqb; [exact Hx|now apply sq_lt]. }
  rewrite (E1 _ Hd), (E1 _ Hs). destruct (x =? sq (pm_to m)); [reflexivity|]. destruct (x =? sq (pm_from m)); [reflexivity|].
  unfold victim_sq. cbn [Tm pm_to pm_from]. rewrite <- (victim_sym _ _ Hs Hd).
  pose proof (E1 _ (victim_lt m Hs Hd)) as E3. unfold victim_sq in E3. rewrite E3.
  destruct (is_ep_capture p m && (x =? sq (smk (srank (pm_from m)) (sfile (pm_to m))))); [reflexivity|]. apply (T_piece p x Hx).
Qed.
Lemma apply_pm_rights x : rights (apply_pm (T p) (Tm m)) (col x) = rights (apply_pm p m) x.
Proof.
  assert (R : forall q mm y, rights (apply_pm q mm) y = cr_of_bits
     (if color_eqb y (stm q) then right_k q y && negb (ptype_eqb (pm_type mm) King || (ptype_eqb (pm_type mm) Rook && (pm_from mm =? corner (stm q) true)))
      else right_k q y && negb ((pm_to mm =? corner (opp (stm q)) true) && opiece_eqb (piece_at q (pm_to mm)) (Some (Rook, opp (stm q)))))
     (if color_eqb y (stm q) then right_q q y && negb (ptype_eqb (pm_type mm) King || (ptype_eqb (pm_type mm) Rook && (pm_from mm =? corner (stm q) false)))
      else right_q q y && negb ((pm_to mm =? corner (opp (stm q)) false) && opiece_eqb (piece_at q (pm_to mm)) (Some (Rook, opp (stm q)))))).
  { intros q mm y. unfold apply_pm, rights. destruct y; reflexivity. }
  rewrite !R. cbn [symT stm Tm pm_type pm_from pm_to]. rewrite col_eqb.
  assert (RK : right_k (T p) (col x) = right_k p x) by (unfold right_k; now rewrite T_rights).
  assert (RQ : right_q (T p) (col x) = right_q p x) by (unfold right_q; now rewrite T_rights).
  rewrite RK, RQ, (T_piece' p _ Hd), <- col_opp, opiece_recolor.
  destruct (color_eqb x (stm p)) eqn:Ex.
  - apply color_eqb_true in Ex. subst x. f_equal.
    + destruct (right_k p (stm p)) eqn:E; [|reflexivity]. now rewrite (HR (stm p) true E _ Hs).
    + destruct (right_q p (stm p)) eqn:E; [|reflexivity]. now rewrite (HR (stm p) false E _ Hs).
  - assert (x = opp (stm p)) as -> by (destruct x, (stm p); try discriminate; reflexivity). f_equal.
    + destruct (right_k p (opp (stm p))) eqn:E; [|reflexivity]. now rewrite (HR (opp (stm p)) true E _ Hd).
    + destruct (right_q p (opp (stm p))) eqn:E; [|reflexivity]. now rewrite (HR (opp (stm p)) false E _ Hd).
Qed.
Lemma apply_pm_sim : sim (apply_pm (T p) (Tm m)) (T (apply_pm p m)).
Proof.
  destruct W as [L He]. unfold sim. split; [|split; [|split; [|split; [|split]]]].
  - apply placement_ext; [|apply T_len|].
    + unfold apply_pm. cbn [placement]. rewrite !put_length. destruct (is_ep_capture _ _); rewrite ?put_length; apply T_len.
    + intros x Hx. exact (apply_pm_placement x Hx).
  - cbn. now rewrite col_opp.
  - change (rights_w (apply_pm (T p) (Tm m))) with (rights (apply_pm (T p) (Tm m)) White). rewrite <- (col_inv White) at 1. rewrite apply_pm_rights. reflexivity.
  - change (rights_b (apply_pm (T p) (Tm m))) with (rights (apply_pm (T p) (Tm m)) Black). rewrite <- (col_inv Black) at 1. rewrite apply_pm_rights. reflexivity.
  - cbn [apply_pm symT ep Tm pm_type pm_from pm_to]. rewrite (absdiff_sym _ _ Hs Hd).
    destruct (ptype_eqb (pm_type m) Pawn && (absdiff (srank (pm_from m)) (srank (pm_to m)) =? 2)) eqn:E; [|reflexivity].
    apply andb_prop in E. destruct E as [_ E]. apply N.eqb_eq in E. cbn [option_map]. now rewrite (mid_sym _ _ Hs Hd E).
  - cbn [apply_pm symT half]. unfold is_capture. rewrite (is_ep_sym p m W Hd). cbn [symT stm Tm pm_to]. rewrite <- col_opp, (T_color p _ _ Hd). reflexivity.
Qed.
End ApplyPM.

(* ---------- validity, legality ---------- *)
Definition HomeSym (p : pos) : Prop := forall x, right_k p x || right_q p x = true ->
  forall f, f < 8 -> sq (smk (home_rank x) f) = smk (home_rank (col x)) f.
Hypothesis ep_rank_sym : forall c e, e < 64 -> (srank (sq e) =? ep_rank_for (col c)) = (srank e =? ep_rank_for c).
Hypothesis ep_front_sym : forall c e, e < 64 -> srank e = ep_rank_for c ->
  smk (match col c with White => 4 | Black => 3 end) (sfile (sq e)) = sq (smk (match c with White => 4 | Black => 3 end) (sfile e)) /\
  smk (match col c with White => 6 | Black => 1 end) (sfile (sq e)) = sq (smk (match c with White => 6 | Black => 1 end) (sfile e)) /\
  smk (match c with White => 4 | Black => 3 end) (sfile e) < 64 /\ smk (match c with White => 6 | Black => 1 end) (sfile e) < 64.

Lemma valid_wfpos p : valid p = true -> wfpos p.
Proof.
  intros V. destruct (valid_parts _ V) as (L & _ & _ & E). split; [exact L|]. intros e He. unfold ep_ok in E. rewrite He in E.
  repeat (apply andb_prop in E; destruct E as [E ?]). apply N.eqb_eq in E. unfold srank in E.
  destruct (N.ltb_spec e 64) as [|Hge]; [assumption|]. exfalso. assert (8 <= e / 8) by (apply N.div_le_lower_bound; lia). destruct (stm p); lia.
Qed.
Lemma HomeSym_HR p : HomeSym p -> forall x (side : bool), (if side then right_k p x else right_q p x) = true ->
  forall s, s < 64 -> (sq s =? corner (col x) side) = (s =? corner x side).
Proof.
  intros HS x side Hr s Hs. assert (R : right_k p x || right_q p x = true) by (destruct side; rewrite Hr; [reflexivity|apply orb_true_r]).
  assert (Hf : (if side then 7 else 0) < 8) by (destruct side; lia).
  unfold corner. rewrite <- (HS x R _ Hf). apply sq_eqb; [exact Hs|]. unfold smk. destruct x, side; cbn [home_rank]; lia.
Qed.
Lemma home_lt x f : f < 8 -> smk (home_rank x) f < 64. Proof. intros H. unfold smk. destruct x; cbn [home_rank]; lia. Qed.
Lemma right_ok_fwd p x : HomeSym p -> right_ok p x = true -> right_ok (T p) (col x) = true.
Proof.
  intros HS R. destruct (right_ok_elim p x R) as (E1 & E2 & E3).
  assert (RK : right_k (T p) (col x) = right_k p x) by (unfold right_k; now rewrite T_rights).
  assert (RQ : right_q (T p) (col x) = right_q p x) by (unfold right_q; now rewrite T_rights).
  apply right_ok_intro; rewrite ?RK, ?RQ; intros H.
  - assert (R' : right_k p x || right_q p x = true) by (destruct H as [-> | ->]; [reflexivity|apply orb_true_r]).
    rewrite <- (HS x R' 4 ltac:(lia)), (T_piece' p _ (home_lt x 4 ltac:(lia))), (E1 H). reflexivity.
  - assert (R' : right_k p x || right_q p x = true) by (rewrite H; reflexivity).
    unfold corner. rewrite <- (HS x R' 7 ltac:(lia)), (T_piece' p _ (home_lt x 7 ltac:(lia))). fold (corner x true). rewrite (E2 H). reflexivity.
  - assert (R' : right_k p x || right_q p x = true) by (rewrite H; apply orb_true_r).
    unfold corner. rewrite <- (HS x R' 0 ltac:(lia)), (T_piece' p _ (home_lt x 0 ltac:(lia))). fold (corner x false). rewrite (E3 H). reflexivity.
Qed.
Lemma ep_ok_fwd p : wfpos p -> ep_ok p = true -> ep_ok (T p) = true.
Proof.
  intros [L He] E. unfold ep_ok in *. cbn [symT ep stm]. destruct (ep p) as [e|] eqn:Ee; [|reflexivity]. cbn [option_map].
  pose proof (He e eq_refl) as H64. repeat (apply andb_prop in E; destruct E as [E ?]).
  change (match stm p with White => 5 | Black => 2 end) with (ep_rank_for (stm p)) in E.
  change (match col (stm p) with White => 5 | Black => 2 end) with (ep_rank_for (col (stm p))).
  rewrite (ep_rank_sym (stm p) e H64), E. apply N.eqb_eq in E. destruct (ep_front_sym (stm p) e H64 E) as (F1 & F2 & F3 & F4).
  rewrite F1, F2, (T_occ p e H64), (T_occ p _ F4), (T_piece' p _ F3), <- col_opp, opiece_recolor.
  repeat match goal with X : _ = true |- _ => rewrite X end. reflexivity.
Qed.
Lemma valid_fwd p : HomeSym p -> valid p = true -> valid (T p) = true.
Proof.
  intros HS V. pose proof (valid_wfpos p V) as W. destruct (valid_parts _ V) as (L & RW & RB & E). destruct (valid_parts2 _ V) as (KW & KB & NC).
  assert (OK : forall x, one_king p x = true) by (intros []; assumption).
  assert (RO : forall x, right_ok p x = true) by (intros []; assumption).
  assert (OK' : forall y, one_king (T p) y = true) by (intros y; rewrite <- (col_inv y); apply one_king_fwd, OK).
  assert (RO' : forall y, right_ok (T p) y = true) by (intros y; rewrite <- (col_inv y); apply right_ok_fwd; [exact HS|apply RO]).
  unfold valid. rewrite T_len, (OK' White), (OK' Black), (RO' White), (RO' Black), (ep_ok_fwd p W E). cbn [symT stm].
  rewrite <- col_opp, (in_check_sym p _ W (OK _)), NC. reflexivity.
Qed.
Lemma HomeSym_T p : HomeSym p -> HomeSym (T p).
Proof.
  intros HS y R f Hf. assert (R' : right_k p (col y) || right_q p (col y) = true).
  { unfold right_k, right_q in *. rewrite <- (col_inv y), !T_rights in R. exact R. }
  pose proof (HS (col y) R' f Hf) as E. rewrite col_inv in E. rewrite <- E. apply sq_inv. now apply home_lt.
Qed.
Lemma promo_sym p m : pm_to m < 64 -> promo_ok (T p) (Tm m) = promo_ok p m.
Proof. intros Hd. unfold promo_ok. cbn [Tm pm_type pm_to pm_promo symT stm]. now rewrite (rank_last (stm p) _ Hd). Qed.
Lemma legal_piece_fwd p m : HomeSym p -> valid p = true -> pm_from m < 64 -> pm_to m < 64 ->
  legal p (MovePiece m) = true -> legal (T p) (MovePiece (Tm m)) = true.
Proof.
  intros HS V Hs Hd H. pose proof (valid_wfpos p V) as W. pose proof (valid_step p (MovePiece m) V H) as V1. cbn [apply] in V1.
  cbn [legal] in *. repeat (apply andb_prop in H; destruct H as [H ?]). apply opiece_eqb_true in H.
  cbn [Tm pm_from pm_to pm_type symT stm]. rewrite (T_piece' p _ Hs), H. cbn [recolor]. rewrite opiece_eqb_refl.
  fold (Tm m). rewrite (promo_sym p m Hd).
  match goal with X : mem _ _ = true |- _ => apply mem_true in X; apply (pseudo_fwd p _ _ W Hs Hd) in X; apply mem_true in X; rewrite X end.
  match goal with X : promo_ok p m = true |- _ => rewrite X end. cbn [andb].
  destruct (apply_pm_sim p m W Hs Hd (HomeSym_HR p HS)) as (Pl & _).
  rewrite (in_check_pl _ _ Pl). destruct (valid_parts2 _ V1) as (KW & KB & _).
  assert (K1 : one_king (apply_pm p m) (stm p) = true) by (destruct (stm p); assumption).
  rewrite (in_check_sym (apply_pm p m) (stm p) (valid_wfpos _ V1) K1). assumption.
Qed.

(* ---------- castling ---------- *)
Lemma sq_eqb_swap x y : x < 64 -> y < 64 -> (sq x =? y) = (x =? sq y).
Proof. intros Hx Hy. rewrite <- (sq_inv y Hy) at 1. apply sq_eqb; [exact Hx|now apply sq_lt]. Qed.
Lemma castle_legal_sym p ks : wfpos p -> HomeSym p -> one_king p (stm p) = true -> castle_legal (T p) ks = castle_legal p ks.
Proof.
  intros W HS K1. unfold castle_legal. cbn [symT stm].
  assert (RK : right_k (T p) (col (stm p)) = right_k p (stm p)) by (unfold right_k; now rewrite T_rights).
  assert (RQ : right_q (T p) (col (stm p)) = right_q p (stm p)) by (unfold right_q; now rewrite T_rights).
  rewrite RK, RQ. destruct (if ks then right_k p (stm p) else right_q p (stm p)) eqn:R; [|reflexivity].
  assert (R' : right_k p (stm p) || right_q p (stm p) = true) by (destruct ks; rewrite R; [reflexivity|apply orb_true_r]).
  assert (H : forall f, f < 8 -> smk (home_rank (col (stm p))) f = sq (smk (home_rank (stm p)) f)) by (intros f Hf; symmetry; now apply HS).
  assert (O : forall f, f < 8 -> occupied (T p) (smk (home_rank (col (stm p))) f) = occupied p (smk (home_rank (stm p)) f)).
  { intros f Hf. rewrite (H f Hf). apply T_occ. now apply home_lt. }
  assert (A : forall f, f < 8 -> attacked (T p) (opp (col (stm p))) (smk (home_rank (col (stm p))) f) = attacked p (opp (stm p)) (smk (home_rank (stm p)) f)).
  { intros f Hf. rewrite (H f Hf), <- col_opp. apply attacked_sym; [exact W|now apply home_lt]. }
  rewrite (in_check_sym p (stm p) W K1). unfold corner.
  rewrite (H 4 ltac:(lia)), (T_piece' p _ (home_lt _ 4 ltac:(lia))), opiece_recolor.
  destruct ks; cbn [forallb andb].
  - rewrite (H 7 ltac:(lia)), (T_piece' p _ (home_lt _ 7 ltac:(lia))), opiece_recolor, !O, !A by lia. reflexivity.
  - rewrite (H 0 ltac:(lia)), (T_piece' p _ (home_lt _ 0 ltac:(lia))), opiece_recolor, !O, !A by lia. reflexivity.
Qed.
Lemma apply_castle_sim p ks : HomeSym p -> valid p = true -> castle_legal p ks = true -> sim (apply_castle (T p) ks) (T (apply_castle p ks)).
Proof.
  intros HS V CL. pose proof (valid_wfpos p V) as W. pose proof (valid_fwd p HS V) as V'.
  assert (K1 : one_king p (stm p) = true) by (destruct (valid_parts2 _ V) as (KW & KB & _); destruct (stm p); assumption).
  assert (CL' : castle_legal (T p) ks = true) by (rewrite (castle_legal_sym p ks W HS K1); exact CL).
  assert (R' : right_k p (stm p) || right_q p (stm p) = true).
  { unfold castle_legal in CL. repeat (apply andb_prop in CL; destruct CL as [CL ?]). destruct ks; rewrite CL; [reflexivity|apply orb_true_r]. }
  assert (H : forall f, f < 8 -> smk (home_rank (col (stm p))) f = sq (smk (home_rank (stm p)) f)) by (intros f Hf; symmetry; now apply HS).
  unfold sim. split; [|split; [|split; [|split; [|split]]]].
  - apply placement_ext; [|apply T_len|].
    + unfold apply_castle. destruct ks; cbn [placement]; rewrite !put_length; apply T_len.
    + intros x Hx. change (nth (N.to_nat x) (placement (apply_castle (T p) ks)) None) with (piece_at (apply_castle (T p) ks) x).
      change (nth (N.to_nat x) (placement (T (apply_castle p ks))) None) with (piece_at (T (apply_castle p ks)) x).
      rewrite (ca_piece (T p) ks V' CL' x Hx), (T_piece (apply_castle p ks) x Hx), (ca_piece p ks V CL (sq x) (sq_lt x Hx)).
      cbn [symT stm].
      assert (F : forall f, f < 8 -> (x =? smk (home_rank (col (stm p))) f) = (sq x =? smk (home_rank (stm p)) f)).
      { intros f Hf. rewrite (H f Hf). symmetry. apply sq_eqb_swap; [exact Hx|now apply home_lt]. }
      rewrite !F by (try destruct ks; lia).
      destruct (sq x =? smk (home_rank (stm p)) (if ks then 5 else 3)); [reflexivity|].
      destruct (sq x =? smk (home_rank (stm p)) (if ks then 6 else 2)); [reflexivity|].
      destruct (sq x =? smk (home_rank (stm p)) (if ks then 7 else 0)); [reflexivity|].
      destruct (sq x =? smk (home_rank (stm p)) 4); [reflexivity|]. apply (T_piece p x Hx).
  - unfold apply_castle. destruct ks; cbn; now rewrite col_opp.
  - change (rights_w (apply_castle (T p) ks)) with (rights (apply_castle (T p) ks) White).
    change (rights_w (T (apply_castle p ks))) with (rights (apply_castle p ks) (col White)).
    rewrite !ca_rights by assumption. cbn [symT stm].
    assert (E1 : color_eqb White (col (stm p)) = color_eqb (col White) (stm p)) by (rewrite <- (col_eqb (col White) (stm p)), col_inv; reflexivity).
    assert (E2 : rights (T p) White = rights p (col White)) by (rewrite <- (T_rights p (col White)), col_inv; reflexivity).
    rewrite E1, E2. reflexivity.
  - change (rights_b (apply_castle (T p) ks)) with (rights (apply_castle (T p) ks) Black).
    change (rights_b (T (apply_castle p ks))) with (rights (apply_castle p ks) (col Black)).
    rewrite !ca_rights by assumption. cbn [symT stm].
    assert (E1 : color_eqb Black (col (stm p)) = color_eqb (col Black) (stm p)) by (rewrite <- (col_eqb (col Black) (stm p)), col_inv; reflexivity).
    assert (E2 : rights (T p) Black = rights p (col Black)) by (rewrite <- (T_rights p (col Black)), col_inv; reflexivity).
    rewrite E1, E2. reflexivity.
  - unfold apply_castle. destruct ks; reflexivity.
  - unfold apply_castle. destruct ks; reflexivity.
Qed.

(* ---------- every move ---------- *)
Lemma Tm_inv m : pm_from m < 64 -> pm_to m < 64 -> Tm (Tm m) = m.
Proof. intros Hs Hd. destruct m as [t s d pr]. unfold Tm. cbn in *. now rewrite (sq_inv s Hs), (sq_inv d Hd). Qed.
Lemma legal_sym p mv : HomeSym p -> valid p = true -> wf_bmove mv -> legal (T p) (Tmv mv) = legal p mv.
Proof.
  intros HS V Wm. pose proof (valid_wfpos p V) as W.
  assert (K1 : one_king p (stm p) = true) by (destruct (valid_parts2 _ V) as (KW & KB & _); destruct (stm p); assumption).
  destruct mv as [m| |]; cbn [Tmv].
  - destruct Wm as [Hs Hd]. apply bool_eq_iff. split; [|now apply legal_piece_fwd].
    intros H. apply (legal_piece_fwd (T p) (Tm m) (HomeSym_T p HS) (valid_fwd p HS V) (sq_lt _ Hs) (sq_lt _ Hd)) in H.
    now rewrite (TT p W), (Tm_inv m Hs Hd) in H.
  - cbn [legal]. now apply castle_legal_sym.
  - cbn [legal]. now apply castle_legal_sym.
Qed.
Lemma apply_sim p mv : HomeSym p -> valid p = true -> wf_bmove mv -> legal p mv = true -> sim (apply (T p) (Tmv mv)) (T (apply p mv)).
Proof.
  intros HS V Wm L. destruct mv as [m| |]; cbn [Tmv apply].
  - destruct Wm as [Hs Hd]. exact (apply_pm_sim p m (valid_wfpos p V) Hs Hd (HomeSym_HR p HS)).
  - now apply apply_castle_sim.
  - now apply apply_castle_sim.
Qed.

(* ---------- checking and pinned pieces ---------- *)
Lemma checker_fwd p a : one_king p (stm p) = true -> a < 64 -> is_checker p a = true -> is_checker (T p) (sq a) = true.
Proof.
  intros K1 Ha. unfold is_checker, checkers. cbn [symT stm]. destruct (one_king_sq p _ K1) as (k & Ek & Hk & _).
  rewrite Ek, (king_sq_fwd p _ k K1 Ek), !mem_true. intros H. rewrite <- col_opp. now apply attackers_fwd.
Qed.
Lemma checker_sym p a : wfpos p -> one_king p (stm p) = true -> a < 64 -> is_checker (T p) (sq a) = is_checker p a.
Proof.
  intros W K1 Ha. apply bool_eq_iff. split; [|now apply checker_fwd].
  intros H. apply (checker_fwd (T p) (sq a)) in H; [|exact (one_king_fwd p _ K1)|now apply sq_lt]. now rewrite (TT p W), (sq_inv a Ha) in H.
Qed.
Lemma prefix_sym k l : k < 64 -> (forall y, In y l -> y < 64) -> prefix_before (sq k) (map sq l) = option_map (map sq) (prefix_before k l).
Proof.
  intros Hk. induction l as [|u r IH]; intros H; [reflexivity|]. cbn [map prefix_before].
  rewrite (sq_eqb u k (H u (or_introl eq_refl)) Hk). destruct (u =? k); [reflexivity|].
  rewrite IH by (intros y Hy; apply H; now right). destruct (prefix_before k r); reflexivity.
Qed.
Lemma mem_map_sq x l : x < 64 -> (forall y, In y l -> y < 64) -> mem (sq x) (map sq l) = mem x l.
Proof. intros Hx Hl. apply bool_eq_iff. rewrite !mem_true. now apply In_mem_sq. Qed.
Lemma pin_line_fwd p k u a d : k < 64 -> u < 64 -> a < 64 -> In d all_offs ->
  pin_line p k u a d = true -> pin_line (T p) (sq k) (sq u) (sq a) (dr d) = true.
Proof.
  intros Hk Hu Ha Hd. unfold pin_line. rewrite (line_sym a d Ha Hd).
  assert (LL : forall y, In y (line a d) -> y < 64) by (intros y Hy; eapply line_lt; eauto).
  rewrite (prefix_sym k (line a d) Hk LL). destruct (prefix_before k (line a d)) as [pre|] eqn:E; [|discriminate]. cbn [option_map].
  assert (PL : forall y, In y pre -> y < 64).
  { intros y Hy. apply LL. clear -E Hy. revert pre E Hy. induction (line a d) as [|v r IH]; intros pre E Hy; [discriminate|].
    cbn [prefix_before] in E. destruct (v =? k); [injection E as <-; destruct Hy|]. destruct (prefix_before k r) as [q|]; [|discriminate].
    injection E as <-. destruct Hy as [<-|Hy]; [now left|right; now apply (IH q)]. }
  rewrite (mem_map_sq u pre Hu PL). intros H. apply andb_prop in H. destruct H as [H1 H2]. rewrite H1. cbn [andb].
  rewrite forallb_forall in *. intros v Hv. apply in_map_iff in Hv. destruct Hv as (y & <- & Hy).
  rewrite (sq_eqb y u (PL y Hy) Hu), (T_occ p y (PL y Hy)). now apply H2.
Qed.
Lemma pinned_fwd p c u : one_king p c = true -> u < 64 -> is_pinned p c u = true -> is_pinned (T p) (col c) (sq u) = true.
Proof.
  intros K1 Hu. unfold is_pinned. destruct (one_king_sq p c K1) as (k & Ek & Hk & _). rewrite Ek, (king_sq_fwd p c k K1 Ek).
  rewrite (T_color p c u Hu). intros H. apply andb_prop in H. destruct H as [H1 H2]. rewrite H1. cbn [andb].
  apply existsb_exists in H2. destruct H2 as (a & Ha & H2). apply In_squares in Ha. apply existsb_exists. exists (sq a).
  split; [apply In_squares; now apply sq_lt|]. rewrite (T_piece' p a Ha). destruct (piece_at p a) as [[t c']|]; [|discriminate]. cbn [recolor].
  apply andb_prop in H2. destruct H2 as [H2 H3]. rewrite <- col_opp, col_eqb, H2. cbn [andb].
  apply existsb_exists in H3. destruct H3 as (d & Hd & H3). destruct (slide_dirs_closed t d Hd) as [D1 D2].
  apply existsb_exists. exists (dr d). split; [exact D1|]. now apply pin_line_fwd.
Qed.
Lemma pinned_sym p c u : wfpos p -> one_king p c = true -> u < 64 -> is_pinned (T p) (col c) (sq u) = is_pinned p c u.
Proof.
  intros W K1 Hu. apply bool_eq_iff. split; [|now apply pinned_fwd].
  intros H. apply (pinned_fwd (T p) (col c) (sq u) (one_king_fwd p c K1) (sq_lt u Hu)) in H. now rewrite (TT p W), col_inv, (sq_inv u Hu) in H.
Qed.

(* ---------- status ---------- *)
Lemma NoDup_map_sq l : NoDup l -> (forall y, In y l -> y < 64) -> NoDup (map sq l).
Proof.
  induction 1 as [|a l Ha ND IH]; intros H; cbn [map]; constructor.
  - intros X. apply in_map_iff in X. destruct X as (y & E & Hy). apply sq_inj in E; [subst; contradiction|apply H; now right|apply H; now left].
  - apply IH. intros y Hy. apply H. now right.
Qed.
Lemma squares_perm : Permutation (map sq squares) squares.
Proof.
  apply NoDup_Permutation; [apply NoDup_map_sq; [apply squares_NoDup|intros y; apply In_squares]|apply squares_NoDup|].
  intros x. rewrite in_map_iff. split.
  - intros (y & <- & Hy). apply In_squares. apply sq_lt. now apply In_squares.
  - intros Hx. apply In_squares in Hx. exists (sq x). split; [now apply sq_inv|apply In_squares; now apply sq_lt].
Qed.
Lemma filter_map_length {A B} (f : B -> bool) (g : A -> B) l : length (filter f (map g l)) = length (filter (fun x => f (g x)) l).
Proof. induction l as [|a l IH]; [reflexivity|]. cbn. destruct (f (g a)); cbn; now rewrite IH. Qed.
Lemma filter_perm_length {A} (f : A -> bool) l l' : Permutation l l' -> length (filter f l) = length (filter f l').
Proof.
  induction 1 as [|x l l' P IH|x y l|l l' l'' P1 IH1 P2 IH2]; cbn; [reflexivity| | |congruence].
  - destruct (f x); cbn; now rewrite IH. - destruct (f x), (f y); reflexivity.
Qed.
Lemma count_sym (f g : square -> bool) : (forall s, s < 64 -> g s = f (sq s)) -> length (filter g squares) = length (filter f squares).
Proof.
  intros H. rewrite <- (filter_perm_length f _ _ squares_perm), filter_map_length. f_equal. apply filter_ext'. intros s Hs. apply H. now apply In_squares.
Qed.
Lemma cannot_mate_sym p c : cannot_mate (T p) (col c) = cannot_mate p c.
Proof.
  unfold cannot_mate, count_color, minor_count.
  rewrite (count_sym (color_at p c) (color_at (T p) (col c))).
  2:{ intros s Hs. rewrite <- (T_color p c (sq s) (sq_lt s Hs)), (sq_inv s Hs). reflexivity. }
  rewrite (count_sym (fun s => match piece_at p s with Some (Knight, c') | Some (Bishop, c') => color_eqb c c' | _ => false end)
                     (fun s => match piece_at (T p) s with Some (Knight, c') | Some (Bishop, c') => color_eqb (col c) c' | _ => false end)).
  2:{ intros s Hs. rewrite (T_piece p s Hs). destruct (piece_at p (sq s)) as [[[] c']|]; cbn [recolor]; try reflexivity; apply col_eqb. }
  reflexivity.
Qed.
Definition Tstatus (st : status) : status := match st with CheckMated c => CheckMated (col c) | x => x end.
Lemma legal_off_board p mv : length (placement p) = 64%nat -> legal p mv = true -> wf_bmove mv.
Proof.
  intros L H. destruct mv as [m| |]; cbn; [|exact I|exact I]. cbn [legal] in H. repeat (apply andb_prop in H; destruct H as [H ?]).
  apply opiece_eqb_true in H. split; [exact (piece_lt _ _ _ L H)|]. eapply pseudo_dests_lt; eauto.
Qed.
Lemma Tmv_inv mv : wf_bmove mv -> Tmv (Tmv mv) = mv.
Proof. destruct mv as [m| |]; cbn; [|reflexivity|reflexivity]. intros [Hs Hd]. f_equal. now apply Tm_inv. Qed.
Lemma Tmv_wf mv : wf_bmove mv -> wf_bmove (Tmv mv).
Proof. destruct mv as [m| |]; cbn; [|exact (fun x => x)|exact (fun x => x)]. intros [Hs Hd]. split; now apply sq_lt. Qed.
Lemma no_moves_sym p : HomeSym p -> valid p = true -> (gen (T p) = [] <-> gen p = []).
Proof.
  intros HS V. pose proof (valid_wfpos p V) as W. destruct W as [L _]. rewrite (gen_nil_iff p L), (gen_nil_iff (T p) (T_len p)). split; intros H mv.
  - destruct (legal p mv) eqn:E; [|reflexivity]. pose proof (legal_off_board p mv L E) as Wm.
    rewrite <- (legal_sym p mv HS V Wm), H in E. discriminate.
  - destruct (legal (T p) mv) eqn:E; [|reflexivity]. pose proof (legal_off_board (T p) mv (T_len p) E) as Wm.
    rewrite <- (Tmv_inv mv Wm), (legal_sym p (Tmv mv) HS V (Tmv_wf mv Wm)), H in E. discriminate.
Qed.
Lemma status_sym p : HomeSym p -> valid p = true -> board_status (T p) = Tstatus (board_status p).
Proof.
  intros HS V. pose proof (valid_wfpos p V) as W.
  assert (K1 : one_king p (stm p) = true) by (destruct (valid_parts2 _ V) as (KW & KB & _); destruct (stm p); assumption).
  unfold board_status. pose proof (no_moves_sym p HS V) as G.
  assert (CM : cannot_mate (T p) White && cannot_mate (T p) Black = cannot_mate p White && cannot_mate p Black).
  { rewrite <- (col_inv White) at 1. rewrite <- (col_inv Black) at 1. rewrite !cannot_mate_sym. generalize (cannot_mate p). intros f.
    destruct (col White) eqn:E1, (col Black) eqn:E2.
    - exfalso. pose proof (col_inv White) as X1. pose proof (col_inv Black) as X2. rewrite E1 in X1. rewrite E2 in X2. congruence.
    - reflexivity.
    - apply andb_comm.
    - exfalso. pose proof (col_inv White) as X1. pose proof (col_inv Black) as X2. rewrite E1 in X1. rewrite E2 in X2. congruence. }
  destruct (gen p) as [|x l] eqn:Eg.
  - rewrite (proj2 G eq_refl). cbn [symT stm]. rewrite (in_check_sym p (stm p) W K1). destruct (in_check p (stm p)); reflexivity.
  - destruct (gen (T p)) as [|y l'] eqn:Eg'; [pose proof (proj1 G eq_refl) as X; discriminate X|].
    rewrite CM. cbn [symT half]. generalize (cannot_mate p White && cannot_mate p Black). intros [|]; [reflexivity|]. destruct (100 <=? half p); reflexivity.
Qed.

Theorem sym_all p : valid p = true -> HomeSym p ->
  valid (T p) = true /\
  (forall mv, wf_bmove mv -> legal (T p) (Tmv mv) = legal p mv) /\
  (forall mv, wf_bmove mv -> legal p mv = true -> sim (apply (T p) (Tmv mv)) (T (apply p mv))) /\
  (forall a, a < 64 -> is_checker (T p) (sq a) = is_checker p a) /\
  (forall u, u < 64 -> is_pinned (T p) (col (stm p)) (sq u) = is_pinned p (stm p) u) /\
  in_check (T p) (col (stm p)) = in_check p (stm p) /\
  board_status (T p) = Tstatus (board_status p) /\
  T (T p) = p.
Proof.
  intros V HS. pose proof (valid_wfpos p V) as W.
  assert (K1 : one_king p (stm p) = true) by (destruct (valid_parts2 _ V) as (KW & KB & _); destruct (stm p); assumption).
  split; [exact (valid_fwd p HS V)|]. split; [intros mv Wm; exact (legal_sym p mv HS V Wm)|].
  split; [intros mv Wm L; exact (apply_sim p mv HS V Wm L)|]. split; [intros a Ha; exact (checker_sym p a W K1 Ha)|].
  split; [intros u Hu; exact (pinned_sym p (stm p) u W K1 Hu)|]. split; [exact (in_check_sym p (stm p) W K1)|].
  split; [exact (status_sym p HS V)|exact (TT p W)].
Qed.
End Sym.

