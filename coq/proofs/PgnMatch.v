(* proofs/PgnMatch.v — general facts about the backtracking matcher of model/Pgn.v:
   a byte that no class and no literal of the pattern contains (a barrier) cuts the text into
   pieces that are searched independently, and replacing one barrier by another changes nothing. *)
Require Import LC.model.Prims LC.model.Text LC.model.Pgn.
From Coq Require Import Lia.
Open Scope N_scope.

Fixpoint barrier (r : re) (c : N) : bool :=
  match r with
  | Cls p | StarC p => negb (p c)
  | Lit l => negb (existsb (N.eqb c) l)
  | Seq a b | Alt a b => barrier a c && barrier b c
  | Opt a => barrier a c end.

Lemma lit_barrier l : forall s c t, existsb (N.eqb c) l = false ->
  lit l (s ++ c :: t) = option_map (fun x => x ++ c :: t) (lit l s).
Proof.
  induction l as [|a l IH]; intros s c t E; [reflexivity|].
  cbn [existsb] in E. apply Bool.orb_false_iff in E. destruct E as [E1 E2].
  destruct s as [|b s]; cbn [lit app].
  - rewrite N.eqb_sym, E1. reflexivity.
  - destruct (a =? b); [apply IH; exact E2|reflexivity].
Qed.
Lemma star_barrier p s c t : p c = false -> star p (s ++ c :: t) = map (fun x => x ++ c :: t) (star p s).
Proof.
  intros E. induction s as [|x s IH]; cbn [star app map]; [rewrite E; reflexivity|].
  destruct (p x); [|reflexivity]. rewrite IH, map_app. reflexivity.
Qed.
Lemma ms_barrier r : forall s c t, barrier r c = true -> ms r (s ++ c :: t) = map (fun x => x ++ c :: t) (ms r s).
Proof.
  induction r as [p|l|a IHa b IHb|a IHa b IHb|p|a IHa]; intros s c t Hb; cbn [barrier] in Hb; cbn [ms].
  - apply Bool.negb_true_iff in Hb. destruct s as [|x s]; cbn [app]; [rewrite Hb; reflexivity|]. destruct (p x); reflexivity.
  - apply Bool.negb_true_iff in Hb. rewrite (lit_barrier l s c t Hb). destruct (lit l s); reflexivity.
  - apply andb_prop in Hb. destruct Hb as [Ha Hb]. rewrite (IHa s c t Ha).
    induction (ms a s) as [|y ys IH]; [reflexivity|]. cbn [map flat_map]. rewrite (IHb y c t Hb), IH, map_app. reflexivity.
  - apply andb_prop in Hb. destruct Hb as [Ha Hb]. rewrite (IHa s c t Ha), (IHb s c t Hb), map_app. reflexivity.
  - apply Bool.negb_true_iff in Hb. apply star_barrier. exact Hb.
  - rewrite (IHa s c t Hb), map_app. reflexivity.
Qed.

(* every success leaves a suffix, and the bytes consumed are no barriers *)
Lemma lit_some l : forall s x, lit l s = Some x -> s = l ++ x.
Proof.
  induction l as [|a l IH]; intros s x E; cbn [lit] in E; [injection E as <-; reflexivity|].
  destruct s as [|b s]; [discriminate|]. destruct (a =? b) eqn:Eab; [|discriminate]. apply N.eqb_eq in Eab. subst b.
  cbn [app]. f_equal. apply IH. exact E.
Qed.
Definition nobar (r : re) (pre : bytes) : Prop := forall c, In c pre -> barrier r c = false.
Lemma star_prefix p s : forall x, In x (star p s) -> exists pre, s = pre ++ x /\ (forall c, In c pre -> p c = true).
Proof.
  induction s as [|c s IH]; intros x Hx; cbn [star] in Hx.
  - destruct Hx as [<-|[]]. exists []. split; [reflexivity|intros c []].
  - destruct (p c) eqn:Ec.
    + apply in_app_or in Hx. destruct Hx as [Hx|[<-|[]]].
      * destruct (IH x Hx) as (pre & -> & Hp). exists (c :: pre). split; [reflexivity|]. intros d [<-|Hd]; [exact Ec|exact (Hp d Hd)].
      * exists []. split; [reflexivity|intros d []].
    + destruct Hx as [<-|[]]. exists []. split; [reflexivity|intros d []].
Qed.
Lemma ms_prefix r : forall s x, In x (ms r s) -> exists pre, s = pre ++ x /\ nobar r pre.
Proof.
  induction r as [p|l|a IHa b IHb|a IHa b IHb|p|a IHa]; intros s x Hx; cbn [ms] in Hx.
  - destruct s as [|c s]; [destruct Hx|]. destruct (p c) eqn:Ec; [|destruct Hx]. destruct Hx as [<-|[]].
    exists [c]. split; [reflexivity|]. intros d [<-|[]]. cbn [barrier]. rewrite Ec. reflexivity.
  - destruct (lit l s) as [y|] eqn:E; [|destruct Hx]. destruct Hx as [<-|[]]. apply lit_some in E. exists l. split; [exact E|].
    intros c Hc. cbn [barrier]. apply Bool.negb_false_iff. apply existsb_exists. exists c. split; [exact Hc|apply N.eqb_refl].
  - apply in_flat_map in Hx. destruct Hx as (y & Hy & Hx). destruct (IHa s y Hy) as (p1 & -> & N1). destruct (IHb y x Hx) as (p2 & -> & N2).
    exists (p1 ++ p2). split; [apply app_assoc|]. intros c Hc. cbn [barrier]. apply in_app_or in Hc. destruct Hc as [Hc|Hc].
    + rewrite (N1 c Hc). reflexivity.
    + rewrite (N2 c Hc). apply Bool.andb_false_r.
  - apply in_app_or in Hx. destruct Hx as [Hx|Hx].
    + destruct (IHa s x Hx) as (pre & -> & N1). exists pre. split; [reflexivity|]. intros c Hc. cbn [barrier]. rewrite (N1 c Hc). reflexivity.
    + destruct (IHb s x Hx) as (pre & -> & N1). exists pre. split; [reflexivity|]. intros c Hc. cbn [barrier]. rewrite (N1 c Hc). apply Bool.andb_false_r.
  - destruct (star_prefix p s x Hx) as (pre & -> & Hp). exists pre. split; [reflexivity|]. intros c Hc. cbn [barrier]. rewrite (Hp c Hc). reflexivity.
  - apply in_app_or in Hx. destruct Hx as [Hx|[<-|[]]].
    + destruct (IHa s x Hx) as (pre & -> & N1). exists pre. split; [reflexivity|exact N1].
    + exists []. split; [reflexivity|intros c []].
Qed.
Lemma ms_len r s x : In x (ms r s) -> (List.length x <= List.length s)%nat.
Proof. intros H. destruct (ms_prefix r s x H) as (pre & -> & _). rewrite app_length. lia. Qed.

(* the search of a text cut by a barrier is the search of its two pieces *)
Lemma firstn_app_le {A} (n : nat) (a b : list A) : (n <= List.length a)%nat -> firstn n (a ++ b) = firstn n a.
Proof. intros H. rewrite firstn_app. replace (n - List.length a)%nat with O by lia. cbn [firstn]. apply app_nil_r. Qed.
Lemma scan_barrier r c : barrier r c = true -> ms r [] = [] -> forall seg rest k, (k <= List.length seg)%nat ->
  scan r (seg ++ c :: rest) k = scan r seg k ++ scan r rest 0.
Proof.
  intros Hb Hn seg rest. induction seg as [|x seg IH]; intros k Hk.
  - cbn [List.length] in Hk. replace k with O by lia. cbn [app scan].
    change (c :: rest) with ([] ++ c :: rest). rewrite (ms_barrier r [] c rest Hb), Hn. reflexivity.
  - cbn [app scan]. destruct k as [|k]; [|apply IH; cbn [List.length] in Hk; lia].
    change (x :: seg ++ c :: rest) with ((x :: seg) ++ c :: rest). rewrite (ms_barrier r (x :: seg) c rest Hb).
    destruct (ms r (x :: seg)) as [|rem rs] eqn:E; cbn [map]; [apply IH; lia|].
    assert (L : (List.length rem <= List.length (x :: seg))%nat) by (apply (ms_len r); rewrite E; left; reflexivity).
    rewrite !app_length. cbn [List.length] in *.
    replace (S (List.length seg) + S (List.length rest) - (List.length rem + S (List.length rest)))%nat with (S (List.length seg) - List.length rem)%nat by lia.
    rewrite (firstn_app_le _ (x :: seg) (c :: rest)) by (cbn [List.length]; lia).
    rewrite IH by lia. reflexivity.
Qed.
Lemma scan_last r seg : scan r (seg ++ []) 0 = scan r seg 0. Proof. rewrite app_nil_r. reflexivity. Qed.

(* replacing barriers by barriers *)
Definition Rb (bar : N -> bool) (a b : N) : Prop := a = b \/ (bar a = true /\ bar b = true).
Lemma Rb_refl bar l : Forall2 (Rb bar) l l. Proof. induction l; constructor; [left; reflexivity|assumption]. Qed.
Lemma lit_rel bar l : (forall c, bar c = true -> existsb (N.eqb c) l = false) -> forall W H, Forall2 (Rb bar) W H ->
  match lit l W, lit l H with Some x, Some y => Forall2 (Rb bar) x y | None, None => True | _, _ => False end.
Proof.
  intros Hl. induction l as [|a l IH]; intros W H F; cbn [lit]; [exact F|].
  destruct F as [|w h W H R F]; [exact I|].
  assert (Hl' : forall c, bar c = true -> existsb (N.eqb c) l = false).
  { intros c Hc. specialize (Hl c Hc). cbn [existsb] in Hl. apply Bool.orb_false_iff in Hl. apply Hl. }
  destruct R as [<-|[Bw Bh]].
  - destruct (a =? w); [apply IH; assumption|exact I].
  - pose proof (Hl w Bw) as E1. pose proof (Hl h Bh) as E2. cbn [existsb] in E1, E2.
    apply Bool.orb_false_iff in E1. apply Bool.orb_false_iff in E2. rewrite (N.eqb_sym a w), (N.eqb_sym a h), (proj1 E1), (proj1 E2). exact I.
Qed.
Lemma star_rel bar p : (forall c, bar c = true -> p c = false) -> forall W H, Forall2 (Rb bar) W H ->
  Forall2 (Forall2 (Rb bar)) (star p W) (star p H).
Proof.
  intros Hp W H F. induction F as [|w h W H R F IH]; cbn [star]; [repeat constructor|].
  assert (FF : Forall2 (Rb bar) (w :: W) (h :: H)) by (constructor; assumption).
  destruct R as [<-|[Bw Bh]].
  - destruct (p w); [apply Forall2_app; [exact IH|]|]; (constructor; [exact FF|constructor]).
  - rewrite (Hp w Bw), (Hp h Bh). constructor; [exact FF|constructor].
Qed.
Lemma ms_rel bar r : (forall c, bar c = true -> barrier r c = true) -> forall W H, Forall2 (Rb bar) W H ->
  Forall2 (Forall2 (Rb bar)) (ms r W) (ms r H).
Proof.
  induction r as [p|l|a IHa b IHb|a IHa b IHb|p|a IHa]; intros Hb W H F; cbn [ms]; cbn [barrier] in Hb.
  - destruct F as [|w h W H R F]; [constructor|]. destruct R as [<-|[Bw Bh]].
    + destruct (p w); [constructor; [exact F|constructor]|constructor].
    + pose proof (Hb w Bw) as E1. pose proof (Hb h Bh) as E2. apply Bool.negb_true_iff in E1. apply Bool.negb_true_iff in E2.
      rewrite E1, E2. constructor.
  - pose proof (lit_rel bar l (fun c Hc => proj1 (Bool.negb_true_iff _) (Hb c Hc)) W H F) as L.
    destruct (lit l W), (lit l H); try contradiction; [constructor; [exact L|constructor]|constructor].
  - assert (Ha : forall c, bar c = true -> barrier a c = true) by (intros c Hc; apply (proj1 (andb_prop _ _ (Hb c Hc)))).
    assert (Hb' : forall c, bar c = true -> barrier b c = true) by (intros c Hc; apply (proj2 (andb_prop _ _ (Hb c Hc)))).
    pose proof (IHa Ha W H F) as FA. induction FA as [|x y xs ys Rxy FA IH]; cbn [flat_map]; [constructor|].
    apply Forall2_app; [apply IHb; assumption|exact IH].
  - assert (Ha : forall c, bar c = true -> barrier a c = true) by (intros c Hc; apply (proj1 (andb_prop _ _ (Hb c Hc)))).
    assert (Hb' : forall c, bar c = true -> barrier b c = true) by (intros c Hc; apply (proj2 (andb_prop _ _ (Hb c Hc)))).
    apply Forall2_app; [apply IHa|apply IHb]; assumption.
  - apply star_rel; [|exact F]. intros c Hc. apply Bool.negb_true_iff. exact (Hb c Hc).
  - apply Forall2_app; [apply IHa; assumption|constructor; [exact F|constructor]].
Qed.
Lemma Forall2_prefix {A} (R : A -> A -> Prop) : forall p1 p2 r1 r2, List.length p1 = List.length p2 -> Forall2 R (p1 ++ r1) (p2 ++ r2) -> Forall2 R p1 p2.
Proof.
  induction p1 as [|a p1 IH]; intros [|b p2] r1 r2 L F; cbn [List.length] in L; try discriminate; [constructor|].
  cbn [app] in F. inversion F; subst. constructor; [assumption|]. apply (IH p2 r1 r2); [lia|assumption].
Qed.
Lemma Forall2_len {A B} (R : A -> B -> Prop) l1 l2 : Forall2 R l1 l2 -> List.length l1 = List.length l2.
Proof. induction 1; cbn [List.length]; congruence. Qed.
Lemma scan_rel bar r : (forall c, bar c = true -> barrier r c = true) -> forall W H, Forall2 (Rb bar) W H -> forall k, scan r W k = scan r H k.
Proof.
  intros Hb W H F. induction F as [|w h W H R F IH]; intros k; [reflexivity|]. cbn [scan].
  destruct k as [|k]; [|apply IH].
  assert (FF : Forall2 (Rb bar) (w :: W) (h :: H)) by (constructor; assumption).
  pose proof (ms_rel bar r Hb _ _ FF) as M.
  destruct (ms r (w :: W)) as [|remW rw] eqn:EW; destruct (ms r (h :: H)) as [|remH rh] eqn:EH; try (inversion M; fail); [apply IH|].
  assert (Rrem : Forall2 (Rb bar) remW remH) by (inversion M; assumption).
  pose proof (Forall2_len _ _ _ Rrem) as Lrem. pose proof (Forall2_len _ _ _ FF) as LWH.
  destruct (ms_prefix r (w :: W) remW) as (preW & EpW & NW); [rewrite EW; left; reflexivity|].
  destruct (ms_prefix r (h :: H) remH) as (preH & EpH & NH); [rewrite EH; left; reflexivity|].
  assert (Lp : List.length preW = List.length preH).
  { apply (f_equal (@List.length N)) in EpW. apply (f_equal (@List.length N)) in EpH. rewrite app_length in EpW, EpH. lia. }
  assert (Fp : Forall2 (Rb bar) preW preH).
  { apply (Forall2_prefix _ preW preH remW remH Lp). rewrite <- EpW, <- EpH. exact FF. }
  assert (Epre : preW = preH).
  { clear - Fp NW Hb. induction Fp as [|a b pa pb Rab Fp IHp]; [reflexivity|]. f_equal.
    - destruct Rab as [E|[Ba _]]; [exact E|]. pose proof (NW a (or_introl eq_refl)) as Na. rewrite (Hb a Ba) in Na. discriminate.
    - apply IHp. intros c Hc. apply NW. right. exact Hc. }
  rewrite <- LWH, <- Lrem. rewrite IH. f_equal.
  rewrite EpW at 2. rewrite EpH at 1.
  assert (Ln : (List.length (w :: W) - List.length remW)%nat = List.length preW).
  { apply (f_equal (@List.length N)) in EpW. rewrite app_length in EpW. lia. }
  rewrite Ln. rewrite firstn_app_le by lia. rewrite Lp at 1. rewrite (firstn_app_le _ preH remH) by lia.
  rewrite Epre. reflexivity.
Qed.
