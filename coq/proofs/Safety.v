(* proofs/Safety.v — the king-safety test of move generation: the tentative board after a pseudo-legal move, and
   "the check mask after the move is empty" = "the mover's king is not attacked in the rule-defined successor" *)
Require Import LC.model.Prims LC.model.Tables LC.model.Board LC.spec.Chess LC.spec.Geometry
  LC.proofs.Basics LC.proofs.Bits LC.proofs.Cols LC.proofs.MaskInv LC.proofs.HashInv LC.proofs.MoveInv LC.proofs.Attack
  LC.proofs.C05Proofs LC.proofs.C02Proofs.
From Coq Require Import Lia.
Open Scope N_scope.

(* in_check only looks at the placement *)
Lemma take_until_ext (f g : square -> bool) l : (forall x, f x = g x) -> take_until f l = take_until g l.
Proof. intros H. induction l as [|u r IH]; [reflexivity|]. cbn. now rewrite H, IH. Qed.
Section PlacementOnly.
Variables p1 p2 : pos.
Hypothesis Hpl : placement p1 = placement p2.
Lemma piece_at_pl s : piece_at p1 s = piece_at p2 s. Proof. unfold piece_at. now rewrite Hpl. Qed.
Lemma occupied_pl s : occupied p1 s = occupied p2 s. Proof. unfold occupied. now rewrite piece_at_pl. Qed.
Lemma color_at_pl c s : color_at p1 c s = color_at p2 c s. Proof. unfold color_at. now rewrite piece_at_pl. Qed.
Lemma attacks_from_pl a : attacks_from p1 a = attacks_from p2 a.
Proof.
  unfold attacks_from. rewrite piece_at_pl. destruct (piece_at p2 a) as [[t c]|]; [|reflexivity].
  destruct t; try reflexivity; apply flat_map_ext; intros d; unfold reach; apply take_until_ext; apply occupied_pl.
Qed.
Lemma attackers_pl c t : attackers p1 c t = attackers p2 c t.
Proof. unfold attackers. apply filter_ext'. intros a _. now rewrite color_at_pl, attacks_from_pl. Qed.
Lemma king_sq_pl c : king_sq p1 c = king_sq p2 c.
Proof. unfold king_sq. rewrite !find_hd_filter. f_equal. apply filter_ext'. intros s _. now rewrite piece_at_pl. Qed.
Lemma in_check_pl c : in_check p1 c = in_check p2 c.
Proof. unfold in_check, checkers. rewrite king_sq_pl. destruct (king_sq p2 c); [|reflexivity]. now rewrite attackers_pl. Qed.
Lemma attacked_pl c t : attacked p1 c t = attacked p2 c t.
Proof. unfold attacked. now rewrite attackers_pl. Qed.
End PlacementOnly.

Section S.
Variable K : zkeys.
(* the tentative board built by the king-safety test *)
Lemma tentative_board b m : MaskInv b -> ep_ok (abs b) = true -> pm_from m < 64 -> pm_to m < 64 ->
  cell_at b (pm_from m) = Some (pm_type m, b_stm b) -> mem (pm_to m) (pseudo_dests (abs b) (pm_from m)) = true ->
  exists b2, (b1 <- move_piece K b m ;; clear_square_if_en_passant K b1 m) = Ok b2 /\ MaskInv b2 /\ b_stm b2 = b_stm b /\
    abs_pl b2 = placement (apply_pm (abs b) m).
Proof.
  intros I Vep Hs Hd L1 L2.
  set (s := pm_from m) in *. set (d := pm_to m) in *. set (t := pm_type m) in *. set (c := b_stm b) in *.
  destruct (cells_move_piece K b m t c I Hs Hd L1) as (x & Ex & Ix & Mx & Cx). fold s d t in Cx.
  rewrite Ex. cbn [bind].
  assert (Hep : is_en_passant_move m x = is_ep_capture (abs b) m).
  { unfold is_en_passant_move, is_ep_capture. destruct Mx as (_ & _ & _ & Mep & _). rewrite Mep. cbn [ep abs]. fold t d.
    destruct (b_ep b); [|now rewrite andb_false_r]. cbn [osq_eqb]. now rewrite (N.eqb_sym d s0). }
  unfold clear_square_if_en_passant. rewrite Hep. unfold apply_pm. cbn [placement]. fold s d t.
  change (stm (abs b)) with c. change (placement (abs b)) with (abs_pl b).
  destruct Mx as (Mstm & _).
  destruct (is_ep_capture (abs b) m) eqn:Eep.
  - unfold is_ep_capture in Eep. apply andb_prop in Eep. destruct Eep as [Et Ee]. fold t in Et. cbn [ep abs] in Ee.
    assert (Hmem : mem d (pawn_reach c s) = true).
    { apply pawn_dests_reach with (p := abs b). unfold pseudo_dests in L2. rewrite (piece_at_abs b s I), L1 in L2.
      destruct t; try discriminate. exact L2. }
    assert (Hrank : srank d =? ep_rank c = true).
    { unfold ep_ok in Vep. cbn [ep abs stm] in Vep. destruct (b_ep b) as [e|]; [|discriminate]. cbn [osq_eqb] in Ee. apply N.eqb_eq in Ee. subst e.
      repeat (apply andb_prop in Vep; destruct Vep as [Vep ?]). fold c in Vep. unfold c in *. destruct (b_stm b); exact Vep. }
    pose proof pawn_geo_sweep as G. rewrite forallb_forall in G. specialize (G c ltac:(unfold c; destruct (b_stm b); cbn; tauto)).
    pose proof (forallb_squares2 _ G s d Hs Hd) as G2. unfold pawn_geo_ok in G2. rewrite Hmem, Hrank in G2. cbn [negb orb] in G2.
    apply andb_prop in G2. destruct G2 as [G2 _]. apply andb_prop in G2. destruct G2 as [G2 _]. apply andb_prop in G2. destruct G2 as [Gv Gne].
    unfold res_is, model_victim in Gv. rewrite Mstm. fold c.
    destruct (unwrap (match c with White => sq_down d | Black => sq_up d end)) as [v| |] eqn:Ev; try discriminate.
    apply N.eqb_eq in Gv. subst v. cbn [bind]. set (v := smk (srank s) (sfile d)) in *.
    assert (Hv : v < 64).
    { unfold v, smk, srank, sfile. assert (s / 8 < 8) by (apply N.div_lt_upper_bound; lia). assert (d mod 8 < 8) by (apply N.mod_lt; lia). lia. }
    destruct (clear_square_spec K x v Ix Hv) as (b2 & E2 & _). exists b2. split; [exact E2|].
    destruct (cells_clear K x v b2 Ix Hv E2) as (I2 & M2 & C2). destruct M2 as (N1 & _).
    split; [exact I2|]. split; [rewrite N1; exact Mstm|].
    apply abs_pl_ext; [rewrite !put_length; apply abs_pl_length|]. intros y Hy. rewrite C2, Cx.
    rewrite (nth_put _ d _ y) by (rewrite ?put_length, ?abs_pl_length; auto).
    rewrite (nth_put _ s _ y) by (rewrite ?put_length, ?abs_pl_length; auto).
    rewrite (nth_put _ v _ y) by (rewrite ?abs_pl_length; auto).
    unfold abs_pl. rewrite nth_map_squares by exact Hy.
    apply negb_true_iff in Gne. rewrite (N.eqb_sym v y), (N.eqb_sym d y), (N.eqb_sym s y).
    destruct (N.eqb_spec y v) as [->|]; [rewrite Gne; destruct (v =? s); reflexivity|reflexivity].
  - exists x. split; [reflexivity|]. split; [exact Ix|]. split; [exact Mstm|].
    apply abs_pl_ext; [rewrite !put_length; apply abs_pl_length|]. intros y Hy. rewrite Cx.
    rewrite (nth_put _ d _ y) by (rewrite ?put_length, ?abs_pl_length; auto).
    rewrite (nth_put _ s _ y) by (rewrite ?abs_pl_length; auto).
    unfold abs_pl. rewrite nth_map_squares by exact Hy. rewrite (N.eqb_sym d y), (N.eqb_sym s y). reflexivity.
Qed.

(* the check mask after the move is empty iff the mover's king is not attacked in the successor;
   if the mover has no king on the tentative board the library panics *)
Lemma in_check_board b2 : MaskInv b2 -> forall k, king_sq (abs b2) (b_stm b2) = Some k ->
  exists P C, pins_and_checks b2 k = Ok (P, C) /\ is_blank C = negb (in_check (abs b2) (b_stm b2)).
Proof.
  intros I k Ek. pose proof (king_sq_lt _ _ _ Ek) as Hk.
  destruct (pins_and_checks_ok b2 k I Hk) as (P & C & E & HC & _). exists P, C. split; [exact E|].
  unfold in_check, checkers. rewrite Ek.
  destruct (attackers (abs b2) (opp (b_stm b2)) k) as [|a l] eqn:Ea; cbn [negb].
  - apply is_blank_spec. intros x. destruct (has C x) eqn:Hx; [|reflexivity]. exfalso.
    assert (x < 64).
    { destruct (N.lt_ge_cases x 64) as [|Hge]; [assumption|]. exfalso. rewrite HC in Hx.
      pose proof (mi_zero b2 x I Hge) as Z. unfold slider_att in Hx. rewrite !has_land in Hx.
      assert (has (cmask b2 (opp (b_stm b2))) x = false) as Hc by (destruct (opp (b_stm b2)); [exact (f_equal kw Z)|exact (f_equal kbl Z)]).
      rewrite Hc in Hx. cbn in Hx. discriminate. }
    rewrite (checks_spec b2 k P C I Hk E x H) in Hx.
    assert (In x (attackers (abs b2) (opp (b_stm b2)) k)) as Hin by (apply attackers_In; split; [now apply In_squares|exact Hx]).
    rewrite Ea in Hin. destruct Hin.
  - destruct (is_blank C) eqn:B; [|reflexivity]. exfalso.
    assert (In a (attackers (abs b2) (opp (b_stm b2)) k)) as Hin by (rewrite Ea; now left).
    apply attackers_In in Hin. destruct Hin as [Ha Hp]. apply In_squares in Ha.
    rewrite <- (checks_spec b2 k P C I Hk E a Ha) in Hp. rewrite (proj1 (is_blank_spec C) B a) in Hp. discriminate.
Qed.
Lemma check_mask_after_spec b m : MaskInv b -> ep_ok (abs b) = true -> pm_from m < 64 -> pm_to m < 64 ->
  cell_at b (pm_from m) = Some (pm_type m, b_stm b) -> mem (pm_to m) (pseudo_dests (abs b) (pm_from m)) = true ->
  king_sq (apply_pm (abs b) m) (b_stm b) <> None ->
  exists cm, check_mask_after K b m = Ok cm /\ is_blank cm = negb (in_check (apply_pm (abs b) m) (b_stm b)).
Proof.
  intros I Vep Hs Hd L1 L2 Hk.
  destruct (tentative_board b m I Vep Hs Hd L1 L2) as (b2 & E2 & I2 & S2 & Pl2).
  unfold check_mask_after.
  assert (E2' : exists x, move_piece K b m = Ok x /\ clear_square_if_en_passant K x m = Ok b2).
  { destruct (move_piece K b m) as [x| |]; cbn [bind] in E2; try discriminate. eauto. }
  destruct E2' as (x & Ex & Ec). rewrite Ex. cbn [bind]. rewrite Ec. cbn [bind].
  assert (Hpl : placement (abs b2) = placement (apply_pm (abs b) m)) by exact Pl2.
  rewrite <- (in_check_pl _ _ Hpl), <- S2. rewrite <- (king_sq_pl _ _ Hpl), <- S2 in Hk.
  destruct (king_sq (abs b2) (b_stm b2)) as [k|] eqn:Ek; [|contradiction].
  destruct (in_check_board b2 I2 k Ek) as (P & C & Ep & Hb).
  unfold update_pins_and_checks. rewrite (king_square_spec b2 (b_stm b2) I2), Ek. cbn [bind]. rewrite Ep. cbn [bind b_checks with_pc].
  exists C. split; [reflexivity|exact Hb].
Qed.
End S.
